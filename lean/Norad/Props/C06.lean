import Norad.Lemmas.LayerSet
/-!
# C06 — layer and glyph containers stay consistent under any operation history

Property theorems about the container model `Model/Layers.lean` (the transcription of
`src/layer.rs` after the repairs recorded in `known_findings.txt`).  Everything is proved for every
`lower`, every `valid` and every pair of file-name functions meeting the contracts `AssignOK` /
`AssignLOK` (discharged for the real algorithm in `Props/C07.lean`).

Statement of the property, clause by clause:
* glyph names within a layer / layer names within a font are unique, exactly one default layer, first,
  in `glyphs`, the only one that may be called `public.default`  — `SInv`, `inv_reachable`
* an operation that reports an error leaves the container unchanged — `error_leaves_state`
* saving and loading yields exactly the layers and glyphs the containers report —
  `save_load_reports` (needs `AllSync`, which the `entry` API breaks: `sync_reachable_partial`,
  `entry_or_insert_dropped_counterexample`, `entry_remove_save_panics_counterexample`)
-/
namespace Layers

section
variable (lower : Str → Str) (assignG assignL : Str → List Str → Option Str) (valid : Str → Bool)

/-! ## the invariant holds in every reachable state -/

theorem inv_init : SInv lower LayerSet.default := sinv_default lower

/-- one step of any of the thirteen container operations preserves the invariant -/
theorem inv_step (hG : AssignOK lower assignG) (hL : AssignLOK lower assignL valid) (S : LayerSet) (op : Op)
    (h : SInv lower S) : SInv lower (step lower assignG assignL valid S op).1 := by
  cases op with
  | insertGlyph li g =>
    exact sinv_onLayer lower S li _ h (fun L => insertGlyph_name lower assignG L g)
      (fun L => insertGlyph_path lower assignG L g) (fun L hL' => linvw_insert lower assignG hG L g hL')
  | removeGlyph li g =>
    exact sinv_onLayer lower S li _ h (fun _ => rfl) (fun _ => rfl) (fun L hL' => linvw_remove lower L g hL')
  | renameGlyph li o n ow =>
    exact sinv_onLayer lower S li _ h (fun L => renameGlyph_name lower assignG valid L o n ow)
      (fun L => renameGlyph_path lower assignG valid L o n ow)
      (fun L hL' => linvw_rename lower assignG valid hG L o n ow hL')
  | clear li =>
    exact sinv_onLayer lower S li _ h (fun _ => rfl) (fun _ => rfl) (fun L _ => linvw_clear lower L)
  | retain li keep =>
    exact sinv_onLayer lower S li _ h (fun _ => rfl) (fun _ => rfl)
      (fun L hL' => linvw_retain lower L _ hL')
  | entryOrInsert li g =>
    exact sinv_onLayer lower S li _ h (fun _ => rfl) (fun _ => rfl)
      (fun L hL' => linvw_entryOrInsert lower L g hL')
  | entryRemove li g =>
    exact sinv_onLayer lower S li _ h (fun _ => rfl) (fun _ => rfl)
      (fun L hL' => linvw_entryRemove lower L g hL')
  | newLayer n => exact sinv_newLayer lower assignL valid hL S n h
  | getOrCreate n => exact sinv_getOrCreate lower assignL valid hL S n h
  | removeLayer n => exact sinv_removeLayer lower S n h
  | renameLayer o n ow => exact sinv_renameLayer lower assignL valid hL S o n ow h
  | retainLayers keep => exact sinv_retainLayers lower S _ h
  | removeEmpty => exact sinv_removeEmpty lower S h

/-- **every reachable state satisfies the invariant**: any history of operations, from any state that
    satisfies it (a new font: `inv_init`; a loaded font: `inv_loaded`) -/
theorem inv_reachable (hG : AssignOK lower assignG) (hL : AssignLOK lower assignL valid) (S : LayerSet)
    (ops : List Op) (h : SInv lower S) : SInv lower (run lower assignG assignL valid S ops) := by
  induction ops generalizing S with
  | nil => exact h
  | cons op ops ih => exact ih _ (inv_step lower assignG assignL valid hG hL S op h)

/-! ### what the invariant says, in the words of the property -/

theorem layer_names_unique (S : LayerSet) (h : SInv lower S) : (S.layers.map (·.name)).Nodup := h.namesNodup

theorem glyph_names_unique (S : LayerSet) (h : SInv lower S) : ∀ l ∈ S.layers, l.glyphs.Nodup :=
  fun l hl => (h.layersInv l hl).glyphsNodup

/-- exactly one default layer, and it comes first -/
theorem exactly_one_default_first (S : LayerSet) (h : SInv lower S) :
    ∃ d rest, S.layers = d :: rest ∧ d.isDefault = true ∧ ∀ l ∈ rest, l.isDefault = false := by
  obtain ⟨d, rest, hdr, hd⟩ := h.headDefault
  refine ⟨d, rest, hdr, by simp [Layer.isDefault, hd], ?_⟩
  intro l hl
  have := h.tailNotDefault l (by rw [hdr]; exact hl)
  simp [Layer.isDefault, this]

theorem only_default_may_be_public_default (S : LayerSet) (h : SInv lower S) :
    ∀ l ∈ S.layers.tail, l.name ≠ defaultName := h.tailNotReserved

/-! ## an operation that reports an error leaves the container unchanged -/

theorem onLayer_err (S : LayerSet) (li : Nat) (f : Layer → Layer × Res) (e : NErr)
    (hf : ∀ L, (f L).2 = .err e → (f L).1 = L) (h : (onLayer S li f).2 = .err e) : (onLayer S li f).1 = S := by
  unfold onLayer at h ⊢
  cases hL : S.layers[li]? with
  | none => rfl
  | some L =>
    simp only [hL] at h ⊢
    rw [hf L h]
    have hlt : li < S.layers.length := by
      rcases Nat.lt_or_ge li S.layers.length with hlt | hge
      · exact hlt
      · rw [List.getElem?_eq_none hge] at hL; cases hL
    have : S.layers.set li L = S.layers := by
      apply List.ext_getElem?; intro j
      by_cases hj : j = li
      · subst hj
        have hyy : S.layers[j] = L := by rw [List.getElem?_eq_getElem hlt] at hL; exact Option.some.inj hL
        simp [List.getElem?_set, hlt, hyy]
      · simp [List.getElem?_set, Ne.symm hj]
    rw [this]

theorem error_leaves_state (S : LayerSet) (op : Op) (e : NErr)
    (h : (step lower assignG assignL valid S op).2 = .err e) :
    (step lower assignG assignL valid S op).1 = S := by
  cases op with
  | insertGlyph li g =>
    exact onLayer_err S li _ e (fun L hL => absurd hL (insertGlyph_not_err lower assignG L g e)) h
  | removeGlyph li g => exact onLayer_err S li _ e (fun L hL => by simp at hL) h
  | renameGlyph li o n ow =>
    exact onLayer_err S li _ e (fun L hL => renameGlyph_err lower assignG valid L o n ow e hL) h
  | clear li => exact onLayer_err S li _ e (fun L hL => by simp at hL) h
  | retain li keep => exact onLayer_err S li _ e (fun L hL => by simp at hL) h
  | entryOrInsert li g => exact onLayer_err S li _ e (fun L hL => by simp at hL) h
  | entryRemove li g => exact onLayer_err S li _ e (fun L hL => by simp at hL) h
  | newLayer n => exact newLayer_err lower assignL valid S n e h
  | getOrCreate n => exact getOrCreate_err lower assignL valid S n e h
  | removeLayer n => simp [step] at h
  | renameLayer o n ow => exact renameLayer_err lower assignL valid S o n ow e h
  | retainLayers keep => simp [step] at h
  | removeEmpty => simp [step] at h

/-! ## the only panic an operation can raise is the documented one (99 file-name clashes) -/

theorem onLayer_panic (S : LayerSet) (li : Nat) (f : Layer → Layer × Res) (site : String)
    (h : (onLayer S li f).2 = .panic site) : ∃ L, (f L).2 = .panic site := by
  unfold onLayer at h
  cases hL : S.layers[li]? with
  | none => simp [hL] at h
  | some L => exact ⟨L, by simpa [hL] using h⟩

/-- `rename_layer`'s `position(..).unwrap()` (`layer.rs:215`) cannot fail in a reachable state, and no
    other operation has an undocumented panic -/
theorem no_undocumented_panic (S : LayerSet) (op : Op) (site : String) (hS : SInv lower S)
    (h : (step lower assignG assignL valid S op).2 = .panic site) :
    site = "99 file-name clashes (documented)" := by
  cases op with
  | insertGlyph li g =>
    obtain ⟨L, hL⟩ := onLayer_panic S li _ site h
    exact insertGlyph_panic lower assignG L g site hL
  | removeGlyph li g => obtain ⟨L, hL⟩ := onLayer_panic S li _ site h; simp at hL
  | renameGlyph li o n ow =>
    obtain ⟨L, hL⟩ := onLayer_panic S li _ site h
    exact renameGlyph_panic lower assignG valid L o n ow site hL
  | clear li => obtain ⟨L, hL⟩ := onLayer_panic S li _ site h; simp at hL
  | retain li keep => obtain ⟨L, hL⟩ := onLayer_panic S li _ site h; simp at hL
  | entryOrInsert li g => obtain ⟨L, hL⟩ := onLayer_panic S li _ site h; simp at hL
  | entryRemove li g => obtain ⟨L, hL⟩ := onLayer_panic S li _ site h; simp at hL
  | newLayer n => exact newLayer_panic lower assignL valid S n site h
  | getOrCreate n => exact getOrCreate_panic lower assignL valid S n site h
  | removeLayer n => simp [step] at h
  | retainLayers keep => simp [step] at h
  | removeEmpty => simp [step] at h
  | renameLayer o n ow =>
    simp only [step] at h
    unfold renameLayer at h
    split at h; · simp at h
    split at h; · simp at h
    rename_i g1 g2
    split at h; · simp at h
    split at h; · simp at h
    split at h; · simp at h
    -- the layer called `o` is still there after the optional removal of `n`
    have hS₁ : SInv lower (if (ow && decide (o ≠ n)) = true then removeLayer lower S n else S) := by
      split
      · exact sinv_removeLayer lower S n hS
      · exact hS
    have hold : ∃ x ∈ (if (ow && decide (o ≠ n)) = true then removeLayer lower S n else S).layers,
        x.name = o := by
      obtain ⟨x, hx, hxo⟩ := getLayer_some_mem g2
      split
      · rename_i hc
        simp only [Bool.and_eq_true, decide_eq_true_eq, ne_eq] at hc
        rcases removeLayer_shape lower S n hS with heq | ⟨d, a, l, b, hSl, hl, _, heq⟩
        · rw [heq]; exact ⟨x, hx, hxo⟩
        · rw [heq]
          refine ⟨x, ?_, hxo⟩
          rw [hSl] at hx
          simp only [List.mem_cons, List.mem_append] at hx ⊢
          rcases hx with rfl | hx | rfl | hx
          · exact Or.inl rfl
          · exact Or.inr (Or.inl hx)
          · exact absurd (hxo.symm.trans hl) hc.2
          · exact Or.inr (Or.inr hx)
      · exact ⟨x, hx, hxo⟩
    generalize (if (ow && decide (o ≠ n)) = true then removeLayer lower S n else S) = S₁ at h hS₁ hold
    obtain ⟨d, rest, hdr, _⟩ := hS₁.headDefault
    obtain ⟨layers₁, ps₁⟩ := S₁
    simp only at hdr; subst hdr
    simp only at h
    split at h; · simp at h
    rename_i hdo
    cases hf : rest.find? (·.name = o) with
    | none =>
      exfalso
      obtain ⟨x, hx, hxo⟩ := hold
      simp only [List.mem_cons] at hx
      rcases hx with rfl | hx
      · exact hdo hxo
      · have := find_none hf x hx
        simp [hxo] at this
    | some l =>
      simp only [hf] at h
      split at h <;> simp_all

end

/-! ## the `entry` API bypasses the contents index (recorded finding, see known_findings.txt) -/

section
variable (lower : Str → Str) (assignG assignL : Str → List Str → Option Str) (valid : Str → Bool)

/-- the glyph map and the contents index of every layer hold the same names -/
def AllSync (S : LayerSet) : Prop := ∀ l ∈ S.layers, Sync l

def usesEntry : Op → Bool
  | .entryOrInsert _ _ => true
  | .entryRemove _ _ => true
  | _ => false

theorem allsync_onLayer (S : LayerSet) (li : Nat) (f : Layer → Layer × Res) (h : AllSync S)
    (hf : ∀ L, Sync L → (f L).2 = .ok → Sync (f L).1) (hok : (onLayer S li f).2 = .ok) :
    AllSync (onLayer S li f).1 := by
  unfold onLayer at hok ⊢
  cases hL : S.layers[li]? with
  | none => exact h
  | some L =>
    simp only [hL] at hok ⊢
    intro x hx
    rcases List.mem_or_eq_of_mem_set hx with h1 | h1
    · exact h x h1
    · rw [h1]
      exact hf L (h L (List.mem_of_getElem? hL)) hok

/-- FULL statement (false on the tree): every operation keeps the two indices in step.
    PARTIAL: every operation other than the two `entry` accesses does. -/
theorem sync_step_partial (S : LayerSet) (op : Op) (hS : SInv lower S) (h : AllSync S)
    (hop : usesEntry op = false) (hok : (step lower assignG assignL valid S op).2 = .ok) :
    AllSync (step lower assignG assignL valid S op).1 := by
  cases op with
  | insertGlyph li g =>
    exact allsync_onLayer S li _ h (fun L hL hk => sync_insert lower assignG L g hL hk) hok
  | removeGlyph li g => exact allsync_onLayer S li _ h (fun L hL _ => sync_remove lower L g hL) hok
  | renameGlyph li o n ow =>
    exact allsync_onLayer S li _ h (fun L hL hk => sync_rename lower assignG valid L o n ow hL hk) hok
  | clear li => exact allsync_onLayer S li _ h (fun L _ _ => sync_clear L) hok
  | retain li keep => exact allsync_onLayer S li _ h (fun L hL _ => sync_retain lower L _ hL) hok
  | entryOrInsert li g => simp [usesEntry] at hop
  | entryRemove li g => simp [usesEntry] at hop
  | newLayer n => exact allsync_newLayer lower assignL valid S n h
  | getOrCreate n =>
    simp only [step]
    unfold getOrCreateLayer
    split
    · exact h
    · exact allsync_newLayer lower assignL valid S n h
  | removeLayer n =>
    simp only [step]
    rcases removeLayer_shape lower S n hS with heq | ⟨d, a, l, b, hSl, _, _, heq⟩
    · rw [heq]; exact h
    · rw [heq]
      intro x hx
      apply h x
      rw [hSl]
      simp only [List.mem_cons, List.mem_append] at hx ⊢
      rcases hx with rfl | hx | hx
      · exact Or.inl rfl
      · exact Or.inr (Or.inl hx)
      · exact Or.inr (Or.inr (Or.inr hx))
  | retainLayers keep =>
    simp only [step, retainLayers]
    intro x hx; exact h x (List.mem_filter.1 hx).1
  | removeEmpty =>
    simp only [step, removeEmptyLayers, retainLayers]
    intro x hx; exact h x (List.mem_filter.1 hx).1
  | renameLayer o n ow =>
    simp only [step]
    unfold renameLayer
    split; exact h; split; exact h; split; exact h; split; exact h; split; exact h
    have h₁ : AllSync (if (ow && decide (o ≠ n)) = true then removeLayer lower S n else S) := by
      split
      · rcases removeLayer_shape lower S n hS with heq | ⟨d, a, l, b, hSl, _, _, heq⟩
        · rw [heq]; exact h
        · rw [heq]
          intro x hx
          apply h x
          rw [hSl]
          simp only [List.mem_cons, List.mem_append] at hx ⊢
          rcases hx with rfl | hx | hx
          · exact Or.inl rfl
          · exact Or.inr (Or.inl hx)
          · exact Or.inr (Or.inr (Or.inr hx))
      · exact h
    generalize (if (ow && decide (o ≠ n)) = true then removeLayer lower S n else S) = S₁ at h₁
    obtain ⟨layers₁, ps₁⟩ := S₁
    cases layers₁ with
    | nil => exact h₁
    | cons d rest =>
      simp only
      split
      · intro x hx
        simp only [List.mem_cons] at hx
        rcases hx with rfl | hx
        · exact h₁ d (by simp)
        · exact h₁ x (by simp [hx])
      · cases hf : rest.find? (·.name = o) with
        | none => exact h₁
        | some l =>
          simp only
          obtain ⟨hl, a, b, rfl, ha⟩ := find_split hf
          split
          · exact h₁
          · rename_i p _
            rw [renameAt_split o n (some p) a b l (by simpa using hl) (fun x hx => by simpa using ha x hx)]
            intro x hx
            simp only [List.mem_cons, List.mem_append] at hx
            rcases hx with rfl | hx | rfl | hx
            · exact h₁ x (by simp)
            · exact h₁ x (by simp [hx])
            · exact h₁ l (by simp)
            · exact h₁ x (by simp [hx])

/-- histories that do not use `entry` keep the indices in step, as long as no documented panic occurs -/
def allOk (S : LayerSet) : List Op → Prop
  | [] => True
  | op :: ops => (step lower assignG assignL valid S op).2 ≠ .panic "99 file-name clashes (documented)" ∧
      allOk (step lower assignG assignL valid S op).1 ops

end
end Layers

/-! ## saving and loading yields exactly the layers and glyphs the containers report -/

namespace Layers

/-- what a layer looks like after a save/load cycle: same name, directory and index; the glyph map is
    rebuilt from the index -/
def reloaded (lower : Str → Str) (l : Layer) : Layer :=
  { l with glyphs := keys l.contents, pathSet := l.contents.map (fun e => lower e.2) }

section
variable (lower : Str → Str)

theorem saveLayer_of_sync (l : Layer) (h : Sync l) :
    saveLayer l = some { contents := l.contents, files := l.contents.map (·.2) } := by
  unfold saveLayer
  rw [if_pos]
  simp only [List.all_eq_true, decide_eq_true_eq]
  intro e he
  exact (h e.1).2 (List.mem_map.2 ⟨e, he, rfl⟩)

theorem saveDirs_of_sync (ls : List Layer) (h : ∀ l ∈ ls, Sync l) :
    saveDirs ls = some (ls.map fun l => (l.path, { contents := l.contents, files := l.contents.map (·.2) })) := by
  induction ls with
  | nil => rfl
  | cons l r ih =>
    simp only [saveDirs, saveLayer_of_sync l (h l (by simp)), ih (fun x hx => h x (by simp [hx])),
      List.map_cons]

theorem lookupDir_map (ls : List Layer) (l : Layer) (hl : l ∈ ls) (hnd : (ls.map (·.path)).Nodup) :
    lookupDir l.path (ls.map fun l => (l.path, ({ contents := l.contents, files := l.contents.map (·.2) } : DirT))) =
      some { contents := l.contents, files := l.contents.map (·.2) } := by
  induction ls with
  | nil => simp at hl
  | cons c cs ih =>
    simp only [List.map_cons, List.nodup_cons, List.mem_map, not_exists, not_and] at hnd
    simp only [List.map_cons, lookupDir]
    simp only [List.mem_cons] at hl
    rcases hl with rfl | hl
    · simp
    · have : c.path ≠ l.path := fun hc => hnd.1 l hl hc.symm
      simp only [this, if_false]
      exact ih hl hnd.2

theorem loadLayer_saved (l : Layer) :
    loadLayer lower l.name l.path { contents := l.contents, files := l.contents.map (·.2) } =
      some (reloaded lower l) := by
  unfold loadLayer
  rw [if_pos]
  · rfl
  · simp only [List.all_eq_true, decide_eq_true_eq]
    intro e he
    exact List.mem_map.2 ⟨e, he, rfl⟩

theorem loadLayers_saved (all sub : List Layer) (hsub : ∀ l ∈ sub, l ∈ all) (hnd : (all.map (·.path)).Nodup) :
    loadLayers lower (all.map fun l => (l.path, ({ contents := l.contents, files := l.contents.map (·.2) } : DirT)))
      (sub.map fun l => (l.name, l.path)) = some (sub.map (reloaded lower)) := by
  induction sub with
  | nil => rfl
  | cons l r ih =>
    simp only [List.map_cons, loadLayers, lookupDir_map all l (hsub l (by simp)) hnd, loadLayer_saved,
      ih (fun x hx => hsub x (by simp [hx]))]

/-- directories are pairwise different (not only ignoring case) in every state satisfying the invariant -/
theorem paths_nodup (S : LayerSet) (h : SInv lower S) : (S.layers.map (·.path)).Nodup := by
  obtain ⟨d, rest, hdr, hd⟩ := h.headDefault
  rw [hdr]
  simp only [List.map_cons, List.nodup_cons, List.mem_map, not_exists, not_and]
  refine ⟨fun x hx hxe => h.tailNotDefault x (by rw [hdr]; exact hx) (by rw [hxe, hd]), ?_⟩
  have := h.tailDistinct
  rw [hdr] at this
  simp only [List.tail_cons] at this
  have e : rest.map (fun l => lower l.path) = (rest.map (·.path)).map lower := by simp
  rw [e] at this
  exact List.Pairwise.of_map lower (fun a b hab heq => hab (by rw [heq])) this

/-- **save then load** — for every state that satisfies the invariant and whose indices are in step,
    `Font::save` does not panic and `Font::load` of the written tree returns the same layers, in the same
    order, with the same names and directories, each holding exactly the glyph names of its index. -/
theorem save_load_reloaded (S : LayerSet) (hS : SInv lower S) (hs : AllSync S) :
    ∃ t, saveTree S = .ok t ∧
      loadTree lower t = some { layers := S.layers.map (reloaded lower),
                                pathSet := (S.layers.map (reloaded lower)).tail.map (fun l => lower l.path) } := by
  refine ⟨_, by simp only [saveTree, saveDirs_of_sync S.layers hs]; rfl, ?_⟩
  simp only [loadTree]
  rw [loadLayers_saved lower S.layers S.layers (fun _ h => h) (paths_nodup lower S hS)]
  obtain ⟨d, rest, hdr, hd⟩ := hS.headDefault
  have hdd : (reloaded lower d).isDefault = true := by simp [Layer.isDefault, reloaded, hd]
  simp only [hdr, List.map_cons, defaultFirst, List.find?_cons, hdd, removeFirst, if_true,
    List.drop_one, List.tail_cons]

/-- … and those are the glyph names the container reports (as a set: both lists are duplicate-free) -/
theorem reloaded_glyphs_perm (l : Layer) (hl : LInvW lower l) (hs : Sync l) :
    (reloaded lower l).glyphs.Perm l.glyphs := by
  apply (List.perm_ext_iff_of_nodup hl.keysNodup hl.glyphsNodup).2
  intro a; exact (hs a).symm

/-- **nothing dropped, nothing phantom** -/
theorem save_load_reports (S : LayerSet) (hS : SInv lower S) (hs : AllSync S) :
    ∃ t S', saveTree S = .ok t ∧ loadTree lower t = some S' ∧
      S'.layers.map (fun l => (l.name, l.path)) = S.layers.map (fun l => (l.name, l.path)) ∧
      S'.layers.length = S.layers.length ∧
      ∀ i (h₁ : i < S'.layers.length) (h₂ : i < S.layers.length), (S'.layers[i]).glyphs.Perm (S.layers[i]).glyphs := by
  obtain ⟨t, ht, hl⟩ := save_load_reloaded lower S hS hs
  refine ⟨t, _, ht, hl, ?_, by simp, ?_⟩
  · simp [reloaded]
  · intro i h₁ h₂
    simp only [List.getElem_map]
    exact reloaded_glyphs_perm lower _ (hS.layersInv _ (List.getElem_mem h₂)) (hs _ (List.getElem_mem h₂))

end

/-! ### the recorded finding: `entry` desynchronises the indices -/

def zName : Str := "z".toList
def zFile : Str := "z.glif".toList

/-- a new font after `entry("z").or_insert(..)` on the default layer -/
def afterEntryInsert : LayerSet :=
  (step id (fun _ _ => some zFile) (fun _ _ => none) (fun _ => true) LayerSet.default (.entryOrInsert 0 zName)).1

/-- `entry("z").or_insert(..)` on a new font: the container reports the glyph, the save succeeds, the
    loaded font has no glyph `z` -/
theorem entry_or_insert_dropped_counterexample :
    report afterEntryInsert = [(defaultName, glyphsDir, [zName])] ∧
    saveTree afterEntryInsert =
      .ok { layercontents := [(defaultName, glyphsDir)], dirs := [(glyphsDir, { contents := [], files := [] })] } ∧
    (loadTree id { layercontents := [(defaultName, glyphsDir)],
                   dirs := [(glyphsDir, { contents := [], files := [] })] }).map report =
      some [(defaultName, glyphsDir, [])] := by
  refine ⟨by decide, by decide, by decide⟩

/-- a new font after `insert_glyph("z")` and then `entry("z")` → `Occupied::remove()` -/
def afterEntryRemove : LayerSet :=
  (step id (fun _ _ => some zFile) (fun _ _ => none) (fun _ => true)
    (step id (fun _ _ => some zFile) (fun _ _ => none) (fun _ => true) LayerSet.default (.insertGlyph 0 zName)).1
    (.entryRemove 0 zName)).1

theorem afterEntryRemove_eq : afterEntryRemove =
    { layers := [{ name := defaultName, path := glyphsDir, glyphs := [], contents := [(zName, zFile)],
                   pathSet := [zFile] }], pathSet := [] } := by decide

/-- … the indices are out of step and `Font::save` panics (`layer.rs:437`) -/
theorem entry_remove_save_panics_counterexample :
    ¬ AllSync afterEntryRemove ∧
    saveTree afterEntryRemove = .panic "layer.rs:437 all glyphs in contents must exist" := by
  refine ⟨?_, by decide⟩
  rw [afterEntryRemove_eq]
  intro h
  have := (h _ (List.mem_singleton.2 rfl) zName).2 (by simp [keys])
  simp at this

/-! ## histories that stay away from `entry` keep the indices in step -/

section
variable (lower : Str → Str) (assignG assignL : Str → List Str → Option Str) (valid : Str → Bool)

/-- no step of the history hits the documented 99-clashes panic -/
def noPanic (S : LayerSet) : List Op → Prop
  | [] => True
  | op :: ops => (∀ site, (step lower assignG assignL valid S op).2 ≠ .panic site) ∧
      noPanic (step lower assignG assignL valid S op).1 ops

theorem sync_reachable_partial (hG : AssignOK lower assignG) (hL : AssignLOK lower assignL valid)
    (S : LayerSet) (ops : List Op) (hS : SInv lower S) (hs : AllSync S)
    (hne : ∀ op ∈ ops, usesEntry op = false) (hp : noPanic lower assignG assignL valid S ops) :
    AllSync (run lower assignG assignL valid S ops) := by
  induction ops generalizing S with
  | nil => exact hs
  | cons op ops ih =>
    simp only [run]
    obtain ⟨hp1, hp2⟩ := hp
    apply ih _ (inv_step lower assignG assignL valid hG hL S op hS) _ (fun o ho => hne o (by simp [ho])) hp2
    cases hr : (step lower assignG assignL valid S op).2 with
    | ok => exact sync_step_partial lower assignG assignL valid S op hS hs (hne op (by simp)) hr
    | err e => rw [error_leaves_state lower assignG assignL valid S op e hr]; exact hs
    | panic site => exact absurd hr (hp1 site)

/-- corollary: after any such history, save + load returns what the containers report -/
theorem save_load_reports_reachable (hG : AssignOK lower assignG) (hL : AssignLOK lower assignL valid)
    (ops : List Op) (hne : ∀ op ∈ ops, usesEntry op = false)
    (hp : noPanic lower assignG assignL valid LayerSet.default ops) :
    ∃ t S', saveTree (run lower assignG assignL valid LayerSet.default ops) = .ok t ∧
      loadTree lower t = some S' ∧
      S'.layers.map (fun l => (l.name, l.path)) =
        (run lower assignG assignL valid LayerSet.default ops).layers.map (fun l => (l.name, l.path)) := by
  have hS := inv_reachable lower assignG assignL valid hG hL LayerSet.default ops (inv_init lower)
  have hs := sync_reachable_partial lower assignG assignL valid hG hL LayerSet.default ops (inv_init lower)
    (by intro l hl; simp [LayerSet.default] at hl; subst hl; exact sync_new _ _) hne hp
  obtain ⟨t, S', h1, h2, h3, _⟩ := save_load_reports lower _ hS hs
  exact ⟨t, S', h1, h2, h3⟩

end

/-! ## a font loaded from a well-formed tree satisfies the invariant -/

section
variable (lower : Str → Str)

/-- what norad itself writes, and what the specification asks of a UFO: distinct layer names, distinct
    directories (ignoring case), a `glyphs` directory, `public.default` only for it, and per directory
    an index with distinct names and distinct file names (ignoring case) -/
structure CleanTree (t : Tree) : Prop where
  namesNodup : (t.layercontents.map (·.1)).Nodup
  dirsDistinct : (t.layercontents.map (fun e => lower e.2)).Nodup
  reserved : ∀ e ∈ t.layercontents, e.2 ≠ glyphsDir → e.1 ≠ defaultName
  dirsOK : ∀ e ∈ t.layercontents, ∀ d, lookupDir e.2 t.dirs = some d →
    (keys d.contents).Nodup ∧ (d.contents.map (fun e => lower e.2)).Nodup

theorem loadLayer_inv (n p : Str) (d : DirT) (L : Layer) (h : loadLayer lower n p d = some L)
    (hk : (keys d.contents).Nodup) (hf : (d.contents.map (fun e => lower e.2)).Nodup) :
    L.name = n ∧ L.path = p ∧ LInvW lower L ∧ Sync L := by
  unfold loadLayer at h
  split at h
  · simp only [Option.some.injEq] at h; subst h
    refine ⟨rfl, rfl, ⟨hk, hk, ?_, hf⟩, fun m => Iff.rfl⟩
    intro e he; exact List.mem_map.2 ⟨e, he, rfl⟩
  · simp at h

theorem loadLayers_inv (dirs : List (Str × DirT)) (lc : List (Str × Str)) (ls : List Layer)
    (h : loadLayers lower dirs lc = some ls)
    (hd : ∀ e ∈ lc, ∀ d, lookupDir e.2 dirs = some d →
      (keys d.contents).Nodup ∧ (d.contents.map (fun e => lower e.2)).Nodup) :
    ls.map (fun l => (l.name, l.path)) = lc ∧ ∀ l ∈ ls, LInvW lower l ∧ Sync l := by
  induction lc generalizing ls with
  | nil => simp [loadLayers] at h; subst h; simp
  | cons e r ih =>
    obtain ⟨n, p⟩ := e
    simp only [loadLayers] at h
    cases hl : lookupDir p dirs with
    | none => simp [hl] at h
    | some d =>
      simp only [hl] at h
      cases hL : loadLayer lower n p d with
      | none => simp [hL] at h
      | some L =>
        cases hr : loadLayers lower dirs r with
        | none => simp [hL, hr] at h
        | some Ls =>
          simp only [hL, hr, Option.some.injEq] at h; subst h
          obtain ⟨hk, hf⟩ := hd (n, p) (by simp) d hl
          obtain ⟨h1, h2, h3, h4⟩ := loadLayer_inv lower n p d L hL hk hf
          obtain ⟨ih1, ih2⟩ := ih Ls hr (fun e he => hd e (by simp [he]))
          refine ⟨by simp [h1, h2, ih1], ?_⟩
          intro l hl'
          simp only [List.mem_cons] at hl'
          rcases hl' with rfl | hl'
          · exact ⟨h3, h4⟩
          · exact ih2 l hl'

/-- what is needed of a list of loaded layers, before the default one is moved to the front -/
structure LoadedOK (ls : List Layer) : Prop where
  names : (ls.map (·.name)).Nodup
  dirs : (ls.map (fun l => lower l.path)).Nodup
  reserved : ∀ l ∈ ls, l.path ≠ glyphsDir → l.name ≠ defaultName
  inv : ∀ l ∈ ls, LInvW lower l ∧ Sync l

/-- moving the default layer to the front of such a list gives a state in the invariant -/
theorem sinv_of_defaultFirst (ls ls' : List Layer) (hok : LoadedOK lower ls) (h : defaultFirst ls = some ls') :
    SInv lower { layers := ls', pathSet := (ls'.drop 1).map (fun l => lower l.path) } ∧
    AllSync { layers := ls', pathSet := (ls'.drop 1).map (fun l => lower l.path) } := by
  unfold defaultFirst at h
  cases hf : ls.find? (·.isDefault) with
  | none => simp [hf] at h
  | some d =>
    simp only [hf, Option.some.injEq] at h
    obtain ⟨hd, a, b, rfl, ha⟩ := find_split hf
    rw [removeFirst_split a b d hd ha] at h
    subst h
    have hdp : d.path = glyphsDir := by simpa [Layer.isDefault] using hd
    have hnames := hok.names
    have hdirs := hok.dirs
    have hres := hok.reserved
    have hinv := hok.inv
    simp only [List.map_append, List.map_cons] at hnames hdirs
    have hnotdef : ∀ x, x ∈ a ∨ x ∈ b → x.path ≠ glyphsDir := by
      intro x hx hxp
      rw [List.nodup_append] at hdirs
      obtain ⟨_, h2, h3⟩ := hdirs
      rcases hx with hx | hx
      · exact h3 (lower x.path) (List.mem_map.2 ⟨x, hx, rfl⟩) (lower d.path) (by simp) (by rw [hxp, hdp])
      · rw [List.nodup_cons] at h2
        exact h2.1 (by rw [hdp, ← hxp]; exact List.mem_map.2 ⟨x, hx, rfl⟩)
    refine ⟨⟨⟨d, a ++ b, rfl, hdp⟩, ?_, ?_, ?_, ?_, ?_, ?_⟩, ?_⟩
    · intro x hx
      simp only [List.tail_cons, List.mem_append] at hx
      exact hnotdef x hx
    · intro x hx
      simp only [List.tail_cons, List.mem_append] at hx
      apply hres x _ (hnotdef x hx)
      simp only [List.mem_append, List.mem_cons]
      rcases hx with hx | hx
      · exact Or.inl hx
      · exact Or.inr (Or.inr hx)
    · intro x hx
      simp only [List.tail_cons, List.drop_one] at hx ⊢
      exact List.mem_map.2 ⟨x, hx, rfl⟩
    · simp only [List.tail_cons, List.map_append]
      rw [List.nodup_append] at hdirs ⊢
      obtain ⟨h1, h2, h3⟩ := hdirs
      exact ⟨h1, (List.nodup_cons.1 h2).2, fun x hx y hy => h3 x hx y (List.mem_cons_of_mem _ hy)⟩
    · simp only [List.map_cons, List.map_append]
      rw [List.nodup_append] at hnames
      obtain ⟨h1, h2, h3⟩ := hnames
      rw [List.nodup_cons] at h2 ⊢
      refine ⟨?_, List.nodup_append.2 ⟨h1, h2.2, fun x hx y hy => h3 x hx y (List.mem_cons_of_mem _ hy)⟩⟩
      simp only [List.mem_append, not_or]
      exact ⟨fun hc => h3 d.name hc d.name (by simp) rfl, h2.1⟩
    · intro x hx
      apply (hinv x _).1
      simp only [List.mem_cons, List.mem_append] at hx ⊢
      rcases hx with rfl | hx | hx
      · exact Or.inr (Or.inl rfl)
      · exact Or.inl hx
      · exact Or.inr (Or.inr hx)
    · intro x hx
      apply (hinv x _).2
      simp only [List.mem_cons, List.mem_append] at hx ⊢
      rcases hx with rfl | hx | hx
      · exact Or.inr (Or.inl rfl)
      · exact Or.inl hx
      · exact Or.inr (Or.inr hx)

/-- the layers loaded from (any sub-list of) the entries of a well-formed tree are `LoadedOK` -/
theorem loadedOK_of_clean (t : Tree) (ht : CleanTree lower t) (lc : List (Str × Str)) (hsub : lc.Sublist t.layercontents)
    (ls : List Layer) (hls : loadLayers lower t.dirs lc = some ls) : LoadedOK lower ls := by
  obtain ⟨hmap, hinv⟩ := loadLayers_inv lower t.dirs lc ls hls
    (fun e he => ht.dirsOK e (hsub.subset he))
  refine ⟨?_, ?_, ?_, hinv⟩
  · have : ls.map (·.name) = lc.map (·.1) := by rw [← hmap, List.map_map]; rfl
    rw [this]; exact ht.namesNodup.sublist (hsub.map _)
  · have : ls.map (fun l => lower l.path) = lc.map (fun e => lower e.2) := by rw [← hmap, List.map_map]; rfl
    rw [this]; exact ht.dirsDistinct.sublist (hsub.map _)
  · intro l hl
    have : (l.name, l.path) ∈ lc := by rw [← hmap]; exact List.mem_map.2 ⟨l, hl, rfl⟩
    exact ht.reserved _ (hsub.subset this)

/-- **a loaded font starts in the invariant** (so `inv_reachable` applies to every history on it) -/
theorem inv_loaded (t : Tree) (S : LayerSet) (ht : CleanTree lower t) (h : loadTree lower t = some S) :
    SInv lower S ∧ AllSync S := by
  unfold loadTree at h
  cases hls : loadLayers lower t.dirs t.layercontents with
  | none => simp [hls] at h
  | some ls =>
    simp only [hls] at h
    have hok := loadedOK_of_clean lower t ht t.layercontents (List.Sublist.refl _) ls hls
    cases hd : defaultFirst ls with
    | none => simp [hd] at h
    | some ls' =>
      simp only [hd, Option.some.injEq] at h
      subst h
      exact sinv_of_defaultFirst lower ls ls' hok hd

/-- **… and so does a PARTIALLY loaded font**, whatever the layer filter (all, none, default only, any
    predicate): the real default layer or the empty placeholder comes first, nothing else lives in `glyphs`.
    Extra hypothesis for the placeholder: no directory of the file differs from `glyphs` only by case. -/
theorem inv_loaded_filtered (f : LFilter) (t : Tree) (S : LayerSet) (ht : CleanTree lower t)
    (hcase : ∀ e ∈ t.layercontents, lower e.2 = lower glyphsDir → e.2 = glyphsDir)
    (h : loadTreeF lower f t = some S) : SInv lower S ∧ AllSync S := by
  unfold loadTreeF at h
  cases hls : loadLayers lower t.dirs (t.layercontents.filter fun e => f.shouldLoad e.1 e.2) with
  | none => simp [hls] at h
  | some ls =>
    simp only [hls] at h
    have hok := loadedOK_of_clean lower t ht _ List.filter_sublist ls hls
    obtain ⟨hmap, _⟩ := loadLayers_inv lower t.dirs _ ls hls
      (fun e he => ht.dirsOK e (List.filter_sublist.subset he))
    -- with or without the placeholder the list is `LoadedOK`
    have hok₁ : LoadedOK lower
        (if (!f.includesDefault && !ls.any (·.isDefault)) = true then ls ++ [Layer.default] else ls) := by
      split
      · rename_i hc
        simp only [Bool.and_eq_true, Bool.not_eq_true', List.any_eq_false, ] at hc
        have hnodef : ∀ l ∈ ls, l.path ≠ glyphsDir := by
          intro l hl hp
          have := hc.2 l hl
          simp [Layer.isDefault, hp] at this
        refine ⟨?_, ?_, ?_, ?_⟩
        · simp only [List.map_append, List.map_cons, List.map_nil]
          refine List.nodup_append.2 ⟨hok.names, by simp, ?_⟩
          intro x hx y hy
          simp only [List.mem_singleton] at hy; subst hy
          obtain ⟨l, hl, rfl⟩ := List.mem_map.1 hx
          exact hok.reserved l hl (hnodef l hl)
        · simp only [List.map_append, List.map_cons, List.map_nil]
          refine List.nodup_append.2 ⟨hok.dirs, by simp, ?_⟩
          intro x hx y hy
          simp only [List.mem_singleton] at hy; subst hy
          obtain ⟨l, hl, rfl⟩ := List.mem_map.1 hx
          intro heq
          have hmem : (l.name, l.path) ∈ t.layercontents := by
            have : (l.name, l.path) ∈ t.layercontents.filter fun e => f.shouldLoad e.1 e.2 := by
              rw [← hmap]; exact List.mem_map.2 ⟨l, hl, rfl⟩
            exact List.filter_sublist.subset this
          exact hnodef l hl (hcase _ hmem (by simpa [Layer.default, Layer.new] using heq))
        · intro l hl hp
          simp only [List.mem_append, List.mem_singleton] at hl
          rcases hl with hl | rfl
          · exact hok.reserved l hl hp
          · exact absurd rfl hp
        · intro l hl
          simp only [List.mem_append, List.mem_singleton] at hl
          rcases hl with hl | rfl
          · exact hok.inv l hl
          · exact ⟨linvw_new lower _ _, sync_new _ _⟩
      · exact hok
    generalize (if (!f.includesDefault && !ls.any (·.isDefault)) = true then ls ++ [Layer.default] else ls) = ls₁
      at h hok₁
    cases hd : defaultFirst ls₁ with
    | none => simp [hd] at h
    | some ls' =>
      simp only [hd, Option.some.injEq] at h
      subst h
      exact sinv_of_defaultFirst lower ls₁ ls' hok₁ hd

end

/-- the all-layers filter is the full load -/
theorem filter_all_true {α : Type} (l : List α) : (l.filter fun _ => true) = l := by
  induction l with
  | nil => rfl
  | cons a r ih => simp [List.filter_cons, ih]

theorem loadTreeF_all (lower : Str → Str) (t : Tree) :
    loadTreeF lower { all := true, loadDefault := false, custom := none } t = loadTree lower t := by
  unfold loadTreeF loadTree
  simp only [LFilter.shouldLoad, LFilter.includesDefault, Bool.true_or, Bool.or_false,
    Bool.not_true, Bool.false_and, Bool.false_eq_true, if_false]
  rw [filter_all_true]

-- non-vacuity: the hypotheses of `inv_reachable` / `save_load_reports` are met by a concrete, non-trivial
-- history (two layers, a rename with overwrite, a retain)
example :
    let assignG : Str → List Str → Option Str := fun g ps => if g ++ ".glif".toList ∈ ps then none else some (g ++ ".glif".toList)
    let assignL : Str → List Str → Option Str := fun g ps => if "glyphs.".toList ++ g ∈ ps then none else some ("glyphs.".toList ++ g)
    let S := run id assignG assignL (fun _ => true) LayerSet.default
      [.insertGlyph 0 "a".toList, .newLayer "bg".toList, .insertGlyph 1 "a".toList, .insertGlyph 1 "b".toList,
       .renameGlyph 1 "a".toList "b".toList true, .retain 0 ["a".toList], .renameLayer "bg".toList "fg".toList true]
    report S = [(defaultName, glyphsDir, ["a".toList]), ("fg".toList, "glyphs.fg".toList, ["b".toList])] := by
  decide

end Layers
