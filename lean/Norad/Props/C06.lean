import Norad.Lemmas.LayerSet
/-!
# C06 — layer and glyph containers stay consistent under any operation history

Property theorems about the container model `Model/Layers.lean` (the transcription of
`src/layer.rs` after the repairs recorded in `known_findings.txt`).  Everything is proved for every
`lower`, every `valid` and every pair of file-name functions meeting the contracts `AssignOK` /
`AssignLOK` (discharged for the real algorithm in `Props/C07.lean`).

Statement of the property, clause by clause:
* glyph names within a layer / layer names within a font are unique, exactly one default layer, first,
  in `glyphs`, the only one that may be called `public.default`  — `SInv`, `inv_reachable`
* an operation that reports an error leaves the container unchanged — `error_leaves_state`
* saving and loading yields exactly the layers and glyphs the containers report —
  `save_load_reports` (needs `AllSync`, which the `entry` API breaks: `sync_reachable_partial`,
  `entry_or_insert_dropped_counterexample`, `entry_remove_save_panics_counterexample`)
-/
namespace Layers

section
variable (lower : Str → Str) (assignG assignL : Str → List Str → Option Str) (valid : Str → Bool)

/-! ## the invariant holds in every reachable state -/

theorem inv_init : SInv lower LayerSet.default := sinv_default lower

/-- one step of any of the thirteen container operations preserves the invariant -/
theorem inv_step (hG : AssignOK lower assignG) (hL : AssignLOK lower assignL) (S : LayerSet) (op : Op)
    (h : SInv lower S) : SInv lower (step lower assignG assignL valid S op).1 := by
  cases op with
  | insertGlyph li g =>
    exact sinv_onLayer lower S li _ h (fun L => insertGlyph_name lower assignG L g)
      (fun L => insertGlyph_path lower assignG L g) (fun L hL' => linvw_insert lower assignG hG L g hL')
  | removeGlyph li g =>
    exact sinv_onLayer lower S li _ h (fun _ => rfl) (fun _ => rfl) (fun L hL' => linvw_remove lower L g hL')
  | renameGlyph li o n ow =>
    exact sinv_onLayer lower S li _ h (fun L => renameGlyph_name lower assignG valid L o n ow)
      (fun L => renameGlyph_path lower assignG valid L o n ow)
      (fun L hL' => linvw_rename lower assignG valid hG L o n ow hL')
  | clear li =>
    exact sinv_onLayer lower S li _ h (fun _ => rfl) (fun _ => rfl) (fun L _ => linvw_clear lower L)
  | retain li keep =>
    exact sinv_onLayer lower S li _ h (fun _ => rfl) (fun _ => rfl)
      (fun L hL' => linvw_retain lower L _ hL')
  | entryOrInsert li g =>
    exact sinv_onLayer lower S li _ h (fun _ => rfl) (fun _ => rfl)
      (fun L hL' => linvw_entryOrInsert lower L g hL')
  | entryRemove li g =>
    exact sinv_onLayer lower S li _ h (fun _ => rfl) (fun _ => rfl)
      (fun L hL' => linvw_entryRemove lower L g hL')
  | newLayer n => exact sinv_newLayer lower assignL valid hL S n h
  | getOrCreate n => exact sinv_getOrCreate lower assignL valid hL S n h
  | removeLayer n => exact sinv_removeLayer lower S n h
  | renameLayer o n ow => exact sinv_renameLayer lower assignL valid hL S o n ow h
  | retainLayers keep => exact sinv_retainLayers lower S _ h
  | removeEmpty => exact sinv_removeEmpty lower S h

/-- **every reachable state satisfies the invariant**: any history of operations, from any state that
    satisfies it (a new font: `inv_init`; a loaded font: `inv_loaded`) -/
theorem inv_reachable (hG : AssignOK lower assignG) (hL : AssignLOK lower assignL) (S : LayerSet)
    (ops : List Op) (h : SInv lower S) : SInv lower (run lower assignG assignL valid S ops) := by
  induction ops generalizing S with
  | nil => exact h
  | cons op ops ih => exact ih _ (inv_step lower assignG assignL valid hG hL S op h)

/-! ### what the invariant says, in the words of the property -/

theorem layer_names_unique (S : LayerSet) (h : SInv lower S) : (S.layers.map (·.name)).Nodup := h.namesNodup

theorem glyph_names_unique (S : LayerSet) (h : SInv lower S) : ∀ l ∈ S.layers, l.glyphs.Nodup :=
  fun l hl => (h.layersInv l hl).glyphsNodup

/-- exactly one default layer, and it comes first -/
theorem exactly_one_default_first (S : LayerSet) (h : SInv lower S) :
    ∃ d rest, S.layers = d :: rest ∧ d.isDefault = true ∧ ∀ l ∈ rest, l.isDefault = false := by
  obtain ⟨d, rest, hdr, hd⟩ := h.headDefault
  refine ⟨d, rest, hdr, by simp [Layer.isDefault, hd], ?_⟩
  intro l hl
  have := h.tailNotDefault l (by rw [hdr]; exact hl)
  simp [Layer.isDefault, this]

theorem only_default_may_be_public_default (S : LayerSet) (h : SInv lower S) :
    ∀ l ∈ S.layers.tail, l.name ≠ defaultName := h.tailNotReserved

/-! ## an operation that reports an error leaves the container unchanged -/

theorem onLayer_err (S : LayerSet) (li : Nat) (f : Layer → Layer × Res) (e : NErr)
    (hf : ∀ L, (f L).2 = .err e → (f L).1 = L) (h : (onLayer S li f).2 = .err e) : (onLayer S li f).1 = S := by
  unfold onLayer at h ⊢
  cases hL : S.layers[li]? with
  | none => rfl
  | some L =>
    simp only [hL] at h ⊢
    rw [hf L h]
    have hlt : li < S.layers.length := by
      rcases Nat.lt_or_ge li S.layers.length with hlt | hge
      · exact hlt
      · rw [List.getElem?_eq_none hge] at hL; cases hL
    have : S.layers.set li L = S.layers := by
      apply List.ext_getElem?; intro j
      by_cases hj : j = li
      · subst hj
        have hyy : S.layers[j] = L := by rw [List.getElem?_eq_getElem hlt] at hL; exact Option.some.inj hL
        simp [List.getElem?_set, hlt, hyy]
      · simp [List.getElem?_set, Ne.symm hj]
    rw [this]

theorem error_leaves_state (S : LayerSet) (op : Op) (e : NErr)
    (h : (step lower assignG assignL valid S op).2 = .err e) :
    (step lower assignG assignL valid S op).1 = S := by
  cases op with
  | insertGlyph li g =>
    exact onLayer_err S li _ e (fun L hL => absurd hL (insertGlyph_not_err lower assignG L g e)) h
  | removeGlyph li g => exact onLayer_err S li _ e (fun L hL => by simp at hL) h
  | renameGlyph li o n ow =>
    exact onLayer_err S li _ e (fun L hL => renameGlyph_err lower assignG valid L o n ow e hL) h
  | clear li => exact onLayer_err S li _ e (fun L hL => by simp at hL) h
  | retain li keep => exact onLayer_err S li _ e (fun L hL => by simp at hL) h
  | entryOrInsert li g => exact onLayer_err S li _ e (fun L hL => by simp at hL) h
  | entryRemove li g => exact onLayer_err S li _ e (fun L hL => by simp at hL) h
  | newLayer n => exact newLayer_err lower assignL valid S n e h
  | getOrCreate n => exact getOrCreate_err lower assignL valid S n e h
  | removeLayer n => simp [step] at h
  | renameLayer o n ow => exact renameLayer_err lower assignL valid S o n ow e h
  | retainLayers keep => simp [step] at h
  | removeEmpty => simp [step] at h

/-! ## the only panic an operation can raise is the documented one (99 file-name clashes) -/

theorem onLayer_panic (S : LayerSet) (li : Nat) (f : Layer → Layer × Res) (site : String)
    (h : (onLayer S li f).2 = .panic site) : ∃ L, (f L).2 = .panic site := by
  unfold onLayer at h
  cases hL : S.layers[li]? with
  | none => simp [hL] at h
  | some L => exact ⟨L, by simpa [hL] using h⟩

/-- `rename_layer`'s `position(..).unwrap()` (`layer.rs:215`) cannot fail in a reachable state, and no
    other operation has an undocumented panic -/
theorem no_undocumented_panic (S : LayerSet) (op : Op) (site : String) (hS : SInv lower S)
    (h : (step lower assignG assignL valid S op).2 = .panic site) :
    site = "99 file-name clashes (documented)" := by
  cases op with
  | insertGlyph li g =>
    obtain ⟨L, hL⟩ := onLayer_panic S li _ site h
    exact insertGlyph_panic lower assignG L g site hL
  | removeGlyph li g => obtain ⟨L, hL⟩ := onLayer_panic S li _ site h; simp at hL
  | renameGlyph li o n ow =>
    obtain ⟨L, hL⟩ := onLayer_panic S li _ site h
    exact renameGlyph_panic lower assignG valid L o n ow site hL
  | clear li => obtain ⟨L, hL⟩ := onLayer_panic S li _ site h; simp at hL
  | retain li keep => obtain ⟨L, hL⟩ := onLayer_panic S li _ site h; simp at hL
  | entryOrInsert li g => obtain ⟨L, hL⟩ := onLayer_panic S li _ site h; simp at hL
  | entryRemove li g => obtain ⟨L, hL⟩ := onLayer_panic S li _ site h; simp at hL
  | newLayer n => exact newLayer_panic lower assignL valid S n site h
  | getOrCreate n => exact getOrCreate_panic lower assignL valid S n site h
  | removeLayer n => simp [step] at h
  | retainLayers keep => simp [step] at h
  | removeEmpty => simp [step] at h
  | renameLayer o n ow =>
    simp only [step] at h
    unfold renameLayer at h
    split at h; · simp at h
    split at h; · simp at h
    rename_i g1 g2
    split at h; · simp at h
    split at h; · simp at h
    split at h; · simp at h
    -- the layer called `o` is still there after the optional removal of `n`
    have hS₁ : SInv lower (if (ow && decide (o ≠ n)) = true then removeLayer lower S n else S) := by
      split
      · exact sinv_removeLayer lower S n hS
      · exact hS
    have hold : ∃ x ∈ (if (ow && decide (o ≠ n)) = true then removeLayer lower S n else S).layers,
        x.name = o := by
      obtain ⟨x, hx, hxo⟩ := getLayer_some_mem g2
      split
      · rename_i hc
        simp only [Bool.and_eq_true, decide_eq_true_eq, ne_eq] at hc
        rcases removeLayer_shape lower S n hS with heq | ⟨d, a, l, b, hSl, hl, _, heq⟩
        · rw [heq]; exact ⟨x, hx, hxo⟩
        · rw [heq]
          refine ⟨x, ?_, hxo⟩
          rw [hSl] at hx
          simp only [List.mem_cons, List.mem_append] at hx ⊢
          rcases hx with rfl | hx | rfl | hx
          · exact Or.inl rfl
          · exact Or.inr (Or.inl hx)
          · exact absurd (hxo.symm.trans hl) hc.2
          · exact Or.inr (Or.inr hx)
      · exact ⟨x, hx, hxo⟩
    generalize (if (ow && decide (o ≠ n)) = true then removeLayer lower S n else S) = S₁ at h hS₁ hold
    obtain ⟨d, rest, hdr, _⟩ := hS₁.headDefault
    obtain ⟨layers₁, ps₁⟩ := S₁
    simp only at hdr; subst hdr
    simp only at h
    split at h; · simp at h
    rename_i hdo
    cases hf : rest.find? (·.name = o) with
    | none =>
      exfalso
      obtain ⟨x, hx, hxo⟩ := hold
      simp only [List.mem_cons] at hx
      rcases hx with rfl | hx
      · exact hdo hxo
      · have := find_none hf x hx
        simp [hxo] at this
    | some l =>
      simp only [hf] at h
      split at h <;> simp_all

end

/-! ## the `entry` API bypasses the contents index (recorded finding, see known_findings.txt) -/

section
variable (lower : Str → Str) (assignG assignL : Str → List Str → Option Str) (valid : Str → Bool)

/-- the glyph map and the contents index of every layer hold the same names -/
def AllSync (S : LayerSet) : Prop := ∀ l ∈ S.layers, Sync l

def usesEntry : Op → Bool
  | .entryOrInsert _ _ => true
  | .entryRemove _ _ => true
  | _ => false

theorem allsync_onLayer (S : LayerSet) (li : Nat) (f : Layer → Layer × Res) (h : AllSync S)
    (hf : ∀ L, Sync L → (f L).2 = .ok → Sync (f L).1) (hok : (onLayer S li f).2 = .ok) :
    AllSync (onLayer S li f).1 := by
  unfold onLayer at hok ⊢
  cases hL : S.layers[li]? with
  | none => exact h
  | some L =>
    simp only [hL] at hok ⊢
    intro x hx
    rcases List.mem_or_eq_of_mem_set hx with h1 | h1
    · exact h x h1
    · rw [h1]
      exact hf L (h L (List.mem_of_getElem? hL)) hok

/-- FULL statement (false on the tree): every operation keeps the two indices in step.
    PARTIAL: every operation other than the two `entry` accesses does. -/
theorem sync_step_partial (S : LayerSet) (op : Op) (hS : SInv lower S) (h : AllSync S)
    (hop : usesEntry op = false) (hok : (step lower assignG assignL valid S op).2 = .ok) :
    AllSync (step lower assignG assignL valid S op).1 := by
  cases op with
  | insertGlyph li g =>
    exact allsync_onLayer S li _ h (fun L hL hk => sync_insert lower assignG L g hL hk) hok
  | removeGlyph li g => exact allsync_onLayer S li _ h (fun L hL _ => sync_remove lower L g hL) hok
  | renameGlyph li o n ow =>
    exact allsync_onLayer S li _ h (fun L hL hk => sync_rename lower assignG valid L o n ow hL hk) hok
  | clear li => exact allsync_onLayer S li _ h (fun L _ _ => sync_clear L) hok
  | retain li keep => exact allsync_onLayer S li _ h (fun L hL _ => sync_retain lower L _ hL) hok
  | entryOrInsert li g => simp [usesEntry] at hop
  | entryRemove li g => simp [usesEntry] at hop
  | newLayer n => exact allsync_newLayer lower assignL valid S n h
  | getOrCreate n =>
    simp only [step]
    unfold getOrCreateLayer
    split
    · exact h
    · exact allsync_newLayer lower assignL valid S n h
  | removeLayer n =>
    simp only [step]
    rcases removeLayer_shape lower S n hS with heq | ⟨d, a, l, b, hSl, _, _, heq⟩
    · rw [heq]; exact h
    · rw [heq]
      intro x hx
      apply h x
      rw [hSl]
      simp only [List.mem_cons, List.mem_append] at hx ⊢
      rcases hx with rfl | hx | hx
      · exact Or.inl rfl
      · exact Or.inr (Or.inl hx)
      · exact Or.inr (Or.inr (Or.inr hx))
  | retainLayers keep =>
    simp only [step, retainLayers]
    intro x hx; exact h x (List.mem_filter.1 hx).1
  | removeEmpty =>
    simp only [step, removeEmptyLayers, retainLayers]
    intro x hx; exact h x (List.mem_filter.1 hx).1
  | renameLayer o n ow =>
    simp only [step]
    unfold renameLayer
    split; exact h; split; exact h; split; exact h; split; exact h; split; exact h
    have h₁ : AllSync (if (ow && decide (o ≠ n)) = true then removeLayer lower S n else S) := by
      split
      · rcases removeLayer_shape lower S n hS with heq | ⟨d, a, l, b, hSl, _, _, heq⟩
        · rw [heq]; exact h
        · rw [heq]
          intro x hx
          apply h x
          rw [hSl]
          simp only [List.mem_cons, List.mem_append] at hx ⊢
          rcases hx with rfl | hx | hx
          · exact Or.inl rfl
          · exact Or.inr (Or.inl hx)
          · exact Or.inr (Or.inr (Or.inr hx))
      · exact h
    generalize (if (ow && decide (o ≠ n)) = true then removeLayer lower S n else S) = S₁ at h₁
    obtain ⟨layers₁, ps₁⟩ := S₁
    cases layers₁ with
    | nil => exact h₁
    | cons d rest =>
      simp only
      split
      · intro x hx
        simp only [List.mem_cons] at hx
        rcases hx with rfl | hx
        · exact h₁ d (by simp)
        · exact h₁ x (by simp [hx])
      · cases hf : rest.find? (·.name = o) with
        | none => exact h₁
        | some l =>
          simp only
          obtain ⟨hl, a, b, rfl, ha⟩ := find_split hf
          split
          · exact h₁
          · rename_i p _
            rw [renameAt_split o n (some p) a b l (by simpa using hl) (fun x hx => by simpa using ha x hx)]
            intro x hx
            simp only [List.mem_cons, List.mem_append] at hx
            rcases hx with rfl | hx | rfl | hx
            · exact h₁ x (by simp)
            · exact h₁ x (by simp [hx])
            · exact h₁ l (by simp)
            · exact h₁ x (by simp [hx])

/-- histories that do not use `entry` keep the indices in step, as long as no documented panic occurs -/
def allOk (S : LayerSet) : List Op → Prop
  | [] => True
  | op :: ops => (step lower assignG assignL valid S op).2 ≠ .panic "99 file-name clashes (documented)" ∧
      allOk (step lower assignG assignL valid S op).1 ops

end
end Layers
