import Norad.Props.C08
import Norad.Props.C09
import Norad.Lemmas.SaveFault
/-!
# C08, one fault kind: a step of the plan fails with an I/O error (session 2026-09-29)

What the model guarantees about the tree after a save that was NOT refused by validation and then failed at step `k`
of its plan - stated honestly: the TARGET may be partially written (and what stood there before is gone: the wipe has
run); NOTHING OUTSIDE the target is touched.  Guard `safePaths`, as for C09's `save_frame` (without it: C09's two
recorded escapes).  Model of the fault: `Model/SaveFault.lean`.
-/
namespace C08
open AbsFS FontSave

variable {β : Type}

/-- **`failed_save_stays_inside_target`** - for every font with safe relative paths, every file system, target and every
    fault (any position, any I/O error): every path that is not at or below the target has the same node before and
    after the faulted save. -/
theorem failed_save_stays_inside_target (cfg : Cfg β) (f : AFont β) (fs : FS β) (t : APath) (ft : Fault)
    (hs : safePaths f = true) :
    ∀ q, ¬ t <+: q → lookup (saveImplFault cfg f fs t ft).2 q = lookup fs q := by
  intro q hq
  unfold saveImplFault
  cases hv : validatePhase cfg f fs with
  | error k => rfl
  | ok di =>
    obtain ⟨d, i⟩ := di
    simp only
    cases hw : wipe fs t with
    | error e => rfl
    | ok fs1 =>
      simp only
      obtain ⟨hd, hi⟩ := C09.forced_safe hs hv
      rw [plan_normal cfg f d i t hs hd hi, injectFault_map]
      by_cases hk : ft.pos < (planN cfg f d i t).length
      · simp only [hk, if_true]
        have := planN_prefix_frame cfg f d i t hd fs1 ft.pos (.io ft.err) q hq
        unfold runN at this
        rw [this]
        exact wipe_frame hw q hq
      · simp only [hk, if_false]
        have := planN_frame cfg f d i t hd fs1 q hq
        unfold runN at this
        rw [this]
        exact wipe_frame hw q hq

/-- a fault behind the end of the plan is no fault: the faulted save is the save -/
theorem fault_beyond_plan_is_save (cfg : Cfg β) (f : AFont β) (fs : FS β) (t : APath) (ft : Fault)
    (h : ∀ d i, (plan cfg f d i t).length ≤ ft.pos) : saveImplFault cfg f fs t ft = saveImpl cfg f fs t := by
  unfold saveImplFault saveImpl injectFault
  cases validatePhase cfg f fs with
  | error k => rfl
  | ok di =>
    obtain ⟨d, i⟩ := di
    simp only
    cases wipe fs t with
    | error e => rfl
    | ok fs1 => simp [Nat.not_lt.mpr (h d i)]

def okFont : AFont Nat := { angleFont with info := { body := 0, guides := [], valid := true, serialisable := true } }

/-- **the honest half** (`failed_save_leaves_partial_target`): a valid font saved onto a target that holds a precious
    file, the write behind metainfo.plist failing with an I/O error - the save reports the error, the precious file is
    gone, the target holds metainfo.plist and nothing else of the font; the sibling of the target is untouched. -/
theorem failed_save_leaves_partial_target :
    let fs0 : FS Nat := precious ++ [(["s".toList], .file 7)]
    let r := saveImplFault cfgN okFont fs0 ["t".toList] { pos := 2, err := .notFound }
    r.1 = some (.io .notFound) ∧
    lookup r.2 ["t".toList, "precious".toList] = none ∧
    (lookup r.2 ["t".toList, "metainfo.plist".toList]).isSome = true ∧
    lookup r.2 ["t".toList, "layercontents.plist".toList] = none ∧
    lookup r.2 ["s".toList] = some (.file 7) := by
  decide

/-- non-vacuity of the guard: the font of the witness has safe paths -/
example : safePaths okFont = true := by decide

end C08
