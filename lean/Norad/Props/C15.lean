import Norad.Model.Kerning
import Norad.Spec.Kerning
namespace Kern
theorem placeholder_c15 : validateGroups [] = .ok () := rfl
end Kern
