import Norad.Lemmas.Kerning
import Norad.Generated.KernConsts
import Norad.Props.KernSource
import Std.Data.String.ToNat
/-!
# C15 — kerning groups are validated, and legacy kerning is upconverted faithfully

Property theorems only.  `validateGroups`, `upconvertWith`, `upconvertKerning` are the transcription
of `groups.rs` / `upconversion.rs` (`Model/Kerning.lean`); `KernSpec` is the independent statement
(`Spec/Kerning.lean`).  The upconversion theorems hold for **every visiting order** `ord1`, `ord2` of
the two sets (any lists without repetition whose elements are groups of the input): they do not
depend on the iteration order of the sets, so they cover the code before and after the `BTreeSet`
repair; what the order does change (which source gets which counter) is the subject of C10.
-/
namespace Kern
open StrMap

/-! ## the validator -/

/-- **validate_iff**: `validate_groups` accepts exactly the maps in which no name is empty or only a
    kerning prefix and no glyph occurs twice among the first-side groups nor among the second-side
    groups (occurrences are counted: twice in one group is rejected too). -/
theorem validate_iff (g : Groups) : validateGroups g = .ok () ↔ KernSpec.ValidGroups g := by
  unfold validateGroups
  rw [validateLoop_ok_iff]
  simp only [List.not_mem_nil, not_false_eq_true, implies_true, and_true]
  rfl

/-- the executable oracle of the driver is the declarative predicate -/
theorem validGroupsB_iff (g : Groups) : KernSpec.validGroupsB g = true ↔ KernSpec.ValidGroups g := by
  unfold KernSpec.validGroupsB KernSpec.ValidGroups
  simp only [Bool.and_eq_true, nodupB_iff, List.all_eq_true, Bool.not_eq_true', bne_iff_ne, ne_eq,
    List.isEmpty_eq_false_iff, and_assoc]

example : validateGroups [("public.kern1.A".toList, ["a".toList]), ("public.kern1.B".toList, ["a".toList])]
    = .error .overlapping := by rfl
example : validateGroups [("public.kern1.A".toList, ["a".toList]), ("public.kern2.A".toList, ["a".toList])]
    = .ok () := by rfl
example : validateGroups [("public.kern2.".toList, [])] = .error .invalidName := by rfl

/-! ## the upconversion, for every visiting order -/

/-- a successful run decomposes into the two loops and the pair rewriting -/
theorem upconvertWith_ok {sfx : Nat → Str} {ord1 ord2 : List Str} {g : Groups} {k : Kerning} {o : UpOut}
    (h : upconvertWith sfx ord1 ord2 g k = .ok o) :
    ∃ g1, renameSide sfx pfx1 mmkL ord1 g [] = .ok (g1, o.t1) ∧
      renameSide sfx pfx2 mmkR ord2 g1 [] = .ok (o.groups, o.t2) ∧
      o.kerning = rewriteKerning o.t1 o.t2 k := by
  unfold upconvertWith at h
  cases h1 : renameSide sfx pfx1 mmkL ord1 g [] with
  | panic s => simp [h1] at h
  | outOfFuel => simp [h1] at h
  | ok r1 =>
    obtain ⟨g1, t1⟩ := r1
    simp only [h1] at h
    cases h2 : renameSide sfx pfx2 mmkR ord2 g1 [] with
    | panic s => simp [h2] at h
    | outOfFuel => simp [h2] at h
    | ok r2 =>
      obtain ⟨g2, t2⟩ := r2
      simp only [h2, Res.ok.injEq] at h
      subst h
      exact ⟨g1, rfl, h2, rfl⟩

/-- **groups_kept**: every original group is still there with its members. -/
theorem groups_kept {sfx : Nat → Str} {ord1 ord2 : List Str} {g : Groups} {k : Kerning} {o : UpOut}
    (h : upconvertWith sfx ord1 ord2 g k = .ok o) :
    ∀ n, hasKey n g = true → lookup n o.groups = lookup n g := by
  obtain ⟨g1, h1, h2, _⟩ := upconvertWith_ok h
  intro n hn
  have e1 := renameSide_keeps ord1 g g1 [] o.t1 h1 n hn
  have hn1 : hasKey n g1 = true := by
    obtain ⟨v, hv⟩ := lookup_isSome_of_hasKey hn
    simp [hasKey, e1, hv]
  rw [renameSide_keeps ord2 g1 o.groups [] o.t2 h2 n hn1, e1]

/-- **nothing_else_altered**: the keys of the result are the original keys plus the generated
    names — exactly, as a list: one new key per table entry and no other. -/
theorem nothing_else_altered {sfx : Nat → Str} {ord1 ord2 : List Str} {g : Groups} {k : Kerning} {o : UpOut}
    (h : upconvertWith sfx ord1 ord2 g k = .ok o) :
    keys o.groups = o.t2.map (·.2) ++ (o.t1.map (·.2) ++ keys g) ∧
      keys o.t1 = ord1.reverse ∧ keys o.t2 = ord2.reverse := by
  obtain ⟨g1, h1, h2, _⟩ := upconvertWith_ok h
  obtain ⟨n1, a1, b1, c1⟩ := renameSide_struct ord1 g g1 [] o.t1 h1
  obtain ⟨n2, a2, b2, c2⟩ := renameSide_struct ord2 g1 o.groups [] o.t2 h2
  simp only [List.append_nil] at a1 a2
  subst a1 a2
  exact ⟨by rw [b2, b1], c1, c2⟩

/-- the generated names are pairwise distinct (across both sides) and none is a key of the input -/
theorem new_names_fresh {sfx : Nat → Str} {ord1 ord2 : List Str} {g : Groups} {k : Kerning} {o : UpOut}
    (h : upconvertWith sfx ord1 ord2 g k = .ok o) (hg : (keys g).Nodup) :
    (o.t2.map (·.2) ++ o.t1.map (·.2)).Nodup ∧
      ∀ u, u ∈ o.t1.map (·.2) ∨ u ∈ o.t2.map (·.2) → hasKey u g = false := by
  obtain ⟨g1, h1, h2, _⟩ := upconvertWith_ok h
  have hnd := renameSide_nodup ord2 g1 o.groups [] o.t2 h2 (renameSide_nodup ord1 g g1 [] o.t1 h1 hg)
  rw [(nothing_else_altered h).1, ← List.append_assoc, List.nodup_append] at hnd
  refine ⟨hnd.1, ?_⟩
  intro u hu
  rw [hasKey_false_iff]
  intro hk
  have hmem : u ∈ o.t2.map (·.2) ++ o.t1.map (·.2) := by
    rcases hu with h' | h'
    · exact List.mem_append.mpr (Or.inr h')
    · exact List.mem_append.mpr (Or.inl h')
  exact hnd.2.2 u hmem u hk rfl

/-- **new_groups_exact**: every visited first-side group `n` has exactly one new name `u` in the
    table; `u` is `public.kern1.` + `n` without `@MMK_L_` (+ a counter), was no key of the input, and
    holds the members of `n`; likewise for the second side.  Together with `nothing_else_altered` and
    `new_names_fresh`: the new keys are exactly the images of the two sets, pairwise distinct. -/
theorem new_groups_exact {sfx : Nat → Str} {ord1 ord2 : List Str} {g : Groups} {k : Kerning} {o : UpOut}
    (h : upconvertWith sfx ord1 ord2 g k = .ok o)
    (hs1 : ∀ n ∈ ord1, hasKey n g = true) (hs2 : ∀ n ∈ ord2, hasKey n g = true)
    (hn1 : ord1.Nodup) (hn2 : ord2.Nodup) :
    (∀ n ∈ ord1, ∃ u, lookup n o.t1 = some u ∧ hasKey u g = false ∧
        lookup u o.groups = lookup n g ∧ (pfx1 ++ removeAll mmkL n) <+: u) ∧
    (∀ n ∈ ord2, ∃ u, lookup n o.t2 = some u ∧ hasKey u g = false ∧
        lookup u o.groups = lookup n g ∧ (pfx2 ++ removeAll mmkR n) <+: u) := by
  obtain ⟨g1, h1, h2, _⟩ := upconvertWith_ok h
  obtain ⟨_, k1, k2⟩ := nothing_else_altered h
  have keep1 := renameSide_keeps ord1 g g1 [] o.t1 h1
  have keep2 := renameSide_keeps ord2 g1 o.groups [] o.t2 h2
  have in1 : ∀ n, hasKey n g = true → hasKey n g1 = true := by
    intro n hn
    obtain ⟨v, hv⟩ := lookup_isSome_of_hasKey hn
    simp [hasKey, keep1 n hn, hv]
  constructor
  · intro n hn
    obtain ⟨u, hu1, hu2, hu3, hu4⟩ := renameSide_table ord1 g g1 [] o.t1 h1 hs1 n hn
    have hlk : lookup n o.t1 = some u :=
      lookup_of_mem_nodup (by rw [k1]; exact (List.reverse_perm _).nodup_iff.mpr hn1) hu1
    refine ⟨u, hlk, hu2, ?_, hu4⟩
    -- the copy made by the first loop survives the second loop
    obtain ⟨m, hm⟩ := lookup_isSome_of_hasKey (hs1 n hn)
    have hug1 : hasKey u g1 = true := by simp [hasKey, hu3, hm]
    rw [keep2 u hug1, hu3]
  · intro n hn
    have hs2' : ∀ n ∈ ord2, hasKey n g1 = true := fun n hn => in1 n (hs2 n hn)
    obtain ⟨u, hu1, hu2, hu3, hu4⟩ := renameSide_table ord2 g1 o.groups [] o.t2 h2 hs2' n hn
    have hlk : lookup n o.t2 = some u :=
      lookup_of_mem_nodup (by rw [k2]; exact (List.reverse_perm _).nodup_iff.mpr hn2) hu1
    refine ⟨u, hlk, ?_, ?_, hu4⟩
    · cases hug : hasKey u g with
      | false => rfl
      | true => rw [in1 u hug] at hu2; cases hu2
    · rw [hu3, keep1 n (hs2 n hn)]

/-- **upconvert_no_panic**: visiting groups of the input whose names are valid, the conversion
    neither reaches an `unwrap` on `None`/`Err` nor exhausts the fuel of the uniqueness loop
    (`g.length + 1` candidates always contain a free one). -/
theorem upconvertWith_total {sfx : Nat → Str} (hinj : ∀ a b, sfx a = sfx b → a = b)
    (hsfx : ∀ c, ∀ ch ∈ sfx c, isCtl ch = false)
    {ord1 ord2 : List Str} {g : Groups} (k : Kerning)
    (hs1 : ∀ n ∈ ord1, hasKey n g = true ∧ validName n = true)
    (hs2 : ∀ n ∈ ord2, hasKey n g = true ∧ validName n = true) :
    ∃ o, upconvertWith sfx ord1 ord2 g k = .ok o := by
  obtain ⟨⟨g1, t1⟩, h1⟩ := renameSide_total (pfx := pfx1) (legacy := mmkL) hinj hsfx
    ⟨by decide, by decide⟩ ord1 g [] hs1
  have keep1 := renameSide_keeps ord1 g g1 [] t1 h1
  have hs2' : ∀ n ∈ ord2, hasKey n g1 = true ∧ validName n = true := by
    intro n hn
    obtain ⟨a, b⟩ := hs2 n hn
    obtain ⟨v, hv⟩ := lookup_isSome_of_hasKey a
    exact ⟨by simp [hasKey, keep1 n a, hv], b⟩
  obtain ⟨⟨g2, t2⟩, h2⟩ := renameSide_total (pfx := pfx2) (legacy := mmkR) hinj hsfx
    ⟨by decide, by decide⟩ ord2 g1 [] hs2'
  refine ⟨⟨g2, rewriteKerning t1 t2 k, t1, t2⟩, ?_⟩
  simp only [upconvertWith, h1, h2]

/-! ## the sets the code builds are the sets the statement names -/

theorem mmk_not_both {n : Str} (h : mmkR.isPrefixOf n = true) : mmkL.isPrefixOf n = false := by
  cases h2 : mmkL.isPrefixOf n with
  | false => rfl
  | true =>
    rw [List.isPrefixOf_iff_prefix, List.prefix_iff_eq_take] at h h2
    have : mmkL = mmkR := by
      rw [h, h2]
      have : mmkL.length = mmkR.length := by decide
      rw [this]
    exact absurd this (by decide)

/-- **sources_first**: the first set holds exactly the first-side sources of the statement -/
theorem sources_first (g : Groups) (k : Kerning) (S : List Str) (n : Str) :
    n ∈ sortDedup (firstSet g k S) ↔ KernSpec.isSource1 g k S n = true := by
  rw [mem_sortDedup]
  simp only [firstSet, knownFirst, referencedFirst, List.mem_append, List.mem_filter,
    KernSpec.isSource1, Bool.and_eq_true, Bool.or_eq_true, ← hasKey_iff_mem_keys]
  have e1 : KernSpec.legacyL = mmkL := rfl
  have e2 : KernSpec.p1 = pfx1 := rfl
  rw [e1, e2]
  constructor
  · rintro (⟨a, b⟩ | ⟨a, ⟨⟨b, c⟩, d⟩⟩)
    · exact ⟨a, Or.inl b⟩
    · exact ⟨b, Or.inr ⟨⟨a, c⟩, d⟩⟩
  · rintro ⟨a, (b | ⟨⟨b, c⟩, d⟩)⟩
    · exact Or.inl ⟨a, b⟩
    · exact Or.inr ⟨b, ⟨⟨a, c⟩, d⟩⟩

/-- **sources_second**: likewise for the second side -/
theorem sources_second (g : Groups) (k : Kerning) (S : List Str) (n : Str) :
    n ∈ sortDedup (secondSet g k S) ↔ KernSpec.isSource2 g k S n = true := by
  rw [mem_sortDedup]
  simp only [secondSet, knownSecond, referencedSecond, List.mem_append, List.mem_filter,
    KernSpec.isSource2, Bool.and_eq_true, Bool.or_eq_true, ← hasKey_iff_mem_keys, List.mem_flatMap,
    List.any_eq_true, Bool.not_eq_true']
  have e1 : KernSpec.legacyR = mmkR := rfl
  have e2 : KernSpec.p2 = pfx2 := rfl
  rw [e1, e2]
  constructor
  · rintro (⟨a, _, b⟩ | ⟨⟨e, he, hne⟩, ⟨⟨b, c⟩, d⟩⟩)
    · exact ⟨a, Or.inl b⟩
    · exact ⟨b, Or.inr ⟨⟨⟨e, he, hne⟩, c⟩, d⟩⟩
  · rintro ⟨a, (b | ⟨⟨⟨e, he, hne⟩, c⟩, d⟩)⟩
    · exact Or.inl ⟨a, mmk_not_both b, b⟩
    · exact Or.inr ⟨⟨e, he, hne⟩, ⟨⟨a, c⟩, d⟩⟩

/-- **upconvert_no_panic** for the function as called by `Font::load`: groups with valid names
    (all a `Name` can hold) never make `upconvert_kerning` panic or loop forever. -/
theorem upconvert_no_panic {sfx : Nat → Str} (hinj : ∀ a b, sfx a = sfx b → a = b)
    (hsfx : ∀ c, ∀ ch ∈ sfx c, isCtl ch = false)
    (g : Groups) (k : Kerning) (S : List Str) (hv : ∀ n ∈ keys g, validName n = true) :
    ∃ o, upconvertKerning sfx g k S = .ok o := by
  unfold upconvertKerning
  apply upconvertWith_total hinj hsfx
  · intro n hn
    have := (sources_first g k S n).1 hn
    simp only [KernSpec.isSource1, Bool.and_eq_true] at this
    exact ⟨this.1, hv n (hasKey_iff_mem_keys.mp this.1)⟩
  · intro n hn
    have := (sources_second g k S n).1 hn
    simp only [KernSpec.isSource2, Bool.and_eq_true] at this
    exact ⟨this.1, hv n (hasKey_iff_mem_keys.mp this.1)⟩

/-- **glyph_named_like_group_not_renamed**: a group whose name is a glyph name and does not carry
    the legacy prefix is not a source, gets no copy, and a kerning key of that name stays as it is —
    on either side. -/
theorem glyph_named_like_group_not_renamed {sfx : Nat → Str} {g : Groups} {k : Kerning} {S : List Str}
    {o : UpOut} (h : upconvertKerning sfx g k S = .ok o) (n : Str) (hS : n ∈ S) :
    (mmkL.isPrefixOf n = false → lookup n o.t1 = none ∧ rn o.t1 n = n) ∧
    (mmkR.isPrefixOf n = false → lookup n o.t2 = none ∧ rn o.t2 n = n) := by
  obtain ⟨_, k1, k2⟩ := nothing_else_altered h
  constructor
  · intro hp
    have hnot : n ∉ sortDedup (firstSet g k S) := by
      rw [sources_first]
      have e1 : KernSpec.legacyL = mmkL := rfl
      simp [KernSpec.isSource1, e1, hp, hS]
    have : lookup n o.t1 = none := by
      cases hl : lookup n o.t1 with
      | none => rfl
      | some u =>
        have : n ∈ keys o.t1 := hasKey_iff_mem_keys.mp (by simp [hasKey, hl])
        rw [k1, List.mem_reverse] at this
        exact absurd this hnot
    exact ⟨this, rn_of_none this⟩
  · intro hp
    have hnot : n ∉ sortDedup (secondSet g k S) := by
      rw [sources_second]
      have e1 : KernSpec.legacyR = mmkR := rfl
      simp [KernSpec.isSource2, e1, hp, hS]
    have : lookup n o.t2 = none := by
      cases hl : lookup n o.t2 with
      | none => rfl
      | some u =>
        have : n ∈ keys o.t2 := hasKey_iff_mem_keys.mp (by simp [hasKey, hl])
        rw [k2, List.mem_reverse] at this
        exact absurd this hnot
    exact ⟨this, rn_of_none this⟩

/-! ## kerning values

Full statement (FALSE on the tree, kept visible):

  theorem kerning_values_preserved (h : upconvertWith sfx ord1 ord2 g k = .ok o) … :
      ∀ e ∈ k, ∀ p ∈ e.2, KernSpec.pairValue o.kerning (rn o.t1 e.1) (rn o.t2 p.1) = some p.2

A kerning key that is *not a group* may equal a freshly generated name; `BTreeMap::insert` then
overwrites (`kerning_values_preserved_counterexample`).  Recorded in known_findings.txt
(`kerning-key-equals-generated-name`); the reference algorithm does the same. -/

/-- **kerning_values_preserved_partial**: when no kerning key that is not a group equals a generated
    name, every pair is found under its renamed keys with its value (bit pattern) unchanged. -/
theorem kerning_values_preserved_partial {sfx : Nat → Str} {ord1 ord2 : List Str} {g : Groups}
    {k : Kerning} {o : UpOut} (h : upconvertWith sfx ord1 ord2 g k = .ok o)
    (hg : (keys g).Nodup) (hk : (keys k).Nodup) (hks : ∀ e ∈ k, (keys e.2).Nodup)
    (guard1 : ∀ f ∈ keys k, hasKey f g = false → f ∉ o.t1.map (·.2))
    (guard2 : ∀ e ∈ k, ∀ s ∈ keys e.2, hasKey s g = false → s ∉ o.t2.map (·.2)) :
    ∀ e ∈ k, ∀ p ∈ e.2, KernSpec.pairValue o.kerning (rn o.t1 e.1) (rn o.t2 p.1) = some p.2 := by
  obtain ⟨_, _, _, hker⟩ := upconvertWith_ok h
  obtain ⟨hnd, hfresh⟩ := new_names_fresh h hg
  rw [List.nodup_append] at hnd
  have inj1 : ∀ a ∈ keys k, ∀ b ∈ keys k, rn o.t1 a = rn o.t1 b → a = b := by
    apply rn_injOn hnd.2.1
    intro b hb _ hmem
    cases hbg : hasKey b g with
    | false => exact guard1 b hb hbg hmem
    | true => rw [hfresh b (Or.inl hmem)] at hbg; cases hbg
  intro e he p hp
  have inj2 : ∀ a ∈ keys e.2, ∀ b ∈ keys e.2, rn o.t2 a = rn o.t2 b → a = b := by
    apply rn_injOn hnd.1
    intro b hb _ hmem
    cases hbg : hasKey b g with
    | false => exact guard2 e he b hb hbg hmem
    | true => rw [hfresh b (Or.inr hmem)] at hbg; cases hbg
  have l1 := foldIns_lookup (rn o.t1) (rewriteSeconds o.t2) k [] hk inj1 e he
  have l2 := foldIns_lookup (rn o.t2) id e.2 [] (hks e he) inj2 p hp
  rw [← rewriteKerning_eq, ← hker] at l1
  rw [← rewriteSeconds_eq] at l2
  simp only [KernSpec.pairValue, l1, l2, id]

/-- **kerning_nothing_invented**: every entry of the rewritten kerning is an input entry under its
    renamed first key (holds unconditionally). -/
theorem kerning_nothing_invented {sfx : Nat → Str} {ord1 ord2 : List Str} {g : Groups}
    {k : Kerning} {o : UpOut} (h : upconvertWith sfx ord1 ord2 g k = .ok o)
    (f' : Str) (secs' : Seconds) (hl : lookup f' o.kerning = some secs') :
    ∃ e ∈ k, rn o.t1 e.1 = f' ∧ rewriteSeconds o.t2 e.2 = secs' ∧
      ∀ s' v, lookup s' secs' = some v → ∃ p ∈ e.2, rn o.t2 p.1 = s' ∧ p.2 = v := by
  obtain ⟨_, _, _, hker⟩ := upconvertWith_ok h
  rw [hker, rewriteKerning_eq] at hl
  rcases foldIns_origin _ _ k [] f' secs' hl with ⟨e, he, h1, h2⟩ | hn
  · refine ⟨e, he, h1, h2, ?_⟩
    intro s' v hs
    rw [← h2, rewriteSeconds_eq] at hs
    rcases foldIns_origin _ _ e.2 [] s' v hs with ⟨p, hp, h3, h4⟩ | hn
    · exact ⟨p, hp, h3, h4⟩
    · simp [lookup] at hn
  · simp [lookup] at hn

def cexGroups : Groups := [("@MMK_L_A".toList, ["a".toList])]
def cexKerning : Kerning :=
  [("@MMK_L_A".toList, [("b".toList, 2)]), ("public.kern1.A".toList, [("c".toList, 1)])]

/-- **kerning_values_preserved_counterexample**: group `@MMK_L_A`, pairs `(@MMK_L_A, b) = 2` and a
    dangling `(public.kern1.A, c) = 1`: the converted kerning has no value for
    `(public.kern1.A, b)` — the pair is lost (corpus/C15/known.case replays it on the real crate). -/
theorem kerning_values_preserved_counterexample :
    ∃ o, upconvertKerning decimal cexGroups cexKerning [] = .ok o ∧
      KernSpec.pairValue cexKerning "@MMK_L_A".toList "b".toList = some 2 ∧
      KernSpec.pairValue o.kerning (rn o.t1 "@MMK_L_A".toList) (rn o.t2 "b".toList) = none := by
  refine ⟨_, rfl, rfl, rfl⟩

/-- non-vacuity of the guarded theorem: a run with a source on each side satisfying the guards -/
example : ∃ o, upconvertKerning decimal [("A".toList, ["a".toList]), ("@MMK_L_A".toList, ["b".toList])]
    [("A".toList, [("A".toList, 7)])] [] = .ok o ∧
    keys o.groups = ["public.kern2.A".toList, "public.kern1.A1".toList, "public.kern1.A".toList,
      "A".toList, "@MMK_L_A".toList] ∧
    KernSpec.pairValue o.kerning "public.kern1.A1".toList "public.kern2.A".toList = some 7 := by
  refine ⟨_, rfl, rfl, rfl⟩

/-! ## the counter rendering the driver uses -/

theorem decimal_injective : ∀ a b, decimal a = decimal b → a = b := by
  intro a b h
  apply Nat.repr_injective
  exact String.toList_inj.mp h

theorem decimal_no_ctl : ∀ c, ∀ ch ∈ decimal c, isCtl ch = false := by
  intro c ch hch
  have h := (String.isNat_iff.mp (Nat.isNat_repr c)).2.1 ch hch
  rcases h with hd | rfl
  · simp only [Char.isDigit, Bool.and_eq_true, decide_eq_true_eq] at hd
    have h1 : 48 ≤ ch.toNat := UInt32.le_iff_toNat_le.mp hd.1
    have h2 : ch.toNat ≤ 57 := UInt32.le_iff_toNat_le.mp hd.2
    simp only [isCtl, Bool.or_eq_false_iff, Bool.and_eq_false_iff, decide_eq_false_iff_not, beq_eq_false_iff_ne]
    omega
  · decide

/-- **upconvert_no_panic_decimal**: with the decimal counter (the code's `format!("{}{}", name, counter)`),
    no hypothesis on the rendering is left. -/
theorem upconvert_no_panic_decimal (g : Groups) (k : Kerning) (S : List Str)
    (hv : ∀ n ∈ keys g, validName n = true) : ∃ o, upconvertKerning decimal g k S = .ok o :=
  upconvert_no_panic decimal_injective decimal_no_ctl g k S hv

/-! ## source-level tie

`Generated.KernConsts` is regenerated from `src/groups.rs` / `src/upconversion.rs` of the checked tree on every
run (`tools/extract_kern_consts.py`).  The theorems below are about what the code says NOW: a changed
prefix, length test or side assignment makes them fail (a proof obligation that no longer checks),
independently of whether the sampling meets an input that shows the difference. -/

/-- **source_prefixes_match_model**: the literals of the source are the literals of the model — the two
    kerning-group prefixes (in the validator, in the "already converted" tests and in the new names) and
    the two legacy markers, each on the side the model puts it. -/
theorem source_prefixes_match_model :
    Generated.KernConsts.validatorPrefixes.map (·.1) = [pfx1, pfx2] ∧
    Generated.KernConsts.skipPrefixes = [("first", pfx1), ("second", pfx2)] ∧
    Generated.KernConsts.newNames = [("first", pfx1, mmkL), ("second", pfx2, mmkR)] ∧
    Generated.KernConsts.knownLegacy = [(mmkL, "first"), (mmkR, "second")] := by decide

/-- **source_prefix_only_test_matches_model**: the length every `starts_with(P) && len() == N` test of the
    validator compares with is the byte length of its prefix (so the test means "the name is only the
    prefix", `prefixOnly_iff`), and it is the model's 13. -/
theorem source_prefix_only_test_matches_model :
    ∀ e ∈ Generated.KernConsts.validatorPrefixes, e.2 = byteLen e.1 ∧ e.2 = 13 := by decide

/-- the validator theorem restated with the prefixes of the source -/
theorem source_validate_iff (g : Groups) :
    validateGroups g = .ok () ↔
      (∀ e ∈ g, e.1 ≠ [] ∧ ∀ p ∈ Generated.KernConsts.validatorPrefixes, e.1 ≠ p.1) ∧
      ∀ p ∈ Generated.KernConsts.validatorPrefixes, (KernSpec.sideMembers p.1 g).Nodup := by
  rw [validate_iff]
  have h : Generated.KernConsts.validatorPrefixes.map (·.1) = [KernSpec.p1, KernSpec.p2] :=
    source_prefixes_match_model.1
  have hm : ∀ (P : Str → Prop), (∀ p ∈ Generated.KernConsts.validatorPrefixes, P p.1) ↔ (P KernSpec.p1 ∧ P KernSpec.p2) := by
    intro P
    have : (∀ p ∈ Generated.KernConsts.validatorPrefixes, P p.1) ↔
        ∀ q ∈ Generated.KernConsts.validatorPrefixes.map (·.1), P q := by
      simp only [List.mem_map, forall_exists_index, and_imp, forall_apply_eq_imp_iff₂]
    rw [this, h]; simp
  unfold KernSpec.ValidGroups
  rw [hm (fun q => (KernSpec.sideMembers q g).Nodup)]
  constructor
  · rintro ⟨h1, h2, h3⟩
    exact ⟨fun e he => ⟨(h1 e he).1, (hm (fun q => e.1 ≠ q)).2 (h1 e he).2⟩, h2, h3⟩
  · rintro ⟨h1, h2, h3⟩
    exact ⟨fun e he => ⟨(h1 e he).1, (hm (fun q => e.1 ≠ q)).1 (h1 e he).2⟩, h2, h3⟩

/-! ## the theorems above, stated of the regenerated passes

`Kern.Gen.*` (`Norad/Generated/Upconv.lean`) is the statement-by-statement translation of `validate_groups`,
`make_unique_group_name`, `find_known_kerning_groups` and `upconvert_kerning` made by `tools/extract_upconv.py` from the
tree under check; `source_validate_eq_model` / `source_upconvert_eq_model` (`Props/KernSource.lean`) identify them with the
model, so every theorem of this file rewrites into one about the regenerated code.  The ones the property names: -/

/-- the validator of the source accepts exactly the valid maps -/
theorem source_gen_validate_iff (g : Groups) : Gen.validateGroups g = .ok () ↔ KernSpec.ValidGroups g := by
  rw [source_validate_eq_model]; exact validate_iff g

/-- the conversion of the source never panics and its `while` ends (decimal counter, valid input names) -/
theorem source_gen_upconvert_no_panic (g : Groups) (k : Kerning) (S : List Str)
    (hv : ∀ n ∈ keys g, validName n = true) : ∃ o, Gen.upconvertKerning decimal g k S = .ok o := by
  rw [source_upconvert_eq_model]; exact upconvert_no_panic_decimal g k S hv

/-- the conversion of the source keeps every original group -/
theorem source_gen_groups_kept {sfx : Nat → Str} {g : Groups} {k : Kerning} {S : List Str} {o : UpOut}
    (h : Gen.upconvertKerning sfx g k S = .ok o) :
    ∀ n, hasKey n g = true → lookup n o.groups = lookup n g := by
  rw [source_upconvert_eq_model] at h
  exact groups_kept (ord1 := sortDedup (firstSet g k S)) (ord2 := sortDedup (secondSet g k S)) h

-- non-vacuity: the regenerated passes run (and agree with the model) on colliding inputs
example : Gen.validateGroups [("public.kern1.A".toList, ["a".toList]), ("public.kern1.B".toList, ["a".toList])]
    = .error .overlapping := by rfl
example : Gen.validateGroups [("public.kern1.".toList, [])] = .error .invalidName := by rfl
example : Gen.validateGroups [("public.kern1.A".toList, ["a".toList]), ("public.kern2.A".toList, ["a".toList])]
    = .ok () := by rfl
example : ∃ o, Gen.upconvertKerning decimal
      [("@MMK_L_A".toList, ["a".toList]), ("A".toList, ["b".toList])] [("A".toList, [("x".toList, 1)])] [] = .ok o ∧
      lookup "public.kern1.A".toList o.groups = some ["a".toList] ∧
      lookup "public.kern1.A1".toList o.groups = some ["b".toList] ∧
      lookup "public.kern1.A1".toList o.kerning = some [("x".toList, 1)] ∧
      hasKey "@MMK_L_A".toList o.groups = true := ⟨_, rfl, rfl, rfl, rfl, rfl⟩

end Kern
