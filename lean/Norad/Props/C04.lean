import Norad.Props.C01
/-!
# C04 — load, save, load again: input is normalised without loss

Font level, on the model of `Model/RoundTrip.lean`.  What `loadFont` returns after norad's own
`saveFont` is again a valid font inside the number guards (`rtFont_valid`, `rtFont_numbers`), so one
more save + load returns the same font (`norad_output_is_fixed_point`); whatever is written says
creator norad / format 3 (`output_is_v3`); a default layer anywhere in `layercontents.plist` is moved
to the front and the others keep their order (`layers_default_moved_to_front`, in `Props/C01`).

Full-strength statement for arbitrary accepted trees,
  `loadFont t = .ok f → ∃ t' f', saveFont f = .ok t' ∧ loadFont t' = .ok f' ∧ FontEquiv f f'`,
is FALSE on the tree: `objectlibs_key_without_fontinfo_counterexample` (recorded finding).
OPEN (not proved here): `loaded_is_representable` for arbitrary trees under the guards "layer
directories and glif file names listed once, the reserved lib key only together with fontinfo.plist,
numbers outside (0, ε]"; the correspondence covers it (every generated tree and every testdata UFO).
Glif format 2 of what is written is below this model (glyphs are tokens): checked by the oracle.
-/
namespace RT

theorem sortGuide_id (g : Guide) : (sortGuide g).id = g.id := rfl

theorem rtInfo_guides_ids (i : Info) :
    ((rtInfo i).guides.getD []).map (·.id) = (i.guides.getD []).map (·.id) := by
  simp only [rtInfo]
  cases i.guides with
  | none => rfl
  | some gs => simp [List.map_map, Function.comp_def, sortGuide_id]

/-- what `load(save(f))` returns can be saved again: it is a valid font -/
theorem rtFont_valid (f : Font) (hv : ValidFont f) : ValidFont (rtFont f) where
  fv := rfl
  noKey := by
    simp only [rtFont, rtLib]
    split
    · rw [lookup_sortDict, hv.noKey]; rfl
    · exact lookupKV_erase_self _ _
  ids := by
    have := rtInfo_guides_ids f.info
    simp only [rtFont]
    rw [this]; exact hv.ids
  libIds := by
    intro g hg l hl
    simp only [rtFont, rtInfo] at hg
    cases hgs : f.info.guides with
    | none => rw [hgs] at hg; simp at hg
    | some gs =>
      rw [hgs] at hg
      simp only [Option.map_some, Option.getD_some, List.mem_map] at hg
      obtain ⟨g0, hg0, rfl⟩ := hg
      simp only [sortGuide] at hl
      cases hl0 : g0.lib with
      | none => rw [hl0] at hl; cases hl
      | some l0 =>
        have := hv.libIds g0 (by rw [hgs]; exact hg0) l0 hl0
        exact this
  dirs := by
    have : (rtFont f).layers.map (·.dir) = f.layers.map (·.dir) := by
      simp [rtFont, rtLayer, List.map_map, Function.comp_def]
    rw [this]; exact hv.dirs
  defFirst := by
    obtain ⟨l, r, h1, h2⟩ := hv.defFirst
    exact ⟨rtLayer l, r.map rtLayer, by simp [rtFont, h1], h2⟩
  files := by
    intro l hl
    simp only [rtFont, List.mem_map] at hl
    obtain ⟨l0, hl0, rfl⟩ := hl
    exact hv.files l0 hl0

theorem numOK_ofInt (k : ℤ) : NumOK (NumV.ofInt k) := by
  intro q hq
  simp only [NumV.val?, Option.some.injEq] at hq
  subst hq
  by_cases h : k = 0
  · left; simp [h]
  · right
    have h1 : (1 : ℚ) ≤ |(k : ℚ)| := by
      have : (1 : ℤ) ≤ |k| := Int.one_le_abs h
      exact_mod_cast this
    have := eps_small
    linarith

/-- a number that went through a writer and back is again inside the guard -/
theorem numOK_roundtrip (w : ℚ → Num) (v : NumV) (hv : NumOK v) : NumOK (readNum (writeWith w v)) := by
  unfold writeWith
  cases h : v.val? with
  | none => simpa [readNum] using hv
  | some q =>
    simp only
    cases w q with
    | int k => exact numOK_ofInt k
    | real x => simpa [readNum] using hv

theorem truncQ_nonneg (q : ℚ) (h : 0 ≤ q) : 0 ≤ truncQ q := by
  unfold truncQ; rw [if_pos h, floor_eq]; exact Int.floor_nonneg.2 h

theorem sat32_nonneg (n : ℤ) (h : 0 ≤ n) : 0 ≤ sat32 n := by
  unfold sat32 i32Min i32Max; split
  · omega
  · split <;> omega

/-- what `load(save(f))` returns is inside the number guards again -/
theorem rtFont_numbers (f : Font) (hn : NumbersOK f) : NumbersOK (rtFont f) where
  info := by
    intro e he hl
    simp only [rtFont, rtInfo, loadNums, saveNums, List.map_map, List.mem_map, Function.comp_def] at he
    obtain ⟨e0, he0, rfl⟩ := he
    simp only at hl ⊢
    simp only [hl, Bool.false_eq_true, if_false]
    exact numOK_roundtrip infoWrite e0.2 (hn.info e0 he0 hl)
  upm := by
    intro v hv
    simp only [rtFont, rtInfo] at hv
    cases hu : f.info.upm with
    | none => rw [hu] at hv; cases hv
    | some v0 =>
      rw [hu] at hv
      simp only [Option.map_some, Option.some.injEq] at hv
      subst hv
      obtain ⟨h1, h2⟩ := hn.upm v0 hu
      refine ⟨numOK_roundtrip upmWrite v0 h1, ?_⟩
      intro q hq
      unfold writeWith at hq
      cases hq0 : v0.val? with
      | none => rw [hq0] at hq; simp only [readNum] at hq; rw [hq0] at hq; cases hq
      | some q0 =>
        rw [hq0] at hq
        simp only at hq
        have h0 := h2 q0 hq0
        cases hw : upmWrite q0 with
        | int k =>
          rw [hw] at hq
          simp only [readNum, NumV.val?, Option.some.injEq] at hq
          subst hq
          unfold upmWrite at hw
          split at hw
          · cases hw
            exact_mod_cast sat32_nonneg _ (truncQ_nonneg q0 h0)
          · cases hw
        | real x =>
          rw [hw] at hq
          simp only [readNum] at hq
          rw [hq0] at hq; cases hq; exact h0
  kerning := by
    intro e he p hp
    simp only [rtFont, loadKerning, saveKerning, List.map_map, List.mem_map, Function.comp_def] at he
    obtain ⟨e0, he0, rfl⟩ := he
    simp only [List.mem_map] at hp
    obtain ⟨p0, hp0, rfl⟩ := hp
    exact numOK_roundtrip kernWrite p0.2 (hn.kerning e0 he0 p0 hp0)
  colours := by
    intro l hl c hc
    simp only [rtFont, List.mem_map] at hl
    obtain ⟨l0, hl0, rfl⟩ := hl
    simp only [rtLayer] at hc
    cases hc0 : l0.color with
    | none => rw [hc0] at hc; cases hc
    | some c0 => rw [hc0] at hc; cases hc; trivial

/-- **C04, norad's own output.**  For every valid font inside the number guards: the font obtained by
    save + load can be saved and loaded again, and that returns the same font (layers in order,
    colours, libs as maps, numbers within tolerance, feature text up to CR LF). -/
theorem norad_output_is_fixed_point (f : Font) (hv : ValidFont f) (hn : NumbersOK f) :
    ∃ t f', saveFont f = .ok t ∧ loadFont t = .ok f' ∧
      ∃ t' f'', saveFont f' = .ok t' ∧ loadFont t' = .ok f'' ∧ FontEquiv f' f'' := by
  obtain ⟨t, h1, h2⟩ := save_load_eq f hv
  refine ⟨t, rtFont f, h1, h2, ?_⟩
  exact font_roundtrip (rtFont f) (rtFont_valid f hv) (rtFont_numbers f hn)

/-- whatever font is saved (also one that came from a format 1 or 2 tree: `load_impl` sets the format
    version to 3 before returning), the written metainfo says creator norad, formatVersion 3 -/
theorem output_is_v3 (f : Font) (t : Tree) (h : saveFont f = .ok t) :
    t.creator = some defaultCreator ∧ t.fv = 3 := metainfo_roundtrip f t h

/-- every loaded font carries format version 3 -/
theorem loaded_is_v3 (t : Tree) (f : Font) (h : loadFont t = .ok f) : f.fv = 3 := by
  unfold loadFont at h
  cases hfi : t.fontinfo with
  | none =>
    simp only [hfi] at h
    cases hl : loadLayers t t.layercontents with
    | ok ls =>
      simp only [hl] at h
      cases hd : defaultFirst ls with
      | ok layers => simp only [hd] at h; cases h; rfl
      | err e => simp [hd] at h
      | panic s => simp [hd] at h
    | err e => simp [hl] at h
    | panic s => simp [hl] at h
  | some i =>
    simp only [hfi] at h
    cases hli : loadInfo i (t.lib.getD []) with
    | err e => simp [hli] at h
    | panic s => simp [hli] at h
    | ok p =>
      obtain ⟨info, lib⟩ := p
      simp only [hli] at h
      cases hl : loadLayers t t.layercontents with
      | ok ls =>
        simp only [hl] at h
        cases hd : defaultFirst ls with
        | ok layers => simp only [hd] at h; cases h; rfl
        | err e => simp [hd] at h
        | panic s => simp [hd] at h
      | err e => simp [hl] at h
      | panic s => simp [hl] at h

/-- the tree of the recorded finding: lib.plist with the reserved key, no fontinfo.plist -/
def objLibsNoInfoTree : Tree where
  creator := some "x"
  fv := 3
  minor := 0
  fontinfo := none
  lib := some [("public.objectLibs", PV.dict [("g1", PV.dict [("k", PV.str "v")])]), ("other", PV.int 1)]
  groups := none
  kerning := none
  features := none
  layercontents := [("public.default", "glyphs")]
  dirs := [("glyphs", { contents := [], info := none, glifs := [] })]
  data := []
  images := []

/-- the full-strength fixed-point statement is false: this tree loads, and the loaded font is refused
    by `saveFont` (the reserved key is only consumed when fontinfo.plist exists) -/
theorem objectlibs_key_without_fontinfo_counterexample :
    ∃ f, loadFont objLibsNoInfoTree = .ok f ∧ saveFont f = .err .objectLibsKey := by
  exact ⟨_, rfl, rfl⟩

end RT
