import Norad.Props.C01
import Mathlib.Data.List.Perm.Basic
import Mathlib.Data.List.Nodup
/-!
# C04 — load, save, load again: input is normalised without loss

(Font P) level, on the model of `Model/RoundTrip.lean`.  What `loadFont` returns after norad's own
`saveFont` is again a valid font inside the number guards (`rtFont_valid`, `rtFont_numbers`), so one
more save + load returns the same font (`norad_output_is_fixed_point`); whatever is written says
creator norad / format 3 (`output_is_v3`); a default layer anywhere in `layercontents.plist` is moved
to the front and the others keep their order (`layers_default_moved_to_front`, in `Props/C01`).

Full-strength statement for arbitrary accepted trees,
  `loadFont t = .ok f → ∃ t' f', saveFont f = .ok t' ∧ loadFont t' = .ok f' ∧ FontEquiv L f f'`,
is FALSE on the tree: `objectlibs_key_without_fontinfo_counterexample` (recorded finding).
Under the guards "layer directories and glif file names listed once, the reserved lib key only together
with fontinfo.plist" every loaded font is representable (`loaded_is_representable`) and, with the
number guards, `load_save_load_fixed_point` holds for arbitrary accepted trees.
Glif format 2 of what is written is below this model (glyphs are tokens): checked by the oracle.
-/
namespace RT

variable {P : Parts} (L : PartLaws P)

theorem sortGuide_id (g : Guide) : (sortGuide g).id = g.id := rfl

theorem rtInfo_guides_ids (i : (Info P)) :
    ((rtInfo i).guides.getD []).map (·.id) = (i.guides.getD []).map (·.id) := by
  simp only [rtInfo]
  cases i.guides with
  | none => rfl
  | some gs => simp [List.map_map, Function.comp_def, sortGuide_id]

/-- what `load(save(f))` returns can be saved again: it is a valid font -/
theorem rtFont_valid (N : NormLaws L) (f : (Font P)) (hv : ValidFont L f) : ValidFont L (rtFont L f) where
  fv := rfl
  noKey := by
    simp only [rtFont, rtLib]
    split
    · rw [lookup_sortDict, hv.noKey]; rfl
    · exact lookupKV_erase_self _ _
  ids := by
    have := rtInfo_guides_ids f.info
    simp only [rtFont]
    rw [this]; exact hv.ids
  libIds := by
    intro g hg l hl
    simp only [rtFont, rtInfo] at hg
    cases hgs : f.info.guides with
    | none => rw [hgs] at hg; simp at hg
    | some gs =>
      rw [hgs] at hg
      simp only [Option.map_some, Option.getD_some, List.mem_map] at hg
      obtain ⟨g0, hg0, rfl⟩ := hg
      simp only [sortGuide] at hl
      cases hl0 : g0.lib with
      | none => rw [hl0] at hl; cases hl
      | some l0 =>
        have := hv.libIds g0 (by rw [hgs]; exact hg0) l0 hl0
        exact this
  dirs := by
    have : (rtFont L f).layers.map (·.dir) = f.layers.map (·.dir) := by
      simp [rtFont, rtLayer, List.map_map, Function.comp_def]
    rw [this]; exact hv.dirs
  defFirst := by
    obtain ⟨l, r, h1, h2⟩ := hv.defFirst
    exact ⟨rtLayer L l, r.map (rtLayer L), by simp [rtFont, h1], h2⟩
  files := by
    intro l hl
    simp only [rtFont, List.mem_map] at hl
    obtain ⟨l0, hl0, rfl⟩ := hl
    have : (rtLayer L l0).glyphs.map (·.file) = l0.glyphs.map (·.file) := by
      simp [rtLayer, normE, List.map_map, Function.comp_def]
    rw [this]; exact hv.files l0 hl0
  glyphsOK := by
    intro l hl g hg
    simp only [rtFont, List.mem_map] at hl
    obtain ⟨l0, hl0, rfl⟩ := hl
    simp only [rtLayer, List.mem_map] at hg
    obtain ⟨g0, hg0, rfl⟩ := hg
    exact N.norm_ok g0.tok (hv.glyphsOK l0 hl0 g0 hg0)
  restValid := hv.restValid

theorem numOK_ofInt (k : ℤ) : NumOK (NumV.ofInt k) := by
  intro q hq
  simp only [NumV.val?, Option.some.injEq] at hq
  subst hq
  by_cases h : k = 0
  · left; simp [h]
  · right
    have h1 : (1 : ℚ) ≤ |(k : ℚ)| := by
      have : (1 : ℤ) ≤ |k| := Int.one_le_abs h
      exact_mod_cast this
    have := eps_small
    linarith

/-- a number that went through a writer and back is again inside the guard -/
theorem numOK_roundtrip (w : ℚ → Num) (v : NumV) (hv : NumOK v) : NumOK (readNum (writeWith w v)) := by
  unfold writeWith
  cases h : v.val? with
  | none => simpa [readNum] using hv
  | some q =>
    simp only
    cases w q with
    | int k => exact numOK_ofInt k
    | real x => simpa [readNum] using hv

theorem truncQ_nonneg (q : ℚ) (h : 0 ≤ q) : 0 ≤ truncQ q := by
  unfold truncQ; rw [if_pos h, floor_eq]; exact Int.floor_nonneg.2 h

theorem sat32_nonneg (n : ℤ) (h : 0 ≤ n) : 0 ≤ sat32 n := by
  unfold sat32 i32Min i32Max; split
  · omega
  · split <;> omega

/-- what `load(save(f))` returns is inside the number guards again -/
theorem rtFont_numbers (f : (Font P)) (hn : NumbersOK f) : NumbersOK (rtFont L f) where
  info := by
    intro e he hl
    simp only [rtFont, rtInfo, loadNums, saveNums, List.map_map, List.mem_map, Function.comp_def] at he
    obtain ⟨e0, he0, rfl⟩ := he
    simp only at hl ⊢
    simp only [hl, Bool.false_eq_true, if_false]
    exact numOK_roundtrip infoWrite e0.2 (hn.info e0 he0 hl)
  upm := by
    intro v hv
    simp only [rtFont, rtInfo] at hv
    cases hu : f.info.upm with
    | none => rw [hu] at hv; cases hv
    | some v0 =>
      rw [hu] at hv
      simp only [Option.map_some, Option.some.injEq] at hv
      subst hv
      obtain ⟨h1, h2⟩ := hn.upm v0 hu
      refine ⟨numOK_roundtrip upmWrite v0 h1, ?_⟩
      intro q hq
      unfold writeWith at hq
      cases hq0 : v0.val? with
      | none => rw [hq0] at hq; simp only [readNum] at hq; rw [hq0] at hq; cases hq
      | some q0 =>
        rw [hq0] at hq
        simp only at hq
        have h0 := h2 q0 hq0
        cases hw : upmWrite q0 with
        | int k =>
          rw [hw] at hq
          simp only [readNum, NumV.val?, Option.some.injEq] at hq
          subst hq
          unfold upmWrite at hw
          split at hw
          · cases hw
            exact_mod_cast sat32_nonneg _ (truncQ_nonneg q0 h0)
          · cases hw
        | real x =>
          rw [hw] at hq
          simp only [readNum] at hq
          rw [hq0] at hq; cases hq; exact h0
  kerning := by
    intro e he p hp
    simp only [rtFont, loadKerning, saveKerning, List.map_map, List.mem_map, Function.comp_def] at he
    obtain ⟨e0, he0, rfl⟩ := he
    simp only [List.mem_map] at hp
    obtain ⟨p0, hp0, rfl⟩ := hp
    exact numOK_roundtrip kernWrite p0.2 (hn.kerning e0 he0 p0 hp0)
  colours := by
    intro l hl c hc
    simp only [rtFont, List.mem_map] at hl
    obtain ⟨l0, hl0, rfl⟩ := hl
    simp only [rtLayer] at hc
    cases hc0 : l0.color with
    | none => rw [hc0] at hc; cases hc
    | some c0 => rw [hc0] at hc; cases hc; trivial

/-- **C04, norad's own output.**  For every valid font inside the number guards: the font obtained by
    save + load can be saved and loaded again, and that returns the same font (layers in order,
    colours, libs as maps, numbers within tolerance, feature text up to CR LF). -/
theorem norad_output_is_fixed_point (N : NormLaws L) (f : (Font P)) (hv : ValidFont L f) (hn : NumbersOK f) :
    ∃ t f', saveFont f = .ok t ∧ loadFont t = .ok f' ∧
      ∃ t' f'', saveFont f' = .ok t' ∧ loadFont t' = .ok f'' ∧ FontEquiv L f' f'' := by
  obtain ⟨t, h1, h2⟩ := save_load_eq L f hv
  refine ⟨t, rtFont L f, h1, h2, ?_⟩
  exact font_roundtrip L (rtFont L f) (rtFont_valid L N f hv) (rtFont_numbers L f hn)

/-- whatever font is saved (also one that came from a format 1 or 2 tree: `load_impl` sets the format
    version to 3 before returning), the written metainfo says creator norad, formatVersion 3 -/
theorem output_is_v3 (f : (Font P)) (t : (Tree P)) (h : saveFont f = .ok t) :
    t.creator = some defaultCreator ∧ t.fv = 3 := metainfo_roundtrip f t h

/-- every loaded font carries format version 3 -/
theorem loaded_is_v3 (t : (Tree P)) (f : (Font P)) (h : loadFont t = .ok f) : f.fv = 3 := by
  unfold loadFont at h
  cases hfi : t.fontinfo with
  | none =>
    simp only [hfi] at h
    cases hl : loadLayers t t.layercontents with
    | ok ls =>
      simp only [hl] at h
      cases hd : defaultFirst ls with
      | ok layers => simp only [hd] at h; cases h; rfl
      | err e => simp [hd] at h
      | panic s => simp [hd] at h
    | err e => simp [hl] at h
    | panic s => simp [hl] at h
  | some i =>
    simp only [hfi] at h
    cases hli : loadInfo i (t.lib.getD []) with
    | err e => simp [hli] at h
    | panic s => simp [hli] at h
    | ok p =>
      obtain ⟨info, lib⟩ := p
      simp only [hli] at h
      cases hl : loadLayers t t.layercontents with
      | ok ls =>
        simp only [hl] at h
        cases hd : defaultFirst ls with
        | ok layers => simp only [hd] at h; cases h; rfl
        | err e => simp [hd] at h
        | panic s => simp [hd] at h
      | err e => simp [hl] at h
      | panic s => simp [hl] at h

theorem nodupS_iff (l : List String) : nodupS l = true ↔ l.Nodup := by
  induction l with
  | nil => simp [nodupS]
  | cons a r ih => simp [nodupS, ih]

theorem attachLibs_ids (gs : List GuideF) : ∀ (d : Dict) (gs' : List Guide), attachLibs gs d = .ok gs' →
    gs'.map (·.id) = gs.map (·.id) ∧ LibsHaveIds gs' := by
  induction gs with
  | nil =>
    intro d gs' h
    simp only [attachLibs] at h
    cases h
    exact ⟨rfl, by intro g hg; cases hg⟩
  | cons g r ih =>
    intro d gs' h
    simp only [attachLibs] at h
    cases hid : g.id with
    | none =>
      simp only [hid] at h
      cases hr : attachLibs r d with
      | ok gs0 =>
        simp only [hr] at h
        cases h
        obtain ⟨h1, h2⟩ := ih d gs0 hr
        refine ⟨by simp [h1, hid], ?_⟩
        intro x hx l hl
        rcases List.mem_cons.1 hx with rfl | hx'
        · cases hl
        · exact h2 x hx' l hl
      | err e => simp [hr] at h
      | panic s => simp [hr] at h
    | some i =>
      simp only [hid] at h
      cases hlk : lookupKV i d with
      | none =>
        simp only [hlk] at h
        cases hr : attachLibs r d with
        | ok gs0 =>
          simp only [hr] at h
          cases h
          obtain ⟨h1, h2⟩ := ih d gs0 hr
          refine ⟨by simp [h1, hid], ?_⟩
          intro x hx l hl
          rcases List.mem_cons.1 hx with rfl | hx'
          · cases hl
          · exact h2 x hx' l hl
        | err e => simp [hr] at h
        | panic s => simp [hr] at h
      | some v =>
        simp only [hlk] at h
        cases v with
        | dict l0 =>
          simp only at h
          cases hr : attachLibs r (eraseKV i d) with
          | ok gs0 =>
            simp only [hr] at h
            cases h
            obtain ⟨h1, h2⟩ := ih _ gs0 hr
            refine ⟨by simp [h1, hid], ?_⟩
            intro x hx l hl
            rcases List.mem_cons.1 hx with rfl | hx'
            · exact ⟨i, rfl⟩
            · exact h2 x hx' l hl
          | err e => simp [hr] at h
          | panic s => simp [hr] at h
        | str _ => simp at h
        | int _ => simp at h
        | real _ => simp at h
        | bool _ => simp at h
        | data _ => simp at h
        | date _ => simp at h
        | arr _ => simp at h

theorem plainGuides_ids (gs : List GuideF) :
    (plainGuides gs).map (·.id) = gs.map (·.id) ∧ LibsHaveIds (plainGuides gs) := by
  refine ⟨by simp [plainGuides, List.map_map, Function.comp_def], ?_⟩
  intro g hg l hl
  simp only [plainGuides, List.mem_map] at hg
  obtain ⟨g0, _, rfl⟩ := hg
  cases hl

/-- what `loadInfo` returns: identifiers unique, libs only on guidelines with identifiers, the
    reserved key gone from the lib -/
theorem loadInfo_valid (i : (InfoF P)) (lib : Dict) (info : (Info P)) (lib' : Dict)
    (h : loadInfo i lib = .ok (info, lib')) :
    idsNodup ((info.guides.getD []).map (·.id)) = true ∧ LibsHaveIds (info.guides.getD []) ∧
    lookupKV objectLibsKey lib' = none ∧ restOK info = true := by
  unfold loadInfo at h
  split at h
  · cases h
  · rename_i hn
    simp only [Bool.not_eq_true, Bool.not_eq_false'] at hn
    have hn' : idsNodup ((i.guides.getD []).map (·.id)) = true := by
      cases hh : idsNodup ((i.guides.getD []).map (·.id)) <;> simp_all
    have hr : ∃ rest, loadRest i.rest = some rest := by
      cases hr : loadRest i.rest with
      | none => simp [hr] at h
      | some rest => exact ⟨rest, rfl⟩
    obtain ⟨rest, hr⟩ := hr
    simp only [hr] at h
    have hro : ∀ x : (Info P), x.rest = rest → restOK x = true := by
      intro x hx
      unfold restOK; rw [hx]
      unfold loadRest at hr
      cases hi : i.rest with
      | none => rw [hi] at hr; cases hr; rfl
      | some rf =>
        rw [hi] at hr
        simp only at hr
        cases hd : P.decRest rf with
        | none => rw [hd] at hr; cases hr
        | some y =>
          rw [hd] at hr
          simp only at hr
          by_cases hv : P.restValid y = true
          · simp only [hv, if_true, Option.some.injEq] at hr; subst hr; exact hv
          · simp [hv] at hr
    cases hlk : lookupKV objectLibsKey lib with
    | none =>
      simp only [hlk] at h
      cases h
      refine ⟨?_, ?_, hlk, hro _ rfl⟩
      · cases hg : i.guides with
        | none => rfl
        | some gs => rw [hg] at hn'; simpa [(plainGuides_ids gs).1] using hn'
      · cases hg : i.guides with
        | none => intro g hg'; cases hg'
        | some gs => simpa using (plainGuides_ids gs).2
    | some v =>
      simp only [hlk] at h
      cases v with
      | dict ol =>
        simp only at h
        cases hg : i.guides with
        | none =>
          simp only [hg] at h
          cases h
          exact ⟨rfl, (by intro g hg'; cases hg'), lookupKV_erase_self _ _, hro _ rfl⟩
        | some gs =>
          simp only [hg] at h
          cases ha : attachLibs gs ol with
          | ok gs' =>
            simp only [ha] at h
            cases h
            obtain ⟨h1, h2⟩ := attachLibs_ids gs ol gs' ha
            rw [hg] at hn'
            exact ⟨by simpa [h1] using hn', by simpa using h2, lookupKV_erase_self _ _, hro _ rfl⟩
          | err e => simp [ha] at h
          | panic s => simp [ha] at h
      | str _ => simp at h
      | int _ => simp at h
      | real _ => simp at h
      | bool _ => simp at h
      | data _ => simp at h
      | date _ => simp at h
      | arr _ => simp at h

theorem loadGlyphs_files (d : (LayerDirF P)) : ∀ (c : List (String × String)) (gs : List (GlyphE P)),
    loadGlyphs d c = some gs → gs.map (·.file) = c.map (·.2) := by
  intro c
  induction c with
  | nil => intro gs h; simp only [loadGlyphs] at h; cases h; rfl
  | cons e r ih =>
    intro gs h
    obtain ⟨n, file⟩ := e
    simp only [loadGlyphs] at h
    cases hl : lookupS file d.glifs with
    | none => simp [hl] at h
    | some gf =>
      cases hdc : P.decGlyph gf with
      | none => simp [hl, hdc] at h
      | some tok =>
        cases hr : loadGlyphs d r with
        | none => simp [hl, hdc, hr] at h
        | some gs0 =>
          simp only [hl, hdc, hr, Option.bind_some] at h
          cases h
          simp [ih gs0 hr]

/-- every loaded layer has the name and directory of its `layercontents.plist` entry, in order, and
    its glif file names are those of `contents.plist` -/
theorem loadLayers_shape (t : (Tree P)) : ∀ (lc : List (String × String)) (ls : List (Layer P)),
    loadLayers t lc = .ok ls →
    ls.map (·.dir) = lc.map (·.2) ∧
    ∀ l ∈ ls, ∃ d, lookupS l.dir t.dirs = some d ∧ l.glyphs.map (·.file) = d.contents.map (·.2) := by
  intro lc
  induction lc with
  | nil => intro ls h; simp only [loadLayers] at h; cases h; exact ⟨rfl, by intro l hl; cases hl⟩
  | cons e r ih =>
    intro ls h
    obtain ⟨n, dir⟩ := e
    simp only [loadLayers] at h
    cases hd : lookupS dir t.dirs with
    | none => simp [hd] at h
    | some d =>
      simp only [hd] at h
      cases hl : loadLayer n dir d with
      | none => simp [hl] at h
      | some l =>
        cases hr : loadLayers t r with
        | ok ls0 =>
          simp only [hl, hr] at h
          cases h
          obtain ⟨h1, h2⟩ := ih ls0 hr
          have hld : l.dir = dir ∧ l.glyphs.map (·.file) = d.contents.map (·.2) := by
            unfold loadLayer at hl
            cases hg : loadGlyphs d d.contents with
            | none => simp [hg] at hl
            | some gs =>
              simp only [hg] at hl
              cases hl
              exact ⟨rfl, loadGlyphs_files d _ gs hg⟩
          refine ⟨by simp [h1, hld.1], ?_⟩
          intro x hx
          rcases List.mem_cons.1 hx with rfl | hx'
          · exact ⟨d, by rw [hld.1]; exact hd, hld.2⟩
          · exact h2 x hx'
        | err e => simp [hl, hr] at h
        | panic s => simp [hl, hr] at h

theorem defaultFirst_shape (ls ls' : List (Layer P)) (h : defaultFirst ls = .ok ls') :
    ls'.Perm ls ∧ ∃ l r, ls' = l :: r ∧ l.dir = glyphsDir := by
  unfold defaultFirst at h
  cases hf : findDefault ls with
  | none => simp [hf] at h
  | some i =>
    simp only [hf] at h
    obtain ⟨d, h1, h2, _⟩ := findDefault_spec ls i hf
    simp only [h1] at h
    cases h
    have hi : i < ls.length := by
      rcases Nat.lt_or_ge i ls.length with hlt | hge
      · exact hlt
      · rw [List.getElem?_eq_none hge] at h1; cases h1
    have hd : ls[i] = d := by
      rw [List.getElem?_eq_getElem hi] at h1; exact Option.some.inj h1
    refine ⟨?_, d, _, rfl, h2⟩
    rw [← hd]
    exact List.getElem_cons_eraseIdx_perm hi

/-- **C04, arbitrary accepted trees.**  Whatever `loadFont` returns for a tree that lists every layer
    directory once, every glif file once per layer, and holds the reserved lib key only together with
    a fontinfo.plist, is a font `saveFont` accepts (the structural half of "everything accepted by the
    reader is representable by the writer"; the number guards are separate) -/
theorem loaded_is_representable (t : (Tree P)) (f : (Font P)) (h : loadFont t = .ok f)
    (hdirs : nodupS (t.layercontents.map (·.2)) = true)
    (hfiles : ∀ e ∈ t.dirs, nodupS (e.2.contents.map (·.2)) = true)
    (hkey : t.fontinfo.isSome = true ∨ lookupKV objectLibsKey (t.lib.getD []) = none)
    (hglyphs : ∀ l ∈ f.layers, ∀ g ∈ l.glyphs, L.glyphOK g.tok) :
    ValidFont L f := by
  have hfv := loaded_is_v3 t f h
  unfold loadFont at h
  -- the layer half is the same in both branches
  have layerHalf : ∀ ls layers, loadLayers t t.layercontents = .ok ls → defaultFirst ls = .ok layers →
      nodupS (layers.map (·.dir)) = true ∧ (∃ l r, layers = l :: r ∧ l.dir = glyphsDir) ∧
      ∀ l ∈ layers, nodupS (l.glyphs.map (·.file)) = true := by
    intro ls layers hl hd
    obtain ⟨h1, h2⟩ := loadLayers_shape t _ ls hl
    obtain ⟨hp, hfirst⟩ := defaultFirst_shape ls layers hd
    refine ⟨?_, hfirst, ?_⟩
    · rw [nodupS_iff] at hdirs ⊢
      rw [← h1] at hdirs
      exact (List.Perm.nodup_iff (hp.map _)).2 hdirs
    · intro l hl'
      obtain ⟨d, hd1, hd2⟩ := h2 l (hp.subset hl')
      rw [hd2]
      -- the directory found by lookup is one of the tree's directories
      have : ∀ (ds : List (String × (LayerDirF P))), lookupS l.dir ds = some d → (l.dir, d) ∈ ds := by
        intro ds
        induction ds with
        | nil => intro hh; simp [lookupS] at hh
        | cons x xs ihx =>
          intro hh
          obtain ⟨k, v⟩ := x
          simp only [lookupS] at hh
          split at hh
          · rename_i hk; cases hh; subst hk; exact List.mem_cons_self ..
          · exact List.mem_cons_of_mem _ (ihx hh)
      exact hfiles _ (this t.dirs hd1)
  cases hfi : t.fontinfo with
  | none =>
    simp only [hfi] at h
    cases hl : loadLayers t t.layercontents with
    | ok ls =>
      simp only [hl] at h
      cases hd : defaultFirst ls with
      | ok layers =>
        simp only [hd] at h
        cases h
        obtain ⟨a, b, c⟩ := layerHalf ls layers hl hd
        have hk : lookupKV objectLibsKey (t.lib.getD []) = none := by
          rcases hkey with hk | hk
          · rw [hfi] at hk; cases hk
          · exact hk
        exact { fv := rfl, noKey := hk, ids := rfl, libIds := (by intro g hg; cases hg),
                dirs := a, defFirst := b, files := c, glyphsOK := hglyphs, restValid := rfl }
      | err e => simp [hd] at h
      | panic s => simp [hd] at h
    | err e => simp [hl] at h
    | panic s => simp [hl] at h
  | some i =>
    simp only [hfi] at h
    cases hli : loadInfo i (t.lib.getD []) with
    | err e => simp [hli] at h
    | panic s => simp [hli] at h
    | ok p =>
      obtain ⟨info, lib⟩ := p
      simp only [hli] at h
      obtain ⟨i1, i2, i3, i4⟩ := loadInfo_valid i _ info lib hli
      cases hl : loadLayers t t.layercontents with
      | ok ls =>
        simp only [hl] at h
        cases hd : defaultFirst ls with
        | ok layers =>
          simp only [hd] at h
          cases h
          obtain ⟨a, b, c⟩ := layerHalf ls layers hl hd
          exact { fv := rfl, noKey := i3, ids := i1, libIds := i2, dirs := a, defFirst := b, files := c,
                  glyphsOK := hglyphs, restValid := i4 }
        | err e => simp [hd] at h
        | panic s => simp [hd] at h
      | err e => simp [hl] at h
      | panic s => simp [hl] at h

/-- **C04, model level.**  Every accepted tree inside the guards: the loaded font is saved without
    error, the result loads, and the two loaded fonts are the same font (equal up to the creator tag —
    not part of `FontEquiv` — and CR LF in the feature text; numbers within tolerance) -/
theorem load_save_load_fixed_point (t : (Tree P)) (f : (Font P)) (h : loadFont t = .ok f)
    (hdirs : nodupS (t.layercontents.map (·.2)) = true)
    (hfiles : ∀ e ∈ t.dirs, nodupS (e.2.contents.map (·.2)) = true)
    (hkey : t.fontinfo.isSome = true ∨ lookupKV objectLibsKey (t.lib.getD []) = none)
    (hglyphs : ∀ l ∈ f.layers, ∀ g ∈ l.glyphs, L.glyphOK g.tok)
    (hn : NumbersOK f) :
    ∃ t' f', saveFont f = .ok t' ∧ loadFont t' = .ok f' ∧ FontEquiv L f f' :=
  font_roundtrip L f (loaded_is_representable L t f h hdirs hfiles hkey hglyphs) hn

/-- the tree of the recorded finding: lib.plist with the reserved key, no fontinfo.plist -/
def objLibsNoInfoTree : Tree tokenParts where
  creator := some "x"
  fv := 3
  minor := 0
  fontinfo := none
  lib := some [("public.objectLibs", PV.dict [("g1", PV.dict [("k", PV.str "v")])]), ("other", PV.int 1)]
  groups := none
  kerning := none
  features := none
  layercontents := [("public.default", "glyphs")]
  dirs := [("glyphs", { contents := [], info := none, glifs := [] })]
  data := []
  images := []

/-- the full-strength fixed-point statement is false: this tree loads, and the loaded font is refused
    by `saveFont` (the reserved key is only consumed when fontinfo.plist exists) -/
theorem objectlibs_key_without_fontinfo_counterexample :
    ∃ f, loadFont objLibsNoInfoTree = .ok f ∧ saveFont f = .err .objectLibsKey := by
  exact ⟨_, rfl, rfl⟩

/-! ## source-level tie, reader side (see `Props/C01.lean`, section "source-level tie") -/

/-- what the loader of the model gives for every optional file that is absent -/
def modelAbsentReads : List (String × String) :=
  [("data", "empty"), ("features.fea", "empty"), ("fontinfo.plist", "empty"), ("groups.plist", "empty"),
   ("images", "empty"), ("kerning.plist", "empty"), ("layerinfo.plist", "none+empty"),
   ("layerinfo.plist:color", "none"), ("layerinfo.plist:lib", "empty"), ("lib.plist", "empty")]

/-- what `load_impl` / `Layer::load_impl` / `parse_layer_info` give in the source when a file or key is absent is
    what `loadFont` gives in the model -/
theorem source_absent_reads_match_model : Generated.RoundTrip.absentReads = modelAbsentReads := by decide

/-- a tree holding only the mandatory files -/
def minimalTree : Tree tokenParts where
  creator := none
  fv := 3
  minor := 0
  fontinfo := none
  lib := none
  groups := none
  kerning := none
  features := none
  layercontents := [("public.default", "glyphs")]
  dirs := [("glyphs", { contents := [], info := none, glifs := [] })]
  data := []
  images := []

/-- `modelAbsentReads` describes the model: loading a tree without the optional files gives the empty value of
    every part (which is exactly the value at which `saveFont` does not write the file: `model_file_gates`) -/
theorem model_absent_files_read_as_empty :
    ∃ f, loadFont minimalTree = .ok f ∧ f.lib = [] ∧ f.groups = [] ∧ f.kerning = [] ∧ f.features = [] ∧
      f.info.isEmpty = true ∧ f.data = [] ∧ f.images = [] ∧
      (f.layers.all fun l => l.color.isNone && l.lib.isEmpty) = true :=
  ⟨_, rfl, rfl, rfl, rfl, rfl, rfl, rfl, rfl, rfl⟩

end RT
