import Norad.Lemmas.C11
import Norad.Generated.ContourAutomaton
/-!
# C11 — a contour is accepted exactly when its point sequence is legal

Property theorems only.  `accepts` is the transcription of the builder (`Model/C11.lean`),
`Legal` the independent declarative rule (`Spec/C11.lean`).
-/
namespace C11

/-- **C11, full strength**: the builder accepts a point sequence exactly when it is legal. -/
theorem accepts_iff_legal (pts : List Pt) : accepts pts = true ↔ Legal pts := by
  unfold accepts Legal
  constructor
  · intro h
    cases hf : feed pts true 0 with
    | error e => simp [hf] at h
    | ok n =>
      simp only [hf] at h
      have hl : LinearOK pts := (feed_top pts).1 ⟨n, hf⟩
      have hn := feed_top_val pts n hf
      have he : endPath pts n = .ok () := by
        cases he : endPath pts n with
        | error e => simp [he] at h
        | ok u => rfl
      rw [endPath_ok_iff] at he
      refine ⟨hl, ?_⟩
      by_cases hc : isClosed pts = true
      · simp only [hc, if_true]
        apply (closed_end_iff pts hc hl).1
        rcases he with h0 | ⟨_, hw⟩
        · left; omega
        · right; rw [← hn]; exact hw
      · simp only [hc]
        rcases he with h0 | ⟨hc', _⟩
        · simp; omega
        · exact absurd hc' hc
  · intro ⟨hl, hend⟩
    obtain ⟨n, hf⟩ := (feed_top pts).2 hl
    have hn := feed_top_val pts n hf
    simp only [hf]
    have he : endPath pts n = .ok () := by
      rw [endPath_ok_iff]
      by_cases hc : isClosed pts = true
      · simp only [hc, if_true] at hend
        rcases (closed_end_iff pts hc hl).2 hend with h0 | hw
        · left; omega
        · right; exact ⟨hc, by rw [hn]; exact hw⟩
      · simp only [hc] at hend
        left; simp at hend; omega
    simp [he]

/-- the executable oracle used by the driver is the declarative rule -/
theorem legalB_iff_legal (pts : List Pt) : legalB pts = true ↔ Legal pts := by
  unfold legalB Legal
  rw [Bool.and_eq_true, linearB_iff]
  constructor
  · rintro ⟨h1, h2⟩
    refine ⟨by simpa using h1, ?_⟩
    split
    · rename_i hc; simp only [hc, if_true] at h2; exact (cyclicB_iff pts).1 h2
    · rename_i hc; simp only [hc] at h2; simpa using h2
  · rintro ⟨h1, h2⟩
    refine ⟨by simpa using h1, ?_⟩
    split
    · rename_i hc; simp only [hc, if_true] at h2; exact (cyclicB_iff pts).2 h2
    · rename_i hc; simp only [hc] at h2; simpa using h2

/-- the builder and the executable oracle agree on every point sequence -/
theorem accepts_eq_legalB (pts : List Pt) : accepts pts = legalB pts := by
  have h1 := accepts_iff_legal pts
  have h2 := legalB_iff_legal pts
  cases ha : accepts pts <;> cases hb : legalB pts <;> simp_all

/-- an outline is accepted iff every contour is legal -/
theorem parseContours_isSome_iff (cs : List (List Pt)) :
    (parseContours cs).isSome = true ↔ ∀ c ∈ cs, Legal c := by
  induction cs with
  | nil => simp [parseContours]
  | cons c cs ih =>
    simp only [parseContours, List.mem_cons, forall_eq_or_imp]
    by_cases hc : accepts c = true
    · have hl := (accepts_iff_legal c).1 hc
      simp only [hc, if_true]
      cases hp : parseContours cs with
      | none => simp [hp] at ih; simpa [hl] using ih
      | some r => simp [hp] at ih; simpa [hl] using ih
    · have hl : ¬ Legal c := fun h => hc ((accepts_iff_legal c).2 h)
      simp [hc, hl]

/-- accepted contours are returned in order and unchanged; exactly the empty ones are dropped -/
theorem accepted_points_unchanged (cs r : List (List Pt)) (h : parseContours cs = some r) :
    r = cs.filter (fun c => !c.isEmpty) := by
  induction cs generalizing r with
  | nil => simp [parseContours] at h; simp [h]
  | cons c cs ih =>
    simp only [parseContours] at h
    split at h
    · cases hp : parseContours cs with
      | none => simp [hp] at h
      | some r' =>
        simp only [hp, Option.some.injEq] at h
        have := ih r' hp
        subst h
        cases hce : c.isEmpty <;> simp [hce, this]
    · simp at h

/-- a closed contour made of off-curve points only is legal, whatever its length -/
theorem all_offcurve_closed_legal (pts : List Pt)
    (h : ∀ p ∈ pts, p.typ = .off ∧ p.smooth = false) : Legal pts := by
  refine ⟨?_, ?_⟩
  · intro a p b hab
    have hp := h p (by simp [hab])
    refine ⟨by simp [hp.1], by simp [hp.1], by simp [hp.1], fun _ => hp.2⟩
  · have hc : isClosed pts = true := by
      cases pts with
      | nil => rfl
      | cons q _ => simp [isClosed, (h q (by simp)).1]
    simp only [hc, if_true]
    intro a p b hab
    have hp := h p (by simp [hab])
    simp [hp.1]

/-! ### named points and the format-1 anchor upgrade -/

/-- point names play no part in acceptance: an outline is accepted iff every contour's type/smooth
    sequence is legal -/
theorem parseOutline_isSome_iff (v1 : Bool) (cs : List (List (Pt × Bool))) :
    (parseOutline v1 cs).isSome = true ↔ ∀ c ∈ cs, Legal (c.map Prod.fst) := by
  unfold parseOutline
  have h := parseContours_isSome_iff (cs.map (·.map Prod.fst))
  cases hp : parseContours (cs.map (·.map Prod.fst)) with
  | none =>
    simp only [hp, Option.isSome_none, Bool.false_eq_true, false_iff] at h ⊢
    intro hall
    apply h
    intro c hc
    obtain ⟨c', hc', rfl⟩ := List.mem_map.1 hc
    exact hall c' hc'
  | some r =>
    simp only [hp, Option.isSome_some, true_iff] at h
    have : ∀ c ∈ cs, Legal (c.map Prod.fst) := fun c hc => h _ (List.mem_map.2 ⟨c, hc, rfl⟩)
    cases v1 <;> simpa using this

theorem mem_enumFrom {α : Type} (l : List α) (i n : Nat) (a : α) :
    (n, a) ∈ enumFrom i l ↔ ∃ k, n = i + k ∧ l[k]? = some a := by
  induction l generalizing i with
  | nil => simp [enumFrom]
  | cons b r ih =>
    simp only [enumFrom, List.mem_cons, Prod.mk.injEq, ih]
    constructor
    · rintro (⟨rfl, rfl⟩ | ⟨k, rfl, hk⟩)
      · exact ⟨0, rfl, rfl⟩
      · exact ⟨k + 1, by omega, by simpa using hk⟩
    · rintro ⟨k, rfl, hk⟩
      cases k with
      | zero => left; simpa using hk.symm
      | succ k => right; exact ⟨k, by omega, by simpa using hk⟩

/-- **format 2**: every non-empty contour is returned, with every point (named or not) where it was -/
theorem v2_contours_unchanged (cs : List (List (Pt × Bool))) (kept : List (Nat × List (Pt × Bool)))
    (anchors : List Nat) (h : parseOutline false cs = some (kept, anchors)) :
    kept = (enumFrom 0 cs).filter (fun e => !e.2.isEmpty) ∧ anchors = [] := by
  unfold parseOutline at h
  cases hp : parseContours (cs.map (·.map Prod.fst)) with
  | none => simp [hp] at h
  | some r => simp [hp] at h; exact ⟨h.1.symm, h.2⟩

/-- **format 1**: exactly the contours that consist of one named `move` point become anchors; every other
    non-empty contour is returned unchanged — in particular a named first point of a longer contour stays -/
theorem v1_single_named_move_becomes_anchor (cs : List (List (Pt × Bool)))
    (kept : List (Nat × List (Pt × Bool))) (anchors : List Nat) (h : parseOutline true cs = some (kept, anchors)) :
    (∀ n, n ∈ anchors ↔ ∃ p, cs[n]? = some [(p, true)] ∧ p.typ = .move) ∧
    (∀ n c, (n, c) ∈ kept ↔ cs[n]? = some c ∧ c ≠ [] ∧ isImplicitAnchor c = false) := by
  unfold parseOutline at h
  cases hp : parseContours (cs.map (·.map Prod.fst)) with
  | none => simp [hp] at h
  | some r =>
    simp only [hp, if_true, Option.some.injEq, Prod.mk.injEq] at h
    obtain ⟨rfl, rfl⟩ := h
    constructor
    · intro n
      simp only [List.mem_map, List.mem_filter, Bool.not_eq_true', Prod.exists, exists_and_right,
        exists_eq_right]
      constructor
      · rintro ⟨c, ⟨hmem, _⟩, hia⟩
        obtain ⟨k, hk, hc⟩ := (mem_enumFrom cs 0 n c).1 hmem
        have hn : n = k := by omega
        subst hn
        unfold isImplicitAnchor at hia
        match c, hia with
        | [(p, true)], hia => exact ⟨p, hc, by simpa using hia⟩
      · rintro ⟨p, hc, hp'⟩
        refine ⟨[(p, true)], ⟨(mem_enumFrom cs 0 n _).2 ⟨n, by omega, hc⟩, by simp⟩, by simp [isImplicitAnchor, hp']⟩
    · intro n c
      simp only [List.mem_filter, Bool.not_eq_true', List.isEmpty_eq_false_iff]
      constructor
      · rintro ⟨⟨hmem, hne⟩, hia⟩
        obtain ⟨k, hk, hc⟩ := (mem_enumFrom cs 0 n c).1 hmem
        have hn : n = k := by omega
        subst hn
        exact ⟨hc, hne, hia⟩
      · rintro ⟨hc, hne, hia⟩
        exact ⟨⟨(mem_enumFrom cs 0 n c).2 ⟨n, by omega, hc⟩, hne⟩, hia⟩

/-! ## source-level tie: the automaton regenerated from `src/glyph/builder.rs` on every run

`Generated/ContourAutomaton.lean` is written by `tools/extract_contour_automaton.py` from the `match` arms of
`add_point` and of the wrap-around loop of `end_path` as they stand in the working tree.  The three theorems
below say that the regenerated functions ARE the hand-written model's, so `accepts_iff_legal` and everything
above is re-checked against the current source; a changed threshold, error or counter update in the Rust makes
one of them fail to check (and the correspondence run then looks for the concrete contour). -/

theorem source_addPoint_eq_model : Gen.addPoint = addPoint := by
  funext e n p
  unfold Gen.addPoint addPoint
  cases p.typ <;> cases e <;> simp

theorem source_wrap_eq_model : Gen.wrap = wrap := by
  funext pts
  induction pts with
  | nil => funext n; simp [Gen.wrap, wrap]
  | cons p ps ih =>
    funext n
    unfold Gen.wrap wrap
    cases p.typ <;> simp [ih]

theorem source_endPath_eq_model : Gen.endPath = endPath := by
  funext pts n
  unfold Gen.endPath endPath
  rw [source_wrap_eq_model]

/-- the builder as regenerated from the source accepts exactly the legal sequences -/
def Gen.feed : List Pt → Bool → Nat → Except Err Nat
  | [], _, n => .ok n
  | p :: ps, e, n =>
    match Gen.addPoint e n p with
    | .error x => .error x
    | .ok n' => Gen.feed ps false n'

def Gen.accepts (pts : List Pt) : Bool :=
  match Gen.feed pts true 0 with
  | .error _ => false
  | .ok n => match Gen.endPath pts n with | .ok _ => true | .error _ => false

theorem source_accepts_iff_legal (pts : List Pt) : Gen.accepts pts = true ↔ Legal pts := by
  have hf : ∀ (ps : List Pt) e n, Gen.feed ps e n = feed ps e n := by
    intro ps
    induction ps with
    | nil => intro e n; simp [Gen.feed, feed]
    | cons p ps ih =>
      intro e n
      unfold Gen.feed feed
      rw [source_addPoint_eq_model]
      cases addPoint e n p <;> simp [ih]
  have : Gen.accepts pts = accepts pts := by
    unfold Gen.accepts accepts
    rw [hf, source_endPath_eq_model]
    rfl
  rw [this]
  exact accepts_iff_legal pts

-- non-vacuity: a closed contour starting with two off-curves and ending with one is legal
-- (wrap-around = 3 > 2 would not be)
example : accepts [⟨.off, false⟩, ⟨.curve, false⟩, ⟨.line, false⟩, ⟨.off, false⟩] = true := by decide
example : accepts [⟨.off, false⟩, ⟨.off, false⟩, ⟨.curve, false⟩, ⟨.off, false⟩] = false := by decide
example : accepts [⟨.off, false⟩, ⟨.off, false⟩, ⟨.off, false⟩] = true := by decide
example : Legal [⟨.move, false⟩, ⟨.off, false⟩, ⟨.off, false⟩, ⟨.curve, true⟩] :=
  (accepts_iff_legal _).1 (by decide)
example : ¬ Legal [⟨.move, false⟩, ⟨.line, false⟩, ⟨.off, false⟩] :=
  fun h => absurd ((accepts_iff_legal _).2 h) (by decide)

end C11
