import Norad.Model.FontSave
import Norad.Lemmas.FontSave
import Norad.Lemmas.SafePlan
import Norad.Lemmas.Determined
import Norad.Lemmas.LayerDir
import Norad.Lemmas.PlanRuns
import Norad.Lemmas.SaveTable
import Norad.Lemmas.LayerTable
/-!
# C09 — a saved tree depends only on the font and stays inside the target

Model: `FontSave.saveImpl`; relative paths taken from data (`Layer.path`, `contents` values, store keys) are
joined onto the target without normalisation, as in the code, and resolved by the abstract file system the
way the kernel does.  Specification side: `FontSave.safePaths`, `FontSave.expectedPaths`.
-/
namespace C09
open AbsFS FontSave FontLoad

variable {β : Type}

/-- every cell of the store is already loaded (nothing lazy refers to the disk) -/
def NoLazy (s : Store β) : Prop := ∀ kc ∈ s.items, ∃ b, kc.2 = .loaded b

theorem forceList_indep (cfg : Cfg β) (kind : StoreKind) (fs₁ fs₂ : FS β) (root : APath) (keys : List Path.P) :
    ∀ (items : List (Path.P × Cell β)), (∀ kc ∈ items, ∃ b, kc.2 = .loaded b) →
    forceList cfg kind fs₁ root keys items = forceList cfg kind fs₂ root keys items := by
  intro items
  induction items with
  | nil => intro _; rfl
  | cons e r ih =>
    intro h
    obtain ⟨k, c⟩ := e
    obtain ⟨b, hb⟩ := h (k, c) (List.mem_cons_self ..)
    simp only at hb
    subst hb
    unfold forceList
    simp only [forceCell]
    rw [ih (fun kc hkc => h kc (List.mem_cons_of_mem _ hkc))]

/-- **The effects of a save are a function of the font alone**: for a font without lazy cells the validation
    outcome — and with it the whole list of effects `plan cfg f d i t` that is then run on the wiped target — does
    not depend on the file system the save starts from.  (Everything `plan` mentions is taken from the font;
    it has no file-system argument.) -/
theorem save_effects_depend_only_on_font (cfg : Cfg β) (f : AFont β) (fs₁ fs₂ : FS β)
    (hd : NoLazy f.data) (hi : NoLazy f.images) :
    validatePhase cfg f fs₁ = validatePhase cfg f fs₂ := by
  unfold validatePhase forceStore
  rw [forceList_indep cfg .data fs₁ fs₂ _ _ _ hd, forceList_indep cfg .images fs₁ fs₂ _ _ _ hi]

/-- emptiness gates, at the level of the plan: an optional single-file part contributes an effect exactly when
    its content is not the empty default -/
theorem optional_part_planned_iff_nonempty (t : APath) (name : String) (tok : Nat) (b : β) :
    planOpt t name tok b = [] ↔ tok = 0 := by
  unfold planOpt
  by_cases h : tok = 0 <;> simp [h]

theorem fontinfo_planned_iff_nonempty (cfg : Cfg β) (t : APath) (i : AInfo) :
    planFontinfo cfg t i = [] ↔ i.isEmpty = true := by
  unfold planFontinfo
  by_cases h : i.isEmpty = true
  · simp [h]
  · by_cases hs : i.serialisable = true <;> simp [h, hs]

theorem images_planned_iff_nonempty (t : APath) (items : List (Path.P × β)) :
    planImages t items = [] ↔ items = [] := by
  unfold planImages
  cases items <;> simp

/-! ### frame and determined tree, for fonts whose relative paths are safe -/

theorem forced_safe {cfg : Cfg β} {f : AFont β} {fs : FS β} {d i : List (Path.P × β)}
    (hs : safePaths f = true) (hv : validatePhase cfg f fs = .ok (d, i)) :
    (∀ kb ∈ d, safeRel kb.1 = true) ∧ (∀ kb ∈ i, safeRel kb.1 = true) := by
  obtain ⟨hfd, hfi⟩ := validatePhase_ok_stores hv
  unfold safePaths at hs
  simp only [Bool.and_eq_true, List.all_eq_true] at hs
  obtain ⟨⟨_, hsd⟩, hsi⟩ := hs
  constructor
  · intro kb hkb
    obtain ⟨c, hc⟩ := forced_keys hfd kb hkb
    exact hsd _ hc
  · intro kb hkb
    obtain ⟨c, hc⟩ := forced_keys hfi kb hkb
    exact hsi _ hc

/-- **`save_frame`** (guard `safePaths`; without it: the two counterexamples below).  Whatever the outcome of the
    save — success, refusal, or a failure half-way — every path that is not at or below the target has the same
    node before and after. -/
theorem save_frame (cfg : Cfg β) (f : AFont β) (fs : FS β) (t : APath) (hs : safePaths f = true) :
    ∀ q, ¬ t <+: q → lookup (saveImpl cfg f fs t).2 q = lookup fs q := by
  intro q hq
  unfold saveImpl
  cases hv : validatePhase cfg f fs with
  | error k => rfl
  | ok di =>
    obtain ⟨d, i⟩ := di
    simp only
    cases hw : wipe fs t with
    | error e => rfl
    | ok fs1 =>
      simp only
      obtain ⟨hd, hi⟩ := forced_safe hs hv
      rw [plan_normal cfg f d i t hs hd hi]
      have := planN_frame cfg f d i t hd fs1 q hq
      unfold runN at this
      rw [this]
      exact wipe_frame hw q hq

theorem runN_cons_ok {e : NEff β} {es : List (NEff β)} {g g' : FS β} (h : runN (e :: es) g = (none, g')) :
    ∃ g2, runEff e.toEff g = (none, g2) ∧ runN es g2 = (none, g') := by
  simp only [runN, List.map, runEffs] at h
  generalize hr : runEff e.toEff g = res at h
  obtain ⟨o, x⟩ := res
  cases o with
  | none => exact ⟨x, rfl, h⟩
  | some y => simp at h

/-- **`save_tree_depends_only_on_font`** at file-system level: two successful saves of the same font (safe paths,
    nothing lazy) onto the same target path in two arbitrary well-formed file systems produce the same sub-tree
    at and below the target — paths, kinds and bytes.  Hence no remains of whatever was there before, and the
    result equals a save into a fresh path. -/
theorem save_tree_depends_only_on_font (cfg : Cfg β) (f : AFont β) (fsA fsB fsA' fsB' : FS β) (t : APath)
    (hs : safePaths f = true) (hd : NoLazy f.data) (hi : NoLazy f.images) (hwA : WF fsA) (hwB : WF fsB)
    (hA : saveImpl cfg f fsA t = (none, fsA')) (hB : saveImpl cfg f fsB t = (none, fsB')) :
    ∀ q, t <+: q → lookup fsA' q = lookup fsB' q := by
  obtain ⟨dA, iA, fs1A, hvA, hwipeA, hrunA⟩ := saveImpl_ok hA
  obtain ⟨dB, iB, fs1B, hvB, hwipeB, hrunB⟩ := saveImpl_ok hB
  have hveq := save_effects_depend_only_on_font cfg f fsA fsB hd hi
  rw [hvA, hvB] at hveq
  cases hveq
  obtain ⟨hsd, hsi⟩ := forced_safe hs hvA
  rw [plan_normal cfg f dA iA t hs hsd hsi] at hrunA hrunB
  obtain ⟨g2A, hmA, hrestA⟩ := runN_cons_ok (es := planRestN cfg f dA iA t) hrunA
  obtain ⟨g2B, hmB, hrestB⟩ := runN_cons_ok (es := planRestN cfg f dA iA t) hrunB
  simp only [NEff.toEff, runEff] at hmA hmB
  cases hkA : mkdir fs1A (tC t) with
  | error x => simp [hkA] at hmA
  | ok a =>
    cases hkB : mkdir fs1B (tC t) with
    | error x => simp [hkB] at hmB
    | ok b =>
      simp only [hkA] at hmA; simp only [hkB] at hmB
      cases hmA; cases hmB
      have cA := wipe_mkdir_clean hwA hwipeA hkA
      have cB := wipe_mkdir_clean hwB hwipeB hkB
      exact runN_agree t _ hrestA hrestB (fun q hq => by rw [cA q hq, cB q hq])

/-- **`exactly_the_determined_files`** (explicit form).  After a successful save of a font with safe paths onto `t` in a
    well-formed file system, a path at or below `t` exists with kind `k` (`false` = directory, `true` = plain file)
    **iff** `(path, k)` is in `expectedPaths f t` — a list computed from the font alone.  So: no remains of whatever
    was there, `metainfo.plist` / `layercontents.plist` / every `contents.plist` always, each optional file exactly
    when its content is not the empty default, `data/` and `images/` exactly when non-empty. -/
theorem exactly_the_determined_files (cfg : Cfg β) (f : AFont β) (fs fs' : FS β) (t : APath)
    (hs : safePaths f = true) (hwf : WF fs) (h : saveImpl cfg f fs t = (none, fs')) :
    ∀ q k, t <+: q → (kindAt fs' q = some k ↔ (q, k) ∈ expectedPaths f t) := by
  intro q k htq
  obtain ⟨d, i, fs1, hv, hwipe, hrun⟩ := saveImpl_ok h
  obtain ⟨hsd, hsi⟩ := forced_safe hs hv
  obtain ⟨hfd, hfi⟩ := validatePhase_ok_stores hv
  rw [plan_normal cfg f d i t hs hsd hsi] at hrun
  obtain ⟨g2, hm, hrest⟩ := runN_cons_ok (es := planRestN cfg f d i t) hrun
  simp only [NEff.toEff, runEff] at hm
  cases hk : mkdir fs1 (tC t) with
  | error x => simp [hk] at hm
  | ok a =>
    simp only [hk] at hm
    cases hm
    obtain ⟨htne, _, _, _⟩ := mkdir_tC hk
    have hclean := wipe_mkdir_clean hwf hwipe hk q htq
    have hq0 : q ≠ [] := by
      intro e; subst e; exact htne (List.prefix_nil.mp htq)
    have hk2 : kindAt g2 q = some k ↔ (q, k) = (t, false) := by
      unfold kindAt
      rw [node_of_ne_nil _ hq0, hclean]
      by_cases e : t = q
      · subst e; simp [kindOf]
      · have : ¬ q = t := fun x => e x.symm
        simp [e, this]
    rw [runN_kinds _ hrest q k, hk2]
    exact determined_core cfg f d i t (forceList_keys hfd) (forceList_keys hfi) hsd
      (runN_no_fail _ hrest) q k htq

/-- reading off one optional file: after a successful save `fontinfo.plist` is listed by `expectedPaths` iff the font
    info is not the empty default or a (crafted) layer directory / glif carries that very name -/
theorem fontinfo_listed_of_nonempty (f : AFont β) (t : APath) (h : f.info.isEmpty = false) :
    (t ++ ["fontinfo.plist".toList], true) ∈ expectedPaths f t := by
  unfold expectedPaths
  simp [h, expTop]

/-- fonts whose relative paths are single normal components — what the container API assigns: C07's contract
    "assigned file names are single normal components", `glyphs` / `glyphs.*` for layers, `file_name()` on load —
    and whose store keys are safe satisfy the guard -/
theorem api_built_fonts_safe (f : AFont β)
    (hl : ∀ l ∈ f.layers, safeRel (Path.parse l.dir) = true ∧ ∀ e ∈ l.entries, safeRel (Path.parse e.file) = true)
    (hd : ∀ kc ∈ f.data.items, safeRel kc.1 = true) (hi : ∀ kc ∈ f.images.items, safeRel kc.1 = true) :
    safePaths f = true := by
  unfold safePaths
  simp only [Bool.and_eq_true, List.all_eq_true]
  exact ⟨⟨fun l hlm => ⟨(hl l hlm).1, (hl l hlm).2⟩, hd⟩, hi⟩

/-! ### the plan runs to completion -/

/-- the wipe of step 6 and the `create_dir` of step 7 succeed whenever the target's parent chain exists and the target
    is not a plain file -/
theorem wipe_and_mkdir_succeed (fs : FS β) (t : APath) (ht : t ≠ [])
    (hparent : ∀ m, m <+: t.dropLast → m ≠ [] → isDir fs m = true)
    (htnf : ∀ b, node fs t ≠ some (.file b)) :
    ∃ fs1 g2, wipe fs t = .ok fs1 ∧ mkdir fs1 (tC t) = .ok g2 ∧
      ∀ m, m <+: t.dropLast → m ≠ [] → isDir fs1 m = true := by
  rcases List.eq_nil_or_concat t with rfl | ⟨l, s, rfl⟩ <;> try simp only [List.concat_eq_append] at *
  · exact absurd rfl ht
  rw [List.dropLast_concat] at hparent
  have hloc := locate_normal_ok (fs := fs) (l := l) (s := s) hparent
  have hloc' : locate fs (tC (l ++ [s])) = .ok (l ++ [s], false) := hloc
  have hex : existsAt fs (tC (l ++ [s])) = (node fs (l ++ [s])).isSome := by
    unfold existsAt
    rw [hloc']
  have hmk : ∀ g : FS β, (∀ m, m <+: l → m ≠ [] → isDir g m = true) → node g (l ++ [s]) = none →
      mkdir g (tC (l ++ [s])) = .ok (AbsFS.set g (l ++ [s]) .dir) :=
    fun g h1 h2 => mkdir_normal_ok (fs := g) (l := l) (s := s) h1 h2
  cases hn : node fs (l ++ [s]) with
  | none =>
    refine ⟨fs, _, ?_, hmk fs hparent hn, by rw [List.dropLast_concat]; exact hparent⟩
    unfold wipe
    rw [hex, hn]; rfl
  | some nd =>
    cases nd with
    | file b => exact absurd hn (htnf b)
    | dir =>
      have hrm : removeDirAll fs (tC (l ++ [s])) = .ok (removeAll fs (l ++ [s])) := by
        unfold removeDirAll
        rw [hloc']
        simp only [hn]
      have hkeep : ∀ m, m <+: l → m ≠ [] → isDir (removeAll fs (l ++ [s])) m = true := by
        intro m hm hne
        have := hparent m hm hne
        rw [isDir_iff, node_of_ne_nil _ hne] at this ⊢
        rw [lookup_removeAll]
        have hnp : ¬ (l ++ [s]).isPrefixOf m = true := by
          intro hp
          have h1 := (List.isPrefixOf_iff_prefix.mp hp).length_le
          have h2 := hm.length_le
          simp only [List.length_append, List.length_singleton] at h1
          omega
        simp [hnp, this]
      have hgone : node (removeAll fs (l ++ [s])) (l ++ [s]) = none := by
        rw [node_of_ne_nil _ (by simp), lookup_removeAll]
        simp
      refine ⟨removeAll fs (l ++ [s]), _, ?_, hmk _ hkeep hgone, by rw [List.dropLast_concat]; exact hkeep⟩
      unfold wipe
      rw [hex, hn]
      simp [hrm]

/-- **`plan_runs_to_completion`**: for a well-planned font with safe paths, from ANY well-formed file system in which
    the validators pass (steps 1–5), the target's parent chain exists and the target is not a plain file, the whole
    save — wipe, `create_dir`, metainfo … layers, data, images — runs to completion: no effect fails. -/
theorem plan_runs_to_completion (cfg : Cfg β) (f : AFont β) (fs : FS β) (t : APath)
    (hw : WellPlanned f) (hs : safePaths f = true) (d i : List (Path.P × β))
    (hv : validatePhase cfg f fs = .ok (d, i))
    (ht : t ≠ []) (hparent : ∀ m, m <+: t.dropLast → m ≠ [] → isDir fs m = true)
    (htnf : ∀ b, node fs t ≠ some (.file b)) (hwf : WF fs) :
    ∃ fs', saveImpl cfg f fs t = (none, fs') := by
  obtain ⟨fs1, g2, hwipe, hmk, hpar1⟩ := wipe_and_mkdir_succeed fs t ht hparent htnf
  obtain ⟨hsd, hsi⟩ := forced_safe hs hv
  obtain ⟨hfd, hfi⟩ := validatePhase_ok_stores hv
  have hclean := wipe_mkdir_clean hwf hwipe hmk
  obtain ⟨_, _, hset, _⟩ := mkdir_tC hmk
  -- the kinds after `create_dir`
  have H1 : ∀ m, m <+: t → m ≠ [] → kOf g2 m false := by
    intro m hm hne
    have := mkdir_t_dirs hmk m hm hne
    exact kindAt_dir this
  have H2 : ∀ q k, kOf g2 q k → t <+: q → q = t := by
    intro q k hk hq
    by_cases e : t = q
    · exact e.symm
    · have hq0 : q ≠ [] := by intro h; subst h; exact ht (List.prefix_nil.mp hq)
      unfold kOf kindAt at hk
      rw [node_of_ne_nil _ hq0, hclean q hq] at hk
      simp [e] at hk
  have H3 : ∀ m, m <+: t → ¬ kOf g2 m true := by
    intro m hm hk
    by_cases h0 : m = []
    · subst h0; unfold kOf at hk; rw [kindAt_root] at hk; cases hk
    · have := H1 m hm h0
      unfold kOf at hk this
      rw [this] at hk; cases hk
  have hruns := planRestN_runs cfg f d i t hw (forceList_keys hfd) (forceList_keys hfi) (kOf g2) H1 H2 H3
  obtain ⟨g', hg'⟩ := runs_sound _ g2 (kOf g2) (fun _ _ => Iff.rfl) hruns
  refine ⟨g', ?_⟩
  unfold saveImpl
  simp only [hv, hwipe]
  rw [plan_normal cfg f d i t hs hsd hsi]
  show runN (planN cfg f d i t) fs1 = (none, g')
  unfold planN runN
  simp only [List.map, runEffs, NEff.toEff, runEff, hmk]
  exact hg'

/-- **`saved_tree_determined_by_font`**: for a well-planned font with safe paths and nothing lazy, saving onto `t` in
    two arbitrary well-formed file systems (validators pass, parent chain of the target present, target not a plain
    file) SUCCEEDS in both, leaves the same sub-tree at and below `t` — paths, kinds, bytes — and that sub-tree has
    exactly the paths `expectedPaths f t`. -/
theorem saved_tree_determined_by_font (cfg : Cfg β) (f : AFont β) (fsA fsB : FS β) (t : APath)
    (hw : WellPlanned f) (hs : safePaths f = true) (hd : NoLazy f.data) (hi : NoLazy f.images)
    (d i : List (Path.P × β)) (hv : validatePhase cfg f fsA = .ok (d, i)) (ht : t ≠ [])
    (hpA : ∀ m, m <+: t.dropLast → m ≠ [] → isDir fsA m = true) (hfA : ∀ b, node fsA t ≠ some (.file b)) (hwA : WF fsA)
    (hpB : ∀ m, m <+: t.dropLast → m ≠ [] → isDir fsB m = true) (hfB : ∀ b, node fsB t ≠ some (.file b)) (hwB : WF fsB) :
    ∃ fsA' fsB', saveImpl cfg f fsA t = (none, fsA') ∧ saveImpl cfg f fsB t = (none, fsB') ∧
      (∀ q, t <+: q → lookup fsA' q = lookup fsB' q) ∧
      ∀ q k, t <+: q → (kindAt fsA' q = some k ↔ (q, k) ∈ expectedPaths f t) := by
  have hvB : validatePhase cfg f fsB = .ok (d, i) := by
    rw [← save_effects_depend_only_on_font cfg f fsA fsB hd hi]; exact hv
  obtain ⟨fsA', hA⟩ := plan_runs_to_completion cfg f fsA t hw hs d i hv ht hpA hfA hwA
  obtain ⟨fsB', hB⟩ := plan_runs_to_completion cfg f fsB t hw hs d i hvB ht hpB hfB hwB
  exact ⟨fsA', fsB', hA, hB, save_tree_depends_only_on_font cfg f fsA fsB fsA' fsB' t hs hd hi hwA hwB hA hB,
    exactly_the_determined_files cfg f fsA fsA' t hs hwA hA⟩

/-! ### the load side: for a loaded font only glif paths need the guard -/

/-- **Every layer of a font returned by `loadImpl` has a directory that is one normal component** (the `file_name()` of
    layer.rs:376, or `glyphs` for the placeholder): read back as a path it is exactly `[normal dir]` — whatever
    `layercontents.plist` said (`../sketches.glyphs`, `a/b`, an absolute path), for every request.  `goodName` on the
    names of the load path says that they are path components (no separator, not `.`/`..`). -/
theorem loaded_layer_dirs_single_component (P : Parser β) (fs0 : FS β) (t0 : APath) (r : Request) (f : AFont β)
    (h : loadImpl P fs0 t0 r = .ok f) (ht : ∀ n ∈ t0, goodName n = true) :
    ∀ l ∈ f.layers, Path.parse l.dir = ⟨false, [.normal l.dir]⟩ :=
  fun l hl => parse_goodName (loadImpl_layer_dirs_good h ht l hl)

/-- the store keys of a loaded font are non-empty lists of normal components (they come from a directory listing) -/
theorem loaded_store_keys_safe (P : Parser β) (fs0 : FS β) (t0 : APath) (r : Request) (f : AFont β)
    (h : loadImpl P fs0 t0 r = .ok f) :
    (∀ kc ∈ f.data.items, safeRel kc.1 = true) ∧ (∀ kc ∈ f.images.items, safeRel kc.1 = true) := by
  obtain ⟨hd, hi⟩ := loadImpl_stores h
  exact ⟨loadStore_keys_safe hd, loadStore_keys_safe hi⟩

/-- hence `safePaths` of a loaded font reduces to its glif paths (the `contents.plist` values, kept verbatim) -/
theorem loaded_font_safePaths (P : Parser β) (fs0 : FS β) (t0 : APath) (r : Request) (f : AFont β)
    (h : loadImpl P fs0 t0 r = .ok f) (ht : ∀ n ∈ t0, goodName n = true)
    (hglif : ∀ l ∈ f.layers, ∀ e ∈ l.entries, safeRel (Path.parse e.file) = true) :
    safePaths f = true := by
  obtain ⟨hd, hi⟩ := loaded_store_keys_safe P fs0 t0 r f h
  exact api_built_fonts_safe f
    (fun l hl => ⟨safeRel_goodName (loadImpl_layer_dirs_good h ht l hl), hglif l hl⟩) hd hi

/-- **`save_frame` for loaded fonts**: the guard is needed for glif paths only -/
theorem save_frame_loaded (P : Parser β) (cfg : Cfg β) (fs0 : FS β) (t0 : APath) (r : Request) (f : AFont β)
    (h : loadImpl P fs0 t0 r = .ok f) (ht : ∀ n ∈ t0, goodName n = true)
    (hglif : ∀ l ∈ f.layers, ∀ e ∈ l.entries, safeRel (Path.parse e.file) = true)
    (fs : FS β) (t : APath) :
    ∀ q, ¬ t <+: q → lookup (saveImpl cfg f fs t).2 q = lookup fs q :=
  save_frame cfg f fs t (loaded_font_safePaths P fs0 t0 r f h ht hglif)

/-- non-vacuity: a `layercontents.plist` naming the sibling directory `../sk.glyphs` loads, and the layer keeps `sk.glyphs` -/
def siblingParser : Parser Nat where
  metainfo _ := some (3, 1)
  lib _ := none
  fontinfo _ := none
  groups _ := none
  kerning _ := none
  features _ := none
  layercontents _ := some [("public.default".toList, "glyphs".toList), ("sk".toList, "../sk.glyphs".toList)]
  contents _ := some []
  layerinfo _ := none
  glif _ := none

def siblingTree : FS Nat :=
  [(["o".toList], .dir), (["o".toList, "t".toList], .dir), (["o".toList, "t".toList, "metainfo.plist".toList], .file 0),
   (["o".toList, "t".toList, "layercontents.plist".toList], .file 0),
   (["o".toList, "t".toList, "glyphs".toList], .dir),
   (["o".toList, "t".toList, "glyphs".toList, "contents.plist".toList], .file 0),
   (["o".toList, "sk.glyphs".toList], .dir), (["o".toList, "sk.glyphs".toList, "contents.plist".toList], .file 0)]

example : ∃ f, loadImpl siblingParser siblingTree ["o".toList, "t".toList] Request.everything = .ok f ∧
    f.layers.map (·.dir) = ["glyphs".toList, "sk.glyphs".toList] ∧ safePaths f = true :=
  ⟨_, rfl, by decide, by decide⟩

/-! ### `save_frame` is false without the guard (recorded findings)

(`exactly_the_determined_files` above is proved in its explicit form; the oracle rule `exact-files` checks the same
statement on the implementation's own output.) -/

def cfgN : Cfg Nat := { render := fun _ => 0, entryOk := fun _ _ _ _ => true }

def baseFont : AFont Nat :=
  { version := 3, metaTok := 1, info := { body := 0, guides := [], valid := true, serialisable := true },
    lib := [], groups := 0, groupsValid := true, kerning := 0, features := 0,
    layers := [{ name := "public.default".toList, dir := "glyphs".toList, info := 0, entries := [] }],
    data := { root := [], items := [] }, images := { root := [], items := [] } }

def outer : FS Nat := [(["o".toList], .dir)]
def target : APath := ["o".toList, "t".toList]

/-- a store key `../../x` (accepted by `Store::insert`) is written beside the target -/
def keyFont : AFont Nat :=
  { baseFont with data := { root := [], items := [(Path.parse "../../x".toList, .loaded 9)] } }

theorem save_frame_counterexample_store_key :
    (saveImpl cfgN keyFont outer target).1 = none ∧
    lookup outer ["o".toList, "x".toList] = none ∧
    lookup (saveImpl cfgN keyFont outer target).2 ["o".toList, "x".toList] = some (.file 9) := by
  decide

/-- a `contents.plist` value `../../x.glif` (kept verbatim by the load) is written beside the target -/
def escGlyph : AGlyph := { tok := 5, encodable := true }
def escEntry : AEntry := { name := "a".toList, file := "../../x.glif".toList, glyph := some escGlyph }
def escLayer : ALayer := { name := "public.default".toList, dir := "glyphs".toList, info := 0, entries := [escEntry] }
def glifFont : AFont Nat := { baseFont with layers := [escLayer] }

theorem save_frame_counterexample_contents_value :
    (saveImpl cfgN glifFont outer target).1 = none ∧
    lookup outer ["o".toList, "x.glif".toList] = none ∧
    (lookup (saveImpl cfgN glifFont outer target).2 ["o".toList, "x.glif".toList]).isSome = true := by
  decide

/-- both counterexample fonts are rejected by the guard, the base font is not (the guard is not vacuous) -/
theorem guard_separates :
    safePaths keyFont = false ∧ safePaths glifFont = false ∧ safePaths baseFont = true := by decide

/-- the guard of `plan_runs_to_completion` is satisfiable: the base font (and a font with a glyph) is well-planned -/
example : WellPlanned baseFont where
  infoOk := Or.inl (by decide)
  objLibs := by decide
  layerDir := by
    intro l hl; simp [baseFont] at hl; subst hl; decide
  layersDistinct := by simp [baseFont]
  glyphs := by
    intro l hl; simp [baseFont] at hl; subst hl; intro e he; cases he
  dataKeys := ⟨by simp [baseFont], by intro k hk; simp [baseFont] at hk⟩
  imageKeys := by
    intro k hk; simp [baseFont] at hk

/-- the saved tree of the base font, as the model computes it: exactly the determined files -/
example : (saveImpl cfgN baseFont outer target).1 = none ∧
    ((saveImpl cfgN baseFont outer target).2.map (·.1)).length = (expectedPaths baseFont target).length + 1 := by
  decide

/-! ### source-level tie: the plan IS the (guard, step) table of `save_impl`, as the code says it NOW -/

open C08.Source Generated.SaveOrder in
/-- **The model's `plan` is exactly the regenerated table behind the wipe**: the rows of `fn save_impl` that follow the
    `remove_dir_all` row, each executed iff all its guard atoms hold (`!self.font_info.is_empty()`, `!lib.is_empty()` on
    the local lib with the dumped object libs inserted, `!self.groups.is_empty()`, ... `!self.images.is_empty()`), produce
    the effect list `plan` - so the emptiness gates, "no layerinfo / images when empty" and the order of the theorems
    above are statements about the gates the source has now. -/
theorem source_plan_is_save_table {β : Type} (cfg : Cfg β) (f : AFont β) (d i : List (Path.P × β)) (t : APath)
    (creator cr : Bool) :
    (parseTable saveTable).map (fun rows =>
      planRows { cfg, f, d, i, t, creator, cr } ((rows.dropWhile (!isWipe ·)).drop 1) { lib := none, fol := none })
    = some (plan cfg f d i t) := by
  have h : parseTable saveTable = some modelRows := saveTable_parses
  rw [h]
  have hdw : (modelRows.dropWhile (!isWipe ·)).drop 1 = modelPost := by decide
  simp only [Option.map_some, hdw]
  exact congrArg some (planRows_model { cfg, f, d, i, t, creator, cr })

open C08.Source Generated.SaveOrder in
/-- every optional part has a gate in the source, and it is the emptiness test of that part: the guard atoms of the
    rows that write the optional files, read off the regenerated table -/
theorem source_optional_gates :
    (parseTable saveTable).map (fun rows => rows.filterMap fun r =>
      if r.2 = .writeFontinfo ∨ r.2 = .writeLib ∨ r.2 = .writeGroups ∨ r.2 = .writeKerning ∨ r.2 = .writeFeatures ∨
         r.2 = .writeData ∨ r.2 = .createImages ∨ r.2 = .writeImages then some (r.1.head?, r.2) else none) =
    some [(some .infoNonEmpty, .writeFontinfo), (some .libNonEmpty, .writeLib), (some .groupsNonEmpty, .writeGroups),
          (some .kerningNonEmpty, .writeKerning), (some .featuresNonEmpty, .writeFeatures),
          (some .featuresNonEmpty, .writeFeatures), (some .dataNonEmpty, .writeData),
          (some .imagesNonEmpty, .createImages), (some .imagesNonEmpty, .writeImages)] := by
  rw [saveTable_parses]; decide

open C08.Source Generated.SaveOrder in
/-- **The model's `planLayer` is exactly the regenerated table of `Layer::save_with_options`** (`src/layer.rs`, the
    layer-info helper inlined): `create_dir`, contents.plist, layerinfo.plist under the gate
    `!(self.color.is_none() && self.lib.is_empty())` - the model's `info ≠ 0` -, then one glif per `contents` entry; for
    every layer and target, and for both values of the two facts inside the model's one layer-info token (is there a
    colour; is the lib non-empty). -/
theorem source_layer_plan_is_layer_table {β : Type} (cfg : Cfg β) (t : APath) (l : ALayer) (color libne : Bool) :
    (parseLayerTable layerTable).map (fun rows => layerRowsPlan cfg t l color libne rows) = some (planLayer cfg t l) := by
  rw [layerTable_parses]
  exact congrArg some (layerRows_model cfg t l color libne)

open C08.Source in
/-- non-vacuity: the interpreter writes layerinfo.plist for a layer with info and not for one without -/
example :
    (layerRowsPlan cfgN ["t".toList] { name := "a".toList, dir := "glyphs".toList, info := 1, entries := [] } true false
      modelLayerRows).length = 3 ∧
    (layerRowsPlan cfgN ["t".toList] { name := "a".toList, dir := "glyphs".toList, info := 0, entries := [] } false false
      modelLayerRows).length = 2 := by decide

end C09
