import Norad.Model.FontSave
import Norad.Lemmas.FontSave
/-!
# C09 — a saved tree depends only on the font and stays inside the target

Model: `FontSave.saveImpl`; relative paths taken from data (`Layer.path`, `contents` values, store keys) are
joined onto the target without normalisation, as in the code, and resolved by the abstract file system the
way the kernel does.  Specification side: `FontSave.safePaths`, `FontSave.expectedPaths`.
-/
namespace C09
open AbsFS FontSave

variable {β : Type}

/-- every cell of the store is already loaded (nothing lazy refers to the disk) -/
def NoLazy (s : Store β) : Prop := ∀ kc ∈ s.items, ∃ b, kc.2 = .loaded b

theorem forceList_indep (cfg : Cfg β) (kind : StoreKind) (fs₁ fs₂ : FS β) (root : APath) (keys : List Path.P) :
    ∀ (items : List (Path.P × Cell β)), (∀ kc ∈ items, ∃ b, kc.2 = .loaded b) →
    forceList cfg kind fs₁ root keys items = forceList cfg kind fs₂ root keys items := by
  intro items
  induction items with
  | nil => intro _; rfl
  | cons e r ih =>
    intro h
    obtain ⟨k, c⟩ := e
    obtain ⟨b, hb⟩ := h (k, c) (List.mem_cons_self ..)
    simp only at hb
    subst hb
    unfold forceList
    simp only [forceCell]
    rw [ih (fun kc hkc => h kc (List.mem_cons_of_mem _ hkc))]

/-- **The effects of a save are a function of the font alone**: for a font without lazy cells the validation
    outcome — and with it the whole list of effects `plan cfg f d i t` that is then run on the wiped target — does
    not depend on the file system the save starts from.  (Everything `plan` mentions is taken from the font;
    it has no file-system argument.) -/
theorem save_effects_depend_only_on_font (cfg : Cfg β) (f : AFont β) (fs₁ fs₂ : FS β)
    (hd : NoLazy f.data) (hi : NoLazy f.images) :
    validatePhase cfg f fs₁ = validatePhase cfg f fs₂ := by
  unfold validatePhase forceStore
  rw [forceList_indep cfg .data fs₁ fs₂ _ _ _ hd, forceList_indep cfg .images fs₁ fs₂ _ _ _ hi]

/-- emptiness gates, at the level of the plan: an optional single-file part contributes an effect exactly when
    its content is not the empty default -/
theorem optional_part_planned_iff_nonempty (t : APath) (name : String) (tok : Nat) (b : β) :
    planOpt t name tok b = [] ↔ tok = 0 := by
  unfold planOpt
  by_cases h : tok = 0 <;> simp [h]

theorem fontinfo_planned_iff_nonempty (cfg : Cfg β) (t : APath) (i : AInfo) :
    planFontinfo cfg t i = [] ↔ i.isEmpty = true := by
  unfold planFontinfo
  by_cases h : i.isEmpty = true
  · simp [h]
  · by_cases hs : i.serialisable = true <;> simp [h, hs]

theorem images_planned_iff_nonempty (t : APath) (items : List (Path.P × β)) :
    planImages t items = [] ↔ items = [] := by
  unfold planImages
  cases items <;> simp

/-! ### `save_frame` is false on the tree for fonts with unsafe relative paths (recorded findings)

Full statement: for every `p` that is not at or below `t`, `lookup (saveImpl cfg f fs t).2 p = lookup fs p`.
OPEN (statement kept, not yet proved): `save_frame_partial` — the full statement under the guard
`safePaths f = true`; `exactly_the_determined_files` — after a successful save of a font with safe paths the
paths at and below `t` are exactly `expectedPaths f t`; both are checked on every generated case by the
oracle rules `frame` and `exact-files` on the implementation's own output. -/

def cfgN : Cfg Nat := { render := fun _ => 0, entryOk := fun _ _ _ _ => true }

def baseFont : AFont Nat :=
  { version := 3, metaTok := 1, info := { body := 0, guides := [], valid := true, serialisable := true },
    lib := [], groups := 0, groupsValid := true, kerning := 0, features := 0,
    layers := [{ name := "public.default".toList, dir := "glyphs".toList, info := 0, entries := [] }],
    data := { root := [], items := [] }, images := { root := [], items := [] } }

def outer : FS Nat := [(["o".toList], .dir)]
def target : APath := ["o".toList, "t".toList]

/-- a store key `../../x` (accepted by `Store::insert`) is written beside the target -/
def keyFont : AFont Nat :=
  { baseFont with data := { root := [], items := [(Path.parse "../../x".toList, .loaded 9)] } }

theorem save_frame_counterexample_store_key :
    (saveImpl cfgN keyFont outer target).1 = none ∧
    lookup outer ["o".toList, "x".toList] = none ∧
    lookup (saveImpl cfgN keyFont outer target).2 ["o".toList, "x".toList] = some (.file 9) := by
  decide

/-- a `contents.plist` value `../../x.glif` (kept verbatim by the load) is written beside the target -/
def escGlyph : AGlyph := { tok := 5, encodable := true }
def escEntry : AEntry := { name := "a".toList, file := "../../x.glif".toList, glyph := some escGlyph }
def escLayer : ALayer := { name := "public.default".toList, dir := "glyphs".toList, info := 0, entries := [escEntry] }
def glifFont : AFont Nat := { baseFont with layers := [escLayer] }

theorem save_frame_counterexample_contents_value :
    (saveImpl cfgN glifFont outer target).1 = none ∧
    lookup outer ["o".toList, "x.glif".toList] = none ∧
    (lookup (saveImpl cfgN glifFont outer target).2 ["o".toList, "x.glif".toList]).isSome = true := by
  decide

/-- both counterexample fonts are rejected by the guard, the base font is not (the guard is not vacuous) -/
theorem guard_separates :
    safePaths keyFont = false ∧ safePaths glifFont = false ∧ safePaths baseFont = true := by decide

/-- fonts whose relative paths are single normal components — what the container API assigns: C07's contract
    "assigned file names are single normal components", `glyphs` / `glyphs.*` for layers, `file_name()` on load —
    and whose store keys are safe satisfy the guard -/
theorem api_built_fonts_safe (f : AFont β)
    (hl : ∀ l ∈ f.layers, safeRel (Path.parse l.dir) = true ∧ ∀ e ∈ l.entries, safeRel (Path.parse e.file) = true)
    (hd : ∀ kc ∈ f.data.items, safeRel kc.1 = true) (hi : ∀ kc ∈ f.images.items, safeRel kc.1 = true) :
    safePaths f = true := by
  unfold safePaths
  simp only [Bool.and_eq_true, List.all_eq_true]
  exact ⟨⟨fun l hlm => ⟨(hl l hlm).1, (hl l hlm).2⟩, hd⟩, hi⟩

/-- the saved tree of the base font, as the model computes it: exactly the determined files -/
example : (saveImpl cfgN baseFont outer target).1 = none ∧
    ((saveImpl cfgN baseFont outer target).2.map (·.1)).length = (expectedPaths baseFont target).length + 1 := by
  decide

end C09
