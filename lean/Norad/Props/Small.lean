import Norad.Model.Small
import Norad.Model.Kerning
import Norad.Spec.C07
/-!
# The small types: one predicate behind the copies, and the laws of the insertion-ordered set

The property models each carry their own transcription of `Name::new`'s rule (`Glif.validName` for C02/C11/C12,
`Kern.validName` for C15/C10, `C07.Spec.ValidName` for C06/C07).  The SMALL correspondence stream checks the real `Name`
against `Glif.validName`; the theorems here say that this is the same predicate as the other two, so one stream ties all
of them.  `dedupKeepFirst` is the model of `Codepoints` (an insertion-ordered set).  Property theorems only.
-/
namespace Small

/-- the three transcriptions of `Name::new`'s rule are one predicate -/
theorem name_predicates_agree (s : List Char) :
    Glif.validName s = Kern.validName s ∧ (Glif.validName s = true ↔ C07.Spec.ValidName s) := by
  constructor
  · unfold Glif.validName Kern.validName Kern.isCtl
    cases s with
    | nil => simp
    | cons c r =>
      simp only [List.isEmpty_cons, Bool.not_false, Bool.true_and]
      rw [Bool.eq_iff_iff]
      simp only [List.all_eq_true, Bool.not_eq_true', List.any_eq_false, Bool.not_eq_eq_eq_not, Bool.not_true,
        List.mem_cons, Bool.or_eq_false_iff, Bool.and_eq_false_imp, decide_eq_false_iff_not, decide_eq_true_eq,
        beq_eq_false_iff_ne, ne_eq]
      constructor
      · intro h x hx hxx
        have := h x hx
        simp_all
      · intro h x hx
        have := h x hx
        by_cases h1 : x.toNat ≤ 31 <;> by_cases h2 : x.toNat = 127 <;> by_cases h3 : 128 ≤ x.toNat <;>
          by_cases h4 : x.toNat ≤ 159 <;> simp_all <;> omega
  · unfold Glif.validName C07.Spec.ValidName C07.Spec.isControl
    cases s with
    | nil => simp
    | cons c r =>
      simp only [List.isEmpty_cons, Bool.not_false, Bool.true_and, List.all_eq_true, Bool.not_eq_true', ne_eq,
        reduceCtorEq, not_false_eq_true, true_and]
      constructor
      · intro h x hx
        have := h x hx
        simp only [Bool.or_eq_false_iff, decide_eq_false_iff_not, beq_eq_false_iff_ne, ne_eq,
          Bool.and_eq_false_imp, decide_eq_true_eq] at this ⊢
        refine ⟨⟨by omega, by omega⟩, fun h1 => by omega⟩
      · intro h x hx
        have := h x hx
        simp only [Bool.or_eq_false_iff, decide_eq_false_iff_not, beq_eq_false_iff_ne, ne_eq,
          Bool.and_eq_false_imp, decide_eq_true_eq] at this ⊢
        refine ⟨⟨by omega, by omega⟩, fun h1 => by omega⟩

/-- the insertion-ordered set: membership is that of the input -/
theorem dedup_mem (l : List String) (x : String) : x ∈ dedupKeepFirst l ↔ x ∈ l := by
  induction l with
  | nil => simp [dedupKeepFirst]
  | cons a r ih =>
    simp only [dedupKeepFirst, List.mem_cons, List.mem_filter, ih, ne_eq, decide_not, Bool.not_eq_eq_eq_not,
      Bool.not_true, decide_eq_false_iff_not]
    constructor
    · rintro (h | ⟨h, _⟩)
      · exact .inl h
      · exact .inr h
    · rintro (h | h)
      · exact .inl h
      · by_cases hx : x = a
        · exact .inl hx
        · exact .inr ⟨h, hx⟩

/-- … no element occurs twice … -/
theorem dedup_nodup (l : List String) : (dedupKeepFirst l).Nodup := by
  induction l with
  | nil => simp [dedupKeepFirst]
  | cons a r ih =>
    simp only [dedupKeepFirst, List.nodup_cons, List.mem_filter, ne_eq, decide_not, Bool.not_eq_eq_eq_not,
      Bool.not_true, decide_eq_false_iff_not, not_true_eq_false, and_false, not_false_eq_true, true_and]
    exact ih.filter _

/-- … the primary (first) element stays first … -/
theorem dedup_head (a : String) (r : List String) : (dedupKeepFirst (a :: r)).head? = some a := by
  simp [dedupKeepFirst]

/-- … and a list without repetitions is kept as it is (the ORDER is data: no sorting) -/
theorem dedup_of_nodup (l : List String) (h : l.Nodup) : dedupKeepFirst l = l := by
  induction l with
  | nil => rfl
  | cons a r ih =>
    have hr := (List.nodup_cons.1 h)
    simp only [dedupKeepFirst, ih hr.2]
    congr 1
    apply List.filter_eq_self.2
    intro x hx
    simp only [ne_eq, decide_not, Bool.not_eq_eq_eq_not, Bool.not_true, decide_eq_false_iff_not]
    rintro rfl
    exact hr.1 hx

-- non-vacuity
example : dedupKeepFirst ["2126", "3a9", "2126", "41"] = ["2126", "3a9", "41"] := by decide
example : Glif.validName "é\n".toList = false ∧ Glif.validName "￿".toList = true := by decide
example : Glif.validIdent ("i".toList ++ List.replicate 99 'i') = true ∧
    Glif.validIdent ("i".toList ++ List.replicate 100 'i') = false ∧ Glif.validIdent [] = true := by decide

end Small
