import Norad.Props.C12
import Norad.Lemmas.JudgeFirst
/-!
# C12 — the converse of the `Spec.judge` link without a given position

`Props/C12.lean` proves, family by family, that a document whose items up to a GIVEN position are `judge`-clean and whose next
item is refused for a GIVEN reason is rejected.  Here the position and the reason are derived from `judge`'s own output:
`judge_flagged_rejected` — a shaped document for which `judge` reports at least one rule, none of them a rule for which the
theorem is known not to hold (`excludedDocRules`: the recorded findings, `dup-note`, the object-lib rules), and nothing
unspecified, is rejected by the parser.  `glyph_start_rule_rejected` and `glyph_start_version_rejected` are the converse for the
`glyph` start tag.
-/
namespace Glif
open Spec
section
variable {rd : Str → Option Nat}

/-- the rules of `judge` about which `judge_flagged_rejected` says nothing: the recorded findings `container-attrs`,
    `ident-empty`, `hex-plus`, `objlib-entry` (norad accepts what `judge` flags); `dup-note`, a finding when the earlier note
    has no text (`duplicate_note_rejected` is the other case); `objlibs`, which the parser detects at `</glyph>` only, so that
    the state after a prefix containing such a lib is not the state of a clean prefix -/
def excludedDocRules : List String := ["container-attrs", "ident-empty", "hex-plus", "dup-note", "objlib-entry", "objlibs"]

/-- what the shape reader guarantees beyond `Shaped`: `outline` in the body and `contour` in the outline are never delivered
    as plain elements (they are the constructors `Item.outline` / `OItem.contour`) -/
structure NoAlias (d : Doc) : Prop where
  body : ∀ e, Item.elem e ∈ d.items → e.name ≠ sOutline
  outline : ∀ a sc kids, Item.outline a sc kids ∈ d.items → ∀ e, OItem.elem e ∈ kids → e.name ≠ sContour

theorem not_finding_of_not_excluded {r : String} (h : r ∉ excludedDocRules) : r ∉ findingItemRules := by
  intro hm
  apply h
  simp only [findingItemRules, List.mem_cons, List.not_mem_nil, or_false] at hm
  rcases hm with rfl | rfl | rfl <;> decide

theorem not_value_finding_of_not_excluded {r : String} (h : r ∉ excludedDocRules) :
    r ∉ findingValueRules ∧ r ≠ "container-attrs" := by
  refine ⟨?_, ?_⟩
  · intro hm
    apply h
    simp only [findingValueRules, List.mem_cons, List.not_mem_nil, or_false] at hm
    rcases hm with rfl | rfl <;> decide
  · intro e; subst e; exact h (by decide)

/-- **judge_flagged_rejected**: the position-free converse.  A document of the shape the tokeniser and the shape reader
    deliver, whose `glyph` start tag is clean, for which `judge` reports at least one rule, only rules outside
    `excludedDocRules`, and nothing unspecified, is rejected by the parser.  The first refused item — a second once-only
    element, an item with a rule of `itemCheck` broken, an identifier used before (in an earlier item, or earlier inside the
    same outline or contour), the first refused child of the outline or of a contour, an illegal contour — is found from
    `judge`'s clauses (`first_failure`, `okids_split`, `ckids_split`). -/
theorem judge_flagged_rejected (law : ReadsNumerals rd) (lawT : ReadsTrimmed rd) {d : Doc} {ver : Nat}
    (hs : Shaped d) (hal : NoAlias d) (hver : (docVersion d).1 = some ver) (hg : glyphAttrCheck d = [])
    (hu : (judge rd d).2 = false) (hne : (judge rd d).1 ≠ [])
    (hnf : ∀ r, r ∈ (judge rd d).1 → r ∉ excludedDocRules) :
    accepted (parseGlif rd (Spec.flatten d)) = false := by
  -- `judge`'s clauses, one by one
  have hj := judge_eq (rd := rd) hver
  rw [hj] at hu hnf
  simp only [Bool.or_eq_false_iff] at hu
  obtain ⟨hper2, htr⟩ := hu
  have htrailer : d.trailer = [] := by simpa using htr
  have hitem_rule : ∀ it, it ∈ d.items → ∀ r, r ∈ (itemCheck rd ver it).1 → r ∉ excludedDocRules := by
    intro it hit r hr
    apply hnf r
    apply mem_dedup
    simp only [List.mem_append]
    exact .inl (.inl (.inl (.inr (mem_merge_of (List.mem_map.2 ⟨it, hit, rfl⟩) hr))))
  have hitem2 : ∀ it, it ∈ d.items → (itemCheck rd ver it).2 = false :=
    fun it hit => merge_snd_false hper2 (List.mem_map.2 ⟨it, hit, rfl⟩)
  have hobj : objectLibsCheck d = [] := by
    cases ho : objectLibsCheck d with
    | nil => rfl
    | cons r t =>
      exfalso
      have hr : r ∈ objectLibsCheck d := by rw [ho]; exact List.mem_cons_self
      have := hnf r (mem_dedup (by simp only [List.mem_append]; exact .inr hr))
      rcases objectLibsCheck_rules hr with e | e <;> subst e <;> exact this (by decide)
  have hnote : cnt d.items sNote ≤ 1 := by
    apply Classical.byContradiction; intro hc
    have hc' : countName d "note".toList > 1 := by
      have : countName d "note".toList = cnt d.items sNote := rfl
      omega
    refine hnf "dup-note" (mem_dedup ?_) (by decide)
    simp only [List.mem_append]
    refine .inl (.inl (.inr ?_))
    simp only [List.mem_filterMap]
    exact ⟨"note", by decide, by rw [if_pos hc']; rfl⟩
  -- the shortest prefix that is not clean
  let P : List Item → Prop := fun pre => judge rd { d with items := pre } = ([], false)
  have hP0 : P [] := by
    apply judge_of_clean (ver := ver)
    exact ⟨hver, hg, (by intro it hit; cases hit), (by intro n _; simp [countName]), (by simp [docIdents]),
      (by simp [objectLibsCheck]), htrailer⟩
  have hPn : ¬ P ([] ++ d.items) := by
    intro h
    have h' : judge rd d = ([], false) := h
    exact hne (by rw [h'])
  obtain ⟨mid, bad, post, hitems, hPmid, hPbad⟩ := first_failure P d.items [] hP0 hPn
  simp only [List.nil_append] at hPmid hPbad
  have hmem : ∀ it, it ∈ mid → it ∈ d.items := fun it h => by rw [hitems]; exact List.mem_append_left _ h
  have hbmem : bad ∈ d.items := by rw [hitems]; exact List.mem_append_right _ List.mem_cons_self
  have hcp : CleanPrefix rd d mid bad post ver :=
    ⟨hitems, hPmid, ⟨hs.prolog, hs.gattrs, hs.glyphOpen, fun it hit => hs.items it (hmem it hit)⟩, hver⟩
  obtain ⟨ver', hc⟩ := judge_clean hPmid
  have hvv : ver = ver' := by
    have h1 : (docVersion d).1 = some ver' := hc.version
    rw [hver] at h1
    exact Option.some.inj h1
  subst hvv
  have hshb : IShaped bad := hs.items bad hbmem
  have h2b := hitem2 bad hbmem
  have hnfb := hitem_rule bad hbmem
  apply Classical.byContradiction; intro hacc
  apply hPbad
  -- (1) the once-only elements
  have hcount : ∀ n, n ∈ onceOnly → itemName bad = some n.toList → cnt mid n.toList = 0 := by
    intro n hn hname
    apply Classical.byContradiction; intro hc0
    have hpos : 0 < cnt mid n.toList := by omega
    simp only [onceOnly, List.mem_cons, List.not_mem_nil, or_false] at hn
    rcases hn with rfl | rfl | rfl | rfl | rfl
    · exact hacc (duplicate_once_only_rejected law hcp (n := sAdvance) hname (.inl rfl) hpos)
    · exact hacc (duplicate_once_only_rejected law hcp (n := sOutline) hname (.inr (.inl rfl)) hpos)
    · exact hacc (duplicate_once_only_rejected law hcp (n := sLib) hname (.inr (.inr (.inl rfl))) hpos)
    · have h1 : cnt d.items sNote = cnt mid sNote + cnt (bad :: post) sNote := by rw [hitems, cnt_append]
      have h2 : cnt (bad :: post) sNote = cnt post sNote + 1 := by
        rw [cnt_cons]; simp [show itemName bad = some sNote from hname]
      have h3 : 0 < cnt mid sNote := hpos
      omega
    · exact hacc (duplicate_once_only_rejected law hcp (n := sImage) hname (.inr (.inr (.inr rfl))) hpos)
  -- (2) the item itself and its identifiers
  have hnotOutlineRule : (∀ a sc kids, bad ≠ .outline a sc kids) → itemCheck rd ver bad = ([], false) := by
    intro hno
    apply Classical.byContradiction; intro hcl
    have h1 : (itemCheck rd ver bad).1 ≠ [] := fun h => hcl (clean_of_parts h h2b)
    obtain ⟨r, hr⟩ := List.exists_mem_of_ne_nil _ h1
    exact hacc (body_item_rule_rejected law lawT hcp hshb hno (fun e he => hal.body e (he ▸ hbmem)) hr
      (not_finding_of_not_excluded (hnfb r hr)))
  have hcompat : itemCheck rd ver bad = ([], false) ∧ (itemIdents bad).Nodup ∧
      ∀ i, i ∈ itemIdents bad → i ∉ mid.flatMap itemIdents := by
    cases hb : bad with
    | comment => exact ⟨rfl, by simp [itemIdents], by simp [itemIdents]⟩
    | note a kids =>
      exact ⟨by rw [← hb]; exact hnotOutlineRule (by intro a sc k h; rw [hb] at h; cases h), by simp [itemIdents],
        by simp [itemIdents]⟩
    | lib a v inner =>
      exact ⟨by rw [← hb]; exact hnotOutlineRule (by intro a sc k h; rw [hb] at h; cases h), by simp [itemIdents],
        by simp [itemIdents]⟩
    | elem e =>
      refine ⟨by rw [← hb]; exact hnotOutlineRule (by intro a sc k h; rw [hb] at h; cases h), ?_, ?_⟩
      · simp only [itemIdents]
        split
        · exact elemIdent_nodup e
        · simp
      · intro i hi hseen
        simp only [itemIdents] at hi
        split at hi
        · rename_i hn
          cases ha : e.attrs with
          | none => simp [elemIdent, ha] at hi
          | some as =>
            rw [elemIdent_eq ha] at hi
            cases hg' : Spec.get as "identifier" with
            | none => simp [hg'] at hi
            | some j =>
              simp [hg'] at hi
              subst hi
              exact hacc (duplicate_identifier_rejected law (hb ▸ hcp) hn ha (get_mem hg') hseen)
        · cases hi
    | outline a sc kids =>
      have hshb' : IShaped (.outline a sc kids) := hb ▸ hshb
      have h2b' : (itemCheck rd ver (.outline a sc kids)).2 = false := hb ▸ h2b
      have hnfb' : ∀ r, r ∈ (itemCheck rd ver (.outline a sc kids)).1 → r ∉ excludedDocRules := hb ▸ hnfb
      have hca : containerAttrs a = [] := by
        cases hca : containerAttrs a with
        | nil => rfl
        | cons r t =>
          exfalso
          have hr : r ∈ containerAttrs a := by rw [hca]; exact List.mem_cons_self
          have e := containerAttrs_rule hr
          subst e
          exact hnfb' "container-attrs" (mem_merge_of (x := (containerAttrs a, false)) List.mem_cons_self hr) (by decide)
      cases sc with
      | true =>
        have hk : kids = [] := hshb'.2 rfl
        subst hk
        refine ⟨?_, by simp [itemIdents], by simp [itemIdents]⟩
        simp only [itemCheck, List.map_nil]
        apply merge_nil
        intro x hx
        simp only [List.mem_cons, List.not_mem_nil, or_false] at hx
        rw [hx, hca]
      | false =>
        have hk2 : ∀ k, k ∈ kids → (oitemCheck rd ver k).2 = false := fun k hk =>
          merge_snd_false h2b' (List.mem_cons_of_mem _ (List.mem_map.2 ⟨k, hk, rfl⟩))
        have hknf : ∀ k, k ∈ kids → ∀ r, r ∈ (oitemCheck rd ver k).1 → r ∉ findingValueRules ∧ r ≠ "container-attrs" :=
          fun k hk r hr => not_value_finding_of_not_excluded
            (hnfb' r (mem_merge_of (List.mem_cons_of_mem _ (List.mem_map.2 ⟨k, hk, rfl⟩)) hr))
        rcases okids_split lawT kids (mid.flatMap itemIdents) hshb'.1 (hal.outline a false kids (hb ▸ hbmem)) hk2 hknf with
          hk | ⟨kpre, kbad, kpost, e, hk, hbd⟩
        · refine ⟨?_, hk.nodup, hk.fresh⟩
          simp only [itemCheck]
          apply merge_nil
          intro x hx
          rcases List.mem_cons.1 hx with rfl | hx
          · rw [hca]
          · obtain ⟨k, hkm, rfl⟩ := List.mem_map.1 hx
            exact hk.clean k hkm
        · subst e
          exact absurd (outline_child_rejected law (hb ▸ hcp) hk hbd) hacc
  -- (3) so the prefix extended by the item is clean as well
  obtain ⟨hbclean, hbnd, hbfresh⟩ := hcompat
  apply judge_of_clean (ver := ver)
  refine ⟨hver, hg, ?_, ?_, ?_, ?_, htrailer⟩
  · intro it hit
    rcases List.mem_append.1 hit with h | h
    · exact hc.items it h
    · simp only [List.mem_cons, List.not_mem_nil, or_false] at h
      rw [h]; exact hbclean
  · intro n hn
    have h1 : countName { d with items := mid ++ [bad] } n.toList = cnt mid n.toList + cnt [bad] n.toList := by
      rw [← cnt_append]; rfl
    have h2 : cnt mid n.toList ≤ 1 := hc.once n hn
    have h3 : cnt [bad] n.toList = (if itemName bad = some n.toList then 1 else 0) := by
      rw [cnt_cons]; simp [cnt]
    rw [h1, h3]
    by_cases hname : itemName bad = some n.toList
    · have := hcount n hn hname
      simp [hname, this]
    · simp [hname, h2]
  · show ((mid ++ [bad]).flatMap itemIdents).Nodup
    rw [List.flatMap_append]
    simp only [List.flatMap_cons, List.flatMap_nil, List.append_nil]
    refine List.nodup_append.2 ⟨hc.idents, hbnd, ?_⟩
    intro a ha b hb' hab
    subst hab
    exact hbfresh a hb' ha
  · show (mid ++ [bad]).flatMap _ = []
    have hall := List.flatMap_eq_nil_iff.1 hobj
    apply List.flatMap_eq_nil_iff.2
    intro it hit
    rcases List.mem_append.1 hit with h | h
    · exact hall it (hmem it h)
    · simp only [List.mem_cons, List.not_mem_nil, or_false] at h
      rw [h]; exact hall bad hbmem

/-! ### the `glyph` start tag -/

theorem gfold_name : ∀ (as : List Attr) (acc acc' : GlyphAcc), foldAttrs gStep acc as = some acc' → acc'.name.isSome = true →
    acc.name.isSome = true ∨ "name".toList ∈ as.map (·.1)
  | [], acc, acc', h, hn => by
    simp only [foldAttrs, Option.some.injEq] at h
    subst h
    exact .inl hn
  | a :: r, acc, acc', h, hn => by
    simp only [foldAttrs] at h
    cases hs : gStep acc a with
    | none => simp [hs] at h
    | some acc1 =>
      simp only [hs] at h
      rcases gfold_name r acc1 acc' h hn with h1 | h1
      · unfold gStep at hs
        cases hk : gKeyOf a.1 with
        | none => simp [hk] at hs
        | some k =>
          simp only [hk] at hs
          cases k with
          | name =>
            right
            have := gKeyOf_eq hk
            exact List.mem_map.2 ⟨a, List.mem_cons_self, this⟩
          | format =>
            left
            simp only [gApply] at hs
            split at hs
            · simp only [Option.some.injEq] at hs; subst hs; exact h1
            · cases hs
          | formatMinor =>
            left
            simp only [gApply] at hs
            split at hs
            · simp only [Option.some.injEq] at hs; subst hs; exact h1
            · cases hs
      · exact .inr (by simp only [List.map_cons, List.mem_cons]; exact .inr h1)

/-- **the converse for the `glyph` start tag**: every rule `glyphAttrCheck` reports — the attributes are not well-formed
    (`attr-syntax`), `name` is missing or not a valid name (`glyph-name`), an attribute other than `name`, `format`,
    `formatMinor` (`unknown-attr`) — makes the parser reject the document at the start tag.
    The rule `version` is `glyph_start_version_rejected` below (after `docVersion` was taught that `formatMinor="00"` /
    `"+0"` read as 0: unspecified, not `version`). -/
theorem glyphAttrCheck_fails {d : Doc} (hne : glyphAttrCheck d ≠ []) : ∃ k, parseGlyphAttrs d.gattrs = .error k := by
    cases hga : d.gattrs with
    | none => exact ⟨_, rfl⟩
    | some as =>
      simp only [parseGlyphAttrs]
      cases hf : foldAttrs gStep {} as with
      | none => exact ⟨_, rfl⟩
      | some acc =>
        simp only []
        unfold glyphAttrCheck at hne
        simp only [hga] at hne
        have hall : as.all (fun a => a.1 = "name".toList ∨ a.1 = "format".toList ∨ a.1 = "formatMinor".toList) = true := by
          apply List.all_eq_true.2
          intro a ha
          apply Classical.byContradiction
          intro hnk
          simp only [decide_eq_true_eq, not_or] at hnk
          have hk : gKeyOf a.1 = none := by
            unfold gKeyOf
            rw [if_neg hnk.1, if_neg hnk.2.1, if_neg hnk.2.2]
          have := foldAttrs_none_of_mem gStep a (fun acc => by unfold gStep; rw [hk]) as {} ha
          rw [this] at hf
          cases hf
        simp only [hall, if_true, List.append_nil] at hne
        cases hg : Spec.get as "name" with
        | none =>
          have hnm := not_mem_of_get_none hg
          have hname : acc.name = none := by
            cases hn : acc.name with
            | none => rfl
            | some n =>
              rcases gfold_name as {} acc hf (by simp [hn]) with h | h
              · simp at h
              · exact absurd h hnm
          exact ⟨.wrongFirstElement, by simp [gFinish, hname]⟩
        | some n =>
          simp only [hg] at hne
          by_cases hok : nameOk n = true
          · simp [hok] at hne
          · exfalso
            have hv : validName n = false := by rw [← nameOk_eq_validName]; simpa using hok
            have := foldAttrs_none_of_mem gStep ("name".toList, n) (fun acc => by
              unfold gStep gKeyOf
              rw [if_pos rfl]
              simp only [gApply, hv, Bool.false_eq_true, if_false]) as {} (get_mem hg)
            rw [this] at hf
            cases hf

theorem glyph_start_rule_rejected {d : Doc} (hs : Shaped d) (hne : glyphAttrCheck d ≠ []) :
    accepted (parseGlif rd (Spec.flatten d)) = false := by
  obtain ⟨k, hk⟩ := glyphAttrCheck_fails hne
  unfold parseGlif Spec.flatten
  simp only [hs.glyphOpen, Bool.false_eq_true, if_false, List.append_assoc, List.cons_append]
  rw [scanStart_prolog _ _ hs.prolog]
  simp only [scanStart, if_true, hk, accepted]

/-! ### the `version` rule of the start tag -/

theorem gStep_major_other {acc acc' : GlyphAcc} {a : Attr} (hne : a.1 ≠ "format".toList) (hs : gStep acc a = some acc') :
    acc'.major = acc.major := by
  unfold gStep at hs; split at hs
  · cases hs
  · rename_i k hk
    have := gKeyOf_eq hk
    cases k <;> simp only [gApply] at hs <;> repeat' split at hs
    all_goals first | (cases hs; done) | (cases hs; first | rfl | exact absurd this hne)

theorem gStep_minor_other {acc acc' : GlyphAcc} {a : Attr} (hne : a.1 ≠ "formatMinor".toList) (hs : gStep acc a = some acc') :
    acc'.minor = acc.minor := by
  unfold gStep at hs; split at hs
  · cases hs
  · rename_i k hk
    have := gKeyOf_eq hk
    cases k <;> simp only [gApply] at hs <;> repeat' split at hs
    all_goals first | (cases hs; done) | (cases hs; first | rfl | exact absurd this hne)

theorem gStep_major_format {acc acc' : GlyphAcc} {v : Str} (hs : gStep acc ("format".toList, v) = some acc') :
    parseU32 10 v = some acc'.major := by
  have hk' : gKeyOf "format".toList = some .format := by decide
  simp only [gStep, hk', gApply] at hs
  split at hs
  · rename_i n hn; cases hs; exact hn
  · cases hs

theorem gStep_minor_format {acc acc' : GlyphAcc} {v : Str} (hs : gStep acc ("formatMinor".toList, v) = some acc') :
    parseU32 10 v = some acc'.minor := by
  have hk' : gKeyOf "formatMinor".toList = some .formatMinor := by decide
  simp only [gStep, hk', gApply] at hs
  split at hs
  · rename_i n hn; cases hs; exact hn
  · cases hs

/-- what the attribute loop of the `glyph` tag leaves in `major` / `minor`: the value `parse::<u32>` reads from the attribute,
    0 when the attribute is absent -/
theorem gfold_versions {as : List Attr} (hnd : (as.map (·.1)).Nodup) {acc : GlyphAcc} (hf : foldAttrs gStep {} as = some acc) :
    (∀ v, Spec.get as "format" = some v → parseU32 10 v = some acc.major) ∧ (Spec.get as "format" = none → acc.major = 0) ∧
    (∀ v, Spec.get as "formatMinor" = some v → parseU32 10 v = some acc.minor) ∧
    (Spec.get as "formatMinor" = none → acc.minor = 0) := by
  refine ⟨?_, ?_, ?_, ?_⟩
  · intro v hv
    have := (foldAttrs_value gStep (fun a => some a.major) "format".toList (parseU32 10 v) as
      (fun acc a acc' hne hs => by simp only [gStep_major_other hne hs])
      (fun acc a acc' ha hk hs => by
        obtain ⟨a1, a2⟩ := a
        simp only at hk; subst hk
        have e := get_of_mem_nodup hnd ha
        rw [hv] at e; cases e
        exact (gStep_major_format hs).symm) {} acc hf).1 (List.mem_map.2 ⟨_, get_mem hv, rfl⟩)
    exact this.symm
  · intro hn
    exact (foldAttrs_value gStep (fun a => a.major) "format".toList 0 as
      (fun acc a acc' hne hs => gStep_major_other hne hs)
      (fun acc a acc' ha hk hs => absurd (List.mem_map.2 ⟨a, ha, hk⟩) (not_mem_of_get_none hn)) {} acc hf).2 (not_mem_of_get_none hn)
  · intro v hv
    have := (foldAttrs_value gStep (fun a => some a.minor) "formatMinor".toList (parseU32 10 v) as
      (fun acc a acc' hne hs => by simp only [gStep_minor_other hne hs])
      (fun acc a acc' ha hk hs => by
        obtain ⟨a1, a2⟩ := a
        simp only at hk; subst hk
        have e := get_of_mem_nodup hnd ha
        rw [hv] at e; cases e
        exact (gStep_minor_format hs).symm) {} acc hf).1 (List.mem_map.2 ⟨_, get_mem hv, rfl⟩)
    exact this.symm
  · intro hn
    exact (foldAttrs_value gStep (fun a => a.minor) "formatMinor".toList 0 as
      (fun acc a acc' hne hs => gStep_minor_other hne hs)
      (fun acc a acc' ha hk hs => absurd (List.mem_map.2 ⟨a, ha, hk⟩) (not_mem_of_get_none hn)) {} acc hf).2 (not_mem_of_get_none hn)

/-- a `format` the parser reads as 1 or 2 and a `formatMinor` that is absent or read as 0 is never `version` for `docVersion` -/
theorem docVersion_of_read {d : Doc} {as : List Attr} (has : d.gattrs = some as) {f : Str} (hf : Spec.get as "format" = some f)
    (hp : parseU32 10 f = some 1 ∨ parseU32 10 f = some 2)
    (hm : ∀ m, Spec.get as "formatMinor" = some m → parseU32 10 m = some 0) : docVersion d ≠ (none, false) := by
  intro h
  unfold docVersion at h
  simp only [has, hf] at h
  cases hmm : Spec.get as "formatMinor" with
  | none =>
    simp only [hmm] at h
    split at h
    · simp at h
    · simp at h
    · rename_i heq; cases heq; rcases hp with hp | hp <;> simp [hp] at h
    · rename_i hh; cases hh
  | some m =>
    have h0 := hm m hmm
    simp only [hmm] at h
    by_cases he : m = ['0']
    · split at h
      · simp [he] at h
      · simp [he] at h
      · rename_i heq; cases heq; rcases hp with hp | hp <;> simp [hp, he] at h
      · rename_i hh; cases hh
    · split at h
      · simp [he, h0] at h
      · simp [he, h0] at h
      · rename_i heq; cases heq; rcases hp with hp | hp <;> simp [hp, he, h0] at h
      · rename_i hh; cases hh

theorem version_fails {d : Doc} (hnd : NodupAttrs d.gattrs) (hv : docVersion d = (none, false)) :
    ∃ k, parseGlyphAttrs d.gattrs = .error k := by
  cases hga : d.gattrs with
  | none => exact ⟨_, rfl⟩
  | some as =>
    simp only [parseGlyphAttrs]
    cases hf : foldAttrs gStep {} as with
    | none => exact ⟨_, rfl⟩
    | some acc =>
      simp only []
      obtain ⟨h1, h2, h3, h4⟩ := gfold_versions (hnd as hga) hf
      have hbad : ¬ ((acc.major = 1 ∨ acc.major = 2) ∧ acc.minor = 0) := by
        intro ⟨hmaj, hmin⟩
        cases hgf : Spec.get as "format" with
        | none => have := h2 hgf; omega
        | some f =>
          have hp := h1 f hgf
          refine docVersion_of_read hga hgf ?_ ?_ hv
          · rcases hmaj with e | e <;> rw [e] at hp
            · exact .inl hp
            · exact .inr hp
          · intro m hm
            have := h3 m hm
            rw [hmin] at this
            exact this
      unfold gFinish
      cases acc.name with
      | none => exact ⟨_, rfl⟩
      | some n =>
        simp only []
        by_cases c1 : acc.major = 1 ∧ acc.minor = 0
        · exact absurd ⟨.inl c1.1, c1.2⟩ hbad
        · by_cases c2 : acc.major = 2 ∧ acc.minor = 0
          · exact absurd ⟨.inr c2.1, c2.2⟩ hbad
          · exact ⟨.unsupportedVersion, by simp [c1, c2]⟩

/-- **the `version` rule**: `docVersion d = (none, false)` is exactly the case in which `judge` reports `version` (no version
    and not unspecified: `format` is missing or not read as 1 or 2, or `formatMinor` is not read as 0; the spellings `+2`,
    `02`, `00`, `+0` that `parse::<u32>` reads as a supported version are classified as unspecified by `docVersion`, not as
    `version`).  Then the parser rejects the document at the start tag. -/
theorem glyph_start_version_rejected {d : Doc} (hs : Shaped d) (hv : docVersion d = (none, false)) :
    accepted (parseGlif rd (Spec.flatten d)) = false := by
  obtain ⟨k, hk⟩ := version_fails hs.gattrs hv
  unfold parseGlif Spec.flatten
  simp only [hs.glyphOpen, Bool.false_eq_true, if_false, List.append_assoc, List.cons_append]
  rw [scanStart_prolog _ _ hs.prolog]
  simp only [scanStart, if_true, hk, accepted]

/-- in that case `judge` says `version` (and possibly rules of the start tag), nothing else -/
theorem judge_version {d : Doc} (hv : docVersion d = (none, false)) :
    judge rd d = (dedup (glyphAttrCheck d ++ ["version"]), false) := by
  unfold judge
  rw [hv]
  rfl

def jdMinor1 : Spec.Doc :=
  { prolog := [.decl], gattrs := some [("name".toList, ['a']), ("format".toList, ['2']), ("formatMinor".toList, ['1'])], items := [adv1] }
def jdMinor00 : Spec.Doc :=
  { prolog := [.decl], gattrs := some [("name".toList, ['a']), ("format".toList, ['2']), ("formatMinor".toList, ['0', '0'])], items := [adv1] }

/-- `formatMinor="1"`: `version`, rejected -/
example : accepted (parseGlif R1 (Spec.flatten jdMinor1)) = false :=
  glyph_start_version_rejected ⟨by decide, by intro as h; cases h; decide, rfl, by
    intro it hit
    simp only [jdMinor1, List.mem_cons, List.not_mem_nil, or_false] at hit
    subst hit
    exact ⟨by intro as h; cases h; decide, by decide⟩⟩ (by decide)

/-- `formatMinor="00"`: unspecified, no `version` (the parser reads 0 and accepts) -/
example : Spec.judge R1 jdMinor00 = ([], true) := by decide +kernel

/-- a glyph without a name -/
example : accepted (parseGlif R1 (Spec.flatten { prolog := [.decl], gattrs := some [("format".toList, ['2'])], items := [adv1] })) = false :=
  glyph_start_rule_rejected ⟨by decide, by intro as h; cases h; decide, rfl, by
    intro it hit
    simp only [List.mem_cons, List.not_mem_nil, or_false] at hit
    subst hit
    exact ⟨by intro as h; cases h; decide, by decide⟩⟩ (by decide)

/-! ### non-vacuity

The two laws hold together for `readsPlain` (the reader of exactly the plain numerals, `Lemmas/JudgeFirst.lean`); the
hypotheses of `judge_flagged_rejected` hold for concrete documents: the position is not given, `judge`'s output is. -/

/-- the identifier `p` on two points of the same contour (nothing else is wrong) -/
def jdPts : Spec.Doc :=
  { prolog := [.decl], gattrs := some [("name".toList, ['a']), ("format".toList, ['2'])],
    items := [adv1, .outline (some []) false [.comment, .contour (some []) false
      [.elem { name := sPoint, attrs := some [(['x'], ['0']), (['y'], ['0']), ("type".toList, "line".toList), (sIdentifier, ['p'])] },
       .comment,
       .elem { name := sPoint, attrs := some [(['x'], ['1']), (['y'], ['1']), ("type".toList, "line".toList), (sIdentifier, ['p'])] }]]] }

theorem jdPts_judge : Spec.judge readsPlain jdPts = (["ident-dup"], false) := by decide +kernel
theorem jdDup_judge : Spec.judge readsPlain jdDup = (["dup-advance"], false) := by decide +kernel

theorem jdDup_shaped : Shaped jdDup := by
  refine ⟨by decide, by intro as h; cases h; decide, rfl, ?_⟩
  intro it hit
  simp only [jdDup, List.mem_cons, List.not_mem_nil, or_false] at hit
  rcases hit with rfl | rfl | rfl
  · exact ⟨by intro as h; cases h; decide, by decide⟩
  · trivial
  · exact ⟨by intro as h; cases h; decide, by decide⟩

theorem jdPts_shaped : Shaped jdPts := by
  refine ⟨by decide, by intro as h; cases h; decide, rfl, ?_⟩
  intro it hit
  simp only [jdPts, List.mem_cons, List.not_mem_nil, or_false] at hit
  rcases hit with rfl | rfl
  · exact ⟨by intro as h; cases h; decide, by decide⟩
  · refine ⟨?_, fun h => by cases h⟩
    intro k hk
    simp only [List.mem_cons, List.not_mem_nil, or_false] at hk
    rcases hk with rfl | rfl
    · trivial
    · refine ⟨by intro as h; cases h; decide, ?_⟩
      intro c hc
      simp only [List.mem_cons, List.not_mem_nil, or_false] at hc
      rcases hc with rfl | rfl | rfl
      · exact ⟨by intro as h; cases h; decide, rfl⟩
      · trivial
      · exact ⟨by intro as h; cases h; decide, rfl⟩

theorem jdDup_noAlias : NoAlias jdDup := by
  refine ⟨?_, ?_⟩
  · intro e he
    simp only [jdDup, adv1, List.mem_cons, List.not_mem_nil, or_false, Item.elem.injEq, reduceCtorEq, false_or] at he
    rcases he with rfl | rfl <;> decide
  · intro a sc kids h
    simp [jdDup, adv1] at h

theorem jdPts_noAlias : NoAlias jdPts := by
  refine ⟨?_, ?_⟩
  · intro e he
    simp only [jdPts, adv1, List.mem_cons, List.not_mem_nil, or_false, Item.elem.injEq, reduceCtorEq] at he
    subst he; decide
  · intro a sc kids h e he
    simp only [jdPts, adv1, List.mem_cons, List.not_mem_nil, or_false, reduceCtorEq, false_or, Item.outline.injEq] at h
    obtain ⟨_, _, rfl⟩ := h
    simp at he

/-- two advances: `judge` says `dup-advance`, and only that -/
example : accepted (parseGlif readsPlain (Spec.flatten jdDup)) = false :=
  judge_flagged_rejected (ver := 2) readsPlain_numerals readsPlain_trimmed jdDup_shaped jdDup_noAlias (by decide +kernel)
    (by decide +kernel) (by rw [jdDup_judge]) (by rw [jdDup_judge]; simp) (by rw [jdDup_judge]; decide)

/-- one identifier on two points of one contour: `judge` says `ident-dup`, and only that; the theorem finds the second point -/
example : accepted (parseGlif readsPlain (Spec.flatten jdPts)) = false :=
  judge_flagged_rejected (ver := 2) readsPlain_numerals readsPlain_trimmed jdPts_shaped jdPts_noAlias (by decide +kernel)
    (by decide +kernel) (by rw [jdPts_judge]) (by rw [jdPts_judge]; simp) (by rw [jdPts_judge]; decide)
end
end Glif
