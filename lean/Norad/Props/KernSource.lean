import Norad.Lemmas.Kerning
import Norad.Lemmas.SortCanon
import Norad.Generated.Upconv
import Norad.Generated.UpconvSite
/-!
# C15 / C10 — the passes themselves inside the source-level tie

`tools/extract_upconv.py` translates the statement sequences of `validate_groups` (`src/groups.rs`) and of
`make_unique_group_name`, `find_known_kerning_groups`, `upconvert_kerning` (`src/upconversion.rs`) into the Lean
definitions `Kern.Gen.*` (`Norad/Generated/Upconv.lean`) on every run.  The theorems below state that the regenerated
functions ARE the hand-written model functions of `Model/Kerning.lean`, for all inputs; every C15 / C10 theorem is then,
by rewriting, a theorem about the regenerated code (`Props/C15.lean`, `Props/C10.lean`, sections "stated of the source").

The generated code keeps what the Rust does where the model abstracts: the two sets are built by `BTreeSet::insert`
in loop order (`setInsert`, the model: `sortDedup` of a filtered list), both maps are updated with `insert` (the model:
`cons`, justified here by freshness of the generated name and by the absence of repetitions in a set).
-/
namespace Kern
open StrMap

/-! ## the literals of the model, spelled out (the generated code carries the literals of the source as character lists) -/

theorem pfx1_chars : pfx1 = ['p', 'u', 'b', 'l', 'i', 'c', '.', 'k', 'e', 'r', 'n', '1', '.'] := by decide
theorem pfx2_chars : pfx2 = ['p', 'u', 'b', 'l', 'i', 'c', '.', 'k', 'e', 'r', 'n', '2', '.'] := by decide
theorem mmkL_chars : mmkL = ['@', 'M', 'M', 'K', '_', 'L', '_'] := by decide
theorem mmkR_chars : mmkR = ['@', 'M', 'M', 'K', '_', 'R', '_'] := by decide

/-! ## `validate_groups` -/

theorem source_validateLoop_eq_model : Gen.validateLoop = validateLoop := by
  funext g
  induction g with
  | nil => funext a b; rfl
  | cons e rest ih =>
    funext a b
    obtain ⟨n, ms⟩ := e
    simp only [Gen.validateLoop, validateLoop, ih, pfx1_chars, pfx2_chars] <;> rfl

/-- **source_validate_eq_model**: the validator as regenerated from `src/groups.rs` is the model's, on every map -/
theorem source_validate_eq_model : Gen.validateGroups = validateGroups := by
  funext g
  simp only [Gen.validateGroups, validateGroups, source_validateLoop_eq_model]

/-! ## `make_unique_group_name` -/

theorem source_tryNames_eq_model : Gen.tryNames = tryNames := by
  funext sfx name g fuel
  induction fuel with
  | zero => funext c; rfl
  | succ f ih => funext c; simp only [Gen.tryNames, tryNames, ih]; rfl

theorem source_makeUnique_eq_model : Gen.makeUnique = makeUnique := by
  funext sfx name g fuel
  simp only [Gen.makeUnique, makeUnique, source_tryNames_eq_model]
  cases hasKey name g <;> rfl

/-! ## the two sets: `find_known_kerning_groups` and the loop over the pairs -/

/-- a `BTreeSet` after inserting the elements of `l` one by one -/
def insertMany (l acc : List Str) : List Str := l.foldl (fun a x => setInsert x a) acc

theorem mem_insertMany {a : Str} (l acc : List Str) : a ∈ insertMany l acc ↔ a ∈ l ∨ a ∈ acc := by
  induction l generalizing acc with
  | nil => simp [insertMany]
  | cons x r ih =>
    simp only [insertMany, List.foldl_cons] at ih ⊢
    rw [ih, mem_setInsert]; simp only [List.mem_cons]; grind

theorem sorted_insertMany (l acc : List Str) (h : Sorted acc) : Sorted (insertMany l acc) := by
  induction l generalizing acc with
  | nil => exact h
  | cons x r ih => exact ih _ (sorted_setInsert h)

theorem insertMany_append (l₁ l₂ acc : List Str) : insertMany (l₁ ++ l₂) acc = insertMany l₂ (insertMany l₁ acc) := by
  simp [insertMany, List.foldl_append]

/-- inserting one by one into the empty set gives the sorted duplicate-free list, whatever the insertion order -/
theorem insertMany_nil_eq_sortDedup (l : List Str) : insertMany l [] = sortDedup l := by
  apply sorted_ext (sorted_insertMany l [] List.Pairwise.nil) (sorted_sortDedup l)
  intro a
  rw [mem_insertMany, mem_sortDedup]; simp

theorem source_findKnownLoop (ks a b : List Str) :
    Gen.findKnownLoop ks a b =
      (insertMany (ks.filter (fun n => mmkL.isPrefixOf n)) a,
       insertMany (ks.filter (fun n => !mmkL.isPrefixOf n && mmkR.isPrefixOf n)) b) := by
  simp only [mmkL_chars, mmkR_chars]
  induction ks generalizing a b with
  | nil => rfl
  | cons n r ih =>
    simp only [Gen.findKnownLoop, ih]
    by_cases h1 : ['@', 'M', 'M', 'K', '_', 'L', '_'].isPrefixOf n = true
    · simp [h1, insertMany]
    · by_cases h2 : ['@', 'M', 'M', 'K', '_', 'R', '_'].isPrefixOf n = true
      · simp [h1, h2, insertMany]
      · simp [h1, h2, insertMany]

theorem source_findKnown_eq_model (g : Groups) :
    Gen.findKnown g = (insertMany (knownFirst g) [], insertMany (knownSecond g) []) := by
  simp only [Gen.findKnown, source_findKnownLoop, knownFirst, knownSecond]

theorem source_collectSeconds (g : Groups) (S ss b : List Str) :
    Gen.collectSeconds g S ss b =
      insertMany (ss.filter (fun s => hasKey s g && !S.contains s && !pfx2.isPrefixOf s)) b := by
  simp only [pfx2_chars]
  induction ss generalizing b with
  | nil => rfl
  | cons s r ih =>
    simp only [Gen.collectSeconds, ih]
    -- by cases on the three atoms, so that the order in which the Rust writes them does not matter
    cases h1 : hasKey s g <;> cases h2 : S.contains s <;>
      cases h3 : ['p', 'u', 'b', 'l', 'i', 'c', '.', 'k', 'e', 'r', 'n', '2', '.'].isPrefixOf s <;>
      simp only [h1, h2, h3, insertMany, List.filter_cons, List.foldl_cons, Bool.and_true, Bool.and_false,
        Bool.true_and, Bool.false_and, Bool.not_true, Bool.not_false, Bool.false_eq_true, if_true, if_false, ↓reduceIte]

theorem source_collectLoop (g : Groups) (S : List Str) (k : Kerning) (a b : List Str) :
    Gen.collectLoop g S k a b =
      (insertMany (referencedFirst g k S) a, insertMany (referencedSecond g k S) b) := by
  induction k generalizing a b with
  | nil => rfl
  | cons e r ih =>
    obtain ⟨f, secs⟩ := e
    simp only [Gen.collectLoop, ih, source_collectSeconds]
    have hs : referencedSecond g ((f, secs) :: r) S =
        (keys secs).filter (fun s => hasKey s g && !S.contains s && !pfx2.isPrefixOf s) ++ referencedSecond g r S := by
      simp [referencedSecond, List.filter_append]
    rw [hs, insertMany_append]
    simp only [referencedFirst, keys, List.map_cons, List.filter_cons, pfx1_chars]
    cases h1 : hasKey f g <;> cases h2 : S.contains f <;>
      cases h3 : ['p', 'u', 'b', 'l', 'i', 'c', '.', 'k', 'e', 'r', 'n', '1', '.'].isPrefixOf f <;>
      simp only [h1, h2, h3, insertMany, List.filter_cons, List.foldl_cons, Bool.and_true, Bool.and_false,
        Bool.true_and, Bool.false_and, Bool.not_true, Bool.not_false, Bool.false_eq_true, if_true, if_false, ↓reduceIte]

/-- **source_sets_eq_model**: the two `BTreeSet`s the Rust has built when the collection loops are through, read as
    their iteration order, are the model's visiting orders -/
theorem source_sets_eq_model (g : Groups) (k : Kerning) (S : List Str) :
    (let (a, b) := Gen.findKnown g; Gen.collectLoop g S k a b) =
      (sortDedup (firstSet g k S), sortDedup (secondSet g k S)) := by
  simp only [source_findKnown_eq_model, source_collectLoop, firstSet, secondSet]
  rw [← insertMany_append, ← insertMany_append, insertMany_nil_eq_sortDedup, insertMany_nil_eq_sortDedup]

/-! ## the renaming loops -/

theorem insert_eq_cons_of_absent {β : Type} {k : Str} {v : β} {m : List (Str × β)} (h : hasKey k m = false) :
    insert k v m = (k, v) :: m := by
  have hk : k ∉ keys m := hasKey_false_iff.mp h
  simp only [StrMap.insert, erase, List.cons.injEq, true_and]
  apply List.filter_eq_self.mpr
  intro e he
  have : e.1 ∈ keys m := List.mem_map.mpr ⟨e, he, rfl⟩
  have hne : e.1 ≠ k := fun heq => hk (heq ▸ this)
  simpa using hne

/-- one side, as the model has it (`cons`), equals the loop with `insert` whenever the visited list has no
    repetition and none of its elements is in the table yet — which is what iterating a set gives -/
theorem renameSide_insert_eq (sfx : Nat → Str) (pfx legacy : Str)
    (gen : List Str → Groups → Table → Res (Groups × Table))
    (hnil : ∀ g t, gen [] g t = .ok (g, t))
    (hcons : ∀ n ns g t, gen (n :: ns) g t =
      match mkName (pfx ++ removeAll legacy n) with
      | none => .panic "upconvert_kerning: Name::new(..).unwrap()"
      | some base =>
        match makeUnique sfx base g (g.length + 1) with
        | .panic s => .panic s
        | .outOfFuel => .outOfFuel
        | .ok u =>
          match lookup n g with
          | none => .panic "upconvert_kerning: groups_new.get(..).unwrap()"
          | some members => gen ns (insert u members g) (insert n u t))
    (ns : List Str) (g : Groups) (t : Table) (hn : ns.Nodup) (ht : ∀ n ∈ ns, hasKey n t = false) :
    gen ns g t = renameSide sfx pfx legacy ns g t := by
  induction ns generalizing g t with
  | nil => rw [hnil]; rfl
  | cons n r ih =>
    rw [hcons]
    simp only [renameSide]
    cases hm : mkName (pfx ++ removeAll legacy n) with
    | none => rfl
    | some base =>
      simp only []
      cases hu : makeUnique sfx base g (g.length + 1) with
      | panic s => rfl
      | outOfFuel => rfl
      | ok u =>
        simp only []
        cases hl : lookup n g with
        | none => rfl
        | some members =>
          simp only []
          have hfresh := (makeUnique_ok hu).1
          have hnt : hasKey n t = false := ht n (by simp)
          rw [insert_eq_cons_of_absent hfresh, insert_eq_cons_of_absent hnt]
          have hn' := List.nodup_cons.mp hn
          apply ih _ _ hn'.2
          intro m hm'
          rw [hasKey_cons]
          have : n ≠ m := fun h => hn'.1 (h ▸ hm')
          simp [this, ht m (List.mem_cons_of_mem _ hm')]

theorem source_renameFirst_eq_model (sfx : Nat → Str) (ns : List Str) (g : Groups) (t : Table)
    (hn : ns.Nodup) (ht : ∀ n ∈ ns, hasKey n t = false) :
    Gen.renameFirst sfx ns g t = renameSide sfx pfx1 mmkL ns g t := by
  apply renameSide_insert_eq sfx pfx1 mmkL (Gen.renameFirst sfx) (fun _ _ => rfl) _ ns g t hn ht
  intro n ns g t
  simp only [Gen.renameFirst, source_makeUnique_eq_model, pfx1_chars, mmkL_chars]
  cases mkName (['p', 'u', 'b', 'l', 'i', 'c', '.', 'k', 'e', 'r', 'n', '1', '.'] ++ removeAll ['@', 'M', 'M', 'K', '_', 'L', '_'] n) <;> simp only []
  cases makeUnique sfx _ g (g.length + 1) <;> simp only []
  cases lookup n g <;> rfl

theorem source_renameSecond_eq_model (sfx : Nat → Str) (ns : List Str) (g : Groups) (t : Table)
    (hn : ns.Nodup) (ht : ∀ n ∈ ns, hasKey n t = false) :
    Gen.renameSecond sfx ns g t = renameSide sfx pfx2 mmkR ns g t := by
  apply renameSide_insert_eq sfx pfx2 mmkR (Gen.renameSecond sfx) (fun _ _ => rfl) _ ns g t hn ht
  intro n ns g t
  simp only [Gen.renameSecond, source_makeUnique_eq_model, pfx2_chars, mmkR_chars]
  cases mkName (['p', 'u', 'b', 'l', 'i', 'c', '.', 'k', 'e', 'r', 'n', '2', '.'] ++ removeAll ['@', 'M', 'M', 'K', '_', 'R', '_'] n) <;> simp only []
  cases makeUnique sfx _ g (g.length + 1) <;> simp only []
  cases lookup n g <;> rfl

/-! ## rewriting the pairs -/

theorem source_rewriteSecondsLoop_eq_model (t2 : Table) (secs acc : Seconds) :
    Gen.rewriteSecondsLoop t2 secs acc = secs.foldl (fun acc e => insert (rn t2 e.1) e.2 acc) acc := by
  induction secs generalizing acc with
  | nil => rfl
  | cons e r ih => obtain ⟨s, v⟩ := e; simp only [Gen.rewriteSecondsLoop, ih, List.foldl_cons, rn]

theorem source_rewriteLoop_eq_model (t1 t2 : Table) (k acc : Kerning) :
    Gen.rewriteLoop t1 t2 k acc = k.foldl (fun acc e => insert (rn t1 e.1) (rewriteSeconds t2 e.2) acc) acc := by
  induction k generalizing acc with
  | nil => rfl
  | cons e r ih =>
    obtain ⟨f, secs⟩ := e
    simp only [Gen.rewriteLoop, ih, List.foldl_cons, rn, source_rewriteSecondsLoop_eq_model, rewriteSeconds]

theorem source_rewrite_eq_model (t1 t2 : Table) (k : Kerning) :
    Gen.rewriteLoop t1 t2 k [] = rewriteKerning t1 t2 k := by
  rw [source_rewriteLoop_eq_model]; rfl

/-! ## the whole pass -/

/-- **source_upconvert_eq_model**: `upconvert_kerning` as regenerated from `src/upconversion.rs` — sets built by
    insertion, both renaming loops, the rewriting of the pairs, in the statement order of the Rust — is the model
    function, for every groups map, kerning map, glyph set and counter rendering -/
theorem source_upconvert_eq_model : Gen.upconvertKerning = upconvertKerning := by
  funext sfx g k S
  have hsets := source_sets_eq_model g k S
  unfold Gen.upconvertKerning upconvertKerning upconvertWith
  rcases hfk : Gen.findKnown g with ⟨a0, b0⟩
  rw [hfk] at hsets
  simp only [] at hsets ⊢
  rcases hcl : Gen.collectLoop g S k a0 b0 with ⟨a, b⟩
  rw [hcl] at hsets
  simp only [Prod.mk.injEq] at hsets
  obtain ⟨rfl, rfl⟩ := hsets
  simp only []
  rw [source_renameFirst_eq_model sfx _ g [] (nodup_sortDedup _) (fun _ _ => rfl)]
  cases h1 : renameSide sfx pfx1 mmkL (sortDedup (firstSet g k S)) g [] with
  | panic s => rfl
  | outOfFuel => rfl
  | ok p =>
    obtain ⟨g1, t1⟩ := p
    simp only []
    rw [source_renameSecond_eq_model sfx _ g1 [] (nodup_sortDedup _) (fun _ _ => rfl)]
    cases h2 : renameSide sfx pfx2 mmkR (sortDedup (secondSet g k S)) g1 [] with
    | panic s => rfl
    | outOfFuel => rfl
    | ok q =>
      obtain ⟨g2, t2⟩ := q
      simp only [source_rewrite_eq_model]

/-! ## the call site in `Font::load_impl` (`tools/extract_upconv_site.py`, `Generated/UpconvSite.lean`)

The arm of `load_impl` that converts is regenerated as a step table; `runSteps` gives every known step the meaning the model's
`loadGroupsKerning` gives it (an unknown step, a missing glyph set, a missing value are `panic`s, which the model never returns
here), so a table with a step missing, reordered or changed no longer computes the model's function. -/

structure SiteSt where
  glyphSet : Option (List Str) := none
  conv : Option UpOut := none

inductive Step | arm | glyphSetOfLayers | upconvert | validateReturned | value | unknown
  deriving DecidableEq, Repr

/-- the meaning of a row of the regenerated table; every row that is not literally one of the five is `unknown` -/
def decodeStep (r : String × String) : Step :=
  if r.1 = "arm" then .arm
  else if r = ("let glyph_set", "names of the glyphs of the loaded layers") then .glyphSetOfLayers
  else if r = ("let groups,kerning", "upconvert_kerning(g, k.unwrap_or_default, glyph_set)") then .upconvert
  else if r = ("validate_groups(groups)", "GroupsUpconversionFailure returned") then .validateReturned
  else if r = ("value", "Some(groups),Some(kerning)") then .value
  else .unknown

def runSteps (sfx : Nat → Str) (g : Groups) (k : Option Kerning) (layerNames : List Str) :
    List Step → SiteSt → Res (Except LoadErr (Groups × Kerning))
  | [], _ => .panic "call site: the arm has no value"
  | .arm :: rest, st => runSteps sfx g k layerNames rest st
  | .glyphSetOfLayers :: rest, st => runSteps sfx g k layerNames rest { st with glyphSet := some layerNames }
  | .upconvert :: rest, st =>
    match st.glyphSet with
    | none => .panic "call site: glyph_set is not built yet"
    | some S =>
      match upconvertKerning sfx g (k.getD []) S with
      | .panic s => .panic s
      | .outOfFuel => .outOfFuel
      | .ok o => runSteps sfx g k layerNames rest { st with conv := some o }
  | .validateReturned :: rest, st =>
    match st.conv with
    | none => .panic "call site: nothing converted yet"
    | some o =>
      match validateGroups (sortEntries o.groups) with
      | .error _ => .ok (.error .upconversionFailure)
      | .ok () => runSteps sfx g k layerNames rest st
  | .value :: _, st =>
    match st.conv with
    | none => .panic "call site: nothing converted yet"
    | some o => .ok (.ok (o.groups, o.kerning))
  | .unknown :: _, _ => .panic "call site: unknown step"

/-- the table of the source, decoded -/
theorem source_call_site_steps :
    Generated.UpconvSite.armSteps.map decodeStep = [.arm, .glyphSetOfLayers, .upconvert, .validateReturned, .value] := by
  decide +kernel

/-- **source_upconversion_call_site_matches_model**: the statements of the converting arm of `load_impl`, as the source has them
    now, compute the model's `loadGroupsKerning` on every legacy font with a (valid) groups file: the glyph set handed to
    `upconvert_kerning` is the set of glyph names of the loaded layers, the validator runs on the converted groups and its
    error is what the load returns, groups and kerning are both replaced by the results.  The other arms (format 3: untouched;
    no groups file: nothing converted) and the two other validator calls (`load_groups`, `save_impl`, both `?`-propagated)
    are the model's as tables. -/
theorem source_upconversion_call_site_matches_model :
    Generated.UpconvSite.matchArms =
      [("bind", "groups,kerning <- groups,kerning"), ("(FormatVersion::V3,g,k)", "(g,k)"), ("(_,None,k)", "(None,k)"),
       ("(_,Some(g),k)", "block")] ∧
    Generated.UpconvSite.validators =
      [("load_groups", "read groups; validate_groups(groups) InvalidGroups returned; Ok(groups)"),
       ("save_impl", "validate_groups(self.groups) InvalidGroups returned")] ∧
    ∀ (sfx : Nat → Str) (fmt : Nat) (g : Groups) (k : Option Kerning) (layerNames : List Str),
      fmt ≠ 3 → validateGroups g = .ok () →
      runSteps sfx g k layerNames (Generated.UpconvSite.armSteps.map decodeStep) {} = loadGroupsKerning sfx fmt (some g) k layerNames := by
  refine ⟨by decide +kernel, by decide +kernel, ?_⟩
  intro sfx fmt g k S hf hv
  have hfmt : (fmt == 3) = false := by simpa using hf
  rw [source_call_site_steps]
  simp only [runSteps, loadGroupsKerning, hv, hfmt, Bool.false_eq_true, if_false, ↓reduceIte]
  cases upconvertKerning sfx g (k.getD []) S with
  | panic s => rfl
  | outOfFuel => rfl
  | ok o =>
    simp only []
    cases validateGroups (sortEntries o.groups) <;> rfl

-- non-vacuity: the table of the source runs, and refuses a conversion whose result is invalid (two legacy groups sharing a glyph)
example : runSteps decimal [("@MMK_L_A".toList, ["a".toList]), ("@MMK_L_B".toList, ["a".toList])] none []
    (Generated.UpconvSite.armSteps.map decodeStep) {} = .ok (.error .upconversionFailure) := by
  rw [(source_upconversion_call_site_matches_model.2.2 decimal 2 _ none [] (by decide) (by rfl))]; rfl

end Kern
