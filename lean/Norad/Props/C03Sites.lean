import Norad.Props.C03
import Norad.Props.C16
import Norad.Generated.PanicSites

/-!
# C03 — inventory of the panic-capable sites of norad's own source

`tools/extract_panic_sites.py` lists, from the Rust source of the tree under check, every place where norad's OWN
non-test code can panic (`unwrap`, `expect`, `panic!`, `unreachable!`, `assert!`, a call of a crate-internal panicking
constructor `new_raw`, slicing by a range, indexing), one row per (file, function, kind) with the number of such sites
(`Generated.PanicSites.sites`).  The table below is the hand-written CLASSIFICATION: for every row why the site cannot
fire, is a panic the documentation announces, or is a recorded finding.  `source_panic_sites_all_classified` states that
every extracted row is covered by a classified row of at least that count.

What this buys for the property "no input may cause a panic": a change to norad that adds a panic-capable site OF A KIND A
FUNCTION ALREADY HAS to a classified function — one more `unwrap` in `rename_layer`, one more slice in `validate` — is
known shape with different content: a NEW PROOF OBLIGATION, and the theorem fails until the site is classified (the
correspondence runs and the mutation streams then look for an input that reaches it).  Removing sites, moving code inside
a function and reformatting change nothing.  Policy of every extractor of this framework: a (file, function, kind) the
classification has never seen — a new helper function, a first site of a new kind — is an UNKNOWN SHAPE: it is listed in
`Generated.PanicSites.unreviewed` and in the evidence, and is not an obligation (realistic refactors move `unwrap`s into
new helpers all the time: ten of the twenty benign changes of seeding round 6 do); those sites are covered by sampling only.

How strong each class is — stated honestly:
* `thm`: a kernel-checked theorem about the model of that function shows the panic outcome unreachable (the model makes
  the site an explicit outcome); the theorem is named in `ref` and its existence is checked at the end of this file.
* `guard` / `constr` / `const`: justified by reading the few lines around the site (a length test just above, a value
  produced by an operation whose result always satisfies the callee, a literal argument).  NOT a proof; each is also
  exercised by the C03 mutation streams and by every correspondence run under `catch_unwind`.
* `documented`: the panics the property exempts.
* `finding`: the site CAN fire; recorded in `known_findings.txt` under the id in `ref` and reproduced on every run.
-/

namespace Norad.C03Sites
open Norad.Generated

inductive Why
  | thm | guard | constr | const | documented | finding
  deriving DecidableEq, Repr

structure Row where
  file : String
  fn : String
  kind : String
  count : Nat
  why : Why
  ref : String
  note : String

def table : List Row := [
  ⟨"datastore.rs", "get", "unreach", 1, .guard, "C16.lazy_get_is_disk_at_first_access",
    "the `if let NotLoaded` block directly above replaces the cell by Loaded or Error before the match"⟩,
  ⟨"datastore.rs", "iter", "unwrap", 1, .constr, "C16.iter_results_from_final_store",
    "`get(k)` for a key just taken from `self.items.keys()` is `Some`"⟩,
  ⟨"datastore.rs", "try_list_contents", "unwrap", 2, .constr, "",
    "`strip_prefix(source_root)` of a path produced by `read_dir` below `source_root` (std contract)"⟩,
  ⟨"font.rs", "save_impl", "expect", 2, .thm, "C16.save_never_panics",
    "every entry was forced and found Ok by the pre-write loop (source_force_loop_covers_both_stores)"⟩,
  ⟨"font.rs", "save_impl", "unwrap", 1, .thm, "C16.store_destination_has_parent",
    "`data_dir.join(key).parent()` for a non-empty relative key"⟩,
  ⟨"fontinfo.rs", "deserialize", "index", 22, .guard, "",
    "`values.len() != 2` / `!= 10` returns an error just above; constant indices below the tested length"⟩,
  ⟨"fontinfo.rs", "dump_object_libs", "unwrap", 1, .constr, "",
    "a guideline lib is only ever attached together with an identifier (`replace_lib` creates one, `load_object_libs` matches by identifier)"⟩,
  ⟨"fontinfo.rs", "from_file", "unwrap", 2, .constr, "",
    "`NonNegativeIntegerOrFloat::new(v.abs())`: `abs` clears the sign bit (NaN included), `new` tests `is_sign_positive`"⟩,
  ⟨"fontinfo.rs", "validate", "slice", 11, .guard, "C13.validate_never_panics",
    "`v.len() == 19` and every char ASCII (digit, blank, `/`, `:`) are tested first: every range lies inside and on a char boundary"⟩,
  ⟨"fontinfo.rs", "validate", "unwrap", 1, .guard, "C13.validate_never_panics", "inside `if v.len() > 1`"⟩,
  ⟨"glyph/builder.rs", "end_path", "unreach", 1, .thm, "C11.end_path_unreachable_arm",
    "a `move` point after the first is refused by `add_point`, so the wrap-around loop never meets one"⟩,
  ⟨"glyph/mod.rs", "dump_object_libs", "unwrap", 1, .constr, "",
    "an object lib is only ever attached together with an identifier (`replace_lib`, `load_object_libs`)"⟩,
  ⟨"glyph/mod.rs", "from", "index", 6, .const, "",
    "constant indices 0..5 into the `[f64; 6]` of `Affine::as_coeffs` (checked by the compiler)"⟩,
  ⟨"glyph/mod.rs", "new", "newraw", 1, .documented, "",
    "`Glyph::new` panics on an invalid name, as its documentation says"⟩,
  ⟨"glyph/parse.rs", "parse_advance", "unreach", 1, .guard, "",
    "inner match on the key the enclosing arm `b\"width\" | b\"height\"` just matched"⟩,
  ⟨"glyph/parse.rs", "parse_lib", "slice", 1, .constr, "",
    "byte slice between two `buffer_position()`s of one reader over `raw_xml`: monotone and within the buffer (quick-xml contract)"⟩,
  ⟨"glyph/parse.rs", "parse_outline", "index", 2, .guard, "C11.v1_single_named_move_becomes_anchor",
    "`c.points.len() == 1 &&` precedes both `points[0]`"⟩,
  ⟨"glyph/serialize.rs", "to_event", "expect", 1, .finding, "image-non-utf8-name-panics",
    "`Image::new` accepts a file name that is not UTF-8; `to_str().expect` then panics"⟩,
  ⟨"glyph/serialize.rs", "write_lib_section", "expect", 1, .constr, "",
    "the plist XML writer emits UTF-8 (third party)"⟩,
  ⟨"glyph/serialize.rs", "write_lib_section", "slice", 1, .constr, "",
    "both indices come from `find` of ASCII markers; the header precedes the footer in every plist document (text is escaped, so `</plist>` cannot occur inside)"⟩,
  ⟨"identifier.rs", "from_uuidv4", "unwrap", 1, .constr, "",
    "a hyphenated UUID is 36 printable ASCII characters: a valid identifier"⟩,
  ⟨"layer.rs", "default", "newraw", 1, .const, "", "the literal `public.default` is a valid name"⟩,
  ⟨"layer.rs", "default_layer", "index", 2, .thm, "Layers.exactly_one_default_first",
    "the layer list is never empty: the default layer cannot be removed (invariant of every reachable state)"⟩,
  ⟨"layer.rs", "default_layer_mut", "index", 2, .thm, "Layers.exactly_one_default_first", "as `default_layer`"⟩,
  ⟨"layer.rs", "get_or_create_layer", "index", 1, .guard, "", "index returned by `position` on the same list"⟩,
  ⟨"layer.rs", "load", "newraw", 1, .const, "", "the literal `public.default` is a valid name"⟩,
  ⟨"layer.rs", "load_impl", "unwrap", 1, .finding, "layer-dir-dotdot-panics",
    "`path.file_name().unwrap()` for a layer directory `..`"⟩,
  ⟨"layer.rs", "new_layer", "unwrap", 1, .guard, "Layers.layer_ops_no_panic", "`last_mut()` directly after `push`"⟩,
  ⟨"layer.rs", "rename_glyph", "unwrap", 1, .thm, "Layers.layer_ops_no_panic",
    "`remove_glyph(old)` after the guard chain established that `old` is present"⟩,
  ⟨"layer.rs", "rename_layer", "index", 6, .thm, "Layers.layer_ops_no_panic",
    "`layers[0]` (never empty) and `layers[layer_pos]` with the position just found"⟩,
  ⟨"layer.rs", "rename_layer", "unwrap", 1, .thm, "Layers.layer_ops_no_panic",
    "`position(old)` after the guard chain established that `old` is present and was not removed by the overwrite"⟩,
  ⟨"layer.rs", "save_with_options", "expect", 1, .finding, "entry-remove-save-panics",
    "unreachable while glyph map and contents index are in step (Layers.save_no_panic_partial); the raw `entry` API can break that"⟩,
  ⟨"name.rs", "new_raw", "assert", 1, .documented, "",
    "the crate-internal panicking constructor itself; every CALL of it is a row of kind `newraw`"⟩,
  ⟨"names.rs", "contains", "unwrap", 1, .constr, "",
    "lock poisoning only: no code inside the critical sections can panic"⟩,
  ⟨"names.rs", "get", "unwrap", 2, .constr, "", "lock poisoning only, as `contains`"⟩,
  ⟨"serde_xml_plist.rs", "serialize", "unreach", 1, .guard, "C18.glue_never_panics",
    "booleans are written by the caller as empty elements and never reach the inner helper"⟩,
  ⟨"upconversion.rs", "make_unique_group_name", "unwrap", 1, .thm, "Kern.upconvert_no_panic_decimal",
    "a valid name followed by decimal digits is a valid name"⟩,
  ⟨"upconversion.rs", "upconvert_kerning", "unwrap", 4, .thm, "Kern.upconvert_no_panic_decimal",
    "prefix + non-control text is a valid name; the groups looked up were collected from the group table itself"⟩,
  ⟨"util.rs", "user_name_to_file_name", "panic", 1, .documented, "C07.fileName_none_iff_100_rejections",
    "more than 99 file-name clashes, announced"⟩,
  ⟨"util.rs", "user_name_to_file_name", "unwrap", 1, .constr, "", "`write!` into a `String` cannot fail"⟩,
  ⟨"write.rs", "indent", "assert", 1, .documented, "", "invalid indent settings, announced"⟩,
  ⟨"write.rs", "whitespace", "assert", 1, .documented, "", "invalid indent settings, announced"⟩,
  ⟨"write.rs", "whitespace", "expect", 1, .documented, "", "invalid indent settings (empty whitespace string), announced"⟩
]

/-- an extracted row is covered when a classified row has the same (file, fn, kind) and at least its count -/
def covers (t : List Row) (s : String × String × String × Nat) : Bool :=
  t.any fun r => r.file == s.1 && r.fn == s.2.1 && r.kind == s.2.2.1 && decide (s.2.2.2 ≤ r.count)

/-- the rows of the extracted table no classified row covers (what a failing run prints) -/
def unclassified : List (String × String × String × Nat) := PanicSites.sites.filter fun s => !covers table s

/-- **Every panic-capable site of the source under check is classified.**  Fails as soon as a function gains a site. -/
theorem source_panic_sites_all_classified : PanicSites.sites.all (covers table) = true := by decide +kernel

theorem source_panic_sites_none_unclassified : unclassified = [] := by decide +kernel

/-- the classification has one row per key -/
theorem table_keys_nodup : (table.map fun r => (r.file, r.fn, r.kind)).Nodup := by decide +kernel

/-- every row that claims a recorded finding names it, every `thm` row names its theorem -/
theorem table_refs_present : table.all (fun r => (r.why != .thm && r.why != .finding) || r.ref != "") = true := by
  decide +kernel

/-- the classification is not vacuous: the extracted table is not empty and the sites that CAN fire are visible in it -/
example : PanicSites.sites.length ≥ 30 ∨ PanicSites.extraction = "pinned" := by decide +kernel
example : (table.filter (·.why == .finding)).length = 3 := by decide +kernel

/-! the theorems the `thm` rows cite exist (elaboration fails if one is renamed away) -/
section cited
example := @C16.save_never_panics
example := @C16.store_destination_has_parent
example := @C11.end_path_unreachable_arm
example := @Layers.exactly_one_default_first
example := @Layers.layer_ops_no_panic
example := @Layers.save_no_panic_partial
example := @Kern.upconvert_no_panic_decimal
example := @C13.validate_never_panics
example := @C07.fileName_none_iff_100_rejections
example := @C18.glue_never_panics
end cited

end Norad.C03Sites
