import Norad.Lemmas.C10
import Norad.Lemmas.Plist
import Norad.Generated.KernConsts
import Norad.Props.KernSource
/-!
# C10 — loading and saving are deterministic (the kerning / feature upconversion part)

Property theorems only.  Hash-ordered collections of the Rust are *order parameters* of the model:
`upconvertWith ord1 ord2` visits the two sets in the given orders (before the repair: the iteration
order of two `HashSet`s), `featuresTextWith keysOrder` joins the feature blocks in the given order
(before the repair: the iteration order of a `HashMap`).  The repaired code fixes both orders to the
sorted order (`upconvertKerning`, `featuresText`).
-/
namespace Kern
open StrMap

/-! ## what the hash order did before the repair (kept as witnesses of the repaired defects) -/

def collGroups : Groups := [("@MMK_L_A".toList, ["a".toList]), ("A".toList, ["b".toList])]
def collKerning : Kerning := [("A".toList, [("x".toList, 1)])]

/-- **upconvert_order_dependent_counterexample** (defect repaired by `fix:` 022cf1a): two visiting
    orders of the same set `{A, @MMK_L_A}` give different group maps — whoever comes first gets
    `public.kern1.A`, the other `public.kern1.A1`. -/
theorem upconvert_order_dependent_counterexample :
    ∃ o o', upconvertWith decimal ["A".toList, "@MMK_L_A".toList] [] collGroups collKerning = .ok o ∧
      upconvertWith decimal ["@MMK_L_A".toList, "A".toList] [] collGroups collKerning = .ok o' ∧
      lookup "public.kern1.A".toList o.groups = some ["b".toList] ∧
      lookup "public.kern1.A".toList o'.groups = some ["a".toList] := by
  refine ⟨_, _, rfl, rfl, rfl, rfl⟩

/-- **features_order_dependent_counterexample** (defect repaired by `fix:` 3ee6238): without a
    `featureorder` list two iteration orders of the block map give different texts. -/
theorem features_order_dependent_counterexample :
    featuresTextWith ["kern".toList, "liga".toList] none none
        (some [("kern".toList, "K".toList), ("liga".toList, "L".toList)]) ≠
    featuresTextWith ["liga".toList, "kern".toList] none none
        (some [("kern".toList, "K".toList), ("liga".toList, "L".toList)]) := by
  decide

/-! ## remaining hash sets are consulted for membership only -/

/-- **glyphset_membership_only**: the glyph set (`NameList`, a `HashSet`) influences the conversion
    only through `contains`: two sets with the same elements give the same result, whatever their
    internal order. -/
theorem glyphset_membership_only (sfx : Nat → Str) (g : Groups) (k : Kerning) (S S' : List Str)
    (h : ∀ x, x ∈ S ↔ x ∈ S') : upconvertKerning sfx g k S = upconvertKerning sfx g k S' := by
  have hc : ∀ x, S.contains x = S'.contains x := by
    intro x
    cases h1 : S.contains x <;> cases h2 : S'.contains x <;> simp_all
  have e1 : referencedFirst g k S = referencedFirst g k S' := by
    unfold referencedFirst
    apply List.filter_congr
    intro x _; rw [hc x]
  have e2 : referencedSecond g k S = referencedSecond g k S' := by
    unfold referencedSecond
    apply List.filter_congr
    intro x _; rw [hc x]
  unfold upconvertKerning firstSet secondSet
  rw [e1, e2]

/-- **validator_sets_membership_only**: the two `HashSet`s of `validate_groups` are only inserted into
    and tested; the verdict is the declarative predicate of the map (C15 `validate_iff`), in which no
    order of a hashed collection occurs. -/
theorem validator_sets_membership_only (g : Groups) :
    validateGroups g = .ok () ↔ KernSpec.ValidGroups g := by
  unfold validateGroups
  rw [validateLoop_ok_iff]
  simp only [List.not_mem_nil, not_false_eq_true, implies_true, and_true]
  rfl

/-- **rename_tables_lookup_only**: the two old ↦ new `HashMap`s are only looked up (`rn`); a table
    with the same entries in any other order renames every key identically. -/
theorem rename_tables_lookup_only (t t' : Table) (hp : t.Perm t') (hn : (keys t).Nodup) (n : Str) :
    rn t n = rn t' n := by
  have hn' : (keys t').Nodup := (List.Perm.map (fun e : Str × Str => e.1) hp).nodup_iff.mp hn
  unfold rn
  cases h : lookup n t with
  | some u =>
    have := lookup_of_mem_nodup hn' (hp.subset (lookup_mem h))
    rw [this]
  | none =>
    cases h' : lookup n t' with
    | none => rfl
    | some u =>
      have := lookup_of_mem_nodup hn (hp.symm.subset (lookup_mem h'))
      rw [h] at this; cases this

/-! ## the repaired code: no hash order is left on a result-affecting path -/

/-- **upconvert_order_independent** (full, for the code as repaired): whatever order — and however
    often — the names were inserted into the two sets (`ins1`, `ins2`: any lists with the elements of
    the sets, e.g. any permutation), visiting the resulting `BTreeSet`s gives the one result
    `upconvertKerning` computes.  No hash order is left on this path. -/
theorem upconvert_order_independent (sfx : Nat → Str) (g : Groups) (k : Kerning) (S : List Str)
    (ins1 ins2 : List Str) (h1 : ∀ a, a ∈ ins1 ↔ a ∈ firstSet g k S)
    (h2 : ∀ a, a ∈ ins2 ↔ a ∈ secondSet g k S) :
    upconvertWith sfx (sortDedup ins1) (sortDedup ins2) g k = upconvertKerning sfx g k S := by
  unfold upconvertKerning
  rw [sortDedup_congr h1, sortDedup_congr h2]

/-- in particular for every pair of permutations -/
theorem upconvert_perm_independent (sfx : Nat → Str) (g : Groups) (k : Kerning) (S : List Str)
    (ins1 ins2 : List Str) (h1 : ins1.Perm (firstSet g k S)) (h2 : ins2.Perm (secondSet g k S)) :
    upconvertWith sfx (sortDedup ins1) (sortDedup ins2) g k = upconvertKerning sfx g k S :=
  upconvert_order_independent sfx g k S ins1 ins2 (fun _ => h1.mem_iff) (fun _ => h2.mem_iff)

/-- **features_order_independent** (full, for the code as repaired): the feature text does not depend
    on the order in which the block map (`HashMap<String, String>`) holds or yields its entries. -/
theorem features_order_independent (classes : Option Str) (order : Option (List Str))
    (b b' : List (Str × Str)) (hp : b.Perm b') (hn : (keys b).Nodup) :
    featuresText classes order (some b) = featuresText classes order (some b') := by
  unfold featuresText featuresTextWith
  have hk : sortDedup (keys b) = sortDedup (keys b') :=
    sortDedup_perm (List.Perm.map (fun e : Str × Str => e.1) hp)
  simp only [Option.getD_some, hk, joinBlocks_perm hp hn]

/-- with a `featureorder` list the text never depended on the map order (the guard of the partial
    theorem before the repair) -/
theorem features_with_order_list (ko ko' : List Str) (classes : Option Str) (ord : List Str)
    (b : Option (List (Str × Str))) :
    featuresTextWith ko classes (some ord) b = featuresTextWith ko' classes (some ord) b := by
  unfold featuresTextWith; simp

example : featuresText none none (some [("liga".toList, "L".toList), ("kern".toList, "K".toList)])
    = "\nKL".toList := by decide

end Kern

/-! ## source-level tie: which collections the code iterates

`Generated.KernConsts.iteratedCollections` is re-extracted from the source on every run: the declared types of
`groups_first` / `groups_second`, of the feature-block map (and whether its collected keys are `.sort()`ed),
of the `Groups` / `Kerning` aliases and of `Layer.contents`, followed by every walk (`.iter()`, `.keys()`,
`.values()`, `.into_iter()`, `.drain()`, `for .. in`, `.chain(..)`/`.zip(..)`) over an identifier declared as a
`HashSet`/`HashMap` in the four files, labelled with its consumer (`HashMap.iter.find`, `HashSet.for`, … —
or `Hash.sorted` / `Hash.order-insensitive` when the walk order cannot reach the result). -/
namespace Kern
open StrMap

/-- **source_iteration_is_ordered**: every collection the source iterates on a result-affecting path of the
    two upconversions and of the three map-shaped plists is an ordered one.  Re-introducing a `HashSet` /
    an unsorted `HashMap` walk breaks this obligation (and the sampling finds the input). -/
theorem source_iteration_is_ordered :
    ∀ e ∈ Generated.KernConsts.iteratedCollections, e.2 ∈ orderedCollections := by decide

/-- the table covers every order parameter of the model: the two visiting orders of `upconvertWith`, the
    key order of `featuresTextWith`, and the maps written by `writeMap` / `writeKerning` (it may hold
    more: every walk over a hashed collection the extractor finds is appended) -/
theorem source_iteration_table_complete :
    ∀ n ∈ ["groups_first", "groups_second", "feature_blocks", "Groups", "Kerning", "Kerning.seconds", "Layer.contents"],
      n ∈ Generated.KernConsts.iteratedCollections.map (·.1) := by
  decide

/-- **source_robofab_keys_match_model**: the lib keys the feature conversion reads are the model's, and every
    key it reads is removed from the lib afterwards -/
theorem source_robofab_keys_match_model :
    Generated.KernConsts.libDataKeys =
      [("ps_hinting_data", robofabHintKey), ("feature_classes", robofabClassesKey),
       ("feature_order", robofabOrderKey), ("features", robofabFeaturesKey)] ∧
    (∀ e ∈ Generated.KernConsts.libDataKeys, e.2 ∈ Generated.KernConsts.removedKeys) := by decide

/-- **source_gen_upconvert_order_independent**: `upconvert_order_independent` stated of the pass as regenerated from
    `src/upconversion.rs` (`Kern.Gen.upconvertKerning`, `tools/extract_upconv.py`).  In the regenerated code the two sets are
    built by `BTreeSet::insert` in loop order (`Gen.findKnown`, `Gen.collectLoop`; `source_sets_eq_model`: their iteration
    order is the sorted duplicate-free list of the inserted names), and whatever order — and however often — the same names
    are inserted, visiting the sets gives this one result. -/
theorem source_gen_upconvert_order_independent (sfx : Nat → Str) (g : Groups) (k : Kerning) (S : List Str)
    (ins1 ins2 : List Str) (h1 : ∀ a, a ∈ ins1 ↔ a ∈ firstSet g k S)
    (h2 : ∀ a, a ∈ ins2 ↔ a ∈ secondSet g k S) :
    upconvertWith sfx (sortDedup ins1) (sortDedup ins2) g k = Gen.upconvertKerning sfx g k S := by
  rw [source_upconvert_eq_model]; exact upconvert_order_independent sfx g k S ins1 ins2 h1 h2

-- non-vacuity: the witness of the repaired defect, names inserted in the opposite order and twice, against the regenerated pass
example : upconvertWith decimal (sortDedup (firstSet collGroups collKerning []).reverse) (sortDedup (secondSet collGroups collKerning []))
      collGroups collKerning = Gen.upconvertKerning decimal collGroups collKerning [] :=
  source_gen_upconvert_order_independent decimal collGroups collKerning [] _ _ (fun _ => List.mem_reverse) (fun _ => Iff.rfl)
example : upconvertWith decimal (sortDedup (firstSet collGroups collKerning [] ++ firstSet collGroups collKerning []))
      (sortDedup (secondSet collGroups collKerning [])) collGroups collKerning = Gen.upconvertKerning decimal collGroups collKerning [] :=
  source_gen_upconvert_order_independent decimal collGroups collKerning [] _ _ (fun _ => by simp) (fun _ => Iff.rfl)
example : ∃ o, Gen.upconvertKerning decimal collGroups collKerning [] = .ok o ∧
    lookup "public.kern1.A".toList o.groups = some ["a".toList] ∧
    lookup "public.kern1.A1".toList o.groups = some ["b".toList] := ⟨_, rfl, rfl, rfl⟩

/-! ## groups.plist, kerning.plist, contents.plist: sorted by construction -/

/-- **btreemap_plists_sorted**: what is written from a `BTreeMap` (`writeMap`: groups.plist, contents.plist;
    `writeKerning`: both levels of kerning.plist) has strictly ascending keys and does not depend on the
    insertion history of the map. -/
theorem btreemap_plists_sorted {β : Type} (m m' : List (Str × β)) (hn : (keys m).Nodup) (hp : m.Perm m') :
    Sorted (keys (writeMap m)) ∧ writeMap m = writeMap m' ∧ ∀ k, lookup k (writeMap m) = lookup k m :=
  ⟨sorted_keys_sortEntries m hn, sortEntries_perm hp hn, lookup_sortEntries m hn⟩

theorem kerning_plist_sorted (k : Kerning) (hn : (keys k).Nodup) (hs : ∀ e ∈ k, (keys e.2).Nodup) :
    Sorted (keys (writeKerning k)) ∧ ∀ e ∈ writeKerning k, Sorted (keys e.2) := by
  have hk : keys (k.map (fun e => (e.1, sortEntries e.2))) = keys k := by simp [keys]
  refine ⟨sorted_keys_sortEntries _ (by rw [hk]; exact hn), ?_⟩
  intro e he
  have hm := (sortEntries_perm_self _).mem_iff.mp he
  obtain ⟨e0, he0, rfl⟩ := List.mem_map.mp hm
  exact sorted_keys_sortEntries _ (hs e0 he0)

end Kern

/-! ## what is written: sorted dictionaries (`recursive_sort_plist_keys`, util.rs:11-18) -/
namespace PlistM
open StrMap

/-- **written_plists_sorted**: after `recursive_sort_plist_keys` every dictionary that is reachable
    from the lib through dictionary values only has strictly ascending keys (Rust `str` order).
    Exactly that and no more: `SortedReach` is `True` of an array — the function does not visit arrays
    (`arrays_not_visited`).  groups.plist, kerning.plist and contents.plist are written from `BTreeMap`s
    (sorted by construction; observed by the harness oracle `sorted=1`). -/
theorem written_plists_sorted (v : PV) (h : WF v) : SortedReach (sortRec v) :=
  sortRec_sortedReach v h

/-- **arrays_not_visited**: an array value — with every dictionary inside it — is written as it is. -/
theorem arrays_not_visited (k : Str) (xs : List PV) :
    sortRec (.arr xs) = .arr xs ∧ sortRec (.dict [(k, .arr xs)]) = .dict [(k, .arr xs)] :=
  ⟨rfl, rfl⟩

/-- **written_lib_function_of_map**: the written lib is a function of the lib *as a map* at every
    level the sort reaches: two libs that differ only in the insertion order of their dictionaries
    (`Reorder`: at the top and recursively in dictionary values; scalars and arrays identical) are
    written identically — same keys in the same order at every depth. -/
theorem written_lib_function_of_map {v v' : PV} (h : Reorder v v') (hw : WF v) :
    sortRec v = sortRec v' ∧ writtenKeys (sortRec v) = writtenKeys (sortRec v') := by
  have := sortRec_reorder h hw
  exact ⟨this, by rw [this]⟩

/-- **reorder_implies_eq**: a lib rebuilt in another insertion order (at the dictionaries the sort reaches)
    compares equal to the original under `plist::Value::eq` — for values whose dictionaries have distinct
    keys at every depth, also inside arrays (`WFAll`: what `plist::Dictionary` guarantees). -/
theorem reorder_implies_eq {v v' : PV} (h : Reorder v v') (hw : WFAll v) : pvEq v v' = true :=
  pvEq_of_reorder h hw

/-- **equal_fonts_by_reorder_written_identically**: the class of `==`-equal libs for which the full
    statement holds — equal by reordering where the sort reaches: they compare equal *and* are written
    identically.  What is left of `==` (reordering inside arrays) is the counterexample below. -/
theorem equal_fonts_by_reorder_written_identically {v v' : PV} (h : Reorder v v') (hw : WFAll v) :
    pvEq v v' = true ∧ sortRec v = sortRec v' :=
  ⟨pvEq_of_reorder h hw, sortRec_reorder h (wf_of_wfAll v hw)⟩

def libA : PV := .dict [("a".toList, .arr [.dict [("y".toList, .int 1), ("x".toList, .int 2)]])]
def libB : PV := .dict [("a".toList, .arr [.dict [("x".toList, .int 2), ("y".toList, .int 1)]])]

/-- **written_lib_equal_fonts_counterexample** (the full statement "equal fonts are written
    identically" is FALSE on the tree; finding `dict-inside-array-keeps-insertion-order`): the two libs
    compare equal (`plist::Value::eq` ignores insertion order at every depth) but are written with
    different key orders, because the dictionary sits inside an array. -/
theorem written_lib_equal_fonts_counterexample :
    pvEq libA libB = true ∧ writtenKeys (sortRec libA) ≠ writtenKeys (sortRec libB) := by
  decide

/-- non-vacuity of `written_lib_function_of_map`: a nested dictionary reordered at two levels -/
example : Reorder
    (.dict [("z".toList, .dict [("b".toList, .int 1), ("a".toList, .int 2)]), ("k".toList, .int 0)])
    (.dict [("k".toList, .int 0), ("z".toList, .dict [("a".toList, .int 2), ("b".toList, .int 1)])]) :=
  .dict (es' := [("z".toList, .dict [("a".toList, .int 2), ("b".toList, .int 1)]), ("k".toList, .int 0)])
    (.cons (.dict (es' := [("b".toList, .int 1), ("a".toList, .int 2)])
        (.cons (.refl _) (.cons (.refl _) .nil)) (List.Perm.swap _ _ _))
      (.cons (.refl _) .nil))
    (List.Perm.swap _ _ _)

example : writtenKeys (sortRec
    (.dict [("z".toList, .dict [("b".toList, .int 1), ("a".toList, .int 2)]), ("k".toList, .int 0)])) =
    ["k".toList, "z".toList, "a".toList, "b".toList] := by decide

/-! ## stores are written in hash order (`font.rs:526-553`) -/

/-- **store_save_order_independent** (guard: the keys resolve to pairwise different files; that they
    are also not nested — no key a directory of another — is what makes every single write succeed and
    is enforced by the store on insert): the files written do not depend on the order in which the
    `HashMap` yields the entries. -/
theorem store_save_order_independent {l l' : List (Str × Str)} (hp : l.Perm l')
    (hn : (l.map (fun e => normKey e.1)).Nodup) (fs : Files) : writeAll l fs = writeAll l' fs :=
  writeAll_perm hp hn fs

/-- **store_save_order_dependent_counterexample** (the unguarded statement is FALSE on the tree; finding
    `store-alias-keys-written-in-hash-order`): `n.txt` and `./n.txt` are different keys of the store
    but the same file; the two iteration orders leave different contents in it. -/
theorem store_save_order_dependent_counterexample :
    writeAll [("n.txt".toList, "0".toList), ("./n.txt".toList, "1".toList)] (fun _ => none) ["n.txt".toList] ≠
    writeAll [("./n.txt".toList, "1".toList), ("n.txt".toList, "0".toList)] (fun _ => none) ["n.txt".toList] := by
  decide

example : (["a.txt".toList, "b/c.txt".toList].map normKey).Nodup := by decide

end PlistM
