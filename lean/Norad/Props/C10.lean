import Norad.Lemmas.Kerning
/-!
# C10 — loading and saving are deterministic (the kerning / feature upconversion part)

Property theorems only.  Hash-ordered collections of the Rust are *order parameters* of the model:
`upconvertWith ord1 ord2` visits the two sets in the given orders (before the repair: the iteration
order of two `HashSet`s), `featuresTextWith keysOrder` joins the feature blocks in the given order
(before the repair: the iteration order of a `HashMap`).  The repaired code fixes both orders to the
sorted order (`upconvertKerning`, `featuresText`).
-/
namespace Kern
open StrMap

/-! ## what the hash order did before the repair (kept as witnesses of the repaired defects) -/

def collGroups : Groups := [("@MMK_L_A".toList, ["a".toList]), ("A".toList, ["b".toList])]
def collKerning : Kerning := [("A".toList, [("x".toList, 1)])]

/-- **upconvert_order_dependent_counterexample** (defect repaired by `fix:` 022cf1a): two visiting
    orders of the same set `{A, @MMK_L_A}` give different group maps — whoever comes first gets
    `public.kern1.A`, the other `public.kern1.A1`. -/
theorem upconvert_order_dependent_counterexample :
    ∃ o o', upconvertWith decimal ["A".toList, "@MMK_L_A".toList] [] collGroups collKerning = .ok o ∧
      upconvertWith decimal ["@MMK_L_A".toList, "A".toList] [] collGroups collKerning = .ok o' ∧
      lookup "public.kern1.A".toList o.groups = some ["b".toList] ∧
      lookup "public.kern1.A".toList o'.groups = some ["a".toList] := by
  refine ⟨_, _, rfl, rfl, rfl, rfl⟩

/-- **features_order_dependent_counterexample** (defect repaired by `fix:` 3ee6238): without a
    `featureorder` list two iteration orders of the block map give different texts. -/
theorem features_order_dependent_counterexample :
    featuresTextWith ["kern".toList, "liga".toList] none none
        (some [("kern".toList, "K".toList), ("liga".toList, "L".toList)]) ≠
    featuresTextWith ["liga".toList, "kern".toList] none none
        (some [("kern".toList, "K".toList), ("liga".toList, "L".toList)]) := by
  decide

/-! ## remaining hash sets are consulted for membership only -/

/-- **glyphset_membership_only**: the glyph set (`NameList`, a `HashSet`) influences the conversion
    only through `contains`: two sets with the same elements give the same result, whatever their
    internal order. -/
theorem glyphset_membership_only (sfx : Nat → Str) (g : Groups) (k : Kerning) (S S' : List Str)
    (h : ∀ x, x ∈ S ↔ x ∈ S') : upconvertKerning sfx g k S = upconvertKerning sfx g k S' := by
  have hc : ∀ x, S.contains x = S'.contains x := by
    intro x
    cases h1 : S.contains x <;> cases h2 : S'.contains x <;> simp_all
  have e1 : referencedFirst g k S = referencedFirst g k S' := by
    unfold referencedFirst
    apply List.filter_congr
    intro x _; rw [hc x]
  have e2 : referencedSecond g k S = referencedSecond g k S' := by
    unfold referencedSecond
    apply List.filter_congr
    intro x _; rw [hc x]
  unfold upconvertKerning firstSet secondSet
  rw [e1, e2]

/-- **validator_sets_membership_only**: the two `HashSet`s of `validate_groups` are only inserted into
    and tested; the verdict is the declarative predicate of the map (C15 `validate_iff`), in which no
    order of a hashed collection occurs. -/
theorem validator_sets_membership_only (g : Groups) :
    validateGroups g = .ok () ↔ KernSpec.ValidGroups g := by
  unfold validateGroups
  rw [validateLoop_ok_iff]
  simp only [List.not_mem_nil, not_false_eq_true, implies_true, and_true]
  rfl

/-- **rename_tables_lookup_only**: the two old ↦ new `HashMap`s are only looked up (`rn`); a table
    with the same entries in any other order renames every key identically. -/
theorem rename_tables_lookup_only (t t' : Table) (hp : t.Perm t') (hn : (keys t).Nodup) (n : Str) :
    rn t n = rn t' n := by
  have hn' : (keys t').Nodup := (List.Perm.map (fun e : Str × Str => e.1) hp).nodup_iff.mp hn
  unfold rn
  cases h : lookup n t with
  | some u =>
    have := lookup_of_mem_nodup hn' (hp.subset (lookup_mem h))
    rw [this]
  | none =>
    cases h' : lookup n t' with
    | none => rfl
    | some u =>
      have := lookup_of_mem_nodup hn (hp.symm.subset (lookup_mem h'))
      rw [h] at this; cases this

end Kern
