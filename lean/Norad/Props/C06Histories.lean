import Norad.Props.C06
import Norad.Lemmas.LayerHistories
/-!
# C06 / container level of C07 — histories that leave and re-enter the synchronised states; loading

* `insert_glyph` decides by the CONTENTS INDEX whether a name needs a file: a glyph that the raw `entry` API put into
  (or took out of) the glyph map behind the back of the index is in step again once the same name goes through
  `insert_glyph`, and is then saved (`insert_repairs_index`, `sync_insert_of_syncBut`, `insert_after_entry_resyncs`,
  `insert_after_entry_remove_resyncs`, `resynced_glyph_is_saved`).  The recorded findings `entry-insert-not-saved` /
  `entry-remove-save-panics` are about `entry` glyphs that are NOT put back; the driver labels an unpredicted failure
  of a history that did put one back `entry-resynced`, which matches no finding.
* the path set of a loaded font covers every listed non-default directory wherever `layercontents.plist` lists the
  default layer (`loaded_pathSet_covers_listed`, `new_layer_after_load_avoids_listed`).
-/
namespace Layers

section
variable (lower : Str → Str) (assignG : Str → List Str → Option Str)

/-- `insert_glyph(g)` that returns puts `g` into BOTH indices, whatever state the layer was in — in particular when the
    glyph map already holds `g` but the contents index does not (a glyph created through the raw `entry` API): the
    code asks `contents`, not the glyph map, whether a file name is needed -/
theorem insert_repairs_index (L : Layer) (g : Str) (hok : (insertGlyph lower assignG L g).2 = .ok) :
    g ∈ (insertGlyph lower assignG L g).1.glyphs ∧ g ∈ keys (insertGlyph lower assignG L g).1.contents := by
  unfold insertGlyph at hok ⊢
  split
  · rename_i hg
    exact ⟨mem_addGlyphName.2 (Or.inl rfl), hg⟩
  · rename_i hg
    cases ha : assignG g L.pathSet with
    | none => simp [hg, ha] at hok
    | some p =>
      refine ⟨mem_addGlyphName.2 (Or.inl rfl), ?_⟩
      simp [keys]

/-- whatever happened to the name `n` behind the back of the index, `insert_glyph(n)` brings the layer back in step -/
theorem sync_insert_of_syncBut (L : Layer) (n : Str) (h : SyncBut n L)
    (hok : (insertGlyph lower assignG L n).2 = .ok) : Sync (insertGlyph lower assignG L n).1 := by
  intro m
  by_cases hm : m = n
  · subst hm
    have := insert_repairs_index lower assignG L m hok
    exact ⟨fun _ => this.2, fun _ => this.1⟩
  · have := insert_other_names lower assignG L n m hm
    rw [this.1, this.2]
    exact h m hm

/-- `entry(n).or_insert(..)` followed by `insert_glyph(n)`: the layer is in step again (the recorded finding
    `entry-insert-not-saved` is about `entry` glyphs that are NOT put back) -/
theorem insert_after_entry_resyncs (L : Layer) (n : Str) (h : Sync L)
    (hok : (insertGlyph lower assignG (entryOrInsert L n) n).2 = .ok) :
    Sync (insertGlyph lower assignG (entryOrInsert L n) n).1 :=
  sync_insert_of_syncBut lower assignG _ n (syncBut_entryOrInsert L n h) hok

/-- `entry(n)` → `remove()` followed by `insert_glyph(n)`: in step again (`entry-remove-save-panics` is about the
    states in between) -/
theorem insert_after_entry_remove_resyncs (L : Layer) (n : Str) (h : Sync L)
    (hok : (insertGlyph lower assignG (entryRemove L n) n).2 = .ok) :
    Sync (insertGlyph lower assignG (entryRemove L n) n).1 :=
  sync_insert_of_syncBut lower assignG _ n (syncBut_entryRemove L n h) hok

/-- … and therefore saved: the directory written for the layer lists `n` with a glif file -/
theorem resynced_glyph_is_saved (L : Layer) (n : Str) (h : Sync L)
    (hok : (insertGlyph lower assignG (entryOrInsert L n) n).2 = .ok) :
    ∃ d, saveLayer (insertGlyph lower assignG (entryOrInsert L n) n).1 = some d ∧ n ∈ keys d.contents ∧
      ∀ e ∈ d.contents, e.2 ∈ d.files := by
  have hs := insert_after_entry_resyncs lower assignG L n h hok
  refine ⟨_, saveLayer_of_sync _ hs, (insert_repairs_index lower assignG _ n hok).2, ?_⟩
  intro e he
  exact List.mem_map.2 ⟨e, he, rfl⟩

end

-- non-vacuity: a layer in step, `entry("z")`, `insert_glyph("z")` returns, and `z` is written
example :
    let assignG : Str → List Str → Option Str := fun g ps => if g ++ ".glif".toList ∈ ps then none else some (g ++ ".glif".toList)
    let L := (insertGlyph id assignG (entryOrInsert Layer.default zName) zName)
    L.2 = .ok ∧ L.1.glyphs = [zName] ∧ L.1.contents = [(zName, zFile)] ∧
      saveLayer L.1 = some { contents := [(zName, zFile)], files := [zFile] } := by
  decide

example : Sync Layer.default := sync_new _ _


/-- **every listed non-default directory is taken after loading**, whichever position `layercontents.plist` lists the
    default layer at (first, in the middle, last) and whichever layer it lists first: the loader builds the path set
    AFTER the default layer has been moved to the front. No hypothesis on the tree. -/
theorem loaded_pathSet_covers_listed (lower : Str → Str) (t : Tree) (S : LayerSet) (h : loadTree lower t = some S) :
    ∀ e ∈ t.layercontents, e.2 ≠ glyphsDir → lower e.2 ∈ S.pathSet := by
  unfold loadTree at h
  cases hls : loadLayers lower t.dirs t.layercontents with
  | none => simp [hls] at h
  | some ls =>
    simp only [hls] at h
    unfold defaultFirst at h
    cases hf : ls.find? (·.isDefault) with
    | none => simp [hf] at h
    | some d =>
      simp only [hf, Option.some.injEq] at h
      subst h
      intro e he hne
      obtain ⟨l, hl, _, hp⟩ := loadLayers_listed lower t.dirs t.layercontents ls hls e he
      have hnd : (fun x : Layer => x.isDefault) l = false := by
        simp [Layer.isDefault, hp, hne]
      have := mem_removeFirst_of_not (·.isDefault) ls l hl hnd
      simp only [List.drop_succ_cons, List.drop_zero, List.mem_map]
      exact ⟨l, this, by rw [hp]⟩

/-- the same for the directory handed out next: a name whose natural directory is taken (ignoring case) by ANY listed
    layer does not get it -/
theorem new_layer_after_load_avoids_listed (lower : Str → Str) (assignL : Str → List Str → Option Str)
    (hL : ∀ n ps p, assignL n ps = some p → lower p ∉ ps)
    (t : Tree) (S : LayerSet) (h : loadTree lower t = some S) (name p : Str)
    (hp : assignL name S.pathSet = some p) :
    ∀ e ∈ t.layercontents, e.2 ≠ glyphsDir → lower p ≠ lower e.2 := by
  intro e he hne heq
  exact hL name S.pathSet p hp (heq ▸ loaded_pathSet_covers_listed lower t S h e he hne)

-- non-vacuity: a tree listing `Sketch` (glyphs.S_ketch) FIRST and the default layer LAST loads, and the first-listed
-- directory is in the path set
example :
    let d : DirT := { contents := [], files := [] }
    let t : Tree := { layercontents := [("Sketch".toList, "glyphs.S_ketch".toList), ("b".toList, "glyphs.b".toList),
                                        (defaultName, glyphsDir)],
                      dirs := [("glyphs.S_ketch".toList, d), ("glyphs.b".toList, d), (glyphsDir, d)] }
    (loadTree id t).map (·.pathSet) = some ["glyphs.S_ketch".toList, "glyphs.b".toList] ∧
    (loadTree id t).map (fun S => S.layers.map (·.name)) = some [defaultName, "Sketch".toList, "b".toList] := by
  decide

end Layers
