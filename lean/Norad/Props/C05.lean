import Norad.Spec.Ufo3Vocab
import Norad.Spec.Ufo3Read
import Norad.Spec.DSVocab
import Norad.Generated.Vocab
import Norad.Lemmas.C05
import Norad.Lemmas.C05Bridge
import Norad.Lemmas.C05Doc
import Norad.Lemmas.C05Order
import Norad.Lemmas.C05Mixed
import Norad.Props.C02
/-!
# C05 — files are UFO 3 as an independent implementation reads and writes it

Two kinds of statements.

**Vocabulary** (`decide` over tables): `Generated.Vocab` is regenerated from norad's Rust source by
`tools/extract_vocab.py` on every run; `Ufo3` is the specification's vocabulary typed in independently.  The
theorems say that every name norad's code uses NOW is the specification's name for that thing — a misspelling shared
by norad's reader and writer passes every round-trip check and fails here.

**Specification-level reader/writer**: `spec_reader_finds_values` — what the specification-level writer writes, the
specification-level reader (which is what the driver runs on the trees norad saved) reads back, for every glyph
description.  The tie to norad's encoder is behavioural (correspondence check), see docs/notes/C05.md.
-/
namespace C05
open Ufo3 Generated.Vocab

/-! ## how the Rust types of the `FontInfo` fields read as property-list types -/

def tyOfRust : List (String × Ty) := [
  ("Option<String>", .str), ("Option<StyleMapStyle>", .str),
  ("Option<Integer>", .int), ("Option<NonNegativeInteger>", .int), ("Option<Os2WidthClass>", .int),
  ("Option<PostscriptWindowsCharacterSet>", .int),
  ("Option<f64>", .num), ("Option<IntegerOrFloat>", .num), ("Option<Float>", .num),
  ("Option<NonNegativeIntegerOrFloat>", .num),
  ("Option<bool>", .bool),
  ("Option<Bitlist>", .intList), ("Option<Os2Panose>", .intList), ("Option<Os2FamilyClass>", .intList),
  ("Option<Vec<IntegerOrFloat>>", .numList),
  ("Option<Vec<GaspRangeRecord>>", .dictList), ("Option<Vec<NameRecord>>", .dictList),
  ("Option<Vec<Guideline>>", .dictList), ("Option<Vec<WoffMetadataExtensionRecord>>", .dictList),
  ("Option<WoffMetadataCopyright>", .dict), ("Option<WoffMetadataCredits>", .dict),
  ("Option<WoffMetadataDescription>", .dict), ("Option<WoffMetadataLicense>", .dict),
  ("Option<WoffMetadataLicensee>", .dict), ("Option<WoffMetadataTrademark>", .dict),
  ("Option<WoffMetadataUniqueId>", .dict), ("Option<WoffMetadataVendor>", .dict)]

/-- a field of norad's `FontInfo` (ident, plist key, Rust type) uses a key of the specification with a compatible type -/
def fieldOk (f : String × String × String) : Bool :=
  match fontinfoKeys.lookup f.2.1, tyOfRust.lookup f.2.2 with
  | some t, some t' => t == t'
  | _, _ => false

/-- **every fontinfo.plist key norad reads and writes is a UFO 3 key, with a compatible value type** -/
theorem fontinfo_keys_are_spec_keys : ∀ f ∈ fontinfoFields, fieldOk f = true := by decide +kernel

/-- no two fields share a key, and every key of the specification is covered by a field -/
theorem fontinfo_keys_cover_spec :
    (fontinfoFields.map (·.2.1)).Nodup ∧ ∀ k ∈ fontinfoKeys, (fontinfoFields.map (·.2.1)).contains k.1 = true := by
  decide +kernel

/-- keys of the records nested in fontinfo.plist (gasp, name records, WOFF metadata) and of metainfo.plist -/
def recordSpecName : List (String × String) := [
  ("GaspRangeRecord", "gaspRangeRecord"), ("NameRecord", "nameRecord"),
  ("WoffMetadataCopyright", "woffMetadataCopyright"), ("WoffMetadataCredits", "woffMetadataCredits"),
  ("WoffMetadataCredit", "woffMetadataCredit"), ("WoffMetadataDescription", "woffMetadataDescription"),
  ("WoffMetadataTextRecord", "woffMetadataText"), ("WoffMetadataExtensionRecord", "woffMetadataExtension"),
  ("WoffMetadataExtensionNameRecord", "woffMetadataText"), ("WoffMetadataExtensionItemRecord", "woffMetadataExtensionItem"),
  ("WoffMetadataExtensionValueRecord", "woffMetadataText"), ("WoffMetadataLicense", "woffMetadataLicense"),
  ("WoffMetadataLicensee", "woffMetadataLicensee"), ("WoffMetadataTrademark", "woffMetadataTrademark"),
  ("WoffMetadataUniqueId", "woffMetadataUniqueID"), ("WoffMetadataVendor", "woffMetadataVendor")]

def sameSet (a b : List String) : Bool := a.all b.contains && b.all a.contains

def recordOk (r : String × List (String × String × String)) : Bool :=
  match recordSpecName.lookup r.1 with
  | some n => match recordKeys.lookup n with
    | some ks => sameSet (r.2.map (·.2.1)) ks
    | none => false
  | none => false

theorem record_keys_are_spec_keys :
    (∀ r ∈ recordFields, recordOk r = true) ∧
    (∀ f ∈ metainfoFields, (metainfoKeys.map (·.1)).contains f.2.1 = true) ∧
    sameSet guidelineWriterKeys ((recordKeys.lookup "guideline").getD []) = true ∧
    sameSet guidelineParserKeys ((recordKeys.lookup "guideline").getD []) = true := by decide

/-! ## file names -/

/-- the statics of font.rs / layer.rs / shared_types.rs that name files, directories or reserved keys -/
def constMeaning : List (String × String) := [
  ("METAINFO_FILE", metainfoFile), ("FONTINFO_FILE", fontinfoFile), ("LIB_FILE", libFile),
  ("GROUPS_FILE", groupsFile), ("KERNING_FILE", kerningFile), ("FEATURES_FILE", featuresFile),
  ("DATA_DIR", dataDir), ("IMAGES_DIR", imagesDir), ("CONTENTS_FILE", contentsFile),
  ("LAYER_INFO_FILE", layerinfoFile), ("LAYER_CONTENTS_FILE", layercontentsFile),
  ("DEFAULT_GLYPHS_DIRNAME", defaultGlyphsDir), ("DEFAULT_LAYER_NAME", defaultLayerName),
  ("PUBLIC_OBJECT_LIBS_KEY", objectLibsKey)]

/-- **every file-name constant of norad has the value the specification gives that file** (all of them present) -/
theorem file_names_are_spec_names : ∀ c ∈ constMeaning, fileConsts.lookup c.1 = some c.2 := by decide

/-- and every one of those values is one of the specification's names -/
theorem file_names_in_spec_table :
    ∀ c ∈ constMeaning, (fileNames ++ reservedNames).contains c.2 = true := by decide

theorem layerinfo_keys_are_spec_keys :
    sameSet layerinfoWriterKeys (layerinfoKeys.map (·.1)) = true ∧
    sameSet layerinfoParserKeys (layerinfoKeys.map (·.1)) = true := by decide

/-! ## glif elements and attributes -/

def subsetOf (a b : List String) : Bool := a.all b.contains

/-- per element: attributes used ⊆ attributes of the specification -/
def attrsWithin (tbl : List (String × List String)) : Bool :=
  tbl.all fun e => elementNames.contains e.1 && subsetOf e.2 (attrNames e.1)

/-- per element of the writer table: the parser knows every attribute the writer emits -/
def writerWithinParser : Bool :=
  writerAttrs.all fun e => e.2.isEmpty || subsetOf e.2 ((parserAttrs.lookup e.1).getD [])

/-- every attribute the specification requires is always understood by the parser -/
def parserKnowsRequired : Bool :=
  parserAttrs.all fun e => subsetOf (requiredAttrs e.1) e.2

/-- **the glif vocabulary of norad's writer and of norad's parser is the specification's**: writer ⊆ spec,
parser ⊆ spec, writer ⊆ parser, element names ⊆ spec, parser knows the required attributes -/
theorem glif_attributes_are_spec_attributes :
    attrsWithin writerAttrs = true ∧ attrsWithin parserAttrs = true ∧ writerWithinParser = true ∧
    subsetOf writerElements elementNames = true ∧ subsetOf writerEndElements elementNames = true ∧
    subsetOf parserElements elementNames = true ∧ parserKnowsRequired = true := by decide

/-- the parser understands *every* attribute of the specification (so that a legal file is not refused for its
vocabulary), element by element -/
theorem parser_knows_all_spec_attributes :
    ∀ e ∈ parserAttrs, subsetOf (attrNames e.1) e.2 = true := by decide

/-- the struct field each transformation attribute is tied to, by its position in the matrix -/
def transformField : List (String × String) := [
  ("xScale", "x_scale"), ("xyScale", "xy_scale"), ("yxScale", "yx_scale"), ("yScale", "y_scale"),
  ("xOffset", "x_offset"), ("yOffset", "y_offset")]

/-- **the six transformation attributes are tied to the coefficients the specification ties them to**, in the writer
and in both parser sites (a consistent swap of `xyScale`/`yxScale` on both sides fails here) -/
theorem transform_attributes_match_spec :
    sameSet (transformField.map (·.1)) transformAttrs = true ∧
    (∀ p ∈ writerTransform, transformField.lookup p.1 = some p.2) ∧
    (∀ p ∈ parserTransformComponent, transformField.lookup p.1 = some p.2) ∧
    (∀ p ∈ parserTransformImage, transformField.lookup p.1 = some p.2) ∧
    writerTransform.length = 6 ∧ parserTransformComponent.length = 6 ∧ parserTransformImage.length = 6 := by decide

def variantSpelling : List (String × String) := [
  ("Move", "move"), ("Line", "line"), ("OffCurve", "offcurve"), ("Curve", "curve"), ("QCurve", "qcurve")]

/-- point types, `smooth="yes"`, `format="2"` -/
theorem point_vocabulary_is_spec :
    (∀ p ∈ writerPointTypes, variantSpelling.lookup p.1 = some p.2) ∧
    (∀ p ∈ parserPointTypes, variantSpelling.lookup p.1 = some p.2) ∧
    sameSet (variantSpelling.map (·.2)) pointTypes = true ∧
    writerPointTypes.length = 5 ∧ parserPointTypes.length = 5 ∧
    (∀ s ∈ writerSmooth, smoothValues.lookup s = some true) ∧
    (∀ s ∈ parserSmooth, smoothValues.lookup s = some true) ∧
    writerFormat = ["2"] := by decide

/-! ## the meaning of the transformation -/

/-- the identity defaults leave every point where it is, and the offsets translate -/
theorem affine_defaults_identity (x y : Int) :
    (Affine.apply ⟨1, 0, 0, 1, 0, 0⟩ x y : Int × Int) = (x, y) := by
  simp [Affine.apply]

theorem affine_basis (t : Affine Int) :
    t.apply 1 0 = (t.xScale + t.xOffset, t.xyScale + t.yOffset) ∧
    t.apply 0 1 = (t.yxScale + t.xOffset, t.yScale + t.yOffset) ∧
    t.apply 0 0 = (t.xOffset, t.yOffset) := by
  simp [Affine.apply]

/-! ## specification-level writer → reader -/

/-- **what the specification-level writer writes, the specification-level reader finds** — every value of every
glyph description, under the specification's names, for every lexical codec whose reader inverts its writer -/
theorem spec_reader_finds_values (lx : Lex) (rd : Render)
    (hn : ∀ ns, lx.nums (rd.nums ns) = some ns) (hh : ∀ n, lx.hex (rd.hex n) = some n) (g : GlyphD) :
    specRead lx (specWrite rd g) = some g :=
  Ufo3.specRead_specWrite lx rd hn hh g

/-- the reader is strict about the vocabulary: an attribute the specification does not define makes it fail
(here: a point whose `smooth` is spelt `smoth`), and so does a `smooth` value other than yes/no -/
theorem spec_reader_rejects_foreign_names (lx : Lex) :
    readPoint lx (.elem "point" [("x", "1"), ("y", "2"), ("smoth", "yes")] [] "") = none ∧
    readSmooth [("smooth", "true")] = none := by
  constructor
  · simp [readPoint, allowed, attrNames, attrSpecs, elements, List.lookup, req, opt]
  · simp [readSmooth, List.lookup]

/-! non-vacuity of the two codec hypotheses: a concrete lexical codec (unary numerals, `,`-terminated) satisfies them -/

def encU : List Nat → List Char
  | [] => []
  | n :: r => List.replicate n 'a' ++ ',' :: encU r

def decU : List Char → Nat → List Nat
  | [], _ => []
  | c :: r, k => if c = ',' then k :: decU r 0 else decU r (k + 1)

theorem decU_replicate (n k : Nat) (rest : List Char) :
    decU (List.replicate n 'a' ++ rest) k = decU rest (k + n) := by
  induction n generalizing k with
  | zero => simp
  | succ m ih =>
    simp only [List.replicate_succ, List.cons_append, decU]
    rw [if_neg (by decide), ih]; congr 1; omega

theorem decU_encU (ns : List Nat) : decU (encU ns) 0 = ns := by
  induction ns with
  | nil => rfl
  | cons n r ih => simp [encU, decU_replicate, decU, ih]

def unaryLex : Lex := { nums := fun s => some (decU s.toList 0), hex := fun s => some s.length }
def unaryRender : Render :=
  { nums := fun ns => String.ofList (encU ns), hex := fun n => String.ofList (List.replicate n 'a') }

theorem unary_laws : (∀ ns, unaryLex.nums (unaryRender.nums ns) = some ns) ∧
    (∀ n, unaryLex.hex (unaryRender.hex n) = some n) := by
  constructor
  · intro ns; simp [unaryLex, unaryRender, decU_encU]
  · intro n; simp [unaryLex, unaryRender]

example (g : GlyphD) : specRead unaryLex (specWrite unaryRender g) = some g :=
  spec_reader_finds_values unaryLex unaryRender unary_laws.1 unary_laws.2 g

example : fontinfoFields.length = 108 ∧ fontinfoKeys.length = 108 := by decide

/-! ## the designspace document (also listed under C18) -/

/-- the element each struct of `src/designspace.rs` stands for -/
def dsStructElement : List (String × String) := [
  ("DesignSpaceDocument", "designspace"), ("Axis", "axis"), ("AxisMapping", "map"), ("Rules", "rules"),
  ("Rule", "rule"), ("Substitution", "sub"), ("ConditionSet", "conditionset"), ("Condition", "condition"),
  ("Source", "source"), ("Instance", "instance"), ("Dimension", "dimension")]

/-- fields whose Rust identifier is not the name of the attribute / element they stand for; every other field must be
    serialised under its own identifier -/
def dsFieldSpecial : List ((String × String) × String) := [
  (("Rules", "rules"), "rule"), (("Rule", "condition_sets"), "conditionset"), (("Rule", "substitutions"), "sub"),
  (("ConditionSet", "conditions"), "condition")]

def dsExpectedName (struct field : String) : String := (dsFieldSpecial.lookup (struct, field)).getD field

/-- one struct of designspace.rs: its element, every field under the name the specification gives what the field holds
    (so that two swapped renames fail although the set of names is unchanged), attributes among the element's
    attributes, children among its children, every attribute of the specification covered -/
def dsStructOk (r : String × String × List (String × String × Bool)) : Bool :=
  match dsStructElement.lookup r.1 with
  | none => false
  | some el =>
    (r.2.1 == "" || r.2.1 == el) &&
    (r.2.2.all fun f =>
      f.2.1 == dsExpectedName r.1 f.1 &&
      (if f.2.2 then (DSVocab.attrsOf el).contains f.2.1 else (DSVocab.childrenOf el).contains f.2.1)) &&
    sameSet ((r.2.2.filter (·.2.2)).map (·.2.1)) (DSVocab.attrsOf el) &&
    sameSet ((r.2.2.filter (!·.2.2)).map (·.2.1)) (DSVocab.childrenOf el)

/-- **every attribute and element name of norad's designspace reader/writer (serde renames of `src/designspace.rs`,
regenerated on every run) is the designspace specification's name for what the field holds**: axis
tag/name/minimum/maximum/default/hidden/values, map input/output, source filename/name/familyname/stylename/layer,
instance name/familyname/stylename/filename/postscriptfontname/stylemapfamilyname/stylemapstylename, dimension
name/xvalue/yvalue/uservalue, rules processing, rule name, condition name/minimum/maximum, sub name/with; list wrappers;
`processing` spellings.  A symmetric swap of two renames (invisible to a round trip) fails here. -/
theorem designspace_attributes_are_spec_attributes :
    (∀ r ∈ dsFields, dsStructOk r = true) ∧
    sameSet (dsFields.map (·.1)) (dsStructElement.map (·.1)) = true ∧
    (∀ w ∈ dsWrappers, (DSVocab.childrenOf w.1).contains w.2 = true) ∧
    sameSet dsProcessing DSVocab.processingValues = true := by decide

/-! ## tie to the glif builder's models of norad (C02 `encodeGlif`, C12 `parseGlif`) -/

section
open Glif C05Bridge

/-- **norad's encoder is read by the specification-level reader.**  `encTree f showLib g` is the tree of what
`Glyph::encode_xml` writes — its canonical event list IS `Glif.encodeGlif f g`, event for event — and in it the
independent reader finds, under the names of the UFO 3 specification, exactly the glyph `preG f nc g`, i.e. the glyph
norad's own parser arrives at on the same document (`Glif.parse_encode`: `parseGlif rd (encodeGlif f g) =
loadObjectLibs (preG f nc g)`).  For every valid glyph (`Glif.ValidGlyph`, the glif builder's validity) whose note does
not trim to nothing (recorded C02 guard); colours up to their three decimals (`nc`), scales within 2⁻⁵² of 1 and `-0`
offsets normalised (`normT`), advance `±0`/subnormal as `0` — all inside `preG`.  `hne`: every contour has points — a
contour without points is written as `<contour></contour>`; the independent reader reports it as an empty contour,
norad's parser drops it (`keepContours` in `preG`), so the two readers agree exactly on glyphs without such contours. -/
theorem norad_encoder_read_by_spec_reader {f : Fmt} {lx : Lex} {nc : Color → Color} {ok : Nat → Prop}
    (hc : LexCodec f lx nc ok) (showLib : Dict → String) (readLib : String → LibV)
    (hl : ∀ d, readLib (showLib d) = .dict d) {g : Glyph} (hv : ValidGlyph ok g)
    (hnote : ∀ n, g.note = some n → (trimText n).isEmpty = false)
    (hne : ∀ c, c ∈ g.contours → c.points ≠ []) :
    eventsOf readLib (encTree f showLib g) = encodeGlif f g ∧
    specRead lx (encTree f showLib g) = some (descGlyph showLib (preG f nc g)) :=
  ⟨events_of_encTree f showLib readLib hl g, spec_reads_encTree hc showLib hv hnote hne⟩

/-- the same with norad's parser next to it: on what the encoder writes, the specification-level reader and norad's
parser see the same glyph (before the object libs are moved out of the lib) -/
theorem spec_reader_agrees_with_norad_parser {f : Fmt} {lx : Lex} {rd : Str → Option Nat} {nc : Color → Color}
    {ok : Nat → Prop} (hl : LexCodec f lx nc ok) (hr : Codec f rd nc ok) (showLib : Dict → String) {g : Glyph}
    (hv : ValidGlyph ok g) (hnote : ∀ n, g.note = some n → (trimText n).isEmpty = false)
    (hne : ∀ c, c ∈ g.contours → c.points ≠ []) :
    parseGlif rd (encodeGlif f g) = loadObjectLibs (preG f nc g) ∧
    specRead lx (encTree f showLib g) = some (descGlyph showLib (preG f nc g)) :=
  ⟨parse_encode hr hv, spec_reads_encTree hl showLib hv hnote hne⟩

/-- **norad's parser reads the specification-level writer**, element by element: the attribute parsers `parseGlif` is
made of (`parseAnchor`, `parseGuideline`, `parsePoint`, `parseComponent`, `parseImage`, `parseAdvance`, `parseUnicode`,
the `contour` and `glyph` start tags) return exactly the described values on the attribute lists `Ufo3.specWrite`
produces (its own attribute order; defaults spelt out: `type="offcurve"`, `smooth="no"`, all six coefficients).
The composition over a whole document is `norad_parser_reads_spec_document` below. -/
theorem norad_parser_reads_spec_writer {rd : Str → Option Nat} {rdr : Render} {ok : Nat → Prop}
    (hc : ParseCodec rd rdr ok) (seen : List Str) :
    (∀ a : AnchorD, ok a.x → ok a.y → (∀ n, a.name = some n → validName (L n) = true) → okColor ok a.color →
      FreshId seen (a.identifier.map L) →
      parseAnchor rd 2 seen (nodeAttrs (writeAnchor rdr a)) =
        some { x := a.x, y := a.y, name := a.name.map L, color := a.color.map colG, ident := a.identifier.map L }) ∧
    (∀ (g : GuidelineD) (l : Line), lineOf g = some l → (∀ v, g.x = some v → ok v) → (∀ v, g.y = some v → ok v) →
      (∀ v, g.angle = some v → ok v ∧ angleOk v = true) → (∀ n, g.name = some n → validName (L n) = true) →
      okColor ok g.color → FreshId seen (g.identifier.map L) →
      parseGuideline rd 2 seen (nodeAttrs (writeGuideline rdr g)) =
        some { line := l, name := g.name.map L, color := g.color.map colG, ident := g.identifier.map L }) ∧
    (∀ p : PointD, ok p.x → ok p.y → (∀ n, p.name = some n → validName (L n) = true) →
      FreshId seen (p.identifier.map L) →
      parsePoint rd 2 seen (nodeAttrs (writePoint rdr p)) =
        some { x := p.x, y := p.y, typ := ptG p.typ, smooth := p.smooth, name := p.name.map L,
               ident := p.identifier.map L }) ∧
    (∀ k : ComponentD, validName (L k.base) = true → okAffine ok k.t → FreshId seen (k.identifier.map L) →
      parseComponent rd 2 seen (nodeAttrs (writeComponent rdr k)) =
        some { base := L k.base, transform := trG k.t, ident := k.identifier.map L }) ∧
    (∀ i : ImageD, imageNameOk (L i.fileName) = true → okAffine ok i.t → okColor ok i.color →
      parseImage rd (nodeAttrs (writeImage rdr i)) =
        some { fileName := L i.fileName, color := i.color.map colG, transform := trG i.t }) ∧
    (∀ w h : Nat, ok w → ok h →
      parseAdvance rd (attrsL [("width", rdr.nums [w]), ("height", rdr.nums [h])]) = some (w, h)) ∧
    (∀ (cps : List Nat) (c : Nat), ValidCodepoint c →
      parseUnicode cps (nodeAttrs (writeUnicode rdr c)) = some (cpInsert cps c)) ∧
    (∀ cid : Option String, FreshId seen (cid.map L) →
      parseContourAttrs 2 seen (attrsL (optA "identifier" cid)) = some (cid.map L)) ∧
    (∀ name : String, validName (L name) = true →
      parseGlyphAttrs (some (attrsL [("name", name), ("format", "2")])) = .ok (L name, 2)) :=
  ⟨fun _ hx hy hn hcol hi => norad_parses_spec_anchor hc seen hx hy hn hcol hi,
   fun _ _ hl hx hy ha hn hcol hi => norad_parses_spec_guideline hc seen hl hx hy ha hn hcol hi,
   fun _ hx hy hn hi => norad_parses_spec_point hc seen hx hy hn hi,
   fun _ hb ht hi => norad_parses_spec_component hc seen hb ht hi,
   fun _ hf ht hcol => norad_parses_spec_image hc hf ht hcol,
   fun _ _ hw hh => norad_parses_spec_advance hc hw hh,
   fun cps _ hv => norad_parses_spec_unicode hc cps hv,
   fun cid hi => norad_parses_spec_contour_attrs seen cid hi,
   fun _ hn => norad_parses_spec_glyph_attrs hn⟩

/-- **norad's parser reads a WHOLE document of the specification-level writer** (`Ufo3.specWrite` itself, not a
variant: every attribute spelt out, also the defaults `type="offcurve"`, `smooth="no"`, all six coefficients, both
advance attributes; its own attribute and element order), **with hypotheses on the description only**.
`eventsOf rl (specWrite rdr d)` is the canonical event list of the written tree; `glyphOf nc libD d` the glyph the
description describes, in closed form (what is returned is `load_object_libs` of it, as for every document).
`DescLegal ok nc d` = the rules of a legal glyph stated on `GlyphD`: valid glyph name, `DescOK` (numbers in the codec's
domain, valid names, colours in 0..1 that survive three decimals, coefficients and advance the encoder's gates would not
alter, guideline shape and angle range), image file name without directory, identifiers valid and pairwise different
across ALL objects (`descIdents`), every contour `C11.Legal` (the declarative rule of C11, via `accepts_iff_legal`).
It is decidable: `descLegalB ok nc d = true ↔ DescLegal ok nc d` (`descLegalB_iff`).  Proof: `legalItems_of_descLegal`
derives the glif builder's `LegalItems` of the described document (incl. "at most one advance/outline/lib/note/image"),
every event of `specWrite` makes the parser do the same thing, in every format-2 state, as the generative grammar's
rendering of the same object (`StepSame`, `body_same`), and `Glif.legal_accepted_gdoc` concludes. -/
theorem norad_parser_reads_spec_document {F : Fmt} {rd : Str → Option Nat} {rdr : Render} {nc : Color → Color}
    {ok : Nat → Prop} (hF : Codec F rd nc ok) (hP : ParseCodec rd rdr ok) (rl : String → LibV) (libD : Dict) (d : GlyphD)
    (hd : DescLegal ok nc d) (hl : ∀ t, d.lib = some t → rl t = .dict libD) :
    parseGlif rd (eventsOf rl (specWrite rdr d)) = loadObjectLibs (glyphOf nc libD d) :=
  parse_specWrite_legal hF hP rl libD d hd hl

/-- the rules are decidable -/
theorem desc_legal_decidable (ok : Nat → Prop) [DecidablePred ok] (nc : Color → Color) (d : GlyphD) :
    descLegalB ok nc d = true ↔ DescLegal ok nc d := descLegalB_iff ok nc d

/-- **the other legal spellings of the same description** (what the independent writer varies), as an instance of the
glif builder's `legal_accepted`: defaults OMITTED (no `type` on off-curve points, no `smooth="no"`, no coefficient at
its default, no `±0` advance attribute), numbers and colours in ANY spelling `F` that reads back, the attributes of
every element in ANY order (`EvsPerm`), declaration and comments before the root, `formatMinor="0"` written or not,
anything after `</glyph>`: accepted, and the glyph is the one `specWrite`'s document yields. -/
theorem norad_parser_reads_other_spellings {F : Fmt} {rd : Str → Option Nat} {nc : Color → Color} {ok : Nat → Prop}
    (hF : Codec F rd nc ok) (libD : Dict) (d : GlyphD) (hd : DescLegal ok nc d) (pro tr : List Ev) (minor : Bool)
    (hp : ∀ e, e ∈ pro → isProlog e = true)
    (hol : ∀ v, dictGet objectLibsKey (glyphOf nc libD d).lib = some v → ∃ ol, v = PV.dict ol ∧ AllDicts ol)
    {evs : List Ev}
    (hperm : EvsPerm (render F { prolog := pro, name := L d.name, minor := minor, items := itemsOf libD d, trailer := tr }) evs) :
    ∃ g, parseGlif rd evs = .ok g ∧ loadObjectLibs (glyphOf nc libD d) = .ok g :=
  parse_other_spellings hF libD d hd pro tr minor hp hol hperm

/-- **any element order, comments anywhere** — the full statement behind what the independent writer varies.  For a
legal description `d` and ANY item list `items` with `ItemsPerm (itemsOf libD d) items` — top-level elements of different
kinds exchanged in any way (every permutation that keeps the relative order inside each list-valued family: `unicode`,
`anchor`, `guideline`; inside `outline`: contours among themselves, components among themselves, the two kinds
interleaved freely), comments inserted between elements, inside `outline` and between the points of a contour — rendered
with defaults omitted, numbers/colours in any spelling `F` that reads back, attributes in any order (`EvsPerm`),
declaration/comments before the root, `formatMinor="0"` or not, anything after `</glyph>`: norad's parser accepts it and
returns the SAME glyph, `load_object_libs (glyphOf nc libD d)`.
This covers exactly the order-sensitive case the seeded changes C05-r3-2 / C05-r4-2 broke: `<lib>` written BEFORE the
objects whose libs it carries (`lib` is a family of its own, so it may be moved to the front): the object libs are
resolved at `</glyph>` on the complete glyph, so they are still attached (see the example with `d1` below).
Proof: `interp_perm` / `legalItems_perm` (the described glyph and the legality of the items are invariant under
`ItemsPerm`: items of different families commute in `Glif.applyG`, comments are no-ops) and the glif builder's
`legal_accepted`. -/
theorem norad_parser_reads_spec_document_any_order {F : Fmt} {rd : Str → Option Nat} {nc : Color → Color}
    {ok : Nat → Prop} (hF : Codec F rd nc ok) (libD : Dict) (d : GlyphD) (hd : DescLegal ok nc d)
    {items : List BIt} (hi : ItemsPerm (itemsOf libD d) items)
    (pro tr : List Ev) (minor : Bool) (hp : ∀ e, e ∈ pro → isProlog e = true)
    (hol : ∀ v, dictGet objectLibsKey (glyphOf nc libD d).lib = some v → ∃ ol, v = PV.dict ol ∧ AllDicts ol)
    {evs : List Ev}
    (hperm : EvsPerm (render F { prolog := pro, name := L d.name, minor := minor, items := items, trailer := tr }) evs) :
    ∃ g, parseGlif rd evs = .ok g ∧ loadObjectLibs (glyphOf nc libD d) = .ok g :=
  parse_any_order hF libD d hd hi pro tr minor hp hol hperm

/-- **documents that MIX spelt-out and omitted defaults**: `specWriteWith ch rdr d` is `specWrite` with an independent
choice `ch` at every attribute SITE whose value is the specification's default — `type` of each off-curve point and
`smooth` of each point that is not smooth (`ch.point ci pi`), each of the six coefficients of each component (`ch.comp ki`)
and of the image (`ch.image`), `width` / `height` of the advance — whether the attribute is written or left out (a value
that is not the default is always written).  All-true is `specWrite`, all-false the minimal spelling; every mixture in
between parses to the same glyph.  Same hypotheses as `norad_parser_reads_spec_document`. -/
theorem norad_parser_reads_mixed_document {F : Fmt} {rd : Str → Option Nat} {rdr : Render} {nc : Color → Color}
    {ok : Nat → Prop} (hF : Codec F rd nc ok) (hP : ParseCodec rd rdr ok) (ch : Choice) (rl : String → LibV) (libD : Dict)
    (d : GlyphD) (hd : DescLegal ok nc d) (hl : ∀ t, d.lib = some t → rl t = .dict libD) :
    parseGlif rd (eventsOf rl (specWriteWith ch rdr d)) = loadObjectLibs (glyphOf nc libD d) :=
  parse_specWriteWith hF hP ch rl libD d hd hl

-- OPEN (not reached), kept as a statement: format 1.
--   norad_parser_reads_spec_document_v1 : for a description without identifiers, anchors, guidelines, image and note
--   (what a format-1 glif can hold), written with `format="1"`, `parseGlif` returns the described glyph with the single
--   named `move` contours turned into anchors.  The glif builder's `legal_accepted_v1` (`renderV1`, `interpV1`,
--   `LegalItemsV1`) is the engine; missing here: a format-1 specification writer, `LegalItemsV1` derived from `DescLegal`
--   plus the format-1 restrictions, and `interpV1` of the described document in closed form.  C05 is about UFO 3, whose
--   glifs are format 2; format-1 input is C04/C14 territory.

/-! non-vacuity of the two codec hypotheses (the glif builder's `F0`, `R0`, `nc0`, `ok0`: every number is 0) -/

def lex0 : Lex :=
  { nums := fun s => if s = "0" then some [0] else if s = "0,0,0,0" then some [0, 0, 0, 0] else none,
    hex := fun s => parseHex s.toList }

theorem lexCodec0 : LexCodec F0 lex0 nc0 ok0 := by
  refine ⟨?_, ?_, ?_⟩
  · intro b hb; cases hb; decide
  · intro c
    have h : showColor F0 c = "0,0,0,0".toList := rfl
    rw [h]
    show lex0.nums (S "0,0,0,0".toList) = some [0, 0, 0, 0]
    decide
  · intro c hv; simpa [lex0] using parseHex_showCodepoint hv.1 hv.2

def render0 : Render :=
  { nums := fun ns => if ns.length = 1 then "0" else "0,0,0,0", hex := fun c => String.ofList (showCodepoint c) }

theorem parseCodec0 : ParseCodec R0 render0 ok0 := by
  refine ⟨?_, ?_, ?_⟩
  · intro n hn; cases hn; decide
  · intro c h1 h2 h3 h4
    obtain ⟨r, g, b, a⟩ := c
    obtain ⟨h1, _⟩ := h1; obtain ⟨h2, _⟩ := h2; obtain ⟨h3, _⟩ := h3; obtain ⟨h4, _⟩ := h4
    cases h1; cases h2; cases h3; cases h4; decide
  · intro c hv; simpa [render0] using parseHex_showCodepoint hv.1 hv.2

/-- a sample description: code point, anchor with name and identifier, one contour, one component -/
def d0 : GlyphD :=
  { name := "a", width := 0, height := 0, unicodes := [65], note := none, image := none, guidelines := [],
    anchors := [⟨0, 0, some "t", none, some "i"⟩],
    contours := [⟨none, [⟨0, 0, .line, false, none, some "p"⟩]⟩],
    components := [⟨"b", ⟨0, 0, 0, 0, 0, 0⟩, some "k"⟩], lib := none }

instance : DecidablePred ok0 := fun b => by unfold ok0; infer_instance

/-- the sample description is legal: by evaluation of the executable rules -/
theorem descLegal_d0 : DescLegal ok0 nc0 d0 := (desc_legal_decidable ok0 nc0 d0).1 (by decide)

-- the document theorem applies: its hypotheses are satisfiable together
example : parseGlif R0 (eventsOf (fun _ => .bad) (specWrite render0 d0)) = loadObjectLibs (glyphOf nc0 [] d0) :=
  norad_parser_reads_spec_document codec0 parseCodec0 (fun _ => .bad) [] d0 descLegal_d0 (by intro t ht; cases ht)

-- and so does the corollary: `specWrite`'s own event list is one of the spellings (trivial permutation excluded, the
-- gated rendering with `F0` is)
example : ∃ g, parseGlif R0 (render F0 (gdocOf [] d0)) = .ok g ∧ loadObjectLibs (glyphOf nc0 [] d0) = .ok g :=
  norad_parser_reads_other_spellings codec0 [] d0 descLegal_d0 [.decl] [] false (by intro e he; simp at he; subst he; rfl)
    (by intro v hv; simp [glyphOf, d0, dictGet] at hv) (evsPerm_refl _)

/-- `d0` with a lib whose `public.objectLibs` carries a lib for the anchor `i` -/
def d1 : GlyphD := { d0 with lib := some "t" }
def libD1 : Dict := [(objectLibsKey, .dict [("i".toList, .dict [(['k'], PV.atom "b1")])])]

/-- the same document with `<lib>` FIRST and `<outline>` LAST -/
def itemsLibFirst : List BIt :=
  [.lib libD1, .advance 0 0, .unicode 65, .anchor (anchorG ⟨0, 0, some "t", none, some "i"⟩), .outline (oitsOf d1)]

theorem itemsPerm_d1 : ItemsPerm (itemsOf libD1 d1) itemsLibFirst := by
  have e : itemsOf libD1 d1 =
      [.advance 0 0, .unicode 65, .anchor (anchorG ⟨0, 0, some "t", none, some "i"⟩), .outline (oitsOf d1), .lib libD1] := rfl
  rw [e]
  exact (ItemsPerm.cons _ (.cons _ (.cons _ (.swap _ _ _ (by decide))))).trans
    ((ItemsPerm.cons _ (.cons _ (.swap _ _ _ (by decide)))).trans
      ((ItemsPerm.cons _ (.swap _ _ _ (by decide))).trans (.swap _ _ _ (by decide))))

-- `<lib>` before the anchor whose lib it carries: accepted, and the anchor gets its lib (the C05-r3-2 / r4-2 regression)
example : ∃ g, parseGlif R0 (render F0 { prolog := [.decl], name := L d1.name, minor := false, items := itemsLibFirst, trailer := [] }) = .ok g ∧
    loadObjectLibs (glyphOf nc0 libD1 d1) = .ok g :=
  norad_parser_reads_spec_document_any_order codec0 libD1 d1 ((desc_legal_decidable ok0 nc0 d1).1 (by decide)) itemsPerm_d1
    [.decl] [] false (by intro e he; simp at he; subst he; rfl)
    (by
      intro v hv
      have : v = PV.dict [("i".toList, .dict [(['k'], PV.atom "b1")])] := by
        simp [glyphOf, d1, d0, libD1, dictGet] at hv; exact hv.symm
      subst this
      exact ⟨_, rfl, by intro e he; simp at he; subst he; exact ⟨_, rfl⟩⟩)
    (evsPerm_refl _)

example : (match loadObjectLibs (glyphOf nc0 libD1 d1) with
    | .ok g => g.anchors.all (fun a => a.lib.isSome) && g.lib.isEmpty
    | .error _ => false) = true := by decide +kernel

-- a mixed document: defaults spelt out at even sites, omitted at odd ones
example : parseGlif R0 (eventsOf (fun _ => .bad)
      (specWriteWith ⟨true, false, fun k => k == .xScale, fun ci pi => ⟨ci % 2 == 0, pi % 2 == 1⟩, fun ki k => (ki % 2 == 0) && k != .yOffset⟩
        render0 d0)) = loadObjectLibs (glyphOf nc0 [] d0) :=
  norad_parser_reads_mixed_document codec0 parseCodec0 _ (fun _ => .bad) [] d0 descLegal_d0 (by intro t ht; cases ht)

-- the element theorems apply (their codec hypothesis is satisfiable)
example := norad_parser_reads_spec_writer parseCodec0 []

-- the encoder theorem applies to the glif builder's sample glyph `g0` (its hypotheses are satisfiable)
example : specRead lex0 (encTree F0 (fun _ => "lib") g0) = some (descGlyph (fun _ => "lib") (preG F0 nc0 g0)) :=
  spec_reads_encTree lexCodec0 (fun _ => "lib") valid_g0 (by intro n hn; cases hn)
    (by intro c hc; simp [g0] at hc; subst hc; simp)

end

end C05
