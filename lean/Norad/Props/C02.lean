import Norad.Spec.C02
import Norad.Props.C12
import Norad.Lemmas.C02
/-!
# C02 — encoding a glyph to glif XML and parsing it back is lossless

`encodeGlif` (`Model/GlifWrite.lean`) is the writer, `parseGlif` (`Model/Glif.lean`) the parser.

Full-strength statement (FALSE on the tree, kept visible):
  glif_roundtrip : ∀ valid g, ∀ f, parseGlif rd (encodeGlif f g) = .ok g' with g' ≈ g and g' independent of f.
It fails for lib text with newlines (options-dependent re-indentation), for notes that are not their own trim,
for subnormal advances and for empty contours; the three `_counterexample`s below are replayed on the real
crate by corpus/C02/witnesses.case.  Proved here: the value-level facts behind the guards of `_partial`.

Kernel-checked (second phase): the element-level writer → parser round trips `anchor_roundtrip`, `guideline_roundtrip`,
`point_roundtrip`, `component_roundtrip`, `image_roundtrip`, `advance_roundtrip`, `unicode_roundtrip`,
`contourAttrs_roundtrip`, `glyphAttrs_roundtrip` and the composition `parse_encode` (all in `Lemmas/C02.lean`, listed in
the audit): for EVERY valid glyph, `parseGlif rd (encodeGlif f g) = loadObjectLibs (preG f nc g)`; and
`glif_roundtrip_partial_no_object_libs` below.
-/
namespace Glif

/-! ### the lib re-indentation -/

/-- on text without a newline the re-indentation is the identity (guard of `glif_roundtrip_partial`) -/
theorem reindent_id_of_no_newline (ind s : Str) (h : '\n' ∉ s) : reindent ind s = s := by
  induction s with
  | nil => rfl
  | cons c r ih =>
    simp only [List.mem_cons, not_or] at h
    have hc : c ≠ '\n' := fun e => h.1 e.symm
    simp [reindent, hc, ih h.2]

/-- with indent width 0 the re-indentation is the identity: the result depends on the options -/
theorem reindent_empty_indent (s : Str) : reindent [] s = s := by
  induction s with
  | nil => rfl
  | cons c r ih => by_cases hc : c = '\n' <;> simp [reindent, hc, ih]

/-- a newline makes the text grow: there is no fixed point under repeated save -/
theorem reindent_length (ind s : Str) :
    (reindent ind s).length = s.length + 2 * ind.length * s.count '\n' := by
  induction s with
  | nil => simp [reindent]
  | cons c r ih =>
    by_cases hc : c = '\n'
    · subst hc
      simp only [reindent, if_true, List.length_cons, List.length_append, ih, List.count_cons_self]
      rw [Nat.mul_add]; omega
    · have : ('\n' == c) = false := by simp; exact fun e => hc e.symm
      simp [reindent, hc, ih, List.count_cons, this]
      omega

-- **reindentDict_id**: a lib without a newline in any string or key, at any depth, is left alone by the
-- re-indentation, whatever the options (the guard of `glif_roundtrip_partial`, as a predicate)
open Spec02 in
mutual
theorem reindentPV_id (ind : Str) : ∀ v : PV, pvHasNewline v = false → reindentPV ind v = v
  | .str s, h => by
    have : '\n' ∉ s := by simpa [pvHasNewline] using h
    simp [reindentPV, reindent_id_of_no_newline ind s this]
  | .atom _, _ => by simp [reindentPV]
  | .arr xs, h => by
    have h' : listHasNewline xs = false := by simpa [pvHasNewline] using h
    simp [reindentPV, reindentList_id ind xs h']
  | .dict kvs, h => by
    have h' : dictHasNewline kvs = false := by simpa [pvHasNewline] using h
    simp [reindentPV, reindentDict_id ind kvs h']
theorem reindentList_id (ind : Str) : ∀ xs : List PV, listHasNewline xs = false → reindentList ind xs = xs
  | [], _ => by simp [reindentList]
  | x :: r, h => by
    have h' : pvHasNewline x = false ∧ listHasNewline r = false := by simpa [listHasNewline] using h
    simp [reindentList, reindentPV_id ind x h'.1, reindentList_id ind r h'.2]
theorem reindentDict_id (ind : Str) : ∀ kvs : List (Str × PV), dictHasNewline kvs = false → reindentDict ind kvs = kvs
  | [], _ => by simp [reindentDict]
  | (k, v) :: r, h => by
    have h' : ('\n' ∉ k ∧ pvHasNewline v = false) ∧ dictHasNewline r = false := by
      simpa [dictHasNewline] using h
    simp [reindentDict, reindent_id_of_no_newline ind k h'.1.1, reindentPV_id ind v h'.1.2, reindentDict_id ind r h'.2]
end

/-- **glif_roundtrip_counterexample (lib text)**: "line1\nline2" does not come back, and what comes back depends
    on the options -/
theorem glif_roundtrip_counterexample_lib_newline :
    reindent ['\t'] "line1\nline2".toList ≠ "line1\nline2".toList ∧
    reindent ['\t'] "line1\nline2".toList ≠ reindent [' ', ' '] "line1\nline2".toList := by
  decide

/-! ### the note -/

/-- **glif_roundtrip_counterexample (note)**: blanks at both ends are lost and an empty note disappears -/
theorem glif_roundtrip_counterexample_note :
    trimText "  n \n".toList = "n".toList ∧ trimText [] = [] := by
  decide

def F0 : Fmt := { shw := fun _ => ['0'], fmt3 := fun _ => "0.000".toList, indent := ['\t'] }
def R0 : Str → Option Nat := fun s => if s = ['0'] then some 0 else none

/-- an empty note and a note of blanks are written without text and read back as no note;
    **(empty contour)** a contour without points is written and dropped by the parser -/
theorem glif_roundtrip_counterexample_written :
    (match parseGlif R0 (encodeGlif F0 { name := ['a'], note := some [' '] }) with
     | .ok g => g.note.isNone
     | .error _ => false) = true ∧
    (match parseGlif R0 (encodeGlif F0 { name := ['a'], contours := [{ points := [], ident := some ['i'] }] }) with
     | .ok g => g.contours.isEmpty
     | .error _ => false) = true := by
  decide +kernel

/-! ### gates -/

/-- the transform gates drop a scale only when it is within 2^-52 of 1 (or NaN), an offset only when it is ±0 -/
theorem gates_drop_only_defaults (b : Nat) :
    (farFromOne b = false → b = 0x3FEFFFFFFFFFFFFE ∨ b = 0x3FEFFFFFFFFFFFFF ∨ b = f64One ∨ b = 0x3FF0000000000001 ∨ isNaN b = true) ∧
    (nonZero b = false → b = 0 ∨ b = f64NegZero) := by
  constructor
  · intro h
    simp only [farFromOne, Bool.not_eq_false', Bool.or_eq_true, beq_iff_eq] at h
    rcases h with (((h | h) | h) | h) | h
    · exact Or.inl h
    · exact Or.inr (Or.inl h)
    · exact Or.inr (Or.inr (Or.inl h))
    · exact Or.inr (Or.inr (Or.inr (Or.inl h)))
    · exact Or.inr (Or.inr (Or.inr (Or.inr h)))
  · intro h
    simp only [nonZero, Bool.not_eq_false', Bool.or_eq_true, beq_iff_eq] at h
    exact h

/-! ### object libs: the writer puts them under `public.objectLibs`, nothing else changes in the lib -/

/-- **encode_no_objectlibs_leak**: without object libs the written lib is the glyph lib itself -/
theorem encode_no_objectlibs_leak (g : Glyph) (h : dumpObjectLibs g = []) : writtenLib g = g.lib := by
  simp [writtenLib, h]

/-- whatever is read back, no `public.objectLibs` key is left in the lib (C12's `returned_glyph_wellformed`
    applied to the writer's output) -/
theorem encode_then_parse_no_objectlibs_key (rd : Str → Option Nat) (f : Fmt) (g g' : Glyph)
    (h : parseGlif rd (encodeGlif f g) = .ok g') : dictGet objectLibsKey g'.lib = none :=
  (returned_glyph_wellformed rd h).no_objectlibs_key

def anchorWithLib : Anchor :=
  { x := 0, y := 0, name := none, color := none, ident := some ['i'], lib := some [(['k'], PV.atom "b1")] }

-- non-vacuity: a glyph with an anchor lib is written with the key and read back with the lib on the anchor
example :
    (match parseGlif R0 (encodeGlif F0 { name := ['a'], anchors := [anchorWithLib] }) with
     | .ok g => (match g.anchors with | [a] => a.lib.isSome && g.lib.isEmpty | _ => false)
     | .error _ => false) = true := by
  decide +kernel

/-! ### the round trip -/

section
variable {f : Fmt} {rd : Str → Option Nat} {nc : Color → Color} {ok : Nat → Prop}

/-- **glif_roundtrip_partial** (glyphs without object libs): for every valid glyph, under the guards that the
    recorded findings force — lib text the re-indentation leaves alone, a note that is its own non-empty trim, an
    advance that is normal or `+0`, the reserved key unused — the parser accepts what the writer produces and
    returns `normG nc g`, which does not depend on the options. -/
theorem glif_roundtrip_partial_no_object_libs (hc : Codec f rd nc ok) {g : Glyph} (hv : ValidGlyph ok g)
    (hobj : NoObjectLibs g)
    (hkey : dictGet objectLibsKey g.lib = none)
    (hlib : reindentDict f.indent g.lib = g.lib)
    (hnote : ∀ n, g.note = some n → trimText n = n ∧ n ≠ [])
    (hadv : (isNormal g.width = true ∨ g.width = 0) ∧ (isNormal g.height = true ∨ g.height = 0))
    (hne : ∀ c, c ∈ g.contours → c.points ≠ []) :
    parseGlif rd (encodeGlif f g) = .ok (normG nc g) := by
  rw [parse_encode hc hv]
  have hw : writtenLib g = g.lib := by simp [writtenLib, dump_empty_of_no_libs hobj]
  have hn : pNote g.note = g.note := by
    cases hgn : g.note with
    | none => rfl
    | some n =>
      obtain ⟨h1, h2⟩ := hnote n hgn
      have : (trimText n).isEmpty = false := by rw [h1]; cases n <;> simp_all
      simp [pNote, h1, h2]
  have hwd : (if isNormal g.width || isNormal g.height then (if nonZero g.width then g.width else 0) else 0) = g.width := by
    rcases hadv.1 with h | h
    · simp [h, isNormal_nonZero h]
    · simp [h]
  have hht : (if isNormal g.width || isNormal g.height then (if nonZero g.height then g.height else 0) else 0) = g.height := by
    rcases hadv.2 with h | h
    · simp [h, isNormal_nonZero h]
    · simp [h]
  have hpre : preG f nc g = normG nc g := by
    simp only [preG, normG, hw, hlib, hn, hwd, hht, keepContours_of_nonempty hne]
  rw [hpre]
  have : dictGet objectLibsKey (normG nc g).lib = none := hkey
  simp [loadObjectLibs, this]

end

/-! ### the newline guard, from the oracle's feature test -/

section
open Spec02

theorem dictHasNewline_append (a b : Dict) : dictHasNewline (a ++ b) = (dictHasNewline a || dictHasNewline b) := by
  induction a with
  | nil => simp [dictHasNewline]
  | cons e r ih =>
    obtain ⟨k, v⟩ := e
    simp [dictHasNewline, ih, Bool.or_assoc]

theorem dictHasNewline_flatMap {α : Type} (e : α → Dict) (xs : List α) (h : ∀ x, x ∈ xs → dictHasNewline (e x) = false) :
    dictHasNewline (xs.flatMap e) = false := by
  induction xs with
  | nil => simp [dictHasNewline]
  | cons x r ih =>
    rw [List.flatMap_cons, dictHasNewline_append, h x List.mem_cons_self,
      ih (fun y hy => h y (List.mem_cons_of_mem _ hy))]
    rfl

theorem validIdent_no_newline {i : Str} (h : validIdent i = true) : '\n' ∉ i := by
  simp only [validIdent, Bool.and_eq_true, List.all_eq_true, decide_eq_true_eq] at h
  intro hm
  exact absurd (h.2 _ hm) (by decide)

theorem ent_no_newline {id : Option Str} {lib : Option Dict} (hi : ∀ i, id = some i → validIdent i = true)
    (hl : ∀ l, lib = some l → dictHasNewline l = false) : dictHasNewline (ent id lib) = false := by
  cases lib with
  | none => cases id <;> simp [ent, dictHasNewline]
  | some l =>
    cases id with
    | none => simp [ent, dictHasNewline]
    | some i => simp [ent, dictHasNewline, pvHasNewline, validIdent_no_newline (hi i rfl), hl l rfl]

/-- the guard of `glif_roundtrip_partial` from the oracle's own feature test: if no lib of the glyph (its own or an
    object's) has a newline in a string or key, the lib that is written has none either -/
theorem writtenLib_no_newline {ok : Nat → Prop} {g : Glyph} (hv : ValidGlyph ok g)
    (hkey : dictGet objectLibsKey g.lib = none)
    (h : (allLibs g).any dictHasNewline = false) : dictHasNewline (writtenLib g) = false := by
  have hall : ∀ d, d ∈ allLibs g → dictHasNewline d = false := by
    intro d hd
    have := List.any_eq_false.1 h d hd
    simpa using this
  have h0 : dictHasNewline g.lib = false := hall _ (by simp [allLibs])
  have hA : ∀ a, a ∈ g.anchors → ∀ l, a.lib = some l → dictHasNewline l = false := by
    intro a ha l hl
    exact hall l (by simp only [allLibs, List.mem_cons, List.mem_append, List.mem_map]; exact Or.inr (Or.inl (Or.inl (Or.inl ⟨a, ha, by simp [optDict, hl]⟩))))
  have hG : ∀ a, a ∈ g.guidelines → ∀ l, a.lib = some l → dictHasNewline l = false := by
    intro a ha l hl
    exact hall l (by simp only [allLibs, List.mem_cons, List.mem_append, List.mem_map]; exact Or.inr (Or.inl (Or.inl (Or.inr ⟨a, ha, by simp [optDict, hl]⟩))))
  have hC : ∀ c, c ∈ g.contours → (∀ l, c.lib = some l → dictHasNewline l = false) ∧
      ∀ p, p ∈ c.points → ∀ l, p.lib = some l → dictHasNewline l = false := by
    intro c hc
    refine ⟨fun l hl => hall l ?_, fun p hp l hl => hall l ?_⟩
    · simp only [allLibs, List.mem_cons, List.mem_append, List.mem_flatMap]
      exact Or.inr (Or.inl (Or.inr ⟨c, hc, by simp [optDict, hl]⟩))
    · simp only [allLibs, List.mem_cons, List.mem_append, List.mem_flatMap, List.mem_map]
      exact Or.inr (Or.inl (Or.inr ⟨c, hc, Or.inr ⟨p, hp, by simp [optDict, hl]⟩⟩))
  have hK : ∀ a, a ∈ g.components → ∀ l, a.lib = some l → dictHasNewline l = false := by
    intro a ha l hl
    exact hall l (by simp only [allLibs, List.mem_cons, List.mem_append, List.mem_map]; exact Or.inr (Or.inr ⟨a, ha, by simp [optDict, hl]⟩))
  have hol : dictHasNewline (dumpObjectLibs g) = false := by
    rw [dumpObjectLibs_eq hv.idents]
    simp only [dictHasNewline_append, Bool.or_eq_false_iff]
    refine ⟨?_, ?_, ?_, ?_⟩
    · exact dictHasNewline_flatMap _ _ (fun a ha => ent_no_newline (hv.anchors a ha).ident (hA a ha))
    · exact dictHasNewline_flatMap _ _ (fun a ha => ent_no_newline (hv.guidelines a ha).ident (hG a ha))
    · refine dictHasNewline_flatMap _ _ (fun c hc => ?_)
      rw [entsC, dictHasNewline_append, ent_no_newline (hv.contours c hc).ident (hC c hc).1]
      exact dictHasNewline_flatMap _ _ (fun p hp => ent_no_newline ((hv.contours c hc).points p hp).ident ((hC c hc).2 p hp))
    · exact dictHasNewline_flatMap _ _ (fun a ha => ent_no_newline (hv.components a ha).ident (hK a ha))
  unfold writtenLib
  simp only
  split
  · exact h0
  · rw [dictInsert_fresh ((dictGet_none_iff _ _).1 hkey), dictHasNewline_append, h0]
    have : '\n' ∉ objectLibsKey := by decide
    simp [dictHasNewline, pvHasNewline, hol, this]

end

/-! ### the round trip, object libs included -/

section
variable {f : Fmt} {rd : Str → Option Nat} {nc : Color → Color} {ok : Nat → Prop}

/-- the glyph that comes back, libs included: `g` with colours as their three-decimal strings read, scales within
    2^-52 of 1 as 1 and `-0` offsets as `0` -/
def normGL (nc : Color → Color) (g : Glyph) : Glyph :=
  { g with
    guidelines := g.guidelines.map (nGuideline nc)
    anchors := g.anchors.map (nAnchor nc)
    components := g.components.map nComponent
    contours := g.contours.map nContour
    image := g.image.map (pImage nc) }

/-- **glif_roundtrip_partial**: for every valid glyph — object libs included, each on an object with an identifier —
    under the guards the recorded findings force (no newline in any string or key of any lib of the glyph — the oracle's
    own `lib-newline` feature test `Spec02.guardFeatures` —, a note
    that is its own non-empty trim, an advance that is normal or `+0`, the reserved key unused, no contour without points)
    the parser accepts what
    the writer produces, for ANY options, and returns `normGL nc g`, which does not mention the options. -/
theorem glif_roundtrip_partial (hc : Codec f rd nc ok) {g : Glyph} (hv : ValidGlyph ok g) (hl : LibsIdentified g)
    (hkey : dictGet objectLibsKey g.lib = none)
    (hnl : (Spec02.allLibs g).any Spec02.dictHasNewline = false)
    (hnote : ∀ n, g.note = some n → trimText n = n ∧ n ≠ [])
    (hadv : (isNormal g.width = true ∨ g.width = 0) ∧ (isNormal g.height = true ∨ g.height = 0))
    (hne : ∀ c, c ∈ g.contours → c.points ≠ []) :
    parseGlif rd (encodeGlif f g) = .ok (normGL nc g) := by
  replace hnl := writtenLib_no_newline hv hkey hnl
  rw [parse_encode hc hv]
  have hlib : (preG f nc g).lib = writtenLib g := by
    simp only [preG]
    exact reindentDict_id f.indent _ hnl
  rw [encode_then_parse_restores_object_libs (nc := nc) hv.idents hl hkey (preG f nc g) rfl rfl
    (by simp only [preG]; exact keepContours_of_nonempty hne) rfl hlib]
  have hn : pNote g.note = g.note := by
    cases hgn : g.note with
    | none => rfl
    | some n =>
      obtain ⟨h1, h2⟩ := hnote n hgn
      simp [pNote, h1, h2]
  have hwd : (if isNormal g.width || isNormal g.height then (if nonZero g.width then g.width else 0) else 0) = g.width := by
    rcases hadv.1 with h | h
    · simp [h, isNormal_nonZero h]
    · simp [h]
  have hht : (if isNormal g.width || isNormal g.height then (if nonZero g.height then g.height else 0) else 0) = g.height := by
    rcases hadv.2 with h | h
    · simp [h, isNormal_nonZero h]
    · simp [h]
  simp only [preG, normGL, hn, hwd, hht]

end

/-! ### seed round 4: contours without points are the only contours lost -/

section
variable {f : Fmt} {rd : Str → Option Nat} {nc : Color → Color} {ok : Nat → Prop}

/-- `g` without its contours that have no points -/
def dropEmpty (g : Glyph) : Glyph := { g with contours := g.contours.filter (fun c => !c.points.isEmpty) }

theorem foldl_filter_skip {α β : Type} (fn : β → α → β) (p : α → Bool) :
    ∀ (l : List α) (b : β), (∀ a, a ∈ l → p a = false → ∀ b, fn b a = b) → l.foldl fn b = (l.filter p).foldl fn b := by
  intro l
  induction l with
  | nil => intro b _; rfl
  | cons a r ih =>
    intro b h
    cases hp : p a with
    | true =>
      simp only [List.filter_cons, hp, if_true, List.foldl_cons]
      exact ih _ (fun x hx => h x (List.mem_cons_of_mem _ hx))
    | false =>
      simp only [List.filter_cons, hp, List.foldl_cons, h a List.mem_cons_self hp b]
      exact ih _ (fun x hx => h x (List.mem_cons_of_mem _ hx))

theorem flatMap_filter_sublist {α β : Type} (fn : α → List β) (p : α → Bool) :
    ∀ (l : List α), ((l.filter p).flatMap fn).Sublist (l.flatMap fn) := by
  intro l
  induction l with
  | nil => exact List.Sublist.refl _
  | cons a r ih =>
    cases hp : p a with
    | true =>
      simp only [List.filter_cons, hp, if_true, List.flatMap_cons]
      exact List.Sublist.append (List.Sublist.refl _) ih
    | false =>
      simp only [List.filter_cons, hp, List.flatMap_cons]
      exact ih.trans (List.sublist_append_right _ _)

theorem dump_dropEmpty {g : Glyph} (hnolib : ∀ c, c ∈ g.contours → c.points = [] → c.lib = none) :
    dumpObjectLibs (dropEmpty g) = dumpObjectLibs g := by
  unfold dumpObjectLibs dropEmpty
  simp only
  rw [← foldl_filter_skip _ (fun c : Contour => !c.points.isEmpty) g.contours _ ?_]
  intro c hc hp b
  have he : c.points = [] := by
    cases hpp : c.points with
    | nil => rfl
    | cons _ _ => simp [hpp] at hp
  rw [hnolib c hc he, he, dumpOne_none]
  rfl

theorem valid_dropEmpty {g : Glyph} (hv : ValidGlyph ok g) : ValidGlyph ok (dropEmpty g) := by
  refine ⟨hv.name, hv.width, hv.height, hv.codepoints, hv.codepointsNodup, hv.image, hv.anchors, hv.guidelines,
    fun c hc => hv.contours c (List.mem_filter.1 hc).1, hv.components, ?_⟩
  refine List.Nodup.sublist ?_ hv.idents
  simp only [Spec.glyphIdents, dropEmpty]
  exact List.Sublist.append (List.Sublist.append (List.Sublist.refl _) (flatMap_filter_sublist _ _ _)) (List.Sublist.refl _)

/-- **empty_contours_only_loss**: the writer model writes every contour (skip-and-continue is the parser's `end_path`, not
    a `break` in the writer), so a glyph with contours that have no points (carrying no lib of their own) is read back
    exactly as the same glyph without them: the contours without points are the ONLY loss — every other contour comes
    back, in order, with its identifier, its points and its libs (`parse_encode`, `glif_roundtrip_partial` for
    `dropEmpty g`). -/
theorem empty_contours_only_loss (hc : Codec f rd nc ok) {g : Glyph} (hv : ValidGlyph ok g)
    (hnolib : ∀ c, c ∈ g.contours → c.points = [] → c.lib = none) :
    parseGlif rd (encodeGlif f g) = parseGlif rd (encodeGlif f (dropEmpty g)) := by
  rw [parse_encode hc hv, parse_encode hc (valid_dropEmpty hv)]
  have hw : writtenLib (dropEmpty g) = writtenLib g := by
    unfold writtenLib
    rw [dump_dropEmpty hnolib]
    rfl
  have hk : keepContours (dropEmpty g).contours = keepContours g.contours := by
    simp [keepContours, dropEmpty, List.filter_filter]
  simp only [preG, hw, hk]
  rfl
end

/-! ### non-vacuity of the codec hypotheses and of `ValidGlyph` -/

def ok0 : Nat → Prop := fun b => b = 0
def nc0 : Color → Color := fun _ => ⟨0, 0, 0, 0⟩

theorem codec0 : Codec F0 R0 nc0 ok0 := by
  constructor
  · intro b hb
    cases hb
    rfl
  · intro c
    rfl

def g0 : Glyph :=
  { name := ['a'], codepoints := [65],
    anchors := [{ x := 0, y := 0, name := some ['t'], color := some ⟨0, 0, 0, 0⟩, ident := some ['i'] }],
    contours := [{ points := [{ x := 0, y := 0, typ := .line, smooth := false, name := none, ident := some ['p'] }], ident := none }],
    components := [{ base := ['b'], transform := { xScale := 0, xyScale := 0, yxScale := 0, yScale := 0, xOffset := 0, yOffset := 0 }, ident := some ['k'] }],
    lib := [(['k'], PV.str ['v'])] }

theorem valid_g0 : ValidGlyph ok0 g0 := by
  refine ⟨by decide, rfl, rfl, ?_, by decide, ?_, ?_, ?_, ?_, ?_, by decide⟩
  · intro c hc; simp [g0] at hc; subst hc; exact ⟨by decide, by decide⟩
  · intro i hi; simp [g0] at hi
  · intro a ha; simp [g0] at ha; subst ha
    exact ⟨rfl, rfl, by intro n hn; cases hn; decide, by intro i hi; cases hi; decide⟩
  · intro a ha; simp [g0] at ha
  · intro c hc; simp [g0] at hc; subst hc
    refine ⟨?_, by decide, by intro i hi; cases hi⟩
    intro p hp; simp at hp; subst hp
    exact ⟨rfl, rfl, (by intro n hn; cases hn), (by intro i hi; cases hi; decide)⟩
  · intro k hk; simp [g0] at hk; subst hk
    exact ⟨by decide, ⟨rfl, rfl, rfl, rfl, rfl, rfl⟩, by intro i hi; cases hi; decide⟩

-- the round-trip theorem applies to `g0` (its hypotheses are satisfiable) and the glyph comes back
example : parseGlif R0 (encodeGlif F0 g0) = .ok (normG nc0 g0) :=
  glif_roundtrip_partial_no_object_libs codec0 valid_g0
    ⟨by intro a ha; simp [g0] at ha; subst ha; rfl, by intro a ha; simp [g0] at ha,
     by intro c hc; simp [g0] at hc; subst hc; exact ⟨rfl, by intro p hp; simp at hp; subst hp; rfl⟩,
     by intro a ha; simp [g0] at ha; subst ha; rfl⟩
    (by decide) (by simp [g0, F0, reindentDict, reindentPV, reindent]) (by intro n hn; cases hn) ⟨Or.inr rfl, Or.inr rfl⟩
    (by intro c hc; simp [g0] at hc; subst hc; simp)

def g1 : Glyph :=
  { g0 with anchors := [{ x := 0, y := 0, name := some ['t'], color := some ⟨0, 0, 0, 0⟩, ident := some ['i'],
                          lib := some [(['z'], PV.atom "b1")] }] }

theorem valid_g1 : ValidGlyph ok0 g1 := by
  have h := valid_g0
  refine ⟨h.name, h.width, h.height, h.codepoints, h.codepointsNodup, h.image, ?_, h.guidelines, h.contours, h.components, by decide⟩
  intro a ha; simp [g1] at ha; subst ha
  exact ⟨rfl, rfl, (by intro n hn; cases hn; decide), (by intro i hi; cases hi; decide)⟩

-- with an object lib: it travels under `public.objectLibs` and comes back on the anchor
example : parseGlif R0 (encodeGlif F0 g1) = .ok (normGL nc0 g1) :=
  glif_roundtrip_partial codec0 valid_g1
    ⟨by intro a ha _; simp [g1] at ha; subst ha; rfl, by intro a ha; simp [g1, g0] at ha,
     by intro c hc; simp [g1, g0] at hc; subst hc; exact ⟨by simp, by intro p hp; simp at hp; subst hp; simp⟩,
     by intro a ha h; simp [g1, g0] at ha; subst ha; rfl⟩
    (by decide) (by decide +kernel) (by intro n hn; cases hn) ⟨Or.inr rfl, Or.inr rfl⟩
    (by intro c hc; simp [g1, g0] at hc; subst hc; simp)

/-! ### non-vacuity of `legal_accepted` (C12): items out of canonical order, comments everywhere -/

def d0 : GDoc :=
  { prolog := [.decl, .comment], name := ['a'], minor := true,
    items := [.comment,
      .anchor { x := 0, y := 0, name := none, color := none, ident := some ['i'] },
      .unicode 65,
      .outline [.comment,
        .contour none [.point { x := 0, y := 0, typ := .line, smooth := false, name := none, ident := some ['p'] }, .comment],
        .emptyContour none,
        .component { base := ['b'], transform := { xScale := 0, xyScale := 0, yxScale := 0, yScale := 0, xOffset := 0, yOffset := 0 }, ident := none }],
      .note (some ['n']),
      .advance 0 0,
      .comment],
    trailer := [.other] }

theorem legal_d0 : LegalItems ok0 d0.items := by
  refine ⟨?_, by decide, by decide, by decide, by decide, by decide, by decide⟩
  intro it hit
  simp only [d0, List.mem_cons, List.not_mem_nil, or_false] at hit
  rcases hit with rfl | rfl | rfl | rfl | rfl | rfl | rfl
  · trivial
  · exact ⟨rfl, rfl, (by intro n hn; cases hn), (by intro i hi; cases hi; decide)⟩
  · exact ⟨by decide, by decide⟩
  · intro o ho
    simp only [List.mem_cons, List.not_mem_nil, or_false] at ho
    rcases ho with rfl | rfl | rfl | rfl
    · trivial
    · refine ⟨?_, by decide, by intro i hi; cases hi⟩
      intro c hc
      simp only [List.mem_cons, List.not_mem_nil, or_false] at hc
      rcases hc with rfl | rfl
      · exact ⟨rfl, rfl, (by intro n hn; cases hn), (by intro i hi; cases hi; decide)⟩
      · trivial
    · trivial
    · exact ⟨by decide, ⟨rfl, rfl, rfl, rfl, rfl, rfl⟩, (by intro i hi; cases hi)⟩
  · trivial
  · exact ⟨rfl, rfl⟩
  · trivial

example : ∃ g, parseGlif R0 (render F0 d0) = .ok g ∧ loadObjectLibs (interp nc0 d0) = .ok g :=
  legal_accepted codec0 d0 (by decide) (by decide) legal_d0 (by
      have h0 : dictGet objectLibsKey (interp nc0 d0).lib = none := by decide
      intro v hv; rw [h0] at hv; cases hv) (evs := render F0 d0)
    (by
      have refl : ∀ l : List Ev, EvsPerm l l := by
        intro l; induction l with
        | nil => exact EvsPerm.nil
        | cons e r ih => exact EvsPerm.cons (EvPerm.refl e) ih
      exact refl _)

/-! ### non-vacuity of `legal_accepted_v1` (C12) -/

def d1 : GDoc :=
  { prolog := [.decl], name := ['a'], minor := false,
    items := [.comment, .unicode 65,
      .outline [.contour none [.point { x := 0, y := 0, typ := .move, smooth := false, name := some ['t'], ident := none }],
        .comment,
        .contour none [.point { x := 0, y := 0, typ := .line, smooth := false, name := none, ident := none }, .comment],
        .component { base := ['b'], transform := { xScale := 0, xyScale := 0, yxScale := 0, yScale := 0, xOffset := 0, yOffset := 0 }, ident := none }],
      .advance 0 0],
    trailer := [] }

theorem legal_d1 : LegalItemsV1 ok0 d1.items := by
  refine ⟨?_, ?_, by decide, by decide, by decide⟩
  · intro it hit
    simp only [d1, List.mem_cons, List.not_mem_nil, or_false] at hit
    rcases hit with rfl | rfl | rfl | rfl
    · trivial
    · exact ⟨by decide, by decide⟩
    · intro o ho
      simp only [List.mem_cons, List.not_mem_nil, or_false] at ho
      rcases ho with rfl | rfl | rfl | rfl
      · refine ⟨?_, by decide, (by intro i hi; cases hi)⟩
        intro c hc; simp only [List.mem_cons, List.not_mem_nil, or_false] at hc; subst hc
        exact ⟨rfl, rfl, (by intro n hn; cases hn; decide), (by intro i hi; cases hi)⟩
      · trivial
      · refine ⟨?_, by decide, (by intro i hi; cases hi)⟩
        intro c hc; simp only [List.mem_cons, List.not_mem_nil, or_false] at hc
        rcases hc with rfl | rfl
        · exact ⟨rfl, rfl, (by intro n hn; cases hn), (by intro i hi; cases hi)⟩
        · trivial
      · exact ⟨by decide, ⟨rfl, rfl, rfl, rfl, rfl, rfl⟩, (by intro i hi; cases hi)⟩
    · exact ⟨rfl, rfl⟩
  · intro it hit
    simp only [d1, List.mem_cons, List.not_mem_nil, or_false] at hit
    rcases hit with rfl | rfl | rfl | rfl
    · trivial
    · trivial
    · intro o ho
      simp only [List.mem_cons, List.not_mem_nil, or_false] at ho
      rcases ho with rfl | rfl | rfl | rfl
      · exact ⟨rfl, by intro c hc; simp only [List.mem_cons, List.not_mem_nil, or_false] at hc; subst hc; rfl⟩
      · trivial
      · refine ⟨rfl, ?_⟩
        intro c hc; simp only [List.mem_cons, List.not_mem_nil, or_false] at hc
        rcases hc with rfl | rfl
        · rfl
        · trivial
      · rfl
    · trivial

-- the format-1 document is accepted and its single named `move` point has become an anchor
example : parseGlif R0 (renderV1 F0 d1) = loadObjectLibs (interpV1 d1) ∧
    ((interpV1 d1).anchors.length = 1 ∧ (interpV1 d1).contours.length = 1) :=
  ⟨legal_accepted_gdoc_v1 codec0 d1 (by decide) (by decide) legal_d1, by decide⟩

end Glif
