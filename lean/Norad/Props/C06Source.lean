import Norad.Generated.LayerOps
/-!
# C06 — source-level tie of the container operations

`Generated/LayerOps.lean` is regenerated from `src/layer.rs` on every run (`tools/extract_layer_ops.py`).

* `model_*_guards` (stable, about the model): each refusing operation returns an error exactly as its guard chain says —
  the error of the FIRST guard that fires, state untouched — and otherwise no error.
* `source_guard_atoms_match_model`: the chains extracted from the source test the same conditions as the model's
  (as sets: the ORDER of the tests and the error VARIANT are not part of the container invariant, so a reordering or a
  different error on an input that is refused anyway does not disturb this tie; the correspondence run reports the error
  kind separately).
* `source_*_refuses_iff`: hence the operations refuse exactly when some guard of the SOURCE's chain fires.
* `source_index_updates_match_model`: the source updates the redundant indices exactly where the model does.
* `source_insertGlyph_eq_model`: the model's `insertGlyph` is `insert_glyph` asking the index the source asks;
  `source_load_pathset_eq_model`: the model's loader builds the path set from the collection, with the skip count and at
  the place (after the default layer is moved to the front) the source's `let path_set = …` statement says.

Property theorems only.
-/
namespace Layers
open Generated.LayerOps

/-! ### general facts about chains -/

theorem firstErr_isSome (ev : Atom → Bool) (l : List (Atom × NErr)) :
    (firstErr ev l).isSome = l.any (fun g => ev g.1) := by
  induction l with
  | nil => rfl
  | cons g r ih =>
    obtain ⟨a, e⟩ := g
    unfold firstErr
    by_cases h : ev a = true
    · simp [h]
    · simp [h, ih]

theorem any_of_sameAtoms (ev : Atom → Bool) (a b : List (Atom × NErr)) (h : sameAtoms a b = true) :
    a.any (fun g => ev g.1) = b.any (fun g => ev g.1) := by
  unfold sameAtoms at h
  simp only [Bool.and_eq_true, List.all_eq_true, List.any_eq_true, decide_eq_true_eq] at h
  obtain ⟨h1, h2⟩ := h
  apply Bool.eq_iff_iff.2
  simp only [List.any_eq_true]
  constructor
  · rintro ⟨g, hg, hev⟩
    obtain ⟨k, hk, hkg⟩ := h1 g hg
    exact ⟨k, hk, by rw [hkg]; exact hev⟩
  · rintro ⟨g, hg, hev⟩
    obtain ⟨k, hk, hkg⟩ := h2 g hg
    exact ⟨k, hk, by rw [hkg]; exact hev⟩

section
variable (lower : Str → Str) (assignG : Str → List Str → Option Str) (assignL : Str → List Str → Option Str)
variable (valid : Str → Bool)

/-! ### the model and its chains (stable) -/

/-- `new_layer`: the error of the first guard that fires, state untouched; otherwise no error -/
theorem model_newLayer_guards (S : LayerSet) (name : Str) :
    (∀ e, firstErr (evalS valid S [] name false) modelNewLayerGuards = some e →
      newLayer lower assignL valid S name = (S, .err e)) ∧
    (firstErr (evalS valid S [] name false) modelNewLayerGuards = none →
      (newLayer lower assignL valid S name).2.errOf = none) := by
  unfold modelNewLayerGuards
  simp only [firstErr, evalS]
  unfold newLayer
  by_cases h1 : name = defaultName
  · simp [h1]
  · by_cases h2 : S.layers.any (·.name = name) = true
    · simp [h1, h2]
    · by_cases h3 : valid name = true
      · simp only [h1, h2, h3, decide_false, Bool.false_eq_true, if_false, Bool.not_true]
        refine ⟨by simp, fun _ => ?_⟩
        cases assignL name S.pathSet <;> simp [Res.errOf]
      · simp [h1, h2, h3]

/-- `rename_layer`: same statement for its five-guard chain -/
theorem model_renameLayer_guards (S : LayerSet) (old new : Str) (ow : Bool) :
    (∀ e, firstErr (evalS valid S old new ow) modelRenameLayerGuards = some e →
      renameLayer lower assignL valid S old new ow = (S, .err e)) ∧
    (firstErr (evalS valid S old new ow) modelRenameLayerGuards = none →
      (renameLayer lower assignL valid S old new ow).2.errOf = none) := by
  unfold modelRenameLayerGuards
  simp only [firstErr, evalS]
  unfold renameLayer
  by_cases h1 : (!ow && (getLayer S new).isSome) = true
  · simp [h1]
  · by_cases h2 : (getLayer S old).isNone = true
    · simp [h1, h2]
    · by_cases h3 : (decide (new = defaultName) && decide (headName S ≠ some old)) = true
      · simp only [h1, h2, h3, Bool.false_eq_true, if_false, if_true]
        simp
      · by_cases h4 : (decide (headName S = some new) && decide (headName S ≠ some old)) = true
        · simp only [h1, h2, h3, h4, Bool.false_eq_true, if_false, if_true]
          simp
        · by_cases h5 : valid new = true
          · simp only [h1, h2, h3, h4, h5, Bool.false_eq_true, if_false, Bool.not_true]
            refine ⟨by simp, fun _ => ?_⟩
            generalize (if (ow && decide (old ≠ new)) = true then removeLayer lower S new else S) = S₁
            cases hS : S₁.layers with
            | nil => simp [Res.errOf]
            | cons d rest =>
              simp only
              split
              · simp [Res.errOf]
              · cases rest.find? (·.name = old) with
                | none => simp [Res.errOf]
                | some l =>
                  simp only
                  cases assignL new (S₁.pathSet.filter (· ≠ lower l.path)) <;> simp [Res.errOf]
          · simp only [h1, h2, h3, h4, h5, Bool.false_eq_true, if_false, if_true, Bool.not_false]
            simp

/-- `rename_glyph`: same statement for its three-guard chain -/
theorem model_renameGlyph_guards (L : Layer) (old new : Str) (ow : Bool) :
    (∀ e, firstErr (evalL valid L old new ow) modelRenameGlyphGuards = some e →
      renameGlyph lower assignG valid L old new ow = (L, .err e)) ∧
    (firstErr (evalL valid L old new ow) modelRenameGlyphGuards = none →
      (renameGlyph lower assignG valid L old new ow).2.errOf = none) := by
  unfold modelRenameGlyphGuards
  simp only [firstErr, evalL]
  unfold renameGlyph
  by_cases h1 : (!ow && decide (new ∈ L.glyphs)) = true
  · simp [h1]
  · by_cases h2 : old ∈ L.glyphs
    · by_cases h3 : valid new = true
      · simp only [h1, h2, h3, Bool.false_eq_true, if_false, Bool.not_true, decide_true, not_true_eq_false,
          decide_false]
        refine ⟨by simp, fun _ => ?_⟩
        unfold insertGlyph
        split
        · simp [Res.errOf]
        · cases assignG new (removeGlyph lower L old).pathSet <;> simp [Res.errOf]
      · simp [h1, h2, h3]
    · simp [h1, h2]

/-! ### the tie to the source -/

/-- the constants of the source are the model's -/
theorem source_layer_consts_match_model :
    defaultLayerName = defaultName ∧ defaultGlyphsDir = glyphsDir := by decide

/-- the chains of the source test the same conditions as the model's -/
theorem source_guard_atoms_match_model :
    sameAtoms newLayerGuards modelNewLayerGuards = true ∧
    sameAtoms renameLayerGuards modelRenameLayerGuards = true ∧
    sameAtoms renameGlyphGuards modelRenameGlyphGuards = true := by decide

private theorem refuses_iff {α : Type} (ev : Atom → Bool) (src mdl : List (Atom × NErr)) (hs : sameAtoms src mdl = true)
    (res : α × Res) (st : α)
    (hm : (∀ e, firstErr ev mdl = some e → res = (st, .err e)) ∧ (firstErr ev mdl = none → res.2.errOf = none)) :
    (res.2.errOf.isSome = src.any (fun g => ev g.1)) ∧ (res.2.errOf.isSome = true → res.1 = st) := by
  rw [any_of_sameAtoms ev src mdl hs, ← firstErr_isSome]
  cases hf : firstErr ev mdl with
  | none => simp [hm.2 hf]
  | some e => simp [hm.1 e hf, Res.errOf]

/-- `new_layer` refuses exactly when a guard of the SOURCE's chain fires, and then changes nothing -/
theorem source_newLayer_refuses_iff (S : LayerSet) (name : Str) :
    ((newLayer lower assignL valid S name).2.errOf.isSome =
        newLayerGuards.any (fun g => evalS valid S [] name false g.1)) ∧
    ((newLayer lower assignL valid S name).2.errOf.isSome = true → (newLayer lower assignL valid S name).1 = S) :=
  refuses_iff _ _ _ source_guard_atoms_match_model.1 _ S (model_newLayer_guards lower assignL valid S name)

theorem source_renameLayer_refuses_iff (S : LayerSet) (old new : Str) (ow : Bool) :
    ((renameLayer lower assignL valid S old new ow).2.errOf.isSome =
        renameLayerGuards.any (fun g => evalS valid S old new ow g.1)) ∧
    ((renameLayer lower assignL valid S old new ow).2.errOf.isSome = true →
        (renameLayer lower assignL valid S old new ow).1 = S) :=
  refuses_iff _ _ _ source_guard_atoms_match_model.2.1 _ S (model_renameLayer_guards lower assignL valid S old new ow)

theorem source_renameGlyph_refuses_iff (L : Layer) (old new : Str) (ow : Bool) :
    ((renameGlyph lower assignG valid L old new ow).2.errOf.isSome =
        renameGlyphGuards.any (fun g => evalL valid L old new ow g.1)) ∧
    ((renameGlyph lower assignG valid L old new ow).2.errOf.isSome = true →
        (renameGlyph lower assignG valid L old new ow).1 = L) :=
  refuses_iff _ _ _ source_guard_atoms_match_model.2.2 _ L (model_renameGlyph_guards lower assignG valid L old new ow)

end

/-- the source updates exactly the indices the model updates, operation by operation -/
theorem source_index_updates_match_model :
    (∀ r ∈ touches, r ∈ modelTouches) ∧ (∀ r ∈ modelTouches, r ∈ touches) ∧ retainProtectsDefault = true := by
  decide

/-- what the model's side of that table means where it says an index is NOT touched -/
theorem model_frame_rules (S : LayerSet) (keep : Layer → Bool) (L : Layer) (n : Str) :
    (retainLayers S keep).pathSet = S.pathSet ∧
    (entryOrInsert L n).contents = L.contents ∧ (entryOrInsert L n).pathSet = L.pathSet ∧
    (entryRemove L n).contents = L.contents ∧ (entryRemove L n).pathSet = L.pathSet ∧
    (Layer.default ∈ (retainLayers LayerSet.default keep).layers) := by
  refine ⟨rfl, rfl, rfl, rfl, rfl, ?_⟩
  simp [retainLayers, LayerSet.default, Layer.isDefault, Layer.default, Layer.new]

-- non-vacuity: on the default set, `new_layer "public.default"` fires the first guard, `new_layer "a"` (valid) none
example : (newLayerGuards.any (fun g => evalS (fun _ => true) LayerSet.default [] defaultName false g.1)) = true := by
  decide
example : (newLayerGuards.any (fun g => evalS (fun _ => true) LayerSet.default [] ['a'] false g.1)) = false := by
  decide

/-! ### `insert_glyph` asks the contents index; `load` builds the path set after the default layer is moved -/

/-- the model's `insertGlyph` IS `insert_glyph` asking the index the SOURCE asks (`contents`): were the source to ask the
    glyph map, this equality would not type-check -/
theorem source_insertGlyph_eq_model (lower : Str → Str) (assignG : Str → List Str → Option Str) :
    insertGlyphBy lower assignG insertGlyphDecidesBy = insertGlyph lower assignG := by
  funext L g
  simp only [insertGlyphBy, insertGlyph, insertGlyphDecidesBy, Index.has, decide_eq_true_eq]
  split
  · rfl
  · cases assignG g L.pathSet <;> rfl

/-- the two readings differ: on a layer whose glyph map has a name the index lacks (after `entry(..).or_insert`), asking
    the glyph map assigns no file name -/
theorem insertGlyphBy_glyphs_differs :
    (insertGlyphBy id (fun g _ => some (g ++ ".glif".toList)) .glyphs (entryOrInsert Layer.default ['z']) ['z']).1.contents = [] ∧
    (insertGlyph id (fun g _ => some (g ++ ".glif".toList)) (entryOrInsert Layer.default ['z']) ['z']).1.contents
      = [(['z'], "z.glif".toList)] := by
  decide

/-- the model's loader builds the path set the way the SOURCE's `let path_set = …` statement says: from `layers`, skipping
    one, AFTER the default layer has been moved to the front -/
theorem source_load_pathset_eq_model (lower : Str → Str) (f : LFilter) (t : Tree) (S : LayerSet)
    (h : loadTreeF lower f t = some S) :
    loadPathSet.source = "layers" ∧
    ∃ ls ls', loadLayers lower t.dirs (t.layercontents.filter fun e => f.shouldLoad e.1 e.2) = some ls ∧
      defaultFirst (if !f.includesDefault && !ls.any (·.isDefault) then ls ++ [Layer.default] else ls) = some ls' ∧
      S.layers = ls' ∧ S.pathSet = loadPathSetOf lower loadPathSet ls ls' := by
  refine ⟨by decide, ?_⟩
  unfold loadTreeF at h
  cases hls : loadLayers lower t.dirs (t.layercontents.filter fun e => f.shouldLoad e.1 e.2) with
  | none => simp [hls] at h
  | some ls =>
    simp only [hls] at h
    split at h
    · simp at h
    · rename_i ls' hd
      simp only [Option.some.injEq] at h
      subst h
      exact ⟨ls, ls', rfl, hd, rfl, rfl⟩

-- non-vacuity: a tree that lists another layer first loads, and that layer's directory is in the path set
example : (loadTreeF id { all := true, loadDefault := false, custom := none }
    { layercontents := [(['b'], "glyphs.b".toList), (defaultName, glyphsDir)],
      dirs := [("glyphs.b".toList, ⟨[], []⟩), (glyphsDir, ⟨[], []⟩)] }).map (·.pathSet) = some ["glyphs.b".toList] := by
  decide

end Layers
