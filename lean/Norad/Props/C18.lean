import Norad.Lemmas.C18SpecRead
import Norad.Lemmas.C18Codec
import Norad.Lemmas.C18CodecFinal
import Norad.Lemmas.C18Escape
import Norad.Model.DSTables
import Norad.Generated.DsConsts
/-!
# C18 — saving and loading a designspace document preserves it

Property theorems only.  `toTree`/`fromTree`/`serializeWithin`/`readValue` are the transcription of
`designspace.rs` and `serde_xml_plist.rs` (`Model/C18.lean`, following branch fix/ds), `Spec.specRead` the
independent reader and `Spec.StatedWF` the well-formedness of the property statement (`Spec/C18.lean`).
The codec (number, base64 and date formatting of `std`/`base64`/`plist`) is a parameter; what is assumed
of it is the hypothesis `CodecLaws c`.
-/
namespace C18
open C18.Spec

/-! ## the plist-in-XML glue -/

/-- **plist_glue_roundtrip**: every value of every type except `Uid` (strings and keys without blanks at
    an end, dates that `to_xml_format` can print, reals that are not NaN) is written as a tagged element
    that `read_xml_value` reads back as the same value; nested arrays and dictionaries of any depth. -/
theorem plist_glue_roundtrip {c : Codec} (L : CodecLaws c) (v : PV)
    (hs : pvStated v = true) (hc : pvClean v = true) (hd : pvDates c v = true) :
    (serializeWithin c v).map (readValue c) = .ok (some v) := by
  obtain ⟨t, h1, h2⟩ := pv_rt L v hs hc hd
  simp [h1, Out.map, h2]

/-- the same for a whole lib dictionary: the key/value pairs come back in order, and inserting them into
    an empty `Dictionary` rebuilds the dictionary -/
theorem plist_glue_roundtrip_dict {c : Codec} (L : CodecLaws c) (kvs : KVs)
    (hs : kvsStated kvs = true) (hc : kvsClean kvs = true) (hd : kvsDates c kvs = true) :
    (dictInner c kvs).map (fun ts => (readPairs c ts).map KVs.nil.insertAll) = .ok (some kvs) := by
  obtain ⟨ts, h1, h2⟩ := kvs_rt L kvs hs hc hd
  simp [h1, Out.map, h2, KVs.insertAll_nil kvs (kvsStated_distinct kvs hs)]

/- Full strength (`pvClean` dropped) is FALSE on the tree: quick-xml's serde deserializer trims text. -/

/-- finding `lib-text-trimmed`: a blank-only string is written as `<string>   </string>` and read back
    empty, whatever the codec -/
theorem plist_glue_roundtrip_counterexample (c : Codec) :
    (serializeWithin c (.str "   ")).map (readValue c) = .ok (some (.str "")) := by
  have : trimXml "   " = "" := by decide
  simp [serializeWithin, leafInner, Out.map, readValue, elemText, rawText, this]

/-- … and two keys that differ by a leading blank collapse into one entry holding the later value -/
theorem plist_glue_key_collision_counterexample (c : Codec) :
    (serializeWithin c (.dict (.cons "a" (.bool true) (.cons " a" (.bool false) .nil)))).map (readValue c)
      = .ok (some (.dict (.cons "a" (.bool false) .nil))) := by
  have h1 : trimXml "a" = "a" := by decide
  have h2 : trimXml " a" = "a" := by decide
  simp [serializeWithin, dictInner, Out.map, Out.bind, readValue, readPairs, readKey, textElem, elemText,
    rawText, h1, h2, KVs.insertAll, KVs.insert]

/-- `Uid` is refused with an error, not a panic -/
theorem plist_glue_uid_is_error (c : Codec) (n : Nat) : serializeWithin c (.uid n) = .err := by
  simp [serializeWithin]

/-- **glue_never_panics**: the serializer half of the glue never panics as long as every date can be
    printed — in particular the `unreachable!` of `ValueInnerHelper` (the `.bool` arm of `valueInner`) is
    never reached from `serialize_within`, for values of any shape, `Uid` included. -/
theorem glue_never_panics (c : Codec) (kvs : KVs) (hd : kvsDates c kvs = true) :
    (dictInner c kvs).isPanic = false := kvs_np c kvs hd

theorem glue_never_panics_value (c : Codec) (v : PV) (hd : pvDates c v = true) :
    (serializeWithin c v).isPanic = false := pv_np c v hd

/-- finding `date-out-of-range-panics`: without the guard the statement is false — a date that
    `plist::Date::to_xml_format` cannot print (`Date::from(SystemTime)` does not validate) panics -/
theorem glue_never_panics_counterexample (c : Codec) (d : Date) (h : c.showDate d = none) :
    serializeWithin c (.dict (.cons "k" (.date d) .nil)) = .panic := by
  simp [serializeWithin, dictInner, leafInner, h, Out.map, Out.bind]

/-! ## the document -/

/- Full strength, as the property states it:
     `StatedWF d → saveLoad c d = .ok (some d)`
   is FALSE on the tree (after the two fix: commits) for two recorded reasons: lib strings/keys with a blank
   at an end are trimmed by quick-xml's deserializer (`LibTextClean`), and a date `to_xml_format` cannot
   print panics (`DatesPrintable`).  `WellFormed c d = StatedWF d && DatesPrintable c d && LibTextClean d`. -/

/-- **ds_roundtrip**: a well-formed document (at least one axis and source, non-empty locations, rules with
    condition sets and substitutions, `map` non-empty when present, no NaN, lib values inside the plist
    model, plus the two guards) saved and loaded is the same document: format, every axis with range or
    discrete values and mappings, hidden flag, rule processing mode (also `last` without rules), rules,
    sources, instances with all seven optional attributes, document and instance libs. -/
theorem ds_roundtrip {c : Codec} (L : CodecLaws c) (d : Doc) (h : WellFormed c d = true) :
    saveLoad c d = .ok (some d) := by
  simp only [WellFormed, StatedWF, DatesPrintable, LibTextClean, Bool.and_eq_true, Bool.not_eq_true',
    List.isEmpty_eq_false_iff, List.all_eq_true] at h
  obtain ⟨⟨⟨⟨⟨⟨⟨⟨⟨hf, hax⟩, haxs⟩, hru⟩, hso⟩, hsos⟩, hins⟩, hlib⟩, hd1, hd2⟩, hc1, hc2⟩ := h
  obtain ⟨insts, i1, i2, i3, i4⟩ := instances_rt L d.instances
    (fun i hi => ⟨(hins i hi).1, (hins i hi).2, hc1 i hi, hd1 i hi⟩)
  obtain ⟨ls, l1, l2, l3, l4⟩ := lib_rt L d.lib hlib hc2 hd2
  have := doc_rt L d insts ls hf hax haxs (by simpa [List.all_eq_true] using hru) hso hsos i2 i3 i4 l2 l3 l4
  simp only [saveLoad, toTree, i1, l1, Out.bind, Out.map]
  rw [← this]; rfl

/-- the processing mode survives without rules (second `fix:` commit; false on the pinned tree) -/
theorem ds_roundtrip_processing_last {c : Codec} (L : CodecLaws c) (d : Doc) (h : WellFormed c d = true)
    (_ : d.rules = ⟨.last, []⟩) : (saveLoad c d).map (Option.map (·.rules.processing)) = .ok (some d.rules.processing) := by
  rw [ds_roundtrip L d h]; rfl

/-- `Some([])` and `None` of an axis `map` share one representation: without the guard the statement is
    false, whatever the codec (the reason `StatedWF` asks for a non-empty list) -/
theorem ds_roundtrip_counterexample_empty_map (c : Codec) :
    mapNodes c (some []) = mapNodes c none ∧ readOptMaps c (childrenNamed "map" (mapNodes c (some []))) = some none := by
  simp [mapNodes, childrenNamed, readOptMaps]

/-- non-vacuity of `ds_roundtrip`: a document with a discrete hidden axis, a map, a rule, `processing =
    last`, an instance and a lib is well-formed for every codec (it holds no date) -/
def sampleDoc : Doc :=
  { format := ⟨1084227584⟩,
    axes := [⟨"Weight", "wght", ⟨1137180672⟩, true, some ⟨0⟩, none, some [⟨0⟩, ⟨1065353216⟩], some [⟨⟨0⟩, ⟨1⟩⟩]⟩],
    rules := ⟨.last, [⟨some "r", [⟨[]⟩, ⟨[⟨"Weight", some ⟨0⟩, none⟩]⟩], [⟨"a", "a.alt"⟩]⟩]⟩,
    sources := [⟨none, some "Regular", none, "a.ufo", none, [⟨"Weight", none, some ⟨0⟩, none⟩]⟩],
    instances := [⟨some "F", none, none, none, none, none, some "bold", [⟨"Weight", some ⟨0⟩, some ⟨0⟩, some ⟨1⟩⟩],
      .cons "k" (.arr (.cons (.bool true) (.cons (.data [1]) .nil))) .nil⟩],
    lib := .cons "a b" (.str "x  y") (.cons "n" (.int 18446744073709551615) .nil) }

example (c : Codec) : WellFormed c sampleDoc = true := by
  have h1 : StatedWF sampleDoc = true := by decide
  have h2 : LibTextClean sampleDoc = true := by decide
  have h3 : DatesPrintable c sampleDoc = true := by
    simp [DatesPrintable, sampleDoc, kvsDates, pvDates, pvsDates]
  simp [WellFormed, h1, h2, h3]

/- Full strength (`XmlSafe` dropped) is FALSE on the tree: quick-xml writes tab, CR, LF and the characters
   XML forbids as they are (findings `attr-whitespace-unescaped`, `text-cr-unescaped`,
   `forbidden-char-written`).  `Spec.conformView` is what a conforming XML 1.0 processor reads from such
   output (line-end and attribute-value normalisation, `none` = not well-formed). -/

/-- **ds_spec_reader_finds_values**: for a well-formed document whose strings are `XmlSafe`, a conforming XML
    processor reads the written tree unchanged, and the independent reader `Spec.specRead` — which knows
    only the designspace specification's element and attribute names and Apple's plist DTD, walks paths,
    does not trim, checks the root element — finds exactly the original document in it. -/
theorem ds_spec_reader_finds_values {c : Codec} (L : CodecLaws c) (d : Doc) (h : WellFormed c d = true)
    (hx : XmlSafe d = true) :
    (toTree c d).map (fun t => (conformView t).bind (specRead c)) = .ok (some d) := by
  have hwf := h
  simp only [WellFormed, StatedWF, DatesPrintable, LibTextClean, Bool.and_eq_true, Bool.not_eq_true',
    List.isEmpty_eq_false_iff, List.all_eq_true] at h
  obtain ⟨⟨⟨⟨⟨⟨⟨⟨⟨hf, hax⟩, haxs⟩, hru⟩, hso⟩, hsos⟩, hins⟩, hlib⟩, hd1, hd2⟩, hc1, hc2⟩ := h
  obtain ⟨insts, i1, _, _, _⟩ := instances_rt L d.instances
    (fun i hi => ⟨(hins i hi).1, (hins i hi).2, hc1 i hi, hd1 i hi⟩)
  obtain ⟨ls, l1, _, _, _⟩ := lib_rt L d.lib hlib hc2 hd2
  have ht : toTree c d = .ok (.elem "designspace" (mkAttrs [("format", some (c.showF32 d.format))])
      (topChildren c d insts ls)) := by
    simp only [toTree, i1, l1, Out.bind]; rfl
  have hp := conformView_plain _ (toTree_plain L d _ hx ht)
  have hs := spec_doc L d insts ls hf hax haxs (by simpa [List.all_eq_true] using hru) hsos hso
    (fun i hi => ⟨(hins i hi).1, (hins i hi).2⟩) hlib i1 l1
  rw [ht]
  simp only [Out.map, hp, Option.bind_some, hs]

/-- the independent reader does not need the `LibTextClean` guard on the tree itself: on `toTree d` (before
    any file-level effect) it finds the document also when lib strings start or end with blanks -/
theorem ds_spec_reader_no_trim (c : Codec) :
    (serializeWithin c (.str "  a ")).map (plistObject c) = .ok (some (.str "  a ")) := by
  simp [serializeWithin, leafInner, Out.map, plistObject, leafText]

/-- finding `attr-whitespace-unescaped`: without `XmlSafe` the statement is false — a conforming processor
    reads the attribute value `"We\tig\nht"` as `"We ig ht"` -/
theorem ds_spec_reader_counterexample_attr : normAttr "We\tig\nht" = "We ig ht" := by decide

/-- finding `text-cr-unescaped`: CR and CR LF in text are read as LF -/
theorem ds_spec_reader_counterexample_cr : normText "a\rb\r\nc" = "a\nb\nc" := by decide

/-- finding `forbidden-char-written`: the written tree is not XML at all -/
theorem ds_spec_reader_counterexample_forbidden (n : String) :
    conformView (.elem n [("filename", "a\x01b")] []) = none := by
  have : hasForbidden "a\x01b" = true := by decide
  simp [conformView, normAttrs, this]

/-- non-vacuity: the sample document is `XmlSafe` -/
example : XmlSafe sampleDoc = true := by decide

/-! ## the codec hypothesis is satisfiable -/

/-- **codec_laws_satisfiable**: `CodecLaws` holds of `refCodec`, whose integer part (`Int.repr`,
    `String.toInt?` + the `i64`/`u64` range tests) and base64 part (`b64enc`/`b64dec`) are the functions the
    driver runs against the strings Rust wrote.  Its float and date parts are stand-ins (injective decimal
    renderings): for Rust's shortest-round-trip `Display` of `f32`/`f64` and the `time` crate's RFC 3339
    formatting the laws REMAIN HYPOTHESES, checked by the driver on every string of every case. -/
theorem codec_laws_satisfiable : ∃ c : Codec, CodecLaws c := ⟨refCodec, codecLaws_refCodec⟩

/-- the integer law, for the real implementation: every `i64` and every `u64` survives `to_string` →
    `IntWrapper` (i64 first, then u64; no `0x` prefix) -/
theorem int_codec_roundtrip (i : Int) (h1 : i64Min ≤ i) (h2 : i ≤ u64Max) :
    readIntText refCodec (intShow i) = some i := readIntText_show codecLaws_refCodec i h1 h2

/-- the base64 law, for the real implementation, all byte strings -/
theorem base64_roundtrip (bs : List UInt8) : b64dec (b64enc bs) = some bs := b64_rt bs

/-- the document theorems instantiated: no hypothesis about the codec is left -/
theorem ds_roundtrip_refCodec (d : Doc) (h : WellFormed refCodec d = true) :
    saveLoad refCodec d = .ok (some d) := ds_roundtrip codecLaws_refCodec d h

/-! ### the date component, for real -/

/-- **date_text_roundtrip**: the text layer of `plist::Date::{to,from}_xml_format` as implemented in
    `Model/DSCodec.lean` (`YYYY-MM-DDTHH:MM:SS[.f…]Z`, fixed-width decimal fields, sub-second digits only
    when non-zero and without trailing zeros): every time stamp whose fields fit their widths is read back;
    structural proof (digit lemmas + `dropTrailingZeros_pad`), no enumeration of dates -/
theorem date_text_roundtrip (t : Stamp) (hy : t.year < 10000) (hm : t.month < 100) (hd : t.day < 100)
    (hh : t.hour < 100) (hi : t.minute < 100) (hs : t.second < 100) (hn : t.nanos < 1000000000) :
    parseStamp (showStamp t) = some t := parse_showStamp t hy hm hd hh hi hs hn

/-- **date_codec_roundtrip_of_calendar**: the whole date codec (`rfc3339Show`/`rfc3339Read`: seconds and
    nanoseconds since the Unix epoch ↔ RFC 3339 text, years 0000–9999) is a round trip, under ONE named
    hypothesis, `CalendarInverse` (Hinnant's `days_from_civil ∘ civil_from_days = id` with fields in range on
    that day range), which stays unproved: `omega` does not decide it, a proof by enumeration is not wanted -/
theorem date_codec_roundtrip_of_calendar (H : CalendarInverse) (d : Date) (s : String)
    (h : rfc3339Show d = some s) : rfc3339Read s = some d := rfc3339_roundtrip_of_calendar H d s h

/-- **calendar_inverse**: the former hypothesis, proved for every day number of years 0000–9999 (the
    conversion itself for ALL day numbers): `days_from_civil (civil_from_days z) = z`, year in 0..9999, month
    in 1..12, day in 1..31.  Proof: inside a 400-year era the conversion depends only on the day of the era;
    ONE table fact — the year-of-era formula puts each of the 146 097 days of an era into its year — is
    settled by kernel evaluation over the complete era (`decide +kernel`, four chunks, no `native_decide`);
    month/day inside a year, the composition and the lift to every era are structural (`omega`). -/
theorem calendar_inverse : CalendarInverse := calendarInverse

/-- **calendar_inverse_converse**: `civil_from_days (days_from_civil y m d) = (y, m, d)` for every valid
    civil date of every year (Gregorian leap rule) -/
theorem calendar_inverse_converse (y : Int) (m d : Nat) (hm1 : 1 ≤ m) (hm : m ≤ 12) (hd1 : 1 ≤ d)
    (hd : d ≤ daysInMonth y m) : civilFromDays (daysFromCivil y m d) = (y, m, d) :=
  civil_of_days_of_civil y m d hm1 hm hd1 hd

/-- **date_codec_roundtrip**: unconditional — every date `plist::Date::to_xml_format` can print (as
    modelled by `rfc3339Show`, tied to the crate on every date of every run) is read back by `rfc3339Read` -/
theorem date_codec_roundtrip (d : Date) (s : String) (h : rfc3339Show d = some s) : rfc3339Read s = some d :=
  rfc3339_roundtrip_of_calendar calendarInverse d s h

/-- the codec hypothesis holds, with no hypothesis left, for real integers, real base64 and real dates -/
theorem codec_laws_real_dates : CodecLaws realDateCodec := codecLaws_realDateCodec'

/-! ### floats on the simple fragment -/

/-- **codec_laws_simple_floats**: `CodecLaws` for the codec whose `f32`/`f64` `Display` is the exact decimal
    on the simple fragment (`±N/2^j`: all integers below 2^24 / 2^53, and dyadics with `N` odd and
    `N·5^(j-1) ≤ 2^23 / 2^52`) and whose `FromStr` reads a decimal that denotes such a value exactly; real
    integers, base64 and dates.  Outside the fragment a stand-in is printed: there the general
    shortest-round-trip law REMAINS the named hypothesis (`CodecLaws.f32_rt`/`f64_rt` of the codec of a run),
    checked by the driver on every string. -/
theorem codec_laws_simple_floats : CodecLaws simpleFloatCodec := codecLaws_simpleFloatCodec

/-- what that means for one simple value: the exact decimal is printed and read back as the same bits -/
theorem simple_float_exact (f : FloatFmt) (bits : Nat) (neg : Bool) (N j : Nat)
    (h : simpleOf f bits = some (neg, N, j)) :
    showFloat f bits = showDyadic neg N j ∧ parseDec (showDyadic neg N j) = some (neg, N * 5 ^ j, j) ∧
    readFloat f (showFloat f bits) = some bits := by
  refine ⟨by simp [showFloat, h], parseDec_showDyadic neg N j, readFloat_showFloat f bits⟩

/-- every document theorem instantiated with that codec: no hypothesis about the codec is left -/
theorem ds_roundtrip_simple_floats (d : Doc) (h : WellFormed simpleFloatCodec d = true) :
    saveLoad simpleFloatCodec d = .ok (some d) := ds_roundtrip codecLaws_simpleFloatCodec d h

/-- spot checks of the calendar hypothesis at the ends of the range and at the plist and Unix epochs -/
example : civilFromDays (-719528) = (0, 1, 1) ∧ daysFromCivil 0 1 1 = -719528 ∧
    civilFromDays 2932896 = (9999, 12, 31) ∧ daysFromCivil 9999 12 31 = 2932896 ∧
    civilFromDays 0 = (1970, 1, 1) ∧ civilFromDays 11323 = (2001, 1, 1) ∧
    civilFromDays 11016 = (2000, 2, 29) ∧ daysFromCivil 2000 2 29 = 11016 ∧
    civilFromDays (-25509) = (1900, 2, 28) ∧ civilFromDays (-25508) = (1900, 3, 1) := by decide

/-- the real printer refuses exactly what the model calls unprintable (the `date-out-of-range-panics` finding) -/
example : rfc3339Show ⟨253402300800, 0⟩ = none ∧ rfc3339Show ⟨-62167219201, 0⟩ = none ∧
    dateLo' = dateLo ∧ dateHi' = dateHi := by decide

/-- non-vacuity with a date and data in the lib -/
example : WellFormed refCodec { sampleDoc with lib := .cons "d" (.date ⟨0, 5⟩) (.cons "b" (.data [255, 0, 7]) .nil) } = true := by
  decide

/-- non-vacuity: the guards hold of a lib with every value type -/
example (c : Codec) : kvsStated (.cons "s" (.str "a b") (.cons "i" (.int (-5)) (.cons "r" (.real ⟨0⟩)
    (.cons "b" (.bool true) (.cons "d" (.data [1, 2]) (.cons "a" (.arr (.cons (.dict .nil) .nil)) .nil)))))) = true
    ∧ kvsClean (.cons "s" (.str "a b") .nil) = true
    ∧ kvsDates c (.cons "s" (.str "a b") (.cons "a" (.arr (.cons (.dict .nil) .nil)) .nil)) = true := by
  refine ⟨by decide, by decide, by simp [kvsDates, pvDates, pvsDates]⟩

/-! ## the file level: what is written for a string is read back as that string -/

/-- **escape_unescape_text / _attr**: element content (escaped by `escape_list (Text, Partial)`) and attribute
    values (`(DoubleQAttr, Partial)`) are read back unchanged by quick-xml's `unescape`, every string -/
theorem escape_unescape_text (s : List Char) : unescape (escText s) = some s :=
  unescape_escWith escTextSet (by decide) (by decide) s

theorem escape_unescape_attr (s : List Char) : unescape (escAttr s) = some s :=
  unescape_escWith escAttrSet (by decide) (by decide) s

/-- an attribute value never contains the quote it is delimited by, nor `<` or a bare `&` -/
theorem escAttr_has_no_quote (s : List Char) : '"' ∉ escAttr s ∧ '<' ∉ escAttr s := by
  induction s with
  | nil => simp [escAttr, escWith]
  | cons ch r ih =>
    have h : '"' ∉ escChar escAttrSet ch ∧ '<' ∉ escChar escAttrSet ch := by
      unfold escChar
      by_cases hm : escAttrSet.contains ch = true
      · have : ch = '"' ∨ ch = '&' ∨ ch = '<' ∨ ch = '>' := by simpa [escAttrSet] using hm
        rcases this with h | h | h | h <;> subst h <;> decide
      · have h1 : ch ≠ '"' := by intro e; subst e; exact hm (by decide)
        have h2 : ch ≠ '<' := by intro e; subst e; exact hm (by decide)
        have hm' : ch ∉ escAttrSet := by simpa using hm
        simp only [List.contains_eq_mem, hm', decide_false, Bool.false_eq_true, if_false, List.mem_singleton]
        exact ⟨fun e => h1 e.symm, fun e => h2 e.symm⟩
    simp only [escAttr, escWith, List.mem_append, not_or] at ih ⊢
    exact ⟨⟨h.1, ih.1⟩, ⟨h.2, ih.2⟩⟩

/-! ## source-level tie: the tables regenerated from the Rust sources of THIS run (`Generated/DsConsts.lean`,
    tools/extract_ds_consts.py: norad's designspace.rs and serde_xml_plist.rs, vendored quick-xml 0.37,
    plist 1.x, time 0.3) are the ones the model uses -/

section source
open Generated.DsConsts C18.Tables

/-- quick-xml's `_escape` replacements are the model's `entityOf`, arm by arm -/
theorem source_entity_table_eq_model :
    entityTable.all (fun p => entityOf (Char.ofNat p.1) == some p.2.toList) = true ∧ entityTable.length = 9 := by
  decide

/-- the serializer path norad uses (Serializer::new defaults, never changed by `save`): strings go through
    `escape_list`, level `Partial`; text escapes exactly the model's `escTextSet`, attribute values (double
    quoted) exactly `escAttrSet` -/
theorem source_escape_sets_eq_model :
    strEscapeFn = "escape_list" ∧ dsCallsQuoteLevel = false ∧ attrQuoteChar = '"'.toNat ∧
    (escapeList.find? fun r => r.1 = textTarget ∧ r.2.1 = defaultLevel).map (·.2.2) = some (escTextSet.map Char.toNat) ∧
    (escapeList.find? fun r => r.1 = attrTarget ∧ r.2.1 = defaultLevel).map (·.2.2) = some (escAttrSet.map Char.toNat) ∧
    escapePartial = escTextSet.map Char.toNat := by
  decide

/-- the reader's entity table is the model's `xmlEntity`; character references as in `charRef` -/
theorem source_unescape_table_eq_model :
    xmlEntities.all (fun p => xmlEntity p.1.toList == some (Char.ofNat p.2)) = true ∧ xmlEntities.length = 5 ∧
    charRefHexPrefix = "x" ∧ charRefZeroRefused = true := by
  decide

/-- over the extracted tables themselves: every replacement `_escape` can write is resolved back to the
    byte it replaces by `resolve_xml_entity` / `parse_number` -/
theorem source_unescape_inverts_escape :
    entityTable.all (fun p => unescGo (entitiesOf xmlEntities) none p.2.toList == some [Char.ofNat p.1]) = true := by
  decide

/-- `save`: empty elements are not expanded, the indentation character is XML white space (it cannot reach
    the tree), the declaration names UTF-8, the file ends with a line break -/
theorem source_writer_settings_match_model :
    defaultExpandEmpty = false ∧ dsCallsExpandEmpty = false ∧ (dsIndentChar = 32 ∨ dsIndentChar = 9) ∧
    declOk dsDeclaration = true ∧ rootName (treeOf (toTree kc fullDoc)) = Generated.DsConsts.rootName := by
  decide +kernel

/-- attribute names: with everything present the model writes exactly the `@` fields of the struct, with
    everything optional absent exactly those without a `skip_serializing_if` -/
theorem source_attr_tables_match_model :
    sameSet (written (docAttrs kc fullDoc)) (attrsOf fields "DesignSpaceDocument") = true ∧
    sameSet (written (axisAttrs kc fullAxis)) (attrsOf fields "Axis") = true ∧
    sameSet (written (axisAttrs kc minAxis)) (alwaysAttrsOf fields "Axis") = true ∧
    sameSet (written (mapAttrs kc ⟨z, z⟩)) (attrsOf fields "AxisMapping") = true ∧
    sameSet (written (rulesAttrs ⟨.last, []⟩)) (attrsOf fields "Rules") = true ∧
    sameSet (written (ruleAttrs fullRule)) (attrsOf fields "Rule") = true ∧
    sameSet (written (ruleAttrs minRule)) (alwaysAttrsOf fields "Rule") = true ∧
    sameSet (written (subAttrs ⟨"a", "b"⟩)) (attrsOf fields "Substitution") = true ∧
    sameSet (written (conditionAttrs kc fullCond)) (attrsOf fields "Condition") = true ∧
    sameSet (written (conditionAttrs kc minCond)) (alwaysAttrsOf fields "Condition") = true ∧
    sameSet (written (sourceAttrs fullSource)) (attrsOf fields "Source") = true ∧
    sameSet (written (sourceAttrs minSource)) (alwaysAttrsOf fields "Source") = true ∧
    sameSet (written (instanceAttrSpec fullInstance)) (attrsOf fields "Instance") = true ∧
    sameSet (written (instanceAttrSpec minInstance)) (alwaysAttrsOf fields "Instance") = true ∧
    sameSet (written (dimensionAttrs kc fullDim)) (attrsOf fields "Dimension") = true ∧
    sameSet (written (dimensionAttrs kc minDim)) (alwaysAttrsOf fields "Dimension") = true := by
  decide

/-- child elements and list wrappers, the same way -/
theorem source_element_tables_match_model :
    sameSet (childNames (treeOf (toTree kc fullDoc))) (elemsOf fields "DesignSpaceDocument") = true ∧
    sameSet (childNames (treeOf (toTree kc minDoc))) (alwaysElemsOf fields "DesignSpaceDocument") = true ∧
    sameSet (childNames (axisNode kc fullAxis)) (elemsOf fields "Axis") = true ∧
    sameSet (childNames (axisNode kc minAxis)) (alwaysElemsOf fields "Axis") = true ∧
    sameSet (childNames (rulesNode kc ⟨.last, [fullRule]⟩)) (elemsOf fields "Rules") = true ∧
    sameSet (childNames (ruleNode kc fullRule)) (elemsOf fields "Rule") = true ∧
    sameSet (childNames (conditionSetNode kc ⟨[fullCond]⟩)) (elemsOf fields "ConditionSet") = true ∧
    sameSet (childNames (sourceNode kc fullSource)) (elemsOf fields "Source") = true ∧
    sameSet (childNames (treeOf (instanceNode kc fullInstance))) (elemsOf fields "Instance") = true ∧
    sameSet (childNames (treeOf (instanceNode kc minInstance))) (alwaysElemsOf fields "Instance") = true ∧
    wrappers.all (fun w =>
      (if w.1 = "location" then itemsUnder (sourceNode kc fullSource) w.1
       else itemsUnder (treeOf (toTree kc fullDoc)) w.1) == [w.2]) = true := by
  decide +kernel

/-- what `#[serde(default)]` re-creates on read, and what is required -/
theorem source_defaults_match_model :
    sameSet (defaultsOf fields "DesignSpaceDocument") ["instances", "lib", "rules"] = true ∧
    readWrappedDefault (instanceOf kc) "instances" "instance" [] = some [] ∧ readLib kc [] = some .nil ∧
    readRules kc [] = some ⟨.first, []⟩ ∧
    (readWrapped (axisOf kc) "axes" "axis" []).isNone = true ∧
    (readWrapped (sourceOf kc) "sources" "source" []).isNone = true ∧
    sameSet (defaultsOf fields "Axis") ["@hidden"] = true ∧ readHidden none = some false ∧
    sameSet (defaultsOf fields "Rules") ["@processing", "rule"] = true ∧
    readRules kc [.elem "rules" [] []] = some ⟨.first, []⟩ ∧
    sameSet (defaultsOf fields "ConditionSet") ["condition"] = true ∧
    conditionSetOf kc (.elem "conditionset" [] []) = some ⟨[]⟩ ∧
    sameSet (defaultsOf fields "Rule") [] = true ∧ (ruleOf kc (.elem "rule" [] [])).isNone = true ∧
    sameSet (defaultsOf fields "Instance") ["lib"] = true ∧
    sameSet (defaultsOf fields "Source") [] = true ∧ (readLocation kc []).isNone = true := by
  decide

/-- the two skip predicates that are norad's own code -/
theorem source_skip_predicates_match_model :
    skipOf fields "Axis" "@hidden" = "is_false" ∧ isFalseIsNegation = true ∧
    skipOf fields "DesignSpaceDocument" "rules" = "Rules::is_empty" ∧ rulesEmptyTestsRules = true ∧
    rulesEmptyTestsProcessing = !rulesIsEmpty ⟨.last, []⟩ ∧ rulesIsEmpty ⟨.first, []⟩ = true := by
  decide

/-- `RuleProcessing` under `rename_all`, and its default -/
theorem source_processing_names_match_model :
    processingNames = [showProcessing .first, showProcessing .last] ∧
    processingDefault = showProcessing .first ∧ readOptProcessing none = some .first ∧
    readProcessing (showProcessing .last) = some .last := by
  decide

/-- the plist glue: element written per value kind, value kind read per element, `key` and the wrapping
    `dict` on both sides -/
theorem source_glue_keywords_match_model :
    glueWriteTags.all (fun p => match samplePV p.1 with
      | some v => glueTag kc v == p.2
      | none => false) = true ∧ glueWriteTags.length = 9 ∧
    glueReadKeywords.all (fun p => kindRead (readValue kc (sampleElem p.1)) == p.2) = true ∧
    glueReadKeywords.length = 9 ∧
    childNames (treeOf (serializeWithin kc (.dict someLib))) = [glueKeyTagWritten, "true"] ∧
    readKey (.elem glueKeyTagRead [] []) = some "" ∧
    (treeOf ((libNodes kc someLib).map fun l => Tree.elem "" [] l) |> fun t => itemsUnder t "lib") = [glueWrapperWritten] ∧
    readLib kc [.elem "lib" [] [.elem glueWrapperRead [] []]] = some .nil := by
  decide +kernel

/-- plist dates go through `Rfc3339` both ways; the years it can print, `lo ..< hi`, are the model's range of
    printable dates (`dateLo`, `dateHi`, in seconds since the Unix epoch) -/
theorem source_date_format_matches_model :
    dateFromFormat = "Rfc3339" ∧ dateToFormat = "Rfc3339" ∧
    daysFromCivil rfc3339YearLo 1 1 * 86400 = dateLo ∧ daysFromCivil rfc3339YearHi 1 1 * 86400 - 1 = dateHi ∧
    daysFromCivil 2001 1 1 * 86400 = (plistEpochUnix : Int) := by
  decide

end source

end C18
