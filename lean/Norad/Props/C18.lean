import Norad.Lemmas.C18SpecRead
import Norad.Lemmas.C18Codec
/-!
# C18 — saving and loading a designspace document preserves it

Property theorems only.  `toTree`/`fromTree`/`serializeWithin`/`readValue` are the transcription of
`designspace.rs` and `serde_xml_plist.rs` (`Model/C18.lean`, following branch fix/ds), `Spec.specRead` the
independent reader and `Spec.StatedWF` the well-formedness of the property statement (`Spec/C18.lean`).
The codec (number, base64 and date formatting of `std`/`base64`/`plist`) is a parameter; what is assumed
of it is the hypothesis `CodecLaws c`.
-/
namespace C18
open C18.Spec

/-! ## the plist-in-XML glue -/

/-- **plist_glue_roundtrip**: every value of every type except `Uid` (strings and keys without blanks at
    an end, dates that `to_xml_format` can print, reals that are not NaN) is written as a tagged element
    that `read_xml_value` reads back as the same value; nested arrays and dictionaries of any depth. -/
theorem plist_glue_roundtrip {c : Codec} (L : CodecLaws c) (v : PV)
    (hs : pvStated v = true) (hc : pvClean v = true) (hd : pvDates c v = true) :
    (serializeWithin c v).map (readValue c) = .ok (some v) := by
  obtain ⟨t, h1, h2⟩ := pv_rt L v hs hc hd
  simp [h1, Out.map, h2]

/-- the same for a whole lib dictionary: the key/value pairs come back in order, and inserting them into
    an empty `Dictionary` rebuilds the dictionary -/
theorem plist_glue_roundtrip_dict {c : Codec} (L : CodecLaws c) (kvs : KVs)
    (hs : kvsStated kvs = true) (hc : kvsClean kvs = true) (hd : kvsDates c kvs = true) :
    (dictInner c kvs).map (fun ts => (readPairs c ts).map KVs.nil.insertAll) = .ok (some kvs) := by
  obtain ⟨ts, h1, h2⟩ := kvs_rt L kvs hs hc hd
  simp [h1, Out.map, h2, KVs.insertAll_nil kvs (kvsStated_distinct kvs hs)]

/- Full strength (`pvClean` dropped) is FALSE on the tree: quick-xml's serde deserializer trims text. -/

/-- finding `lib-text-trimmed`: a blank-only string is written as `<string>   </string>` and read back
    empty, whatever the codec -/
theorem plist_glue_roundtrip_counterexample (c : Codec) :
    (serializeWithin c (.str "   ")).map (readValue c) = .ok (some (.str "")) := by
  have : trimXml "   " = "" := by decide
  simp [serializeWithin, valueInner, Out.map, readValue, elemText, rawText, this]

/-- … and two keys that differ by a leading blank collapse into one entry holding the later value -/
theorem plist_glue_key_collision_counterexample (c : Codec) :
    (serializeWithin c (.dict (.cons "a" (.bool true) (.cons " a" (.bool false) .nil)))).map (readValue c)
      = .ok (some (.dict (.cons "a" (.bool false) .nil))) := by
  have h1 : trimXml "a" = "a" := by decide
  have h2 : trimXml " a" = "a" := by decide
  simp [serializeWithin, dictInner, Out.map, Out.bind, readValue, readPairs, readKey, textElem, elemText,
    rawText, h1, h2, KVs.insertAll, KVs.insert]

/-- `Uid` is refused with an error, not a panic -/
theorem plist_glue_uid_is_error (c : Codec) (n : Nat) : serializeWithin c (.uid n) = .err := by
  simp [serializeWithin]

/-- **glue_never_panics**: the serializer half of the glue never panics as long as every date can be
    printed — in particular the `unreachable!` of `ValueInnerHelper` (the `.bool` arm of `valueInner`) is
    never reached from `serialize_within`, for values of any shape, `Uid` included. -/
theorem glue_never_panics (c : Codec) (kvs : KVs) (hd : kvsDates c kvs = true) :
    (dictInner c kvs).isPanic = false := kvs_np c kvs hd

theorem glue_never_panics_value (c : Codec) (v : PV) (hd : pvDates c v = true) :
    (serializeWithin c v).isPanic = false := pv_np c v hd

/-- finding `date-out-of-range-panics`: without the guard the statement is false — a date that
    `plist::Date::to_xml_format` cannot print (`Date::from(SystemTime)` does not validate) panics -/
theorem glue_never_panics_counterexample (c : Codec) (d : Date) (h : c.showDate d = none) :
    serializeWithin c (.dict (.cons "k" (.date d) .nil)) = .panic := by
  simp [serializeWithin, dictInner, valueInner, h, Out.map, Out.bind]

/-! ## the document -/

/- Full strength, as the property states it:
     `StatedWF d → saveLoad c d = .ok (some d)`
   is FALSE on the tree (after the two fix: commits) for two recorded reasons: lib strings/keys with a blank
   at an end are trimmed by quick-xml's deserializer (`LibTextClean`), and a date `to_xml_format` cannot
   print panics (`DatesPrintable`).  `WellFormed c d = StatedWF d && DatesPrintable c d && LibTextClean d`. -/

/-- **ds_roundtrip**: a well-formed document (at least one axis and source, non-empty locations, rules with
    condition sets and substitutions, `map` non-empty when present, no NaN, lib values inside the plist
    model, plus the two guards) saved and loaded is the same document: format, every axis with range or
    discrete values and mappings, hidden flag, rule processing mode (also `last` without rules), rules,
    sources, instances with all seven optional attributes, document and instance libs. -/
theorem ds_roundtrip {c : Codec} (L : CodecLaws c) (d : Doc) (h : WellFormed c d = true) :
    saveLoad c d = .ok (some d) := by
  simp only [WellFormed, StatedWF, DatesPrintable, LibTextClean, Bool.and_eq_true, Bool.not_eq_true',
    List.isEmpty_eq_false_iff, List.all_eq_true] at h
  obtain ⟨⟨⟨⟨⟨⟨⟨⟨⟨hf, hax⟩, haxs⟩, hru⟩, hso⟩, hsos⟩, hins⟩, hlib⟩, hd1, hd2⟩, hc1, hc2⟩ := h
  obtain ⟨insts, i1, i2, i3, i4⟩ := instances_rt L d.instances
    (fun i hi => ⟨(hins i hi).1, (hins i hi).2, hc1 i hi, hd1 i hi⟩)
  obtain ⟨ls, l1, l2, l3, l4⟩ := lib_rt L d.lib hlib hc2 hd2
  have := doc_rt L d insts ls hf hax haxs (by simpa [List.all_eq_true] using hru) hso hsos i2 i3 i4 l2 l3 l4
  simp only [saveLoad, toTree, i1, l1, Out.bind, Out.map]
  rw [← this]; rfl

/-- the processing mode survives without rules (second `fix:` commit; false on the pinned tree) -/
theorem ds_roundtrip_processing_last {c : Codec} (L : CodecLaws c) (d : Doc) (h : WellFormed c d = true)
    (_ : d.rules = ⟨.last, []⟩) : (saveLoad c d).map (Option.map (·.rules.processing)) = .ok (some d.rules.processing) := by
  rw [ds_roundtrip L d h]; rfl

/-- `Some([])` and `None` of an axis `map` share one representation: without the guard the statement is
    false, whatever the codec (the reason `StatedWF` asks for a non-empty list) -/
theorem ds_roundtrip_counterexample_empty_map (c : Codec) :
    mapNodes c (some []) = mapNodes c none ∧ readOptMaps c (childrenNamed "map" (mapNodes c (some []))) = some none := by
  simp [mapNodes, childrenNamed, readOptMaps]

/-- non-vacuity of `ds_roundtrip`: a document with a discrete hidden axis, a map, a rule, `processing =
    last`, an instance and a lib is well-formed for every codec (it holds no date) -/
def sampleDoc : Doc :=
  { format := ⟨1084227584⟩,
    axes := [⟨"Weight", "wght", ⟨1137180672⟩, true, some ⟨0⟩, none, some [⟨0⟩, ⟨1065353216⟩], some [⟨⟨0⟩, ⟨1⟩⟩]⟩],
    rules := ⟨.last, [⟨some "r", [⟨[]⟩, ⟨[⟨"Weight", some ⟨0⟩, none⟩]⟩], [⟨"a", "a.alt"⟩]⟩]⟩,
    sources := [⟨none, some "Regular", none, "a.ufo", none, [⟨"Weight", none, some ⟨0⟩, none⟩]⟩],
    instances := [⟨some "F", none, none, none, none, none, some "bold", [⟨"Weight", some ⟨0⟩, some ⟨0⟩, some ⟨1⟩⟩],
      .cons "k" (.arr (.cons (.bool true) (.cons (.data [1]) .nil))) .nil⟩],
    lib := .cons "a b" (.str "x  y") (.cons "n" (.int 18446744073709551615) .nil) }

example (c : Codec) : WellFormed c sampleDoc = true := by
  have h1 : StatedWF sampleDoc = true := by decide
  have h2 : LibTextClean sampleDoc = true := by decide
  have h3 : DatesPrintable c sampleDoc = true := by
    simp [DatesPrintable, sampleDoc, kvsDates, pvDates, pvsDates]
  simp [WellFormed, h1, h2, h3]

/- Full strength (`XmlSafe` dropped) is FALSE on the tree: quick-xml writes tab, CR, LF and the characters
   XML forbids as they are (findings `attr-whitespace-unescaped`, `text-cr-unescaped`,
   `forbidden-char-written`).  `Spec.conformView` is what a conforming XML 1.0 processor reads from such
   output (line-end and attribute-value normalisation, `none` = not well-formed). -/

/-- **ds_spec_reader_finds_values**: for a well-formed document whose strings are `XmlSafe`, a conforming XML
    processor reads the written tree unchanged, and the independent reader `Spec.specRead` — which knows
    only the designspace specification's element and attribute names and Apple's plist DTD, walks paths,
    does not trim, checks the root element — finds exactly the original document in it. -/
theorem ds_spec_reader_finds_values {c : Codec} (L : CodecLaws c) (d : Doc) (h : WellFormed c d = true)
    (hx : XmlSafe d = true) :
    (toTree c d).map (fun t => (conformView t).bind (specRead c)) = .ok (some d) := by
  have hwf := h
  simp only [WellFormed, StatedWF, DatesPrintable, LibTextClean, Bool.and_eq_true, Bool.not_eq_true',
    List.isEmpty_eq_false_iff, List.all_eq_true] at h
  obtain ⟨⟨⟨⟨⟨⟨⟨⟨⟨hf, hax⟩, haxs⟩, hru⟩, hso⟩, hsos⟩, hins⟩, hlib⟩, hd1, hd2⟩, hc1, hc2⟩ := h
  obtain ⟨insts, i1, _, _, _⟩ := instances_rt L d.instances
    (fun i hi => ⟨(hins i hi).1, (hins i hi).2, hc1 i hi, hd1 i hi⟩)
  obtain ⟨ls, l1, _, _, _⟩ := lib_rt L d.lib hlib hc2 hd2
  have ht : toTree c d = .ok (.elem "designspace" (mkAttrs [("format", some (c.showF32 d.format))])
      (topChildren c d insts ls)) := by
    simp only [toTree, i1, l1, Out.bind]; rfl
  have hp := conformView_plain _ (toTree_plain L d _ hx ht)
  have hs := spec_doc L d insts ls hf hax haxs (by simpa [List.all_eq_true] using hru) hsos hso
    (fun i hi => ⟨(hins i hi).1, (hins i hi).2⟩) hlib i1 l1
  rw [ht]
  simp only [Out.map, hp, Option.bind_some, hs]

/-- the independent reader does not need the `LibTextClean` guard on the tree itself: on `toTree d` (before
    any file-level effect) it finds the document also when lib strings start or end with blanks -/
theorem ds_spec_reader_no_trim (c : Codec) :
    (serializeWithin c (.str "  a ")).map (plistObject c) = .ok (some (.str "  a ")) := by
  simp [serializeWithin, valueInner, Out.map, plistObject, leafText]

/-- finding `attr-whitespace-unescaped`: without `XmlSafe` the statement is false — a conforming processor
    reads the attribute value `"We\tig\nht"` as `"We ig ht"` -/
theorem ds_spec_reader_counterexample_attr : normAttr "We\tig\nht" = "We ig ht" := by decide

/-- finding `text-cr-unescaped`: CR and CR LF in text are read as LF -/
theorem ds_spec_reader_counterexample_cr : normText "a\rb\r\nc" = "a\nb\nc" := by decide

/-- finding `forbidden-char-written`: the written tree is not XML at all -/
theorem ds_spec_reader_counterexample_forbidden (n : String) :
    conformView (.elem n [("filename", "a\x01b")] []) = none := by
  have : hasForbidden "a\x01b" = true := by decide
  simp [conformView, normAttrs, this]

/-- non-vacuity: the sample document is `XmlSafe` -/
example : XmlSafe sampleDoc = true := by decide

/-! ## the codec hypothesis is satisfiable -/

/-- **codec_laws_satisfiable**: `CodecLaws` holds of `refCodec`, whose integer part (`Int.repr`,
    `String.toInt?` + the `i64`/`u64` range tests) and base64 part (`b64enc`/`b64dec`) are the functions the
    driver runs against the strings Rust wrote.  Its float and date parts are stand-ins (injective decimal
    renderings): for Rust's shortest-round-trip `Display` of `f32`/`f64` and the `time` crate's RFC 3339
    formatting the laws REMAIN HYPOTHESES, checked by the driver on every string of every case. -/
theorem codec_laws_satisfiable : ∃ c : Codec, CodecLaws c := ⟨refCodec, codecLaws_refCodec⟩

/-- the integer law, for the real implementation: every `i64` and every `u64` survives `to_string` →
    `IntWrapper` (i64 first, then u64; no `0x` prefix) -/
theorem int_codec_roundtrip (i : Int) (h1 : i64Min ≤ i) (h2 : i ≤ u64Max) :
    readIntText refCodec (intShow i) = some i := readIntText_show codecLaws_refCodec i h1 h2

/-- the base64 law, for the real implementation, all byte strings -/
theorem base64_roundtrip (bs : List UInt8) : b64dec (b64enc bs) = some bs := b64_rt bs

/-- the document theorems instantiated: no hypothesis about the codec is left -/
theorem ds_roundtrip_refCodec (d : Doc) (h : WellFormed refCodec d = true) :
    saveLoad refCodec d = .ok (some d) := ds_roundtrip codecLaws_refCodec d h

/-- non-vacuity with a date and data in the lib -/
example : WellFormed refCodec { sampleDoc with lib := .cons "d" (.date ⟨0, 5⟩) (.cons "b" (.data [255, 0, 7]) .nil) } = true := by
  decide

/-- non-vacuity: the guards hold of a lib with every value type -/
example (c : Codec) : kvsStated (.cons "s" (.str "a b") (.cons "i" (.int (-5)) (.cons "r" (.real ⟨0⟩)
    (.cons "b" (.bool true) (.cons "d" (.data [1, 2]) (.cons "a" (.arr (.cons (.dict .nil) .nil)) .nil)))))) = true
    ∧ kvsClean (.cons "s" (.str "a b") .nil) = true
    ∧ kvsDates c (.cons "s" (.str "a b") (.cons "a" (.arr (.cons (.dict .nil) .nil)) .nil)) = true := by
  refine ⟨by decide, by decide, by simp [kvsDates, pvDates, pvsDates]⟩

end C18
