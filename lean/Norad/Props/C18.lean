import Norad.Lemmas.C18
/-!
# C18 — saving and loading a designspace document preserves it

Property theorems only.  `toTree`/`fromTree`/`serializeWithin`/`readValue` are the transcription of
`designspace.rs` and `serde_xml_plist.rs` (`Model/C18.lean`, following branch fix/ds), `Spec.specRead` the
independent reader and `Spec.StatedWF` the well-formedness of the property statement (`Spec/C18.lean`).
The codec (number, base64 and date formatting of `std`/`base64`/`plist`) is a parameter; what is assumed
of it is the hypothesis `CodecLaws c`.
-/
namespace C18
open C18.Spec

/-! ## the plist-in-XML glue -/

/-- **plist_glue_roundtrip**: every value of every type except `Uid` (strings and keys without blanks at
    an end, dates that `to_xml_format` can print, reals that are not NaN) is written as a tagged element
    that `read_xml_value` reads back as the same value; nested arrays and dictionaries of any depth. -/
theorem plist_glue_roundtrip {c : Codec} (L : CodecLaws c) (v : PV)
    (hs : pvStated v = true) (hc : pvClean v = true) (hd : pvDates c v = true) :
    (serializeWithin c v).map (readValue c) = .ok (some v) := by
  obtain ⟨t, h1, h2⟩ := pv_rt L v hs hc hd
  simp [h1, Out.map, h2]

/-- the same for a whole lib dictionary: the key/value pairs come back in order, and inserting them into
    an empty `Dictionary` rebuilds the dictionary -/
theorem plist_glue_roundtrip_dict {c : Codec} (L : CodecLaws c) (kvs : KVs)
    (hs : kvsStated kvs = true) (hc : kvsClean kvs = true) (hd : kvsDates c kvs = true) :
    (dictInner c kvs).map (fun ts => (readPairs c ts).map KVs.nil.insertAll) = .ok (some kvs) := by
  obtain ⟨ts, h1, h2⟩ := kvs_rt L kvs hs hc hd
  simp [h1, Out.map, h2, KVs.insertAll_nil kvs (kvsStated_distinct kvs hs)]

/- Full strength (`pvClean` dropped) is FALSE on the tree: quick-xml's serde deserializer trims text. -/

/-- finding `lib-text-trimmed`: a blank-only string is written as `<string>   </string>` and read back
    empty, whatever the codec -/
theorem plist_glue_roundtrip_counterexample (c : Codec) :
    (serializeWithin c (.str "   ")).map (readValue c) = .ok (some (.str "")) := by
  have : trimXml "   " = "" := by decide
  simp [serializeWithin, valueInner, Out.map, readValue, elemText, rawText, this]

/-- … and two keys that differ by a leading blank collapse into one entry holding the later value -/
theorem plist_glue_key_collision_counterexample (c : Codec) :
    (serializeWithin c (.dict (.cons "a" (.bool true) (.cons " a" (.bool false) .nil)))).map (readValue c)
      = .ok (some (.dict (.cons "a" (.bool false) .nil))) := by
  have h1 : trimXml "a" = "a" := by decide
  have h2 : trimXml " a" = "a" := by decide
  simp [serializeWithin, dictInner, Out.map, Out.bind, readValue, readPairs, readKey, textElem, elemText,
    rawText, h1, h2, KVs.insertAll, KVs.insert]

/-- `Uid` is refused with an error, not a panic -/
theorem plist_glue_uid_is_error (c : Codec) (n : Nat) : serializeWithin c (.uid n) = .err := by
  simp [serializeWithin]

/-- **glue_never_panics**: the serializer half of the glue never panics as long as every date can be
    printed — in particular the `unreachable!` of `ValueInnerHelper` (the `.bool` arm of `valueInner`) is
    never reached from `serialize_within`, for values of any shape, `Uid` included. -/
theorem glue_never_panics (c : Codec) (kvs : KVs) (hd : kvsDates c kvs = true) :
    (dictInner c kvs).isPanic = false := kvs_np c kvs hd

theorem glue_never_panics_value (c : Codec) (v : PV) (hd : pvDates c v = true) :
    (serializeWithin c v).isPanic = false := pv_np c v hd

/-- finding `date-out-of-range-panics`: without the guard the statement is false — a date that
    `plist::Date::to_xml_format` cannot print (`Date::from(SystemTime)` does not validate) panics -/
theorem glue_never_panics_counterexample (c : Codec) (d : Date) (h : c.showDate d = none) :
    serializeWithin c (.dict (.cons "k" (.date d) .nil)) = .panic := by
  simp [serializeWithin, dictInner, valueInner, h, Out.map, Out.bind]

/-- non-vacuity: the guards hold of a lib with every value type -/
example (c : Codec) : kvsStated (.cons "s" (.str "a b") (.cons "i" (.int (-5)) (.cons "r" (.real ⟨0⟩)
    (.cons "b" (.bool true) (.cons "d" (.data [1, 2]) (.cons "a" (.arr (.cons (.dict .nil) .nil)) .nil)))))) = true
    ∧ kvsClean (.cons "s" (.str "a b") .nil) = true
    ∧ kvsDates c (.cons "s" (.str "a b") (.cons "a" (.arr (.cons (.dict .nil) .nil)) .nil)) = true := by
  refine ⟨by decide, by decide, by simp [kvsDates, pvDates, pvsDates]⟩

end C18
