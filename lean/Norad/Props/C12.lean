import Norad.Lemmas.C12
/-!
# C12 — glif documents breaking the structure rules are rejected, legal ones accepted

Property theorems only.  `parseGlif rd evs` is the transcription of `GlifParser::from_xml` over the
quick-xml event list (`Model/Glif.lean`); `rd` is Rust's float parser.  The rejection rules are stated
at the level of one parser state — `s` is *any* state, so a rule holds at every position of every
document — and lifted to documents by `Reach`/`run_of_reach` (`Lemmas/C12.lean`): if the events before a
position are consumed successfully and end in `s`, the parse of the whole list continues from `s`.
-/
namespace Glif
variable (rd : Str → Option Nat)


/-! ### duplicates -/

theorem advance_dup {s : PS} (hm : s.mode = .body) (hf : s.seenAdvance = true) (a) :
    step rd s (.empty sAdvance a) = .error (.duplicateElement "advance") := by
  simp +decide [step, hm, stepBody, bodyEmpty, hf]

theorem advance_sets {s s' : PS} (hm : s.mode = .body) {a} (h : step rd s (.empty sAdvance a) = .ok (.inl s')) :
    s'.seenAdvance = true ∧ s'.mode = .body := by
  simp +decide only [step, hm, stepBody, bodyEmpty, if_false, if_true, cont] at h
  repeat' split at h
  all_goals first | (cases h; done) | (cases h; simp [hm])

theorem outline_dup {s : PS} (hm : s.mode = .body) (hf : s.seenOutline = true) (a) :
    step rd s (.start sOutline a) = .error (.duplicateElement "outline") ∧
    step rd s (.empty sOutline a) = .error (.duplicateElement "outline") := by
  simp [step, hm, stepBody, bodyStart, bodyEmpty, hf]

theorem lib_dup {s : PS} (hm : s.mode = .body) (hf : s.seenLib = true) (a v) :
    step rd s (.startLib a v) = .error (.duplicateElement "lib") := by
  simp [step, hm, stepBody, hf]

theorem image_dup {s : PS} (hm : s.mode = .body) (hf : s.g.image.isSome = true) (a) :
    ∃ k, step rd s (.empty sImage a) = .error k := by
  by_cases hv : s.ver = 1 <;> simp +decide [step, hm, stepBody, bodyEmpty, hf, hv]

theorem note_dup {s : PS} (hm : s.mode = .body) (hf : s.g.note.isSome = true) (a) :
    ∃ k, step rd s (.start sNote a) = .error k := by
  by_cases hv : s.ver = 1 <;> simp +decide [step, hm, stepBody, bodyStart, hf, hv]




theorem aKeyOf_id : aKeyOf sIdentifier = some .ident := by decide
theorem guKeyOf_id : guKeyOf sIdentifier = some .ident := by decide
theorem pKeyOf_id : pKeyOf sIdentifier = some .ident := by decide
theorem cKeyOf_id : cKeyOf sIdentifier = some .ident := by decide
theorem aKeyOf_x : aKeyOf ['x'] = some .x := by decide
theorem aKeyOf_y : aKeyOf ['y'] = some .y := by decide
theorem pKeyOf_x : pKeyOf ['x'] = some .x := by decide
theorem pKeyOf_y : pKeyOf ['y'] = some .y := by decide
theorem guKeyOf_x : guKeyOf ['x'] = some .x := by decide
theorem guKeyOf_y : guKeyOf ['y'] = some .y := by decide
theorem guKeyOf_angle : guKeyOf ['a', 'n', 'g', 'l', 'e'] = some .angle := by decide

/-! ### format 1 -/

theorem v1_elements_rejected {s : PS} (hm : s.mode = .body) (hv : s.ver = 1) (a) :
    step rd s (.empty sAnchor a) = .error (.unexpectedV1Element "anchor") ∧
    step rd s (.empty sGuideline a) = .error (.unexpectedV1Element "guideline") ∧
    step rd s (.empty sImage a) = .error (.unexpectedV1Element "image") ∧
    step rd s (.start sNote a) = .error (.unexpectedV1Element "note") := by
  simp +decide [step, hm, stepBody, bodyEmpty, bodyStart, hv]

theorem readIdent_v1 (seen : List Str) (v : Str) : readIdent 1 seen v = none := by simp [readIdent]

theorem readIdent_seen (ver : Nat) {seen : List Str} {v : Str} (h : v ∈ seen) : readIdent ver seen v = none := by
  simp [readIdent, h]

theorem readIdent_invalid (ver : Nat) (seen : List Str) {v : Str} (h : validIdent v = false) :
    readIdent ver seen v = none := by
  simp [readIdent, h]

/-- the identifier attribute kills an element in each of the five kinds as soon as `readIdent` refuses it -/
theorem ident_refused {ver : Nat} {seen : List Str} {v : Str} (h : readIdent ver seen v = none)
    {as : List Attr} (hm : (sIdentifier, v) ∈ as) :
    parseAnchor rd ver seen as = none ∧ parseGuideline rd ver seen as = none ∧
    parsePoint rd ver seen as = none ∧ parseComponent rd ver seen as = none ∧
    parseContourAttrs ver seen as = none := by
  refine ⟨?_, ?_, ?_, ?_, ?_⟩
  · have : foldAttrs (aStep rd ver seen) {} as = none :=
      foldAttrs_none_of_mem _ _ (fun acc => by simp [aStep, aKeyOf_id, aApply, h]) as _ hm
    simp [parseAnchor, this]
  · have : foldAttrs (guStep rd ver seen) {} as = none :=
      foldAttrs_none_of_mem _ _ (fun acc => by simp [guStep, guKeyOf_id, guApply, h]) as _ hm
    simp [parseGuideline, this]
  · have : foldAttrs (pStep rd ver seen) {} as = none :=
      foldAttrs_none_of_mem _ _ (fun acc => by simp [pStep, pKeyOf_id, pApply, h]) as _ hm
    simp [parsePoint, this]
  · have : foldAttrs (cStep rd ver seen) {} as = none :=
      foldAttrs_none_of_mem _ _ (fun acc => by simp [cStep, cKeyOf_id, cApply, h]) as _ hm
    simp [parseComponent, this]
  · exact foldAttrs_none_of_mem _ _ (fun acc => by
      by_cases hv : ver = 1 <;> simp [ctStep, h, hv]) as _ hm

/-- an attribute the element does not know kills it -/
theorem unknown_attr_refused (ver : Nat) (seen : List Str) (cps : List Nat) {as : List Attr} {a : Attr} (hm : a ∈ as) :
    (advKeyOf a.1 = none → parseAdvance rd as = none) ∧
    (a.1 ≠ sHex → parseUnicode cps as = none) ∧
    (aKeyOf a.1 = none → parseAnchor rd ver seen as = none) ∧
    (guKeyOf a.1 = none → parseGuideline rd ver seen as = none) ∧
    (iKeyOf a.1 = none → parseImage rd as = none) ∧
    (pKeyOf a.1 = none → parsePoint rd ver seen as = none) ∧
    (cKeyOf a.1 = none → parseComponent rd ver seen as = none) ∧
    (a.1 ≠ sIdentifier → parseContourAttrs ver seen as = none) ∧
    (gKeyOf a.1 = none → foldAttrs gStep {} as = none) := by
  refine ⟨?_, ?_, ?_, ?_, ?_, ?_, ?_, ?_, ?_⟩
  · intro h; exact foldAttrs_none_of_mem _ _ (fun acc => by simp [advStep, h]) as _ hm
  · intro h; exact foldAttrs_none_of_mem _ _ (fun acc => by simp [uniStep, h]) as _ hm
  · intro h
    have : foldAttrs (aStep rd ver seen) {} as = none :=
      foldAttrs_none_of_mem _ _ (fun acc => by simp [aStep, h]) as _ hm
    simp [parseAnchor, this]
  · intro h
    have : foldAttrs (guStep rd ver seen) {} as = none :=
      foldAttrs_none_of_mem _ _ (fun acc => by simp [guStep, h]) as _ hm
    simp [parseGuideline, this]
  · intro h
    have : foldAttrs (iStep rd) {} as = none :=
      foldAttrs_none_of_mem _ _ (fun acc => by simp [iStep, h]) as _ hm
    simp [parseImage, this]
  · intro h
    have : foldAttrs (pStep rd ver seen) {} as = none :=
      foldAttrs_none_of_mem _ _ (fun acc => by simp [pStep, h]) as _ hm
    simp [parsePoint, this]
  · intro h
    have : foldAttrs (cStep rd ver seen) {} as = none :=
      foldAttrs_none_of_mem _ _ (fun acc => by simp [cStep, h]) as _ hm
    simp [parseComponent, this]
  · intro h; exact foldAttrs_none_of_mem _ _ (fun acc => by
      by_cases hv : ver = 1 <;> simp [ctStep, h, hv]) as _ hm
  · intro h; exact foldAttrs_none_of_mem _ _ (fun acc => by simp [gStep, h]) as _ hm

/-- a numeric attribute whose value Rust's float parser refuses kills the element -/
theorem bad_number_refused (ver : Nat) (seen : List Str) {as : List Attr} {k v : Str} (hm : (k, v) ∈ as)
    (hv : rd v = none) :
    (advKeyOf k ≠ none → parseAdvance rd as = none) ∧
    ((k = "x".toList ∨ k = "y".toList) → parseAnchor rd ver seen as = none ∧ parsePoint rd ver seen as = none) ∧
    ((k = "x".toList ∨ k = "y".toList ∨ k = "angle".toList) → parseGuideline rd ver seen as = none) ∧
    (tKeyOf k ≠ none → parseImage rd as = none ∧ parseComponent rd ver seen as = none) := by
  refine ⟨?_, ?_, ?_, ?_⟩
  · intro h
    refine foldAttrs_none_of_mem _ _ (fun acc => ?_) as _ hm
    cases hk : advKeyOf k with
    | none => exact absurd hk h
    | some kk => cases kk <;> simp [advStep, hk, advApply, hv]
  · intro h
    have h1 : foldAttrs (aStep rd ver seen) {} as = none :=
      foldAttrs_none_of_mem _ _ (fun acc => by rcases h with rfl | rfl <;> simp [aStep, aKeyOf_x, aKeyOf_y, aApply, hv]) as _ hm
    have h2 : foldAttrs (pStep rd ver seen) {} as = none :=
      foldAttrs_none_of_mem _ _ (fun acc => by rcases h with rfl | rfl <;> simp [pStep, pKeyOf_x, pKeyOf_y, pApply, hv]) as _ hm
    simp [parseAnchor, parsePoint, h1, h2]
  · intro h
    have h1 : foldAttrs (guStep rd ver seen) {} as = none :=
      foldAttrs_none_of_mem _ _ (fun acc => by
        rcases h with rfl | rfl | rfl <;> simp [guStep, guKeyOf_x, guKeyOf_y, guKeyOf_angle, guApply, hv]) as _ hm
    simp [parseGuideline, h1]
  · intro h
    cases hk : tKeyOf k with
    | none => exact absurd hk h
    | some kk =>
      have h1 : foldAttrs (iStep rd) {} as = none :=
        foldAttrs_none_of_mem _ _ (fun acc => by simp [iStep, iKeyOf, hk, iApply, hv]) as _ hm
      have h2 : foldAttrs (cStep rd ver seen) {} as = none :=
        foldAttrs_none_of_mem _ _ (fun acc => by simp [cStep, cKeyOf, hk, cApply, hv]) as _ hm
      simp [parseImage, parseComponent, h1, h2]

/-- an angle outside `[0, 360]` kills the guideline -/
theorem bad_angle_refused (ver : Nat) (seen : List Str) {as : List Attr} {v : Str} {b : Nat}
    (hm : ("angle".toList, v) ∈ as) (hv : rd v = some b) (hb : angleOk b = false) :
    parseGuideline rd ver seen as = none := by
  have h1 : foldAttrs (guStep rd ver seen) {} as = none :=
    foldAttrs_none_of_mem _ _ (fun acc => by simp [guStep, guKeyOf_angle, guApply, hv, hb]) as _ hm
  simp [parseGuideline, h1]



/-! ### returned glyphs -/

/-- **no `public.objectLibs` key remains in a returned lib** -/
theorem returned_lib_has_no_objectlibs_key {evs : List Ev} {g : Glyph} (h : parseGlif rd evs = .ok g) :
    dictGet objectLibsKey g.lib = none := by
  unfold parseGlif at h
  split at h
  · cases h
  · obtain ⟨_, s', e, _, _, _, hd⟩ := run_ok rd h
    exact loadObjectLibs_no_key (step_done rd hd).2.2

end Glif
