import Norad.Lemmas.C12
import Norad.Lemmas.GlifTables
import Norad.Lemmas.JudgeLink
import Norad.Lemmas.JudgeDoc
import Norad.Lemmas.JudgeConverse
import Norad.Lemmas.JudgeBody
import Norad.Lemmas.JudgeFlag
import Norad.Generated.GlifParser
import Norad.Lemmas.C02
import Norad.Lemmas.GlifGen
import Norad.Lemmas.GlifGenV1
import Norad.Props.C11
/-!
# C12 — glif documents breaking the structure rules are rejected, legal ones accepted

Property theorems only.  `parseGlif rd evs` is the transcription of `GlifParser::from_xml` over the
quick-xml event list (`Model/Glif.lean`); `rd` is Rust's float parser.  The rejection rules are stated
at the level of one parser state — `s` is *any* state, so a rule holds at every position of every
document — and lifted to documents by `Reach`/`run_of_reach` (`Lemmas/C12.lean`): if the events before a
position are consumed successfully and end in `s`, the parse of the whole list continues from `s`.
-/
namespace Glif
variable (rd : Str → Option Nat)


/-! ### duplicates -/

theorem advance_dup {s : PS} (hm : s.mode = .body) (hf : s.seenAdvance = true) (a) :
    step rd s (.empty sAdvance a) = .error (.duplicateElement "advance") := by
  simp +decide [step, hm, stepBody, bodyEmpty, hf]

theorem advance_sets {s s' : PS} (hm : s.mode = .body) {a} (h : step rd s (.empty sAdvance a) = .ok (.inl s')) :
    s'.seenAdvance = true ∧ s'.mode = .body := by
  simp +decide only [step, hm, stepBody, bodyEmpty, if_false, if_true, cont] at h
  repeat' split at h
  all_goals first | (cases h; done) | (cases h; simp [hm])

theorem outline_dup {s : PS} (hm : s.mode = .body) (hf : s.seenOutline = true) (a) :
    step rd s (.start sOutline a) = .error (.duplicateElement "outline") ∧
    step rd s (.empty sOutline a) = .error (.duplicateElement "outline") := by
  simp [step, hm, stepBody, bodyStart, bodyEmpty, hf]

theorem lib_dup {s : PS} (hm : s.mode = .body) (hf : s.seenLib = true) (a v) :
    step rd s (.startLib a v) = .error (.duplicateElement "lib") := by
  simp [step, hm, stepBody, hf]

theorem image_dup {s : PS} (hm : s.mode = .body) (hf : s.g.image.isSome = true) (a) :
    ∃ k, step rd s (.empty sImage a) = .error k := by
  by_cases hv : s.ver = 1 <;> simp +decide [step, hm, stepBody, bodyEmpty, hf, hv]

theorem note_dup {s : PS} (hm : s.mode = .body) (hf : s.g.note.isSome = true) (a) :
    ∃ k, step rd s (.start sNote a) = .error k := by
  by_cases hv : s.ver = 1 <;> simp +decide [step, hm, stepBody, bodyStart, hf, hv]




theorem aKeyOf_id : aKeyOf sIdentifier = some .ident := by decide
theorem guKeyOf_id : guKeyOf sIdentifier = some .ident := by decide
theorem pKeyOf_id : pKeyOf sIdentifier = some .ident := by decide
theorem cKeyOf_id : cKeyOf sIdentifier = some .ident := by decide
theorem aKeyOf_x : aKeyOf ['x'] = some .x := by decide
theorem aKeyOf_y : aKeyOf ['y'] = some .y := by decide
theorem pKeyOf_x : pKeyOf ['x'] = some .x := by decide
theorem pKeyOf_y : pKeyOf ['y'] = some .y := by decide
theorem guKeyOf_x : guKeyOf ['x'] = some .x := by decide
theorem guKeyOf_y : guKeyOf ['y'] = some .y := by decide
theorem guKeyOf_angle : guKeyOf ['a', 'n', 'g', 'l', 'e'] = some .angle := by decide

/-! ### format 1 -/

theorem v1_elements_rejected {s : PS} (hm : s.mode = .body) (hv : s.ver = 1) (a) :
    step rd s (.empty sAnchor a) = .error (.unexpectedV1Element "anchor") ∧
    step rd s (.empty sGuideline a) = .error (.unexpectedV1Element "guideline") ∧
    step rd s (.empty sImage a) = .error (.unexpectedV1Element "image") ∧
    step rd s (.start sNote a) = .error (.unexpectedV1Element "note") := by
  simp +decide [step, hm, stepBody, bodyEmpty, bodyStart, hv]

theorem readIdent_v1 (seen : List Str) (v : Str) : readIdent 1 seen v = none := by simp [readIdent]

theorem readIdent_seen (ver : Nat) {seen : List Str} {v : Str} (h : v ∈ seen) : readIdent ver seen v = none := by
  simp [readIdent, h]

theorem readIdent_invalid (ver : Nat) (seen : List Str) {v : Str} (h : validIdent v = false) :
    readIdent ver seen v = none := by
  simp [readIdent, h]

/-- the identifier attribute kills an element in each of the five kinds as soon as `readIdent` refuses it -/
theorem ident_refused {ver : Nat} {seen : List Str} {v : Str} (h : readIdent ver seen v = none)
    {as : List Attr} (hm : (sIdentifier, v) ∈ as) :
    parseAnchor rd ver seen as = none ∧ parseGuideline rd ver seen as = none ∧
    parsePoint rd ver seen as = none ∧ parseComponent rd ver seen as = none ∧
    parseContourAttrs ver seen as = none := by
  refine ⟨?_, ?_, ?_, ?_, ?_⟩
  · have : foldAttrs (aStep rd ver seen) {} as = none :=
      foldAttrs_none_of_mem _ _ (fun acc => by simp [aStep, aKeyOf_id, aApply, h]) as _ hm
    simp [parseAnchor, this]
  · have : foldAttrs (guStep rd ver seen) {} as = none :=
      foldAttrs_none_of_mem _ _ (fun acc => by simp [guStep, guKeyOf_id, guApply, h]) as _ hm
    simp [parseGuideline, this]
  · have : foldAttrs (pStep rd ver seen) {} as = none :=
      foldAttrs_none_of_mem _ _ (fun acc => by simp [pStep, pKeyOf_id, pApply, h]) as _ hm
    simp [parsePoint, this]
  · have : foldAttrs (cStep rd ver seen) {} as = none :=
      foldAttrs_none_of_mem _ _ (fun acc => by simp [cStep, cKeyOf_id, cApply, h]) as _ hm
    simp [parseComponent, this]
  · exact foldAttrs_none_of_mem _ _ (fun acc => by
      by_cases hv : ver = 1 <;> simp [ctStep, h, hv]) as _ hm

/-- an attribute the element does not know kills it -/
theorem unknown_attr_refused (ver : Nat) (seen : List Str) (cps : List Nat) {as : List Attr} {a : Attr} (hm : a ∈ as) :
    (advKeyOf a.1 = none → parseAdvance rd as = none) ∧
    (a.1 ≠ sHex → parseUnicode cps as = none) ∧
    (aKeyOf a.1 = none → parseAnchor rd ver seen as = none) ∧
    (guKeyOf a.1 = none → parseGuideline rd ver seen as = none) ∧
    (iKeyOf a.1 = none → parseImage rd as = none) ∧
    (pKeyOf a.1 = none → parsePoint rd ver seen as = none) ∧
    (cKeyOf a.1 = none → parseComponent rd ver seen as = none) ∧
    (a.1 ≠ sIdentifier → parseContourAttrs ver seen as = none) ∧
    (gKeyOf a.1 = none → foldAttrs gStep {} as = none) := by
  refine ⟨?_, ?_, ?_, ?_, ?_, ?_, ?_, ?_, ?_⟩
  · intro h; exact foldAttrs_none_of_mem _ _ (fun acc => by simp [advStep, h]) as _ hm
  · intro h; exact foldAttrs_none_of_mem _ _ (fun acc => by simp [uniStep, h]) as _ hm
  · intro h
    have : foldAttrs (aStep rd ver seen) {} as = none :=
      foldAttrs_none_of_mem _ _ (fun acc => by simp [aStep, h]) as _ hm
    simp [parseAnchor, this]
  · intro h
    have : foldAttrs (guStep rd ver seen) {} as = none :=
      foldAttrs_none_of_mem _ _ (fun acc => by simp [guStep, h]) as _ hm
    simp [parseGuideline, this]
  · intro h
    have : foldAttrs (iStep rd) {} as = none :=
      foldAttrs_none_of_mem _ _ (fun acc => by simp [iStep, h]) as _ hm
    simp [parseImage, this]
  · intro h
    have : foldAttrs (pStep rd ver seen) {} as = none :=
      foldAttrs_none_of_mem _ _ (fun acc => by simp [pStep, h]) as _ hm
    simp [parsePoint, this]
  · intro h
    have : foldAttrs (cStep rd ver seen) {} as = none :=
      foldAttrs_none_of_mem _ _ (fun acc => by simp [cStep, h]) as _ hm
    simp [parseComponent, this]
  · intro h; exact foldAttrs_none_of_mem _ _ (fun acc => by
      by_cases hv : ver = 1 <;> simp [ctStep, h, hv]) as _ hm
  · intro h; exact foldAttrs_none_of_mem _ _ (fun acc => by simp [gStep, h]) as _ hm

/-- a numeric attribute whose value Rust's float parser refuses kills the element -/
theorem bad_number_refused (ver : Nat) (seen : List Str) {as : List Attr} {k v : Str} (hm : (k, v) ∈ as)
    (hv : rd v = none) :
    (advKeyOf k ≠ none → parseAdvance rd as = none) ∧
    ((k = "x".toList ∨ k = "y".toList) → parseAnchor rd ver seen as = none ∧ parsePoint rd ver seen as = none) ∧
    ((k = "x".toList ∨ k = "y".toList ∨ k = "angle".toList) → parseGuideline rd ver seen as = none) ∧
    (tKeyOf k ≠ none → parseImage rd as = none ∧ parseComponent rd ver seen as = none) := by
  refine ⟨?_, ?_, ?_, ?_⟩
  · intro h
    refine foldAttrs_none_of_mem _ _ (fun acc => ?_) as _ hm
    cases hk : advKeyOf k with
    | none => exact absurd hk h
    | some kk => cases kk <;> simp [advStep, hk, advApply, hv]
  · intro h
    have h1 : foldAttrs (aStep rd ver seen) {} as = none :=
      foldAttrs_none_of_mem _ _ (fun acc => by rcases h with rfl | rfl <;> simp [aStep, aKeyOf_x, aKeyOf_y, aApply, hv]) as _ hm
    have h2 : foldAttrs (pStep rd ver seen) {} as = none :=
      foldAttrs_none_of_mem _ _ (fun acc => by rcases h with rfl | rfl <;> simp [pStep, pKeyOf_x, pKeyOf_y, pApply, hv]) as _ hm
    simp [parseAnchor, parsePoint, h1, h2]
  · intro h
    have h1 : foldAttrs (guStep rd ver seen) {} as = none :=
      foldAttrs_none_of_mem _ _ (fun acc => by
        rcases h with rfl | rfl | rfl <;> simp [guStep, guKeyOf_x, guKeyOf_y, guKeyOf_angle, guApply, hv]) as _ hm
    simp [parseGuideline, h1]
  · intro h
    cases hk : tKeyOf k with
    | none => exact absurd hk h
    | some kk =>
      have h1 : foldAttrs (iStep rd) {} as = none :=
        foldAttrs_none_of_mem _ _ (fun acc => by simp [iStep, iKeyOf, hk, iApply, hv]) as _ hm
      have h2 : foldAttrs (cStep rd ver seen) {} as = none :=
        foldAttrs_none_of_mem _ _ (fun acc => by simp [cStep, cKeyOf, hk, cApply, hv]) as _ hm
      simp [parseImage, parseComponent, h1, h2]

/-- an angle outside `[0, 360]` kills the guideline -/
theorem bad_angle_refused (ver : Nat) (seen : List Str) {as : List Attr} {v : Str} {b : Nat}
    (hm : ("angle".toList, v) ∈ as) (hv : rd v = some b) (hb : angleOk b = false) :
    parseGuideline rd ver seen as = none := by
  have h1 : foldAttrs (guStep rd ver seen) {} as = none :=
    foldAttrs_none_of_mem _ _ (fun acc => by simp [guStep, guKeyOf_angle, guApply, hv, hb]) as _ hm
  simp [parseGuideline, h1]



/-! ### returned glyphs -/

/-- **no `public.objectLibs` key remains in a returned lib** -/
theorem returned_lib_has_no_objectlibs_key {evs : List Ev} {g : Glyph} (h : parseGlif rd evs = .ok g) :
    dictGet objectLibsKey g.lib = none := by
  unfold parseGlif at h
  split at h
  · cases h
  · obtain ⟨_, s', e, _, _, _, hd⟩ := run_ok rd h
    exact loadObjectLibs_no_key (step_done rd hd).2.2

/-- what `returned_glyph_wellformed` says about a glyph -/
structure Wellformed (g : Glyph) : Prop where
  identifiers_unique : (Spec.glyphIdents g).Nodup
  no_objectlibs_key : dictGet objectLibsKey g.lib = none
  contours_legal : ∀ c, c ∈ g.contours → C11.Legal (c.points.map toPt) ∧ c.points ≠ []
  angles_in_range : ∀ x, x ∈ g.guidelines → ∀ a b d, x.line = .angle a b d → angleOk d = true
  image_name : ∀ i, g.image = some i → imageNameOk i.fileName = true

theorem wellformed_of_load {s : PS} (hm : s.mode = .body) (hi : Inv s) {g : Glyph}
    (h : loadObjectLibs s.g = .ok g) : Wellformed g := by
  obtain ⟨hcnt, _, hcont, _, hgu, him⟩ := hi
  have hall : allIds s = Spec.glyphIdents s.g := by simp [allIds, modeIds, hm]
  rw [hall] at hcnt
  have hk := loadObjectLibs_no_key h
  have hleg : ∀ c, c ∈ s.g.contours → C11.Legal (c.points.map toPt) ∧ c.points ≠ [] :=
    fun c hc => ⟨(C11.accepts_iff_legal _).1 (hcont c hc).1, (hcont c hc).2⟩
  unfold loadObjectLibs at h
  split at h
  · cases h
    exact ⟨List.nodup_iff_count.2 hcnt, hk, hleg, hgu, him⟩
  · repeat' split at h
    all_goals first | (cases h; done) | skip
    cases h
    have e1 := loadAnchors_ids _ _ _ _ ‹loadAnchors _ _ = _›
    obtain ⟨e2, l2⟩ := loadGuidelines_ids _ _ _ _ ‹loadGuidelines _ _ = _›
    obtain ⟨e3, l3⟩ := loadContours_ids _ _ _ _ ‹loadContours _ _ = _›
    have e4 := loadComponents_ids _ _ _ _ ‹loadComponents _ _ = _›
    refine ⟨?_, hk, ?_, ?_, him⟩
    · apply List.nodup_iff_count.2
      intro i
      have := hcnt i
      simp only [Spec.glyphIdents] at this ⊢
      simp only [cIds_def] at e3
      rw [e1, e2, e3, e4]
      exact this
    · intro c hc
      obtain ⟨y, hy, hp⟩ := l3 c hc
      obtain ⟨l1, l2⟩ := hleg y hy
      refine ⟨hp ▸ l1, ?_⟩
      intro he
      apply l2
      have : (y.points.map toPt) = [] := by rw [← hp, he]; rfl
      simpa using this
    · intro x hx a b d hl
      obtain ⟨y, hy, hp⟩ := l2 x hx
      exact hgu y hy a b d (hp ▸ hl)
  · cases h

theorem scanStart_ok {evs : List Ev} {name : Str} {ver : Nat} {rest : List Ev}
    (h : scanStart evs = .ok (name, ver, rest)) : (ver = 1 ∨ ver = 2) := by
  induction evs with
  | nil => simp [scanStart] at h
  | cons e es ih =>
    cases e <;> simp only [scanStart] at h <;> first | (cases h; done) | exact ih h | skip
    split at h
    · split at h
      · rename_i hp
        cases h
        unfold parseGlyphAttrs at hp
        repeat' split at hp
        all_goals first | (cases hp; done) | skip
        rename_i acc _
        unfold gFinish at hp
        repeat' split at hp
        all_goals first | (cases hp; done) | (cases hp; simp)
      · cases h
    · cases h

/-- **every returned glyph satisfies the rules**: identifiers unique across anchors, guidelines, contours,
    points and components; no `public.objectLibs` key; every contour a legal, non-empty point sequence;
    guideline angles in `[0, 360]`; the image name a single path component. -/
theorem returned_glyph_wellformed {evs : List Ev} {g : Glyph} (h : parseGlif rd evs = .ok g) : Wellformed g := by
  unfold parseGlif at h
  split at h
  · cases h
  · rename_i name ver rest _
    obtain ⟨pre, s', e, _, _, hr, hd⟩ := run_ok rd h
    obtain ⟨hm, _, hl⟩ := step_done rd hd
    exact wellformed_of_load hm (inv_reach rd (inv_init name ver) hr) hl




/-! ### rules lifted to documents -/

/-- **a second `advance` is rejected wherever it stands**: `s₁` is any state of the parse at body level that
    accepts an `advance`; whatever events `mid` follow (consumed successfully, back at body level), the next
    `advance` ends the parse with an error. -/
theorem second_advance_rejected {s₁ s₂ s₃ : PS} {a₁ a₂ : Option (List Attr)} {mid post : List Ev}
    (hb₁ : s₁.mode = .body) (h₁ : step rd s₁ (.empty sAdvance a₁) = .ok (.inl s₂))
    (hmid : Reach rd s₂ mid s₃) (hb₃ : s₃.mode = .body) :
    run rd s₁ (.empty sAdvance a₁ :: (mid ++ .empty sAdvance a₂ :: post)) = .error (.duplicateElement "advance") := by
  have hset := (advance_sets rd hb₁ h₁).1
  have hflag := (reach_mono rd hmid).adv hset
  have : run rd s₁ (.empty sAdvance a₁ :: (mid ++ .empty sAdvance a₂ :: post)) =
      run rd s₃ (.empty sAdvance a₂ :: post) := by
    simp only [run, h₁]
    exact run_of_reach rd hmid _
  rw [this]
  exact run_error_of_step rd (advance_dup rd hb₃ hflag a₂) post

/-- a format-1 parse stays a format-1 parse, and identifiers stay recorded: the hypotheses `s.ver = 1` and
    `i ∈ s.seen` of the state-level rules hold at every later position -/
theorem version_and_identifiers_persist {s s' : PS} {evs : List Ev} (h : Reach rd s evs s') :
    s'.ver = s.ver ∧ ∀ i, i ∈ s.seen → i ∈ s'.seen :=
  ⟨(reach_mono rd h).ver, (reach_mono rd h).seen⟩

/-- only format versions 1 and 2 get past the `glyph` start tag, with a valid name -/
theorem accepted_version {evs : List Ev} {g : Glyph} (h : parseGlif rd evs = .ok g) :
    ∃ name ver rest, scanStart evs = .ok (name, ver, rest) ∧ (ver = 1 ∨ ver = 2) := by
  unfold parseGlif at h
  split at h
  · cases h
  · rename_i name ver rest hs
    exact ⟨name, ver, rest, hs, scanStart_ok hs⟩

/-! ### format 1: a single named `move` point becomes an anchor -/

theorem implicitAnchor_iff (c : Contour) (a : Anchor) :
    implicitAnchor c = some a ↔
      ∃ p n, c.points = [p] ∧ p.typ = .move ∧ p.name = some n ∧
        a = { x := p.x, y := p.y, name := some n, color := none, ident := none } := by
  unfold implicitAnchor
  constructor
  · intro h
    split at h
    · rename_i p hp
      split at h
      · rename_i hc
        cases h
        cases hn : p.name with
        | none => simp [hn] at hc
        | some n => exact ⟨p, n, hp, hc.1, hn, by simp [hn]⟩
      · cases h
    · cases h
  · rintro ⟨p, n, hp, ht, hn, rfl⟩
    simp [hp, ht, hn]

/-- **v1_single_named_move_becomes_anchor**: at `</outline>` of a format-1 glyph the contours that consist of
    one named `move` point are turned into anchors (same coordinates and name, in order) and removed from the
    contours; all other contours are kept in order. -/
theorem v1_single_named_move_becomes_anchor (cs : List Contour) :
    (upgradeV1 cs).1 = cs.filterMap implicitAnchor ∧
    (upgradeV1 cs).2 = cs.filter (fun c => (implicitAnchor c).isNone) := by
  induction cs with
  | nil => simp [upgradeV1]
  | cons c r ih =>
    unfold upgradeV1
    cases hu : upgradeV1 r with
    | mk as cs' =>
      rw [hu] at ih
      simp only at ih ⊢
      cases ha : implicitAnchor c <;> simp [List.filterMap_cons, List.filter_cons, ha, ih.1, ih.2]

theorem finishOutline_v1 (s : PS) (ob : OB) (hv : s.ver = 1) :
    (finishOutline s ob).g.anchors = s.g.anchors ++ ob.contours.filterMap implicitAnchor ∧
    (finishOutline s ob).g.contours = s.g.contours ++ ob.contours.filter (fun c => (implicitAnchor c).isNone) := by
  obtain ⟨h1, h2⟩ := v1_single_named_move_becomes_anchor ob.contours
  unfold finishOutline
  simp only [hv, if_true]
  cases hu : upgradeV1 ob.contours with
  | mk as cs => rw [hu] at h1 h2; simp only at h1 h2 ⊢; simp [h1, h2]

theorem finishOutline_v2 (s : PS) (ob : OB) (hv : s.ver ≠ 1) :
    (finishOutline s ob).g.anchors = s.g.anchors ∧ (finishOutline s ob).g.contours = s.g.contours ++ ob.contours := by
  unfold finishOutline
  simp [hv]

/-! ### the full-strength statements that are false on the tree: counterexamples (`K` = no numbers needed) -/

def K : Str → Option Nat := fun _ => none
def gl2 : Ev := .start sGlyph (some [("name".toList, "a".toList), ("format".toList, "2".toList)])

-- full statement (false): an unknown attribute on ANY element is rejected
/-- `<outline foo="1"/>` is accepted -/
theorem unknown_attr_rejected_counterexample :
    accepted (parseGlif K [gl2, .empty sOutline (some [("foo".toList, "1".toList)]), .close sGlyph]) = true := by
  decide +kernel

-- full statement (false): a malformed identifier is rejected (the format asks for 1..100 characters)
/-- `<contour identifier=""></contour>` is accepted -/
theorem empty_identifier_counterexample :
    accepted (parseGlif K [gl2, .start sOutline (some []), .start sContour (some [(sIdentifier, [])]),
      .close sContour, .close sOutline, .close sGlyph]) = true := by
  decide +kernel

/-- `<unicode hex="+41"/>` is accepted -/
theorem hex_plus_counterexample :
    accepted (parseGlif K [gl2, .empty sUnicode (some [(sHex, "+41".toList)]), .close sGlyph]) = true := by
  decide +kernel

-- full statement (false): `legal_accepted` for every spelling the grammar allows
/-- `<unicode hex="41"></unicode>`, `<note/>` and `<glyph …/>` are rejected -/
theorem legal_accepted_counterexample :
    accepted (parseGlif K [gl2, .start sUnicode (some [(sHex, "41".toList)]), .close sUnicode, .close sGlyph]) = false ∧
    accepted (parseGlif K [gl2, .empty sNote (some []), .close sGlyph]) = false ∧
    accepted (parseGlif K [.empty sGlyph (some [("name".toList, "a".toList), ("format".toList, "2".toList)])]) = false := by
  decide +kernel

/-- a second `note` after an empty one is accepted -/
theorem repeated_note_counterexample :
    accepted (parseGlif K [gl2, .start sNote (some []), .close sNote, .start sNote (some []),
      .text (some "x".toList), .close sNote, .close sGlyph]) = true := by
  decide +kernel

/-- an object-lib entry that is not a dictionary is dropped when no object carries its key -/
theorem unmatched_object_lib_counterexample :
    accepted (parseGlif K [gl2, .startLib (some []) (.dict [(objectLibsKey, .dict [("nobody".toList, .atom "i3")])]),
      .close sLib, .close sGlyph]) = true := by
  decide +kernel

-- non-vacuity of the rejection rules and of the fix: comments are skipped, the same documents with the
-- violation are rejected
example : accepted (parseGlif K [.decl, .comment, gl2, .comment, .empty sOutline (some []), .comment, .close sGlyph]) = true := by
  decide +kernel
example : accepted (parseGlif K [gl2, .empty sOutline (some []), .empty sOutline (some []), .close sGlyph]) = false := by
  decide +kernel
example : accepted (parseGlif K [gl2, .start sOutline (some []), .start sContour (some [(sIdentifier, "i".toList)]),
    .close sContour, .empty sComponent (some [("base".toList, "b".toList), (sIdentifier, "i".toList)]),
    .close sOutline, .close sGlyph]) = false := by
  decide +kernel
example : accepted (parseGlif K [gl2, .start sOutline (some []), .start sContour (some [(sIdentifier, "i".toList)]),
    .close sContour, .empty sComponent (some [("base".toList, "b".toList), (sIdentifier, "j".toList)]),
    .close sOutline, .close sGlyph]) = true := by
  decide +kernel


/-! ### attribute order -/


/-- folding over a permutation of attributes with pairwise different names gives the same result, for any
    step function whose effects for different names commute -/
theorem foldAttrs_perm {σ : Type} (step : σ → Attr → Option σ)
    (hcomm : ∀ acc (a b : Attr), a.1 ≠ b.1 →
      (step acc a).bind (fun s => step s b) = (step acc b).bind (fun s => step s a))
    {l₁ l₂ : List Attr} (hp : l₁.Perm l₂) (hd : (l₁.map (fun e => e.1)).Nodup) (acc : σ) :
    foldAttrs step acc l₁ = foldAttrs step acc l₂ := by
  induction hp generalizing acc with
  | nil => rfl
  | cons a _ ih =>
    simp only [List.map_cons, List.nodup_cons] at hd
    simp only [foldAttrs]
    cases step acc a with
    | none => rfl
    | some acc' => exact ih hd.2 acc'
  | swap a b l =>
    simp only [List.map_cons, List.nodup_cons, List.mem_cons, not_or] at hd
    have hne : b.1 ≠ a.1 := hd.1.1
    have hc := hcomm acc b a hne
    simp only [foldAttrs]
    cases hb : step acc b with
    | none =>
      cases ha : step acc a with
      | none => rfl
      | some sa =>
        simp only [hb, ha, Option.bind_none, Option.bind_some] at hc
        simp [← hc]
    | some sb =>
      cases ha : step acc a with
      | none =>
        simp only [hb, ha, Option.bind_none, Option.bind_some] at hc
        simp [hc]
      | some sa =>
        simp only [hb, ha, Option.bind_some] at hc
        simp only [hc]
  | trans h₁ _ ih₁ ih₂ =>
    have hd₂ := (h₁.map (fun e : Attr => e.1)).nodup_iff.1 hd
    rw [ih₁ hd acc, ih₂ hd₂ acc]

theorem aKeyOf_inj {s t : Str} {k : AKey} (hs : aKeyOf s = some k) (ht : aKeyOf t = some k) : s = t := by
  unfold aKeyOf at hs ht
  repeat' split at hs
  all_goals repeat' split at ht
  all_goals first
    | (simp at hs; done)
    | (simp at ht; done)
    | (simp only [Option.some.injEq] at hs ht; subst hs; first | (cases ht; simp_all) | cases ht)

theorem aApply_comm (ver : Nat) (seen : List Str) (acc : AnchorAcc) (k₁ k₂ : AKey) (v₁ v₂ : Str) (hk : k₁ ≠ k₂) :
    (aApply rd ver seen k₁ v₁ acc).bind (aApply rd ver seen k₂ v₂) =
    (aApply rd ver seen k₂ v₂ acc).bind (aApply rd ver seen k₁ v₁) := by
  cases k₁ <;> cases k₂ <;> first | exact absurd rfl hk | skip
  all_goals
    simp only [aApply]
    repeat' split
    all_goals simp_all [aApply]

theorem aStep_comm (ver : Nat) (seen : List Str) (acc : AnchorAcc) (a b : Attr) (hab : a.1 ≠ b.1) :
    (aStep rd ver seen acc a).bind (fun s => aStep rd ver seen s b) =
    (aStep rd ver seen acc b).bind (fun s => aStep rd ver seen s a) := by
  unfold aStep
  cases ha : aKeyOf a.1 with
  | none =>
    cases hb : aKeyOf b.1 with
    | none => simp
    | some kb => cases h : aApply rd ver seen kb b.2 acc <;> simp [ha, h]
  | some ka =>
    cases hb : aKeyOf b.1 with
    | none => cases h : aApply rd ver seen ka a.2 acc <;> simp [hb, h]
    | some kb =>
      have hk : ka ≠ kb := fun h => hab (aKeyOf_inj ha (h ▸ hb))
      have := aApply_comm rd ver seen acc ka kb a.2 b.2 hk
      simpa [ha, hb] using this

/-- **attr_order_irrelevant** (anchor): the attribute order of an `anchor` element does not matter -/
theorem anchor_attr_order_irrelevant (ver : Nat) (seen : List Str) {l₁ l₂ : List Attr} (hp : l₁.Perm l₂)
    (hd : (l₁.map (fun e => e.1)).Nodup) : parseAnchor rd ver seen l₁ = parseAnchor rd ver seen l₂ := by
  unfold parseAnchor
  rw [foldAttrs_perm _ (aStep_comm rd ver seen) hp hd]


theorem guKeyOf_inj {s t : Str} {k : GuKey} (hs : guKeyOf s = some k) (ht : guKeyOf t = some k) : s = t := by
  unfold guKeyOf at hs ht
  repeat' split at hs
  all_goals repeat' split at ht
  all_goals first
    | (simp at hs; done)
    | (simp at ht; done)
    | (simp only [Option.some.injEq] at hs ht; subst hs; first | (cases ht; simp_all) | cases ht)

theorem guApply_comm (ver : Nat) (seen : List Str) (acc : GuideAcc) (k₁ k₂ : GuKey) (v₁ v₂ : Str) (hk : k₁ ≠ k₂) :
    (guApply rd ver seen k₁ v₁ acc).bind (guApply rd ver seen k₂ v₂) =
    (guApply rd ver seen k₂ v₂ acc).bind (guApply rd ver seen k₁ v₁) := by
  cases k₁ <;> cases k₂ <;> first | exact absurd rfl hk | skip
  all_goals
    simp only [guApply]
    repeat' split
    all_goals simp_all [guApply]

theorem guStep_comm (ver : Nat) (seen : List Str) (acc : GuideAcc) (a b : Attr) (hab : a.1 ≠ b.1) :
    (guStep rd ver seen acc a).bind (fun s => guStep rd ver seen s b) =
    (guStep rd ver seen acc b).bind (fun s => guStep rd ver seen s a) := by
  unfold guStep
  cases ha : guKeyOf a.1 with
  | none =>
    cases hb : guKeyOf b.1 with
    | none => simp
    | some kb => cases h : guApply rd ver seen kb b.2 acc <;> simp [ha, h]
  | some ka =>
    cases hb : guKeyOf b.1 with
    | none => cases h : guApply rd ver seen ka a.2 acc <;> simp [hb, h]
    | some kb =>
      have hk : ka ≠ kb := fun h => hab (guKeyOf_inj ha (h ▸ hb))
      have := guApply_comm rd ver seen acc ka kb a.2 b.2 hk
      simpa [ha, hb] using this

/-- **attr_order_irrelevant** (guideline) -/
theorem guideline_attr_order_irrelevant (ver : Nat) (seen : List Str) {l₁ l₂ : List Attr} (hp : l₁.Perm l₂)
    (hd : (l₁.map (fun e => e.1)).Nodup) : parseGuideline rd ver seen l₁ = parseGuideline rd ver seen l₂ := by
  unfold parseGuideline
  rw [foldAttrs_perm _ (guStep_comm rd ver seen) hp hd]

theorem pKeyOf_inj {s t : Str} {k : PKey} (hs : pKeyOf s = some k) (ht : pKeyOf t = some k) : s = t := by
  unfold pKeyOf at hs ht
  repeat' split at hs
  all_goals repeat' split at ht
  all_goals first
    | (simp at hs; done)
    | (simp at ht; done)
    | (simp only [Option.some.injEq] at hs ht; subst hs; first | (cases ht; simp_all) | cases ht)

theorem pApply_comm (ver : Nat) (seen : List Str) (acc : PointAcc) (k₁ k₂ : PKey) (v₁ v₂ : Str) (hk : k₁ ≠ k₂) :
    (pApply rd ver seen k₁ v₁ acc).bind (pApply rd ver seen k₂ v₂) =
    (pApply rd ver seen k₂ v₂ acc).bind (pApply rd ver seen k₁ v₁) := by
  cases k₁ <;> cases k₂ <;> first | exact absurd rfl hk | skip
  all_goals
    simp only [pApply]
    repeat' split
    all_goals simp_all [pApply]

theorem pStep_comm (ver : Nat) (seen : List Str) (acc : PointAcc) (a b : Attr) (hab : a.1 ≠ b.1) :
    (pStep rd ver seen acc a).bind (fun s => pStep rd ver seen s b) =
    (pStep rd ver seen acc b).bind (fun s => pStep rd ver seen s a) := by
  unfold pStep
  cases ha : pKeyOf a.1 with
  | none =>
    cases hb : pKeyOf b.1 with
    | none => simp
    | some kb => cases h : pApply rd ver seen kb b.2 acc <;> simp [ha, h]
  | some ka =>
    cases hb : pKeyOf b.1 with
    | none => cases h : pApply rd ver seen ka a.2 acc <;> simp [hb, h]
    | some kb =>
      have hk : ka ≠ kb := fun h => hab (pKeyOf_inj ha (h ▸ hb))
      have := pApply_comm rd ver seen acc ka kb a.2 b.2 hk
      simpa [ha, hb] using this

/-- **attr_order_irrelevant** (point) -/
theorem point_attr_order_irrelevant (ver : Nat) (seen : List Str) {l₁ l₂ : List Attr} (hp : l₁.Perm l₂)
    (hd : (l₁.map (fun e => e.1)).Nodup) : parsePoint rd ver seen l₁ = parsePoint rd ver seen l₂ := by
  unfold parsePoint
  rw [foldAttrs_perm _ (pStep_comm rd ver seen) hp hd]


/-- **attr_order_irrelevant**, at any position of any document: permuting the attributes of an `anchor`,
    `guideline` or `point` element (names pairwise different, which quick-xml guarantees) does not change what
    the parser does with the element. -/
theorem attr_order_irrelevant (s : PS) {l₁ l₂ : List Attr} (hp : l₁.Perm l₂) (hd : (l₁.map (fun e => e.1)).Nodup) :
    step rd s (.empty sAnchor (some l₁)) = step rd s (.empty sAnchor (some l₂)) ∧
    step rd s (.empty sGuideline (some l₁)) = step rd s (.empty sGuideline (some l₂)) ∧
    step rd s (.empty sPoint (some l₁)) = step rd s (.empty sPoint (some l₂)) := by
  have ea := anchor_attr_order_irrelevant rd s.ver s.seen hp hd
  have eg := guideline_attr_order_irrelevant rd s.ver s.seen hp hd
  have ep := point_attr_order_irrelevant rd s.ver s.seen hp hd
  refine ⟨?_, ?_, ?_⟩ <;>
    (unfold step; cases s.mode <;>
      simp +decide only [stepBody, bodyEmpty, stepOutline, stepContour, stepLib, stepNote, ea, eg, ep, if_true, if_false])

-- Second phase: `advance_attr_order_irrelevant`, `unicode_attr_order_irrelevant`, `contour_attr_order_irrelevant`,
--   `glyph_attr_order_irrelevant` (section "attribute order, remaining loops" below).
-- Third phase: `component_attr_order_irrelevant`, `image_attr_order_irrelevant` (all nine loops now), and for whole
--   documents `parseGlif_attr_order_irrelevant` (section "attribute order, image/component and whole documents").
-- Third phase: `legal_accepted` (end of this file) for the generative grammar `render f d` of `Lemmas/GlifGen.lean`: format 2,
--   items in ANY order, comments anywhere, any attribute order (`EvsPerm`), any spelling that reads back.
-- Last phase, element level (`Lemmas/JudgeLink.lean`, audited): `elemCheck_clean` unpacks `Spec.elemCheck rd ver e = ([], false)`,
--   `valueCheck_clean` turns each clean value check into the model's terms, `anchor_/guideline_/point_/component_/image_/
--   advance_/unicode_clean_accepted` show that the model's attribute loop then succeeds for ANY attribute order (under
--   `ReadsNumerals rd`: Rust reads every plain decimal numeral; identifier not seen before), and `clean_element_step` packages
--   them: a judge-clean self-closing element is accepted in any parser state at its level.
-- Document level (`Lemmas/JudgeDoc.lean`, audited): **`judge_clean_accepted`** — `Spec.judge rd d = ([], false)` and the shape the
--   tokeniser delivers (`Shaped d`: attribute names pairwise different, prolog of declaration/comments, no `</lib>`/error inside a lib,
--   readable note text, and the three spellings the recorded findings exclude) give `∃ g, parseGlif rd (Spec.flatten d) = .ok g`, for
--   format 1 and format 2, under `ReadsNumerals rd`.  No lib hypothesis is needed: `judge`'s `objectLibsCheck` gives it.
-- Converse, for a fragment (`Lemmas/JudgeConverse.lean`): **`judge_hard_error_rejected`** — clean items up to a position, then an item with a
--   hard error of `HardFlag` (unknown element; anchor/guideline/image/note in format 1; unknown attribute on advance, unicode, anchor,
--   guideline, image; lib not a dictionary) ⇒ rejected; `hardFlag_flagged`: each of these is an item `judge` flags.
-- (was OPEN, converse) the other clause families at document level (duplicates, identifier clashes, required attributes, value errors,
--   errors inside `outline`): proved in the section "the converse of the `Spec.judge` link, family by family" below (exact state
--   `CleanState` after a clean prefix), and without a given position in `Props/C12Converse.lean` (`judge_flagged_rejected`,
--   `glyph_start_rule_rejected`; what is still OPEN is listed there: `version`, `objlibs`, documents mixing finding rules and hard rules).
--   Earlier note, kept:
-- (was OPEN) legal_accepted for the whole grammar `Spec.flatten d` (any element order, comments anywhere, both versions).
--   Kernel-checked instead (second phase, `Lemmas/C02.lean`, listed in the audit): acceptance element family by element
--   family, each for ANY parser state at the right level (= any position of any document) and any spelling `shw` of the
--   numbers that Rust's parser reads back: `step_advance`, `reach_unicodes`, `step_image`, `step_anchor`/`reach_anchors`,
--   `step_guideline`/`reach_guidelines`, `step_component`/`reach_components`, `step_point`/`reach_points`,
--   `reach_contour`/`reach_contours`, `reach_outline`, `reach_lib`, `reach_note`; and their composition for the
--   canonical element order, `legal_accepted_canonical` below.  The correspondence run evaluates the full statement on
--   every generated document (rule `rejected-legal`).

/-! ### attribute order, remaining loops -/

section
variable (rd : Str → Option Nat)


theorem advKeyOf_inj {s t : Str} {k : AdvKey} (hs : advKeyOf s = some k) (ht : advKeyOf t = some k) : s = t := by
  unfold advKeyOf at hs ht
  repeat' split at hs
  all_goals repeat' split at ht
  all_goals first
    | (simp at hs; done)
    | (simp at ht; done)
    | (simp only [Option.some.injEq] at hs ht; subst hs; first | (cases ht; simp_all) | cases ht)

theorem advApply_comm (acc : Nat × Nat) (k₁ k₂ : AdvKey) (v₁ v₂ : Str) (hk : k₁ ≠ k₂) :
    (advApply rd k₁ v₁ acc).bind (advApply rd k₂ v₂) = (advApply rd k₂ v₂ acc).bind (advApply rd k₁ v₁) := by
  cases k₁ <;> cases k₂ <;> first | exact absurd rfl hk | skip
  all_goals
    simp only [advApply]
    repeat' split
    all_goals simp_all [advApply]

theorem advStep_comm (acc : Nat × Nat) (a b : Attr) (hab : a.1 ≠ b.1) :
    (advStep rd acc a).bind (fun s => advStep rd s b) = (advStep rd acc b).bind (fun s => advStep rd s a) := by
  unfold advStep
  cases ha : advKeyOf a.1 with
  | none =>
    cases hb : advKeyOf b.1 with
    | none => simp
    | some kb => cases h : advApply rd kb b.2 acc <;> simp [ha, h]
  | some ka =>
    cases hb : advKeyOf b.1 with
    | none => cases h : advApply rd ka a.2 acc <;> simp [hb, h]
    | some kb =>
      have hk : ka ≠ kb := fun h => hab (advKeyOf_inj ha (h ▸ hb))
      have := advApply_comm rd acc ka kb a.2 b.2 hk
      simpa [ha, hb] using this

/-- **attr_order_irrelevant** (advance) -/
theorem advance_attr_order_irrelevant {l₁ l₂ : List Attr} (hp : l₁.Perm l₂)
    (hd : (l₁.map (fun e => e.1)).Nodup) : parseAdvance rd l₁ = parseAdvance rd l₂ := by
  unfold parseAdvance
  rw [foldAttrs_perm _ (advStep_comm rd) hp hd]

/-- steps that accept one attribute name only commute trivially: of two different names one is refused -/
theorem uniStep_comm (acc : List Nat) (a b : Attr) (hab : a.1 ≠ b.1) :
    (uniStep acc a).bind (fun s => uniStep s b) = (uniStep acc b).bind (fun s => uniStep s a) := by
  unfold uniStep
  by_cases ha : a.1 = sHex <;> by_cases hb : b.1 = sHex
  · exact absurd (ha.trans hb.symm) hab
  · simp only [ha, hb, if_true, if_false]
    cases parseHex a.2 <;> simp
  · simp only [ha, hb, if_true, if_false]
    cases parseHex b.2 <;> simp
  · simp [ha, hb]

/-- **attr_order_irrelevant** (unicode) -/
theorem unicode_attr_order_irrelevant (cps : List Nat) {l₁ l₂ : List Attr} (hp : l₁.Perm l₂)
    (hd : (l₁.map (fun e => e.1)).Nodup) : parseUnicode cps l₁ = parseUnicode cps l₂ := by
  unfold parseUnicode
  rw [foldAttrs_perm _ uniStep_comm hp hd]

theorem ctStep_comm (ver : Nat) (seen : List Str) (acc : Option Str) (a b : Attr) (hab : a.1 ≠ b.1) :
    (ctStep ver seen acc a).bind (fun s => ctStep ver seen s b) = (ctStep ver seen acc b).bind (fun s => ctStep ver seen s a) := by
  unfold ctStep
  by_cases hv : ver = 1
  · simp [hv]
  · by_cases ha : a.1 = sIdentifier <;> by_cases hb : b.1 = sIdentifier
    · exact absurd (ha.trans hb.symm) hab
    · simp only [hv, ha, hb, if_true, if_false]
      cases readIdent ver seen a.2 <;> simp
    · simp only [hv, ha, hb, if_true, if_false]
      cases readIdent ver seen b.2 <;> simp
    · simp [hv, ha, hb]

/-- **attr_order_irrelevant** (contour start tag) -/
theorem contour_attr_order_irrelevant (ver : Nat) (seen : List Str) {l₁ l₂ : List Attr} (hp : l₁.Perm l₂)
    (hd : (l₁.map (fun e => e.1)).Nodup) : parseContourAttrs ver seen l₁ = parseContourAttrs ver seen l₂ := by
  unfold parseContourAttrs
  rw [foldAttrs_perm _ (ctStep_comm ver seen) hp hd]


theorem gKeyOf_inj {s t : Str} {k : GKey} (hs : gKeyOf s = some k) (ht : gKeyOf t = some k) : s = t := by
  unfold gKeyOf at hs ht
  repeat' split at hs
  all_goals repeat' split at ht
  all_goals first
    | (simp at hs; done)
    | (simp at ht; done)
    | (simp only [Option.some.injEq] at hs ht; subst hs; first | (cases ht; simp_all) | cases ht)

theorem gApply_comm  (acc : GlyphAcc) (k₁ k₂ : GKey) (v₁ v₂ : Str) (hk : k₁ ≠ k₂) :
    (gApply k₁ v₁ acc).bind (gApply k₂ v₂) = (gApply k₂ v₂ acc).bind (gApply k₁ v₁) := by
  cases k₁ <;> cases k₂ <;> first | exact absurd rfl hk | skip
  all_goals
    simp only [gApply]
    repeat' split
    all_goals simp_all [gApply]

theorem gStep_comm  (acc : GlyphAcc) (a b : Attr) (hab : a.1 ≠ b.1) :
    (gStep acc a).bind (fun s => gStep s b) = (gStep acc b).bind (fun s => gStep s a) := by
  unfold gStep
  cases ha : gKeyOf a.1 with
  | none =>
    cases hb : gKeyOf b.1 with
    | none => simp
    | some kb => cases h : gApply kb b.2 acc <;> simp [ha, h]
  | some ka =>
    cases hb : gKeyOf b.1 with
    | none => cases h : gApply ka a.2 acc <;> simp [hb, h]
    | some kb =>
      have hk : ka ≠ kb := fun h => hab (gKeyOf_inj ha (h ▸ hb))
      have := gApply_comm  acc ka kb a.2 b.2 hk
      simpa [ha, hb] using this

/-- **attr_order_irrelevant** (glyph start tag) -/
theorem glyph_attr_order_irrelevant {l₁ l₂ : List Attr} (hp : l₁.Perm l₂)
    (hd : (l₁.map (fun e => e.1)).Nodup) : parseGlyphAttrs (some l₁) = parseGlyphAttrs (some l₂) := by
  unfold parseGlyphAttrs
  simp only [foldAttrs_perm _ gStep_comm hp hd]


end

/-! ### attribute order, image/component and whole documents -/

section
variable (rd : Str → Option Nat)

theorem tKeyOf_inj {s t : Str} {k : TKey} (hs : tKeyOf s = some k) (ht : tKeyOf t = some k) : s = t := by
  unfold tKeyOf at hs ht
  repeat' split at hs
  all_goals repeat' split at ht
  all_goals first
    | (simp at hs; done)
    | (simp at ht; done)
    | (simp only [Option.some.injEq] at hs ht; subst hs; first | (cases ht; simp_all) | cases ht)

theorem cKeyOf_inj {s t : Str} {k : CKey} (hs : cKeyOf s = some k) (ht : cKeyOf t = some k) : s = t := by
  unfold cKeyOf at hs ht
  cases h1 : tKeyOf s with
  | some k1 =>
    cases h2 : tKeyOf t with
    | some k2 =>
      simp only [h1, h2, Option.some.injEq] at hs ht
      subst hs
      cases ht
      exact tKeyOf_inj h1 h2
    | none =>
      simp only [h1, h2, Option.some.injEq] at hs ht
      subst hs
      repeat' split at ht
      all_goals simp at ht
  | none =>
    cases h2 : tKeyOf t with
    | some k2 =>
      simp only [h1, h2, Option.some.injEq] at hs ht
      subst ht
      repeat' split at hs
      all_goals simp at hs
    | none =>
      simp only [h1, h2] at hs ht
      repeat' split at hs
      all_goals repeat' split at ht
      all_goals first
        | (simp at hs; done)
        | (simp at ht; done)
        | (simp only [Option.some.injEq] at hs ht; subst hs; first | (cases ht; simp_all) | cases ht)

theorem tSet_comm (a b : TKey) (n m : Nat) (t : Transform) (h : a ≠ b) : tSet b m (tSet a n t) = tSet a n (tSet b m t) := by
  cases a <;> cases b <;> first | exact absurd rfl h | rfl

theorem cApply_comm (ver : Nat) (seen : List Str) (acc : CompAcc) (k₁ k₂ : CKey) (v₁ v₂ : Str) (hk : k₁ ≠ k₂) :
    (cApply rd ver seen k₁ v₁ acc).bind (cApply rd ver seen k₂ v₂) =
    (cApply rd ver seen k₂ v₂ acc).bind (cApply rd ver seen k₁ v₁) := by
  rcases k₁ with a | _ | _ <;> rcases k₂ with b | _ | _ <;> first | exact absurd rfl hk | skip
  · have hab : a ≠ b := fun e => hk (by rw [e])
    simp only [cApply]
    cases h1 : rd v₁ <;> cases h2 : rd v₂ <;> simp [cApply, h1, h2, tSet_comm a b _ _ _ hab]
  all_goals
    simp only [cApply]
    repeat' split
    all_goals simp_all [cApply]

theorem cStep_comm (ver : Nat) (seen : List Str) (acc : CompAcc) (a b : Attr) (hab : a.1 ≠ b.1) :
    (cStep rd ver seen acc a).bind (fun s => cStep rd ver seen s b) =
    (cStep rd ver seen acc b).bind (fun s => cStep rd ver seen s a) := by
  unfold cStep
  cases ha : cKeyOf a.1 with
  | none =>
    cases hb : cKeyOf b.1 with
    | none => simp
    | some kb => cases h : cApply rd ver seen kb b.2 acc <;> simp [ha, h]
  | some ka =>
    cases hb : cKeyOf b.1 with
    | none => cases h : cApply rd ver seen ka a.2 acc <;> simp [hb, h]
    | some kb =>
      have hk : ka ≠ kb := fun h => hab (cKeyOf_inj ha (h ▸ hb))
      have := cApply_comm rd ver seen acc ka kb a.2 b.2 hk
      simpa [ha, hb] using this

/-- **attr_order_irrelevant** (component) -/
theorem component_attr_order_irrelevant (ver : Nat) (seen : List Str) {l₁ l₂ : List Attr} (hp : l₁.Perm l₂)
    (hd : (l₁.map (fun e => e.1)).Nodup) : parseComponent rd ver seen l₁ = parseComponent rd ver seen l₂ := by
  unfold parseComponent
  rw [foldAttrs_perm _ (cStep_comm rd ver seen) hp hd]

theorem iKeyOf_inj {s t : Str} {k : IKey} (hs : iKeyOf s = some k) (ht : iKeyOf t = some k) : s = t := by
  unfold iKeyOf at hs ht
  cases h1 : tKeyOf s with
  | some k1 =>
    cases h2 : tKeyOf t with
    | some k2 =>
      simp only [h1, h2, Option.some.injEq] at hs ht
      subst hs
      cases ht
      exact tKeyOf_inj h1 h2
    | none =>
      simp only [h1, h2, Option.some.injEq] at hs ht
      subst hs
      repeat' split at ht
      all_goals simp at ht
  | none =>
    cases h2 : tKeyOf t with
    | some k2 =>
      simp only [h1, h2, Option.some.injEq] at hs ht
      subst ht
      repeat' split at hs
      all_goals simp at hs
    | none =>
      simp only [h1, h2] at hs ht
      repeat' split at hs
      all_goals repeat' split at ht
      all_goals first
        | (simp at hs; done)
        | (simp at ht; done)
        | (simp only [Option.some.injEq] at hs ht; subst hs; first | (cases ht; simp_all) | cases ht)

theorem iApply_comm (acc : ImageAcc) (k₁ k₂ : IKey) (v₁ v₂ : Str) (hk : k₁ ≠ k₂) :
    (iApply rd k₁ v₁ acc).bind (iApply rd k₂ v₂) = (iApply rd k₂ v₂ acc).bind (iApply rd k₁ v₁) := by
  rcases k₁ with a | _ | _ <;> rcases k₂ with b | _ | _ <;> first | exact absurd rfl hk | skip
  · have hab : a ≠ b := fun e => hk (by rw [e])
    simp only [iApply]
    cases h1 : rd v₁ <;> cases h2 : rd v₂ <;> simp [iApply, h1, h2, tSet_comm a b _ _ _ hab]
  all_goals
    simp only [iApply]
    repeat' split
    all_goals simp_all [iApply]

theorem iStep_comm (acc : ImageAcc) (a b : Attr) (hab : a.1 ≠ b.1) :
    (iStep rd acc a).bind (fun s => iStep rd s b) = (iStep rd acc b).bind (fun s => iStep rd s a) := by
  unfold iStep
  cases ha : iKeyOf a.1 with
  | none =>
    cases hb : iKeyOf b.1 with
    | none => simp
    | some kb => cases h : iApply rd kb b.2 acc <;> simp [ha, h]
  | some ka =>
    cases hb : iKeyOf b.1 with
    | none => cases h : iApply rd ka a.2 acc <;> simp [hb, h]
    | some kb =>
      have hk : ka ≠ kb := fun h => hab (iKeyOf_inj ha (h ▸ hb))
      have := iApply_comm rd acc ka kb a.2 b.2 hk
      simpa [ha, hb] using this

/-- **attr_order_irrelevant** (image) -/
theorem image_attr_order_irrelevant {l₁ l₂ : List Attr} (hp : l₁.Perm l₂)
    (hd : (l₁.map (fun e => e.1)).Nodup) : parseImage rd l₁ = parseImage rd l₂ := by
  unfold parseImage
  rw [foldAttrs_perm _ (iStep_comm rd) hp hd]

/-! ### attribute order, for whole documents -/

/-- the same event up to the order of its attributes (names pairwise different, as quick-xml guarantees) -/
inductive EvPerm : Ev → Ev → Prop
  | refl (e : Ev) : EvPerm e e
  | start (n : Str) {l₁ l₂ : List Attr} : l₁.Perm l₂ → (l₁.map (fun e => e.1)).Nodup →
      EvPerm (.start n (some l₁)) (.start n (some l₂))
  | empty (n : Str) {l₁ l₂ : List Attr} : l₁.Perm l₂ → (l₁.map (fun e => e.1)).Nodup →
      EvPerm (.empty n (some l₁)) (.empty n (some l₂))

inductive EvsPerm : List Ev → List Ev → Prop
  | nil : EvsPerm [] []
  | cons {e e' : Ev} {l l' : List Ev} : EvPerm e e' → EvsPerm l l' → EvsPerm (e :: l) (e' :: l')

theorem step_evperm (s : PS) {e e' : Ev} (h : EvPerm e e') : step rd s e = step rd s e' := by
  cases h with
  | refl => rfl
  | start n hp hd =>
    have ec := contour_attr_order_irrelevant s.ver s.seen hp hd
    unfold step
    cases s.mode <;> simp only [stepBody, stepOutline, stepContour, stepLib, stepNote, ec]
  | empty n hp hd =>
    have e1 := advance_attr_order_irrelevant rd hp hd
    have e2 := unicode_attr_order_irrelevant s.g.codepoints hp hd
    have e3 := anchor_attr_order_irrelevant rd s.ver s.seen hp hd
    have e4 := guideline_attr_order_irrelevant rd s.ver s.seen hp hd
    have e5 := image_attr_order_irrelevant rd hp hd
    have e6 := component_attr_order_irrelevant rd s.ver s.seen hp hd
    have e7 := point_attr_order_irrelevant rd s.ver s.seen hp hd
    unfold step
    cases s.mode <;> simp only [stepBody, bodyEmpty, stepOutline, stepContour, stepLib, stepNote, e1, e2, e3, e4, e5, e6, e7]

theorem run_evsperm {evs evs' : List Ev} (h : EvsPerm evs evs') : ∀ s, run rd s evs = run rd s evs' := by
  induction h with
  | nil => intro s; rfl
  | cons he _ ih =>
    intro s
    simp only [run, step_evperm rd s he]
    cases step rd s _ with
    | error k => rfl
    | ok r => cases r with
      | inl s' => exact ih s'
      | inr g => rfl

theorem parseGlif_start (n : Str) (a : Option (List Attr)) (l : List Ev) :
    parseGlif rd (.start n a :: l) =
      if n = sGlyph then
        (match parseGlyphAttrs a with
         | .ok (name, ver) => run rd { g := { name := name }, ver := ver } l
         | .error k => .error k)
      else .error .wrongFirstElement := by
  unfold parseGlif
  simp only [scanStart]
  by_cases hn : n = sGlyph
  · simp only [hn, if_true]
    cases parseGlyphAttrs a with
    | error k => rfl
    | ok p => rfl
  · simp [hn]

/-- **attr_order_irrelevant, whole documents**: permuting the attributes of any elements of a document does not
    change the result of the parse (accepted glyph or error kind) -/
theorem parseGlif_attr_order_irrelevant {evs evs' : List Ev} (h : EvsPerm evs evs') :
    parseGlif rd evs = parseGlif rd evs' := by
  induction h with
  | nil => rfl
  | @cons e e' l l' he ht ih =>
    cases he with
    | refl =>
      cases e with
      | comment => simpa [parseGlif, scanStart] using ih
      | decl => simpa [parseGlif, scanStart] using ih
      | start n a =>
        rw [parseGlif_start, parseGlif_start]
        split
        · cases parseGlyphAttrs a with
          | error k => rfl
          | ok p => exact run_evsperm rd ht _
        · rfl
      | _ => simp [parseGlif, scanStart]
    | start n hp hd =>
      rw [parseGlif_start, parseGlif_start, glyph_attr_order_irrelevant hp hd]
      split
      · cases parseGlyphAttrs _ with
        | error k => rfl
        | ok p => exact run_evsperm rd ht _
      · rfl
    | empty n hp hd => simp [parseGlif, scanStart]

end

/-! ### legal documents are accepted -/

section
variable {f : Fmt} {rd : Str → Option Nat} {nc : Color → Color} {ok : Nat → Prop}

/-- **legal_accepted** (canonical element order): for every glyph description that obeys the rules (`ValidGlyph`:
    valid names, identifiers valid and unique across the five kinds, every contour `C11.accepts`-legal and non-empty,
    angles in range, image name a single component, code points scalar values) the document rendered from it — content-free
    elements self-closing, `glyph`/`note` not self-closed, numbers and colours in ANY spelling `f` that reads back
    (`Codec`), any note, any lib — is accepted, and the returned glyph is the one described (`preG`). -/
theorem legal_accepted_canonical (hc : Codec f rd nc ok) {g : Glyph} (hv : ValidGlyph ok g) (hobj : NoObjectLibs g)
    (hkey : dictGet objectLibsKey (reindentDict f.indent g.lib) = none) :
    parseGlif rd (encodeGlif f g) = .ok (preG f nc g) := by
  rw [parse_encode hc hv]
  have hw : writtenLib g = g.lib := by simp [writtenLib, dump_empty_of_no_libs hobj]
  have : dictGet objectLibsKey (preG f nc g).lib = none := by simpa [preG, hw] using hkey
  simp [loadObjectLibs, this]

end

/-! ### legal documents are accepted: the whole grammar -/

section
variable {f : Fmt} {rd : Str → Option Nat} {nc : Color → Color} {ok : Nat → Prop}

/-- **legal_accepted**: a document of the generative grammar (format 2; items in any order; comments before the root,
    between items, inside `outline` and `contour`; content after `</glyph>`; any spelling of numbers and colours that reads
    back) whose items obey the rules, and whose lib — if it uses `public.objectLibs` — holds a dictionary of dictionaries
    there, is accepted; so is every document that differs from it only in the order of attributes (`EvsPerm`). -/
theorem legal_accepted (hc : Codec f rd nc ok) (d : GDoc) (hp : ∀ e, e ∈ d.prolog → isProlog e = true)
    (hn : validName d.name = true) (hL : LegalItems ok d.items)
    (hol : ∀ v, dictGet objectLibsKey (interp nc d).lib = some v → ∃ ol, v = PV.dict ol ∧ AllDicts ol)
    {evs : List Ev} (hperm : EvsPerm (render f d) evs) :
    ∃ g, parseGlif rd evs = .ok g ∧ loadObjectLibs (interp nc d) = .ok g := by
  obtain ⟨g, hg⟩ := loadObjectLibs_ok hol
  refine ⟨g, ?_, hg⟩
  rw [← parseGlif_attr_order_irrelevant rd hperm, legal_accepted_gdoc hc d hp hn hL, hg]

end

/-! ## source-level tie (tables re-extracted from `src/glyph/parse.rs` by `tools/extract_glif_parser.py` on every run)

The model tables are those of `Lemmas/GlifTables.lean`, where each is proved — for all strings — to characterise the model
function it belongs to (`step_refuses_unknown`, `bodyStart_unknown`, `bodyEmpty_unknown`, `stepOutline_unknown`,
`stepContour_unknown`, `v1_refusals`, `gFinish_ok_iff`).  Lists are compared as sets: the order of independent `match` arms
is not part of the property.  Error variants inside one element (`UnexpectedAnchorField`, `BadAnchor`, …) are extracted for
the record (`Generated.GlifParser.unknownAttrError`, `…MissingError`) but not tied: the model erases them by design. -/

namespace SourceTie

def sameSet (a b : List Str) : Bool := a.all (b.contains ·) && b.all (a.contains ·)

/-- a number parser that knows one numeral -/
def RS : Str → Option Nat := fun s => if s = ['0'] then some 0 else none

def sampleVal (k : Str) : Str :=
  if k = "name".toList then ['n'] else if k = "color".toList then "0,0,0,0".toList
  else if k = "identifier".toList then ['i'] else if k = "type".toList then "line".toList
  else if k = "smooth".toList then "yes".toList else if k = "fileName".toList then ['f']
  else if k = "base".toList then ['b'] else if k = "hex".toList then "41".toList
  else if k = "format".toList then ['2'] else ['0']

def sample (ns : List Str) : List Attr := ns.map fun k => (k, sampleVal k)

def modelAccepts (el : Str) (as : List Attr) : Bool :=
  if el = sGlyph then (match parseGlyphAttrs (some as) with | .ok _ => true | .error _ => false)
  else if el = sAdvance then (parseAdvance RS as).isSome
  else if el = sUnicode then (parseUnicode [] as).isSome
  else if el = sAnchor then (parseAnchor RS 2 [] as).isSome
  else if el = sGuideline then (parseGuideline RS 2 [] as).isSome
  else if el = sImage then (parseImage RS as).isSome
  else if el = sPoint then (parsePoint RS 2 [] as).isSome
  else if el = sComponent then (parseComponent RS 2 [] as).isSome
  else if el = sContour then (parseContourAttrs 2 [] as).isSome
  else false

/-- **source tie**: the attribute names the loops of `parse.rs` accept are, element by element, the names the model's key
    functions know (`Lemmas/GlifTables.lean` proves for all strings that a name outside the table is refused) -/
theorem source_attribute_names_match_model :
    sameSet Generated.GlifParser.glyphAttrs gKeys = true ∧ sameSet Generated.GlifParser.advanceAttrs advKeys = true ∧ sameSet Generated.GlifParser.unicodeAttrs uniKeys = true ∧
    sameSet Generated.GlifParser.anchorAttrs aKeys = true ∧ sameSet Generated.GlifParser.guidelineAttrs guKeys = true ∧ sameSet Generated.GlifParser.imageAttrs iKeys = true ∧
    sameSet Generated.GlifParser.pointAttrs pKeys = true ∧ sameSet Generated.GlifParser.componentAttrs cKeys = true ∧ sameSet Generated.GlifParser.contourAttrs ctKeys = true := by
  decide +kernel

def specAttrNames (el : Str) : List Str := ((Spec.attrTable el).getD []).map (·.1.toList)

/-- … and the names of the specification's attribute table -/
theorem source_attribute_names_match_spec :
    sameSet Generated.GlifParser.advanceAttrs (specAttrNames sAdvance) = true ∧ sameSet Generated.GlifParser.unicodeAttrs (specAttrNames sUnicode) = true ∧
    sameSet Generated.GlifParser.anchorAttrs (specAttrNames sAnchor) = true ∧ sameSet Generated.GlifParser.guidelineAttrs (specAttrNames sGuideline) = true ∧
    sameSet Generated.GlifParser.imageAttrs (specAttrNames sImage) = true ∧ sameSet Generated.GlifParser.pointAttrs (specAttrNames sPoint) = true ∧
    sameSet Generated.GlifParser.componentAttrs (specAttrNames sComponent) = true := by
  decide +kernel

def requiredTable : List (Str × List Str × List Str) :=
  [(sAdvance, Generated.GlifParser.advanceAttrs, []), (sUnicode, Generated.GlifParser.unicodeAttrs, []),
   (sAnchor, Generated.GlifParser.anchorAttrs, Generated.GlifParser.anchorRequired), (sImage, Generated.GlifParser.imageAttrs, Generated.GlifParser.imageRequired), (sPoint, Generated.GlifParser.pointAttrs, Generated.GlifParser.pointRequired),
   (sComponent, Generated.GlifParser.componentAttrs, Generated.GlifParser.componentRequired), (sContour, Generated.GlifParser.contourAttrs, [])]

/-- **source tie**: with every accepted attribute present the model accepts the element, and leaving one out is refused
    exactly when the source marks it required -/
theorem source_required_match_model :
    requiredTable.all (fun r =>
      modelAccepts r.1 (sample r.2.1) &&
      r.2.1.all (fun n => modelAccepts r.1 (sample (r.2.1.erase n)) == !r.2.2.contains n)) = true ∧
    modelAccepts sGlyph (sample Generated.GlifParser.glyphAttrs) = true ∧
    Generated.GlifParser.glyphAttrs.all (fun n =>
      (match parseGlyphAttrs (some (sample (Generated.GlifParser.glyphAttrs.erase n))) with
       | .error .wrongFirstElement => true
       | _ => false) == Generated.GlifParser.glyphRequired.contains n) = true := by
  decide +kernel

theorem source_required_match_spec :
    sameSet Generated.GlifParser.anchorRequired ((Spec.required sAnchor).map String.toList) = true ∧
    sameSet Generated.GlifParser.pointRequired ((Spec.required sPoint).map String.toList) = true ∧
    sameSet Generated.GlifParser.componentRequired ((Spec.required sComponent).map String.toList) = true ∧
    sameSet Generated.GlifParser.imageRequired ((Spec.required sImage).map String.toList) = true ∧
    (Generated.GlifParser.glyphAttrs).all (fun n =>
      (Spec.glyphAttrCheck { prolog := [], gattrs := some (sample ((Generated.GlifParser.glyphAttrs).erase n)), items := [] }).contains "glyph-name"
        == (Generated.GlifParser.glyphRequired).contains n) = true := by
  decide +kernel

def subsets3 : List (List Str) :=
  [[], [['x']], [['y']], ["angle".toList], [['x'], ['y']], [['x'], "angle".toList], [['y'], "angle".toList],
   [['x'], ['y'], "angle".toList]]

/-- **source tie**: the guideline shapes of `parse_guideline` are the ones the model and the specification accept -/
theorem source_guideline_shapes_match :
    subsets3.all (fun sub =>
      (modelAccepts sGuideline (sample sub) == (Generated.GlifParser.guidelineShapes).any (sameSet sub)) &&
      ((Spec.elemCheck RS 2 { name := sGuideline, attrs := some (sample sub) }).1.contains "guideline-shape"
        == !(Generated.GlifParser.guidelineShapes).any (sameSet sub))) = true := by
  decide +kernel

/-- **source tie**: the element names each level of `parse.rs` dispatches, the format-1 refusals and the once-only guards
    are the model's tables (each proved to characterise the model function it belongs to) -/
theorem source_dispatch_matches_model :
    sameSet Generated.GlifParser.bodyStartNames Glif.bodyStartNames = true ∧ sameSet Generated.GlifParser.bodyEmptyNames Glif.bodyEmptyNames = true ∧
    sameSet Generated.GlifParser.outlineStartNames Glif.outlineStartNames = true ∧ sameSet Generated.GlifParser.outlineEmptyNames Glif.outlineEmptyNames = true ∧
    sameSet Generated.GlifParser.contourEmptyNames Glif.contourEmptyNames = true ∧
    sameSet Generated.GlifParser.v1RefusedStart Glif.v1RefusedStart = true ∧ sameSet Generated.GlifParser.v1RefusedEmpty Glif.v1RefusedEmpty = true ∧
    sameSet Generated.GlifParser.onceByFlag Glif.onceByFlag = true ∧ sameSet Generated.GlifParser.onceByContent Glif.onceByContent = true ∧
    Generated.GlifParser.rootName = sGlyph ∧
    ((Generated.GlifParser.supportedVersions).all (modelVersions.contains ·) && modelVersions.all ((Generated.GlifParser.supportedVersions).contains ·)) = true ∧
    sameSet Generated.GlifParser.outlineEmptyIgnored [sContour] = true := by
  decide +kernel

def v1Flagged (n : Str) : Bool :=
  if n = sNote then (Spec.itemCheck RS 1 (.note (some []) [])).1.contains "v1-element"
  else (Spec.itemCheck RS 1 (.elem { name := n, attrs := some [] })).1.contains "v1-element"

theorem source_dispatch_matches_spec :
    sameSet Generated.GlifParser.bodyEmptyNames (sOutline :: Spec.bodyNames) = true ∧
    sameSet (Generated.GlifParser.onceByFlag ++ Generated.GlifParser.onceByContent) (Spec.onceOnly.map String.toList) = true ∧
    (Generated.GlifParser.bodyEmptyNames ++ Generated.GlifParser.bodyStartNames).all (fun n =>
      v1Flagged n == (Generated.GlifParser.v1RefusedStart ++ Generated.GlifParser.v1RefusedEmpty).contains n) = true := by
  decide +kernel

def s0 : PS := { g := { name := ['a'] }, ver := 2 }
def junk : Str := "junk".toList

/-- **source tie**: comments are skipped at the three levels where the source skips them, and the refusals the model
    distinguishes carry the error variant the source returns -/
theorem source_level_errors_match_model :
    Generated.GlifParser.bodySkipsComments = (stepErrName (stepBody RS s0 .comment)).isNone ∧
    Generated.GlifParser.outlineSkipsComments = (stepErrName (stepOutline RS s0 {} .comment)).isNone ∧
    Generated.GlifParser.contourSkipsComments = (stepErrName (stepContour RS s0 {} none [] .comment)).isNone ∧
    stepErrName (stepBody RS s0 .other) = some Generated.GlifParser.bodyOtherError ∧
    stepErrName (bodyStart s0 junk) = some Generated.GlifParser.bodyStartDefaultError ∧
    stepErrName (bodyEmpty RS s0 junk none) = some Generated.GlifParser.bodyEmptyDefaultError ∧
    stepErrName (stepOutline RS s0 {} (.start junk none)) = some Generated.GlifParser.outlineStartDefaultError ∧
    stepErrName (stepOutline RS s0 {} (.empty junk none)) = some Generated.GlifParser.outlineEmptyDefaultError ∧
    stepErrName (stepOutline RS s0 {} .other) = some Generated.GlifParser.outlineOtherError ∧
    (eofKind (.outline {})).rustName = Generated.GlifParser.outlineEofError ∧
    stepErrName (stepContour RS s0 {} none [] .other) = some Generated.GlifParser.contourOtherError ∧
    (eofKind (.contour {} none [])).rustName = Generated.GlifParser.contourEofError ∧
    (match scanStart [.other] with | .error k => k.rustName | .ok _ => []) = Generated.GlifParser.startOtherError ∧
    (match gFinish { name := some [], major := 3 } with | .error k => k.rustName | .ok _ => []) = Generated.GlifParser.unsupportedVersionError ∧
    (match gFinish {} with | .error k => k.rustName | .ok _ => []) = Generated.GlifParser.glyphMissingError ∧
    sameSet Generated.GlifParser.startSkips ["Comment".toList, "Decl".toList] = true := by
  decide +kernel

/-- **source tie**: the defaults of `parse.rs` (point type, smooth, advance, format numbers, identity transform) are the
    model's and the specification's -/
theorem source_defaults_match :
    ptRustName ({} : PointAcc).typ = Generated.GlifParser.pointTypeDefault ∧ ({} : PointAcc).smooth = Generated.GlifParser.smoothDefault ∧
    ptRustName (Spec.ptOfElem { name := sPoint, attrs := some [] }).typ = Generated.GlifParser.pointTypeDefault ∧
    (Spec.ptOfElem { name := sPoint, attrs := some [] }).smooth = Generated.GlifParser.smoothDefault ∧
    (match parseAdvance RS [] with | some (w, h) => [w, h] | none => []) = Generated.GlifParser.advanceDefaults ∧
    [({} : GlyphAcc).major, ({} : GlyphAcc).minor] = Generated.GlifParser.formatDefaults ∧
    [({} : Transform).xScale, ({} : Transform).xyScale, ({} : Transform).yxScale, ({} : Transform).yScale,
     ({} : Transform).xOffset, ({} : Transform).yOffset] = Generated.GlifParser.transformDefault := by
  decide +kernel

/-- **source tie**: WHICH name the source compares.  Every element-name comparison of `parse.rs` (the root test of
    `start`, the `Start`/`Empty` dispatch and the end test of `parse_body` and `parse_outline`, the point and end tests of
    `parse_contour`, the end tests of `parse_lib` and `parse_note`) reads `name()`, the tag exactly as written, and every
    attribute loop matches on `attr.key.as_ref()`, the attribute name exactly as written — never `local_name()`, which
    drops a namespace prefix.  This is what the model assumes: its `Ev.start n`/`Ev.empty n`/`Ev.close n` and `Attr` carry
    the full names (the harness tokenises with `name()` and `key`), and `step` compares them literally, so by
    `qualified_name_unknown` and `unknown_element_refused` a `<x:advance/>` is an unknown element. -/
theorem source_dispatch_on_full_name :
    Generated.GlifParser.elementNameAccessors.map (·.1) =
      ["start".toList, "parse_body".toList, "parse_outline".toList, "parse_contour".toList, "parse_lib".toList, "parse_note".toList] ∧
    Generated.GlifParser.elementNameAccessors.all (fun r => !r.2.isEmpty && r.2.all (· == "name".toList)) = true ∧
    Generated.GlifParser.attrNameAccessors.map (·.1) = Generated.GlifParser.unknownAttrError.map (·.1) ∧
    Generated.GlifParser.attrNameAccessors.all (fun r => !r.2.isEmpty && r.2.all (· == "key".toList)) = true := by
  decide +kernel

end SourceTie

/-! ### names that only resemble a known name (namespace prefix, case, a kept blank, a control character) -/

/-- **an element whose tag is not literally a known name is refused at every level, in both forms**: before the root
    (`WrongFirstElement`), in the glyph body, in the outline and in a contour (`UnexpectedElement`) -/
theorem unknown_element_refused (rd : Str → Option Nat) (s : PS) (ob : OB) (cid : Option Str) (pts : List Point) {n : Str}
    (a : Option (List Attr)) (r : List Ev) (h : knownNames.contains n = false) :
    scanStart (.start n a :: r) = .error .wrongFirstElement ∧
    bodyStart s n = .error .unexpectedElement ∧ bodyEmpty rd s n a = .error .unexpectedElement ∧
    stepOutline rd s ob (.start n a) = .error .unexpectedElement ∧ stepOutline rd s ob (.empty n a) = .error .unexpectedElement ∧
    stepContour rd s ob cid pts (.start n a) = .error .unexpectedElement ∧
    stepContour rd s ob cid pts (.empty n a) = .error .unexpectedElement := by
  refine ⟨?_, ?_, ?_, ?_, ?_, ?_, ?_⟩
  · have hg : [sGlyph].contains n = false := contains_false_of_sub (by decide) h
    have : n ≠ sGlyph := by simpa using hg
    simp [scanStart, this]
  · exact bodyStart_unknown s (contains_false_of_sub (by decide) h)
  · exact bodyEmpty_unknown rd s a (contains_false_of_sub (by decide) h)
  · exact (stepOutline_unknown rd s ob a).1 (contains_false_of_sub (by decide) h)
  · exact (stepOutline_unknown rd s ob a).2 (contains_false_of_sub (by decide) h)
  · exact (stepContour_unknown rd s ob cid pts a).2
  · exact (stepContour_unknown rd s ob cid pts a).1 (contains_false_of_sub (by decide) h)

/-- **an attribute whose name is not literally a known name ends every attribute loop with a refusal** -/
theorem unknown_attr_name_refused (rd : Str → Option Nat) (ver : Nat) (seen : List Str) (a : Attr)
    (h : knownNames.contains a.1 = false) :
    (∀ acc, gStep acc a = none) ∧ (∀ acc, advStep rd acc a = none) ∧ (∀ acc, uniStep acc a = none) ∧
    (∀ acc, aStep rd ver seen acc a = none) ∧ (∀ acc, guStep rd ver seen acc a = none) ∧ (∀ acc, iStep rd acc a = none) ∧
    (∀ acc, pStep rd ver seen acc a = none) ∧ (∀ acc, cStep rd ver seen acc a = none) ∧ (∀ acc, ctStep ver seen acc a = none) := by
  obtain ⟨h1, h2, h3, h4, h5, h6, h7, h8, h9⟩ := step_refuses_unknown rd ver seen a
  exact ⟨h1 (contains_false_of_sub (by decide) h), h2 (contains_false_of_sub (by decide) h), h3 (contains_false_of_sub (by decide) h),
    h4 (contains_false_of_sub (by decide) h), h5 (contains_false_of_sub (by decide) h), h6 (contains_false_of_sub (by decide) h),
    h7 (contains_false_of_sub (by decide) h), h8 (contains_false_of_sub (by decide) h), h9 (contains_false_of_sub (by decide) h)⟩

/-- **a known name behind a namespace prefix is an unknown name**: `x:advance`, `xml:advance`, `:advance`, `advance:`,
    `x:width` … — anything with a colon in it — is in no table of the parser, whatever stands before and after the colon,
    so `unknown_element_refused` and `unknown_attr_name_refused` apply to it -/
theorem qualified_name_unknown (p n : Str) : knownNames.contains (p ++ ':' :: n) = false :=
  not_in_of_nonletter knownNames_letters (c := ':') (by simp) (by decide)

/-- the same for a name with a blank that quick-xml keeps in the name (anything but space, tab, CR, LF ends up there:
    U+00A0, U+3000, VT, FF …) or a control character next to or inside a known name -/
theorem decorated_name_unknown (p n : Str) (c : Char) (hc : c.isAlpha = false) : knownNames.contains (p ++ c :: n) = false :=
  not_in_of_nonletter knownNames_letters (c := c) (by simp) hc

/-- **the specification oracle treats such a name as unknown too**: `Spec.itemCheck` (the per-item part of `Spec.judge`)
    answers `unknown-element` for every content-free body element whose name is not literally a known name, and in the
    outline / in a contour for everything that is not literally `component` / `point` -/
theorem spec_unknown_element (rd : Str → Option Nat) (ver : Nat) (e : Spec.Elem) (h : knownNames.contains e.name = false) :
    Spec.itemCheck rd ver (.elem e) = (["unknown-element"], false) ∧
    Spec.oitemCheck rd ver (.elem e) = (["unknown-element"], false) := by
  have hb : Spec.bodyNames.contains e.name = false := contains_false_of_sub (by decide) h
  have hn : [sNote, sLib, sComponent].contains e.name = false := contains_false_of_sub (by decide) h
  simp only [List.contains_cons, List.contains_nil, Bool.or_false, Bool.or_eq_false_iff, beq_eq_false_iff_ne, ne_eq] at hn
  obtain ⟨h1, h2, h3⟩ := hn
  constructor
  · have hb' : e.name ∉ Spec.bodyNames := fun hm => by
      rw [List.contains_iff_mem.2 hm] at hb; cases hb
    simp [Spec.itemCheck, hb', h1, h2]
  · simp [Spec.oitemCheck, h3]

-- `<x:advance width="500"/>` in the body of a format-2 glyph: refused
example : bodyEmpty K { g := { name := ['a'] }, ver := 2 } ("x:advance".toList) (some [("width".toList, "500".toList)])
    = .error .unexpectedElement :=
  (unknown_element_refused K _ {} none [] _ [] (qualified_name_unknown ['x'] "advance".toList)).2.2.1
-- `Advance` is not `advance`
example : knownNames.contains "Advance".toList = false :=
  case_variant_unknown (n := sAdvance) (by decide) (by decide) (by decide)


/-! ### the specification's element check and the model (non-vacuity of the link) -/

-- `ReadsNumerals` is satisfiable, a clean element exists, and `clean_element_step` applies to it
example : ReadsNumerals (fun _ => some 0) := fun _ _ => ⟨0, rfl⟩
example :
    stepContinues (step (fun _ => some 0) { g := { name := ['a'] }, ver := 2 }
      (.empty sAnchor (some [(['y'], ['2']), ("name".toList, ['t']), (['x'], ['1'])]))) = true :=
  (clean_element_step (rd := fun _ => some 0) (fun _ _ => ⟨0, rfl⟩)
    (s := { g := { name := ['a'] }, ver := 2 })
    (e := { name := sAnchor, attrs := some [(['y'], ['2']), ("name".toList, ['t']), (['x'], ['1'])] })
    (by decide +kernel) (by intro as v _ _ h; cases h)).2.2.1 rfl rfl

/-! ### legal documents are accepted: format 1 of the generative grammar -/

section
variable {f : Fmt} {rd : Str → Option Nat} {nc : Color → Color} {ok : Nat → Prop}

/-- **legal_accepted, format 1**: a format-1 document of the generative grammar (`renderV1`: no identifiers, none of
    anchor/guideline/image/note — the format-1 refusals extracted from `parse.rs`), and every document that differs from it
    only in attribute order, is accepted and returns `loadObjectLibs (interpV1 d)`; the single named `move` points have
    become anchors (`v1_single_named_move_becomes_anchor`). -/
theorem legal_accepted_v1 (hc : Codec f rd nc ok) (d : GDoc) (hp : ∀ e, e ∈ d.prolog → isProlog e = true)
    (hn : validName d.name = true) (hL : LegalItemsV1 ok d.items)
    (hol : ∀ v, dictGet objectLibsKey (interpV1 d).lib = some v → ∃ ol, v = PV.dict ol ∧ AllDicts ol)
    {evs : List Ev} (hperm : EvsPerm (renderV1 f d) evs) :
    ∃ g, parseGlif rd evs = .ok g ∧ loadObjectLibs (interpV1 d) = .ok g := by
  obtain ⟨g, hg⟩ := loadObjectLibs_ok hol
  refine ⟨g, ?_, hg⟩
  rw [← parseGlif_attr_order_irrelevant rd hperm, legal_accepted_gdoc_v1 hc d hp hn hL, hg]

end

/-! ### a `judge`-clean document is accepted: non-vacuity -/

def jd0 : Spec.Doc :=
  { prolog := [.decl, .comment],
    gattrs := some [("format".toList, ['2']), ("name".toList, ['a'])],
    items := [.comment,
      .elem { name := sAnchor, attrs := some [(['y'], ['2']), (sIdentifier, ['i']), (['x'], ['1'])] },
      .outline (some []) false [.comment,
        .contour (some [(sIdentifier, ['c'])]) false
          [.elem { name := sPoint, attrs := some [(['x'], ['0']), ("type".toList, "line".toList), (['y'], ['0'])] }, .comment],
        .contour (some []) true [],
        .elem { name := sComponent, attrs := some [("base".toList, ['b'])] }],
      .elem { name := sAdvance, attrs := some [("width".toList, "500".toList)] },
      .lib (some []) (.dict [(['k'], .atom "b1")]) [.other],
      .note (some []) [.text (some ['n']), .comment]] }

def jd1 : Spec.Doc :=
  { prolog := [], gattrs := some [("name".toList, ['a']), ("format".toList, ['1'])],
    items := [.outline (some []) false
      [.contour (some []) false
        [.elem { name := sPoint, attrs := some [(['x'], ['0']), ("type".toList, "move".toList), (['y'], ['0']), ("name".toList, ['t'])] }]]] }

theorem jd0_clean : Spec.judge (fun _ => some 0) jd0 = ([], false) := by decide +kernel
theorem jd1_clean : Spec.judge (fun _ => some 0) jd1 = ([], false) := by decide +kernel

theorem jd0_shaped : Shaped jd0 := by
  refine ⟨by decide, by intro as h; cases h; decide, rfl, ?_⟩
  intro it hit
  simp only [jd0, List.mem_cons, List.not_mem_nil, or_false] at hit
  rcases hit with rfl | rfl | rfl | rfl | rfl | rfl
  · trivial
  · exact ⟨by intro as h; cases h; decide, by decide⟩
  · refine ⟨?_, fun h => by cases h⟩
    intro k hk
    simp only [List.mem_cons, List.not_mem_nil, or_false] at hk
    rcases hk with rfl | rfl | rfl | rfl
    · trivial
    · refine ⟨by intro as h; cases h; decide, ?_⟩
      intro c hc
      simp only [List.mem_cons, List.not_mem_nil, or_false] at hc
      rcases hc with rfl | rfl
      · exact ⟨by intro as h; cases h; decide, rfl⟩
      · trivial
    · exact ⟨(by intro as h; cases h; decide), (by intro c hc; cases hc)⟩
    · exact ⟨by intro as h; cases h; decide, rfl⟩
  · exact ⟨by intro as h; cases h; decide, by decide⟩
  · intro e he; simp at he; subst he; rfl
  · intro k hk
    simp only [List.mem_cons, List.not_mem_nil, or_false] at hk
    rcases hk with rfl | rfl <;> trivial

example : ∃ g, parseGlif (fun _ => some 0) (Spec.flatten jd0) = .ok g :=
  judge_clean_accepted (fun _ _ => ⟨0, rfl⟩) jd0_clean jd0_shaped

-- format 1 (the single named `move` point becomes an anchor)
example : ∃ g, parseGlif (fun _ => some 0) (Spec.flatten jd1) = .ok g :=
  judge_clean_accepted (fun _ _ => ⟨0, rfl⟩) jd1_clean
    ⟨(by intro e he; cases he), (by intro as h; cases h; decide), rfl, (by
      intro it hit
      simp only [jd1, List.mem_cons, List.not_mem_nil, or_false] at hit
      subst hit
      refine ⟨?_, fun h => by cases h⟩
      intro k hk
      simp only [List.mem_cons, List.not_mem_nil, or_false] at hk
      subst hk
      refine ⟨(by intro as h; cases h; decide), ?_⟩
      intro c hc
      simp only [List.mem_cons, List.not_mem_nil, or_false] at hc
      subst hc
      exact ⟨(by intro as h; cases h; decide), rfl⟩)⟩


section
open Spec
variable {rd : Str → Option Nat}

/-! ### the converse of the `Spec.judge` link, family by family

Every theorem below is `judge_bad_item_rejected` (the exact state after the clean prefix, `CleanState`) applied to one
constructor of `BodyBad`. -/

/-- what the corollaries share: the items before `bad` are `judge`-clean and shaped, the glyph has format `ver` -/
structure CleanPrefix (rd : Str → Option Nat) (d : Doc) (pre : List Item) (bad : Item) (post : List Item) (ver : Nat) : Prop where
  items : d.items = pre ++ bad :: post
  clean : Spec.judge rd { d with items := pre } = ([], false)
  shaped : Shaped { d with items := pre }
  ver : (docVersion d).1 = some ver

theorem rejected_of_bodyBad (law : ReadsNumerals rd) {d : Doc} {pre post : List Item} {bad : Item} {ver : Nat}
    (h : CleanPrefix rd d pre bad post ver) (hb : BodyBad rd ver pre bad) :
    accepted (parseGlif rd (Spec.flatten d)) = false :=
  judge_bad_item_rejected law h.items h.clean h.shaped h.ver hb

/-- **a second advance, outline, lib or image** (`dup-advance`, `dup-outline`, `dup-lib`, `dup-image`) is rejected -/
theorem duplicate_once_only_rejected (law : ReadsNumerals rd) {d : Doc} {pre post : List Item} {bad : Item} {ver : Nat}
    (h : CleanPrefix rd d pre bad post ver) {n : Str} (hn : itemName bad = some n)
    (hcase : n = sAdvance ∨ n = sOutline ∨ n = sLib ∨ n = sImage) (hc : 0 < cnt pre n) :
    accepted (parseGlif rd (Spec.flatten d)) = false :=
  rejected_of_bodyBad law h (.dupOnce bad n hn hcase hc)

/-- **a second note** (`dup-note`) is rejected when an earlier note has text — when the earlier note is empty norad accepts
    the second one: recorded finding `repeated-note-after-empty-note` -/
theorem duplicate_note_rejected (law : ReadsNumerals rd) {d : Doc} {pre post : List Item} {bad : Item} {ver : Nat}
    (h : CleanPrefix rd d pre bad post ver) (hn : itemName bad = some sNote) (hex : ∃ x, x ∈ pre ∧ noteWithText x) :
    accepted (parseGlif rd (Spec.flatten d)) = false :=
  rejected_of_bodyBad law h (.dupNote bad hn hex)

theorem attrTable_body {n : Str} (hb : bodyNames.contains n = true) : ∃ tbl, attrTable n = some tbl := by
  simp only [bodyNames, List.contains_cons, List.contains_nil, Bool.or_false, Bool.or_eq_true, beq_iff_eq] at hb
  have h5 : (attrTable sAdvance).isSome = true ∧ (attrTable sUnicode).isSome = true ∧ (attrTable sAnchor).isSome = true ∧
      (attrTable sGuideline).isSome = true ∧ (attrTable sImage).isSome = true := by decide
  rcases hb with h | h | h | h | h <;> rw [h]
  · exact Option.isSome_iff_exists.1 h5.1
  · exact Option.isSome_iff_exists.1 h5.2.1
  · exact Option.isSome_iff_exists.1 h5.2.2.1
  · exact Option.isSome_iff_exists.1 h5.2.2.2.1
  · exact Option.isSome_iff_exists.1 h5.2.2.2.2

/-- **every rule `Spec.elemCheck` reports for an advance, unicode, anchor, guideline or image** — a missing required attribute
    (`required`), a malformed number (`number`), an angle out of range (`angle`), an invalid name (`name`), colour (`color`),
    code point (`hex`), identifier (`ident-invalid`, `v1-attr`), image file name (`image-name`), an unknown attribute
    (`unknown-attr`), a guideline that has none of the three shapes (`guideline-shape`) — makes the parser reject the
    document; excluded are exactly the two value findings (`ident-empty`, `hex-plus`: norad accepts) and `v1-element` (see
    `judge_hard_error_rejected`) -/
theorem element_rule_rejected (law : ReadsNumerals rd) (lawT : ReadsTrimmed rd) {d : Doc} {pre post : List Item} {ver : Nat}
    {e : Elem} {as : List Attr} (h : CleanPrefix rd d pre (.elem e) post ver)
    (hb : bodyNames.contains e.name = true) (ha : e.attrs = some as) (hnd : (as.map (·.1)).Nodup)
    {r : String} (hr : r ∈ (elemCheck rd ver e).1) (hnf : r ∉ findingValueRules) (hv1 : r ≠ "v1-element") :
    accepted (parseGlif rd (Spec.flatten d)) = false := by
  obtain ⟨tbl, ht⟩ := attrTable_body hb
  exact rejected_of_bodyBad law h (.elem e as hb ha (elemCheck_elemBad lawT ht ha hnd hr hnf hv1))

/-- **an identifier used before** (`ident-dup`), on an anchor or a guideline, is rejected -/
theorem duplicate_identifier_rejected (law : ReadsNumerals rd) {d : Doc} {pre post : List Item} {ver : Nat}
    {e : Elem} {as : List Attr} {i : Str} (h : CleanPrefix rd d pre (.elem e) post ver)
    (hn : e.name = sAnchor ∨ e.name = sGuideline) (ha : e.attrs = some as) (hi : (sIdentifier, i) ∈ as)
    (hseen : i ∈ pre.flatMap itemIdents) :
    accepted (parseGlif rd (Spec.flatten d)) = false := by
  have hb : bodyNames.contains e.name = true := by rcases hn with h | h <;> rw [h] <;> decide
  refine rejected_of_bodyBad law h (.elem e as hb ha (.attr (sIdentifier, i) hi ?_))
  have hrf : readIdent ver (pre.flatMap itemIdents) i = none := readIdent_seen ver hseen
  rcases hn with h | h <;> rw [h] <;> exact hrf

/-- **inside the outline**: clean children, then one the parser refuses (`OBad`) -/
theorem outline_child_rejected (law : ReadsNumerals rd) {d : Doc} {pre post : List Item} {ver : Nat}
    {a : Option (List Attr)} {kpre kpost : List OItem} {kbad : OItem}
    (h : CleanPrefix rd d pre (.outline a false (kpre ++ kbad :: kpost)) post ver)
    (hk : OKidsClean rd ver (pre.flatMap itemIdents) kpre)
    (hb : OBad rd ver (pre.flatMap itemIdents ++ kpre.flatMap oitemIdents) kbad) :
    accepted (parseGlif rd (Spec.flatten d)) = false :=
  rejected_of_bodyBad law h (.outlineChild a kpre kbad kpost hk hb)

/-- **an element inside the outline that is neither `contour` nor `component`** (`unknown-element`) is rejected -/
theorem unknown_in_outline_rejected (law : ReadsNumerals rd) {d : Doc} {pre post : List Item} {ver : Nat}
    {a : Option (List Attr)} {kpre kpost : List OItem} {e : Elem}
    (h : CleanPrefix rd d pre (.outline a false (kpre ++ .elem e :: kpost)) post ver)
    (hk : OKidsClean rd ver (pre.flatMap itemIdents) kpre) (h1 : e.name ≠ sComponent) (h2 : e.name ≠ sContour) :
    accepted (parseGlif rd (Spec.flatten d)) = false :=
  outline_child_rejected law h hk (.unknown e h1 h2)

/-- **every rule `Spec.elemCheck` reports for a component** (missing `base`, malformed transform number, invalid base name,
    invalid / repeated / format-1 identifier, unknown attribute) is rejected -/
theorem component_rule_rejected (law : ReadsNumerals rd) (lawT : ReadsTrimmed rd) {d : Doc} {pre post : List Item} {ver : Nat}
    {a : Option (List Attr)} {kpre kpost : List OItem} {e : Elem} {as : List Attr}
    (h : CleanPrefix rd d pre (.outline a false (kpre ++ .elem e :: kpost)) post ver)
    (hk : OKidsClean rd ver (pre.flatMap itemIdents) kpre) (hn : e.name = sComponent) (ha : e.attrs = some as)
    (hnd : (as.map (·.1)).Nodup) {r : String} (hr : r ∈ (elemCheck rd ver e).1) (hnf : r ∉ findingValueRules)
    (hv1 : r ≠ "v1-element") :
    accepted (parseGlif rd (Spec.flatten d)) = false := by
  have ht : ∃ tbl, attrTable e.name = some tbl := by
    rw [hn]; exact Option.isSome_iff_exists.1 (by decide)
  obtain ⟨tbl, ht⟩ := ht
  have hbad := elemCheck_elemBad (seen := pre.flatMap itemIdents ++ kpre.flatMap oitemIdents) lawT ht ha hnd hr hnf hv1
  rw [hn] at hbad
  exact outline_child_rejected law h hk (.component e as hn ha hbad)

/-- **an illegal point sequence** (`contour`: the contour rule of C11 is broken, `¬ C11.Legal`) is rejected at `</contour>`,
    after clean siblings, a clean start tag and clean points -/
theorem illegal_contour_rejected (law : ReadsNumerals rd) {d : Doc} {pre post : List Item} {ver : Nat}
    {a : Option (List Attr)} {kpre kpost : List OItem} {as : List Attr} {kids : List CItem}
    (h : CleanPrefix rd d pre (.outline a false (kpre ++ .contour (some as) false kids :: kpost)) post ver)
    (hk : OKidsClean rd ver (pre.flatMap itemIdents) kpre)
    (hst : CtStartClean ver (pre.flatMap itemIdents ++ kpre.flatMap oitemIdents) as)
    (hkids : CKidsClean rd ver (pre.flatMap itemIdents ++ kpre.flatMap oitemIdents ++ (Spec.get as "identifier").toList) kids)
    (hill : ¬ C11.Legal ((contourElems kids).map ptOfElem)) :
    accepted (parseGlif rd (Spec.flatten d)) = false := by
  refine outline_child_rejected law h hk (.contourIllegal as kids hst hkids ?_)
  cases hl : C11.legalB ((contourElems kids).map ptOfElem) with
  | false => rfl
  | true => exact absurd ((C11.legalB_iff_legal _).1 hl) hill

/-- **every rule `Spec.elemCheck` reports for a point** (missing `x`/`y`, malformed number, invalid name, unknown `type`,
    invalid / repeated / format-1 identifier, unknown attribute), after clean siblings and clean earlier points -/
theorem point_rule_rejected (law : ReadsNumerals rd) (lawT : ReadsTrimmed rd) {d : Doc} {pre post : List Item} {ver : Nat}
    {a : Option (List Attr)} {kpre kpost : List OItem} {cas : List Attr} {cpre cpost : List CItem} {e : Elem} {as : List Attr}
    (h : CleanPrefix rd d pre (.outline a false (kpre ++ .contour (some cas) false (cpre ++ .elem e :: cpost) :: kpost)) post ver)
    (hk : OKidsClean rd ver (pre.flatMap itemIdents) kpre)
    (hst : CtStartClean ver (pre.flatMap itemIdents ++ kpre.flatMap oitemIdents) cas)
    (hkids : CKidsClean rd ver (pre.flatMap itemIdents ++ kpre.flatMap oitemIdents ++ (Spec.get cas "identifier").toList) cpre)
    (hn : e.name = sPoint) (ha : e.attrs = some as) (hnd : (as.map (·.1)).Nodup)
    {r : String} (hr : r ∈ (elemCheck rd ver e).1) (hnf : r ∉ findingValueRules) (hv1 : r ≠ "v1-element") :
    accepted (parseGlif rd (Spec.flatten d)) = false := by
  have ht : ∃ tbl, attrTable e.name = some tbl := by
    rw [hn]; exact Option.isSome_iff_exists.1 (by decide)
  obtain ⟨tbl, ht⟩ := ht
  have hbad := elemCheck_elemBad (seen := pre.flatMap itemIdents ++ kpre.flatMap oitemIdents ++
    (Spec.get cas "identifier").toList ++ cpre.flatMap citemIdents) lawT ht ha hnd hr hnf hv1
  rw [hn] at hbad
  exact outline_child_rejected law h hk (.contourChild cas cpre (.elem e) cpost hst hkids (.point e as hn ha hbad))

/-- **an element inside a contour that is not a `point`** (`unknown-element`) is rejected -/
theorem unknown_in_contour_rejected (law : ReadsNumerals rd) {d : Doc} {pre post : List Item} {ver : Nat}
    {a : Option (List Attr)} {kpre kpost : List OItem} {cas : List Attr} {cpre cpost : List CItem} {e : Elem}
    (h : CleanPrefix rd d pre (.outline a false (kpre ++ .contour (some cas) false (cpre ++ .elem e :: cpost) :: kpost)) post ver)
    (hk : OKidsClean rd ver (pre.flatMap itemIdents) kpre)
    (hst : CtStartClean ver (pre.flatMap itemIdents ++ kpre.flatMap oitemIdents) cas)
    (hkids : CKidsClean rd ver (pre.flatMap itemIdents ++ kpre.flatMap oitemIdents ++ (Spec.get cas "identifier").toList) cpre)
    (hn : e.name ≠ sPoint) :
    accepted (parseGlif rd (Spec.flatten d)) = false :=
  outline_child_rejected law h hk (.contourChild cas cpre (.elem e) cpost hst hkids (.unknown e hn))

/-- the rules of `Spec.itemCheck` that correspond to a recorded finding, i.e. where norad accepts what `judge` flags:
    `container-attrs` (`container-attributes-unexamined`), `ident-empty` (`empty-identifier-accepted`), `hex-plus`
    (`hex-plus-sign-accepted`).  At document level two more clauses of `judge` are findings: `dup-note` when the earlier note
    has no text (`repeated-note-after-empty-note`) and `objlib-entry` (`unmatched-object-lib-not-dictionary`). -/
def findingItemRules : List String := ["container-attrs", "ident-empty", "hex-plus"]

/-- **every rule `Spec.itemCheck` reports for a body item that is not an outline, other than a finding rule, makes the parser
    reject the document** (first such item after a clean prefix): `unknown-element`, `v1-element`, `lib`, `attr-syntax` and
    all the element rules of `element_rule_rejected` -/
theorem body_item_rule_rejected (law : ReadsNumerals rd) (lawT : ReadsTrimmed rd) {d : Doc} {pre post : List Item} {bad : Item}
    {ver : Nat} (h : CleanPrefix rd d pre bad post ver) (hsh : IShaped bad)
    (hno : ∀ a sc kids, bad ≠ .outline a sc kids) (hne : ∀ e, bad = .elem e → e.name ≠ sOutline)
    {r : String} (hr : r ∈ (itemCheck rd ver bad).1) (hnf : r ∉ findingItemRules) :
    accepted (parseGlif rd (Spec.flatten d)) = false := by
  have hnf' : r ∉ findingValueRules := by
    intro hm
    simp only [findingValueRules, List.mem_cons, List.not_mem_nil, or_false] at hm
    apply hnf
    rcases hm with rfl | rfl <;> decide
  have hca : r ≠ "container-attrs" := by intro e; subst e; exact hnf (by decide)
  cases bad with
  | comment => simp [itemCheck] at hr
  | outline a sc kids => exact absurd rfl (hno a sc kids)
  | note a kids =>
    simp only [itemCheck] at hr
    obtain ⟨x, hx, hrx⟩ := mem_merge hr
    simp only [List.mem_cons, List.not_mem_nil, or_false] at hx
    rcases hx with rfl | rfl
    · simp only at hrx
      cases a with
      | none => simp [containerAttrs] at hrx; exact absurd hrx hca
      | some as => cases as <;> simp [containerAttrs] at hrx; exact absurd hrx hca
    · simp only at hrx
      by_cases hv : ver = 1
      · exact rejected_of_bodyBad law h (.hard _ (.v1Note a kids hv))
      · simp [hv] at hrx
  | lib a v inner =>
    simp only [itemCheck] at hr
    obtain ⟨x, hx, hrx⟩ := mem_merge hr
    simp only [List.mem_cons, List.not_mem_nil, or_false] at hx
    rcases hx with rfl | rfl
    · simp only at hrx
      cases a with
      | none => simp [containerAttrs] at hrx; exact absurd hrx hca
      | some as => cases as <;> simp [containerAttrs] at hrx; exact absurd hrx hca
    · simp only at hrx
      refine rejected_of_bodyBad law h (.hard _ (.libNotDict a v inner ?_ hsh))
      intro dd hd; subst hd; simp at hrx
  | elem e =>
    obtain ⟨hndA, hsc⟩ := hsh
    simp only [itemCheck] at hr
    by_cases hb : bodyNames.contains e.name = true
    · simp only [hb, if_true] at hr
      have hnn : e.name ≠ sNote := by intro hh; rw [hh] at hb; exact absurd hb (by decide)
      simp only [hnn, if_false] at hsc
      cases ha : e.attrs with
      | none => exact rejected_of_bodyBad law h (.attrSyntax e hb ha)
      | some as =>
        by_cases hv1 : r = "v1-element"
        · subst hv1
          -- `v1-element` comes from the last clause of `elemCheck` only
          obtain ⟨tbl, ht⟩ := attrTable_body hb
          unfold elemCheck at hr
          simp only [ht, ha] at hr
          obtain ⟨x, hx, hrx⟩ := mem_merge hr
          rcases List.mem_append.1 hx with hx | hx
          · obtain ⟨at', _, rfl⟩ := List.mem_map.1 hx
            exfalso
            revert hrx
            cases hf : tbl.find? (fun t => t.1.toList = at'.1) with
            | none => simp
            | some p =>
              obtain ⟨nm, k⟩ := p
              simp only
              split
              · simp
              · intro hrx
                cases k <;> simp only [valueCheck] at hrx <;> repeat' split at hrx
                all_goals simp at hrx
          · simp only [List.mem_cons, List.not_mem_nil, or_false] at hx
            rcases hx with rfl | rfl | rfl
            · simp at hrx
            · simp only at hrx
              split at hrx
              · repeat' split at hrx
                all_goals simp at hrx
              · cases hrx
            · simp only at hrx
              split at hrx
              · rename_i hcond
                simp only [beq_iff_eq] at hcond
                exact rejected_of_bodyBad law h (.hard _ (.v1Element e hcond.1 hcond.2 hsc))
              · cases hrx
        · obtain ⟨tbl, ht⟩ := attrTable_body hb
          exact rejected_of_bodyBad law h (.elem e as hb ha (elemCheck_elemBad lawT ht ha (hndA as ha) hr hnf' hv1))
    · simp only [hb, Bool.false_eq_true, if_false] at hr
      by_cases hn : e.name = sNote
      · simp only [hn, if_true] at hr
        obtain ⟨x, hx, hrx⟩ := mem_merge hr
        simp only [List.mem_cons, List.not_mem_nil, or_false] at hx
        rcases hx with rfl | rfl
        · simp only at hrx
          cases ha : e.attrs with
          | none => simp [containerAttrs, ha] at hrx; exact absurd hrx hca
          | some as => cases as <;> simp [containerAttrs, ha] at hrx; exact absurd hrx hca
        · simp only at hrx
          by_cases hv : ver = 1
          · exact rejected_of_bodyBad law h (.v1NoteElem e hv hn)
          · simp [hv] at hrx
      · simp only [hn, if_false] at hr
        by_cases hl : e.name = sLib
        · exact rejected_of_bodyBad law h (.libElem e hl)
        · have hb' : bodyNames.contains e.name = false := by simpa using hb
          exact rejected_of_bodyBad law h (.hard _ (.unknownElement e hb' hn hl (hne e rfl)))

/-! ### non-vacuity: one concrete document per kind of position -/

def R1 : Str → Option Nat := fun _ => some 0
theorem law_R1 : ReadsNumerals R1 := fun _ _ => ⟨0, rfl⟩

def adv1 : Item := .elem { name := sAdvance, attrs := some [("width".toList, "500".toList)] }
def anc1 : Item := .elem { name := sAnchor, attrs := some [(['x'], ['1']), (['y'], ['2']), (sIdentifier, ['i'])] }
/-- two advances -/
def jdDup : Spec.Doc := { prolog := [.decl], gattrs := some [("name".toList, ['a']), ("format".toList, ['2'])], items := [adv1, .comment, adv1] }
/-- the identifier `i` on two anchors -/
def jdId : Spec.Doc := { prolog := [.decl], gattrs := some [("name".toList, ['a']), ("format".toList, ['2'])], items := [anc1, anc1] }
/-- a contour that consists of one off-curve point followed by a `move`: not a legal contour -/
def jdIll : Spec.Doc :=
  { prolog := [], gattrs := some [("name".toList, ['a']), ("format".toList, ['2'])],
    items := [adv1, .outline (some []) false [.comment, .contour (some []) false
      [.elem { name := sPoint, attrs := some [(['x'], ['0']), (['y'], ['0'])] },
       .elem { name := sPoint, attrs := some [(['x'], ['0']), (['y'], ['0']), ("type".toList, "move".toList)] }]]] }

theorem shaped_adv1 (d : Spec.Doc) (hp : ∀ e, e ∈ d.prolog → isProlog e = true) (hg : NodupAttrs d.gattrs)
    (ho : d.gSelfClosed = false) : Shaped { d with items := [adv1] } := by
  refine ⟨hp, hg, ho, ?_⟩
  intro it hit
  simp only [List.mem_cons, List.not_mem_nil, or_false] at hit
  subst hit
  exact ⟨by intro as h; cases h; decide, by decide⟩

example : accepted (parseGlif R1 (Spec.flatten jdDup)) = false :=
  duplicate_once_only_rejected (pre := [adv1, .comment]) (post := []) (ver := 2) law_R1
    ⟨rfl, by decide +kernel, ⟨by decide, by intro as h; cases h; decide, rfl, by
      intro it hit
      simp only [List.mem_cons, List.not_mem_nil, or_false] at hit
      rcases hit with rfl | rfl
      · exact ⟨by intro as h; cases h; decide, by decide⟩
      · trivial⟩, by decide +kernel⟩
    (n := sAdvance) rfl (Or.inl rfl) (by decide)

example : accepted (parseGlif R1 (Spec.flatten jdId)) = false :=
  duplicate_identifier_rejected (pre := [anc1]) (post := []) (ver := 2) (i := ['i']) law_R1
    ⟨rfl, by decide +kernel, ⟨by decide, by intro as h; cases h; decide, rfl, by
      intro it hit
      simp only [List.mem_cons, List.not_mem_nil, or_false] at hit
      subst hit
      exact ⟨by intro as h; cases h; decide, by decide⟩⟩, by decide +kernel⟩
    (Or.inl rfl) rfl (by decide) (by decide)

example : accepted (parseGlif R1 (Spec.flatten jdIll)) = false :=
  illegal_contour_rejected (pre := [adv1]) (post := []) (ver := 2) (kpre := [.comment]) (kpost := []) law_R1
    ⟨rfl, by decide +kernel, shaped_adv1 jdIll (by decide) (by intro as h; cases h; decide) rfl, by decide +kernel⟩
    ⟨by intro k hk; simp only [List.mem_cons, List.not_mem_nil, or_false] at hk; subst hk; trivial,
     by intro k hk; simp only [List.mem_cons, List.not_mem_nil, or_false] at hk; subst hk; rfl,
     by decide, by intro i hi; simp [oitemIdents] at hi⟩
    ⟨(by decide), (by intro a ha; cases ha), (by intro i hi; simp [Spec.get] at hi)⟩
    ⟨by
       intro k hk
       simp only [List.mem_cons, List.not_mem_nil, or_false] at hk
       rcases hk with rfl | rfl <;> exact ⟨by intro as h; cases h; decide, rfl⟩,
     by
       intro e he
       simp only [List.mem_cons, CItem.elem.injEq, List.not_mem_nil, or_false] at he
       rcases he with rfl | rfl <;> exact ⟨rfl, by decide +kernel⟩,
     by decide, by intro i hi; simp [citemIdents, elemIdent, Spec.get] at hi⟩
    (by rw [← C11.legalB_iff_legal]; decide)
end

end Glif
