import Norad.Lemmas.FontInfoUp
import Norad.Lemmas.RobofabTie
import Norad.Generated.RobofabConv
import Norad.Spec.FontInfoUp
import Norad.Props.C13
/-!
# C14 — format 1 and 2 font info is converted to format 3 as the spec prescribes

Property theorems.  `Gen.*` are the tables regenerated from the Rust source by `tools/extract.py`,
`Spec.*` the conversion tables typed in independently; `load` is the transcription of the legacy
path of `Font::load` (`Model/FontInfoUp.lean`).  The table equalities are re-checked by the kernel
against whatever the code says on every run.

-/
namespace C14
open FI

/-- correspondence between the conversion shapes found in the code and the specification's -/
def sconv : Conv → Spec.SConv
  | .id => .same | .roundI32 => .toInt | .roundAbsU32 => .toNonNegInt | .absNum => .nonNegNum
  | .absU32 => .absInt | .panoseAbs => .absEach | .weight => .weight | .enumWidth => .width
  | .enumCharSet => .charSet | .enumFontStyle => .fontStyle

def asSpec (t : List (String × String × Conv)) : List (String × String × Spec.SConv) :=
  t.map fun (a, b, c) => (a, b, sconv c)

/-- the format-2 table in the code is the specification's table (as sets of rows) -/
theorem v2_table_eq_spec :
    (∀ r ∈ asSpec Gen.v2Table, r ∈ Spec.tableV2) ∧ (∀ r ∈ Spec.tableV2, r ∈ asSpec Gen.v2Table) := by
  decide +kernel


theorem v1_table_eq_spec :
    (∀ r ∈ asSpec Gen.v1Table, r ∈ Spec.tableV1) ∧ (∀ r ∈ Spec.tableV1, r ∈ asSpec Gen.v1Table) := by
  decide +kernel

/-- no two legacy attributes land on one format-3 attribute, and no legacy attribute has two rows -/
theorem tables_injective :
    (Gen.v2Table.map (·.2.1)).Nodup ∧ (Gen.v1Table.map (·.2.1)).Nodup ∧
    (Gen.v2Table.map (·.1)).Nodup ∧ (Gen.v1Table.map (·.1)).Nodup := by
  decide +kernel

/-- the three enumeration tables are the specification's (plus the accepted extensions) -/
theorem enum_tables_eq_spec :
    (∀ r, r ∈ Gen.fontStyleCodes ↔ r ∈ Spec.fontStyle ++ Spec.fontStyleExt) ∧
    (∀ r, r ∈ Gen.charSetCodes ↔ r ∈ Spec.charSet) ∧
    (∀ r, r ∈ Gen.widthNames ↔ r ∈ Spec.width ++ Spec.widthExt) ∧
    (Gen.fontStyleCodes.map (·.1)).Nodup ∧ (Gen.charSetCodes.map (·.1)).Nodup ∧
    (Gen.widthNames.map (·.1)).Nodup := by
  refine ⟨?_, ?_, ?_, by decide +kernel, by decide +kernel, by decide +kernel⟩
  · intro r
    have h1 : ∀ x ∈ Gen.fontStyleCodes, x ∈ Spec.fontStyle ++ Spec.fontStyleExt := by decide +kernel
    have h2 : ∀ x ∈ Spec.fontStyle ++ Spec.fontStyleExt, x ∈ Gen.fontStyleCodes := by decide +kernel
    exact ⟨h1 r, h2 r⟩
  · intro r
    have h1 : ∀ x ∈ Gen.charSetCodes, x ∈ Spec.charSet := by decide +kernel
    have h2 : ∀ x ∈ Spec.charSet, x ∈ Gen.charSetCodes := by decide +kernel
    exact ⟨h1 r, h2 r⟩
  · intro r
    have h1 : ∀ x ∈ Gen.widthNames, x ∈ Spec.width ++ Spec.widthExt := by decide +kernel
    have h2 : ∀ x ∈ Spec.width ++ Spec.widthExt, x ∈ Gen.widthNames := by decide +kernel
    exact ⟨h1 r, h2 r⟩

/-- a code or name outside the table is an error, whatever it is -/
theorem enum_unknown_is_error (t : Tables) :
    (∀ z, lookup t.fontStyle z = none → applyConv t .enumFontStyle (.int z) = .error .unknownFontStyle) ∧
    (∀ z, lookup t.charSet z = none → applyConv t .enumCharSet (.int z) = .error .unknownCharSet) ∧
    (∀ s, lookup t.width s = none → applyConv t .enumWidth (.str s) = .error .unknownWidth) := by
  refine ⟨?_, ?_, ?_⟩ <;> intro z h <;> simp [applyConv, h]

/-- an error in one attribute fails the whole conversion -/
theorem convertAll_error_of_mem (t : Tables) (table : List (String × String × Conv)) :
    ∀ (attrs : List (String × Val)) (k : String) (v : Val) (k3 : String) (c : Conv) (e : ConvErr),
      (k, v) ∈ attrs → lookup table k = some (k3, c) → applyConv t c v = .error e →
      ∃ e', convertAll t table attrs = .error e' := by
  intro attrs
  induction attrs with
  | nil => intro k v k3 c e h; simp at h
  | cons a r ih =>
    intro k v k3 c e hmem hl he
    obtain ⟨ka, va⟩ := a
    rcases List.mem_cons.1 hmem with heq | hr
    · cases heq
      simp only [convertAll, hl, he]
      exact ⟨e, rfl⟩
    · obtain ⟨e', he'⟩ := ih k v k3 c e hr hl he
      simp only [convertAll]
      cases hla : lookup table ka with
      | none => exact ⟨_, rfl⟩
      | some p =>
        obtain ⟨k3a, ca⟩ := p
        simp only [he']
        cases applyConv t ca va with
        | error e2 => exact ⟨e2, rfl⟩
        | ok o => cases o <;> exact ⟨e', rfl⟩

/-- **unknown enumeration values are reported as errors**: a format-1 font info holding a font style
    code outside the table cannot be loaded (likewise for the other two enumerations) -/
theorem unknown_font_style_refuses_load (attrs : List (String × Val)) (z : Int)
    (hmem : ("fontStyle", Val.int z) ∈ attrs) (hz : lookup Gen.fontStyleCodes z = none) :
    ∃ e, fromFile 1 attrs = .error e := by
  unfold fromFile
  have e1 : typesOf 1 = Gen.v1Types := rfl
  have e2 : tableOf 1 = Gen.v1Table := rfl
  rw [e1, e2]
  by_cases ht : allTyped Gen.v1Types attrs = true
  · simp only [ht, Bool.not_true, Bool.false_eq_true, if_false]
    have hl : lookup Gen.v1Table "fontStyle" = some ("styleMapStyleName", Conv.enumFontStyle) := by decide +kernel
    obtain ⟨e', he'⟩ := convertAll_error_of_mem tables Gen.v1Table attrs _ _ _ _ _ hmem hl
      ((enum_unknown_is_error tables).1 z hz)
    rw [he']
    exact ⟨_, rfl⟩
  · simp only [ht, Bool.not_false, if_true]
    exact ⟨_, rfl⟩

theorem weight_minus_one_dropped :
    applyConv tables .weight (.int (-1)) = .ok none ∧
    ∀ z : Int, z ≠ -1 → applyConv tables .weight (.int z) = .ok (some (.int (Int.ofNat z.natAbs))) := by
  refine ⟨by rfl, ?_⟩
  intro z hz
  have : tables.weightDropped = [-1] := rfl
  simp [applyConv, this, hz]

/-- where format 3 wants an unsigned number the result is non-negative -/
theorem conv_abs_nonneg (t : Tables) :
    (∀ b w, applyConv t .roundAbsU32 (.num b) = .ok (some (.int w)) → 0 ≤ w) ∧
    (∀ z w, applyConv t .absU32 (.int z) = .ok (some (.int w)) → 0 ≤ w) ∧
    (∀ z w, applyConv t .weight (.int z) = .ok (some (.int w)) → 0 ≤ w) ∧
    (∀ l l', applyConv t .panoseAbs (.ints l) = .ok (some (.ints l')) → ∀ w ∈ l', 0 ≤ w) ∧
    (∀ b b', applyConv t .absNum (.num b) = .ok (some (.num b')) → b' < 2 ^ 63) := by
  refine ⟨?_, ?_, ?_, ?_, ?_⟩
  · intro b w h
    simp only [applyConv, Except.ok.injEq, Option.some.injEq, Val.int.injEq] at h
    rw [← h]; exact Int.natCast_nonneg _
  · intro z w h
    simp only [applyConv, Except.ok.injEq, Option.some.injEq, Val.int.injEq] at h
    rw [← h]; exact Int.natCast_nonneg _
  · intro z w h
    simp only [applyConv] at h
    split at h
    · cases h
    · simp only [Except.ok.injEq, Option.some.injEq, Val.int.injEq] at h
      rw [← h]; exact Int.natCast_nonneg _
  · intro l l' h w hw
    simp only [applyConv, Except.ok.injEq, Option.some.injEq, Val.ints.injEq] at h
    subst h
    simp only [List.mem_map] at hw
    obtain ⟨z, _, rfl⟩ := hw
    exact Int.natCast_nonneg _
  · intro b b' h
    simp only [applyConv, absBits, Except.ok.injEq, Option.some.injEq, Val.num.injEq] at h
    subst h
    exact Nat.mod_lt _ (by decide)

theorem roundMag_bounds (n d : Nat) (hd : 0 < d) :
    2 * (roundMag n d * d) ≤ 2 * n + d ∧ 2 * n + d < 2 * (roundMag n d * d) + 2 * d := by
  unfold roundMag
  have h1 := Nat.div_mul_le_self (2 * n + d) (2 * d)
  have h2 := Nat.lt_div_mul_add (a := 2 * n + d) (b := 2 * d) (by omega)
  have e : (2 * n + d) / (2 * d) * (2 * d) = 2 * ((2 * n + d) / (2 * d) * d) := by
    rw [Nat.mul_comm 2 d, ← Nat.mul_assoc, Nat.mul_comm _ 2]
  omega

/-- **rounding**: where format 3 wants an integer, the converted value is an integer within ½ of the
    legacy value (for every finite double below the saturation guard) -/
theorem conv_round_within_half (neg : Bool) (m up down : Nat)
    (hg : Dbl.num m up < 2147483647 * Dbl.den down) :
    Spec.withinHalf neg (Dbl.num m up) (Dbl.den down) (roundI32 (.fin neg m up down)) = true := by
  have hd : 0 < Dbl.den down := Nat.pow_pos (by decide)
  simp only [roundI32]
  generalize Dbl.num m up = n at *
  generalize Dbl.den down = d at *
  obtain ⟨h1, h2⟩ := roundMag_bounds n d hd
  have hr : roundMag n d ≤ 2147483647 := by
    apply Nat.le_of_lt_succ
    apply Nat.lt_of_mul_lt_mul_right (a := d)
    omega
  unfold Spec.withinHalf satI32 i32Max i32Min
  generalize hp : roundMag n d * d = p at *
  cases neg
  · simp only [Bool.false_eq_true, if_false, decide_eq_true_eq]
    have : ¬ ((roundMag n d : Nat) : Int) > 2147483647 := by omega
    have : ¬ ((roundMag n d : Nat) : Int) < -2147483648 := by omega
    simp only [Int.ofNat_eq_natCast, *, if_false]
    have e : 2 * ((roundMag n d : Nat) : Int) * (d : Int) = 2 * (p : Int) := by
      rw [← hp]; push_cast; rw [Int.mul_assoc]
    rw [e]
    omega
  · simp only [if_true, decide_eq_true_eq]
    have : ¬ (-((roundMag n d : Nat) : Int)) > 2147483647 := by omega
    have : ¬ (-((roundMag n d : Nat) : Int)) < -2147483648 := by omega
    simp only [Int.ofNat_eq_natCast, *, if_false]
    have e : 2 * (-((roundMag n d : Nat) : Int)) * (d : Int) = -(2 * (p : Int)) := by
      rw [← hp]; push_cast; rw [Int.mul_neg, Int.neg_mul, Int.mul_assoc]
    rw [e]
    omega

theorem validated_ok {info info' : List (String × Val)} (h : validated info = .ok info') :
    info' = info ∧ C13.validate (project info) = .ok := by
  unfold validated at h
  cases hv : C13.validate (project info) with
  | ok => simp only [hv, Except.ok.injEq] at h; exact ⟨h.symm, rfl⟩
  | err k => simp [hv] at h
  | panic => simp [hv] at h

theorem fromFile_ok {fmt : Nat} {attrs info : List (String × Val)} (h : fromFile fmt attrs = .ok info) :
    C13.validate (project info) = .ok := by
  unfold fromFile at h
  split at h
  · cases h
  · split at h
    · cases h
    · obtain ⟨e, hv⟩ := validated_ok h
      rw [e]; exact hv

/-- **a successful legacy load reports format 3, passes validation and is not refused by save**
    (composition with C13: `saveInfo` is the font-info part of `Font::save`) -/
theorem upconverted_reports_v3_validates_and_saves (i : Input) (o : Output) (h : load i = .ok o) :
    o.formatVersion = 3 ∧ C13.validate (project o.info) = .ok ∧ C13.saveInfo (project o.info) = .ok ∧
    C13.Rules (project o.info) := by
  have key : o.formatVersion = 3 ∧ C13.validate (project o.info) = .ok := by
    unfold load at h
    cases hf : fromFile i.fmt i.attrs with
    | error e => simp [hf] at h
    | ok info =>
      have hv0 := fromFile_ok hf
      simp only [hf] at h
      split at h
      · cases hh : i.robofab.hint with
        | none =>
          simp only [hh, Except.ok.injEq] at h
          rw [← h]; exact ⟨rfl, hv0⟩
        | some hd =>
          simp only [hh] at h
          cases hs : validated (applyHints Gen.hintRows hd info) with
          | error e => simp [hs] at h
          | ok info' =>
            obtain ⟨e, hv⟩ := validated_ok hs
            simp only [hs, Except.ok.injEq] at h
            rw [← h, e]; exact ⟨rfl, hv⟩
      · simp only [Except.ok.injEq] at h
        rw [← h]; exact ⟨rfl, hv0⟩
  have hr := (C13.validate_iff_rules _).1 key.2
  exact ⟨key.1, key.2, (C13.saveInfo_ok_iff _).2 hr, hr⟩

/-- **the four robofab keys are gone from the lib of a converted format-1 font, every other key stays** -/
theorem robofab_removed_from_lib (i : Input) (o : Output) (h1 : i.fmt = 1) (hl : i.hasLib = true)
    (h : load i = .ok o) :
    (∀ k ∈ o.libKeys, k ∉ Spec.robofabKeys) ∧
    (i.reqLib = true → ∀ k ∈ i.libKeys, k ∉ Spec.robofabKeys → k ∈ o.libKeys) := by
  -- set-wise: the order of the `lib.remove` statements is not part of the statement
  have hset : (∀ x ∈ Gen.robofabRemoved, x ∈ Spec.robofabKeys) ∧ (∀ x ∈ Spec.robofabKeys, x ∈ Gen.robofabRemoved) := by
    decide +kernel
  have hk : (fun k => !Gen.robofabRemoved.contains k) = (fun k => !Spec.robofabKeys.contains k) := by
    funext k
    have e : Gen.robofabRemoved.contains k = Spec.robofabKeys.contains k := by
      rw [Bool.eq_iff_iff, List.contains_iff_mem, List.contains_iff_mem]
      exact ⟨hset.1 k, hset.2 k⟩
    rw [e]
  have hlib : o.libKeys = (if i.reqLib then i.libKeys else []).filter (fun k => !Spec.robofabKeys.contains k) := by
    unfold load at h
    cases hf : fromFile i.fmt i.attrs with
    | error e => simp [hf] at h
    | ok info =>
      simp only [hf] at h
      simp only [h1, hl, Bool.and_self, if_true, decide_true] at h
      cases hh : i.robofab.hint with
      | none =>
        simp only [hh, Except.ok.injEq] at h
        rw [← h, hk]
      | some hd =>
        simp only [hh] at h
        cases hs : validated (applyHints Gen.hintRows hd info) with
        | error e => simp [hs] at h
        | ok info' =>
          simp only [hs, Except.ok.injEq] at h
          rw [← h, hk]
  rw [hlib]
  constructor
  · intro k hk'
    simp only [List.mem_filter, Bool.not_eq_eq_eq_not, Bool.not_true, List.contains_eq_mem,
      decide_eq_false_iff_not] at hk'
    exact hk'.2
  · intro hq k hk1 hk2
    simp only [hq, if_true, List.mem_filter, Bool.not_eq_eq_eq_not, Bool.not_true, List.contains_eq_mem,
      decide_eq_false_iff_not]
    exact ⟨hk1, hk2⟩

/-- the feature text is the classes followed, when a features dictionary exists, by a newline and
    the blocks the order list names (unknown names skipped) -/
theorem feature_text_with_order (cls : Option String) (order : List String) (fs : List (String × String)) :
    featureText { classes := cls, order := some order, feats := some fs } =
      cls.getD "" ++ "\n" ++ String.join (order.filterMap fun k => lookup fs k) := rfl

theorem feature_text_without_features (cls : Option String) (order : Option (List String)) :
    featureText { classes := cls, order := order, feats := none } = cls.getD "" := rfl

/-- **the PostScript hinting data kept in the format-1 lib is moved to font info**: after a successful
    load of a format-1 font whose lib holds hint data `h`, every entry of `h` sits under its font-info
    attribute (zone lists flattened), and an entry that is absent leaves the unconditional attributes unset -/
theorem hint_data_moved (i : Input) (o : Output) (h : List (String × Val)) (h1 : i.fmt = 1)
    (hl : i.hasLib = true) (hh : i.robofab.hint = some h) (hload : load i = .ok o) :
    ∀ row ∈ Gen.hintRows,
      (∀ v, lookup h row.1 = some v → getKey o.info row.2 = some (flatten v)) ∧
      (lookup h row.1 = none → hintConditional.contains row.1 = false → getKey o.info row.2 = none) := by
  have hnd : (Gen.hintRows.map (·.2)).Nodup := by decide +kernel
  have hinfo : ∃ info, o.info = applyHints Gen.hintRows h info := by
    unfold load at hload
    cases hf : fromFile i.fmt i.attrs with
    | error e => simp [hf] at hload
    | ok info =>
      simp only [hf] at hload
      simp only [h1, hl, Bool.and_self, if_true, decide_true, hh] at hload
      cases hs : validated (applyHints Gen.hintRows h info) with
      | error e => simp [hs] at hload
      | ok info' =>
        simp only [hs, Except.ok.injEq] at hload
        refine ⟨info, ?_⟩
        rw [← hload]
        exact (validated_ok hs).1
  obtain ⟨info, e⟩ := hinfo
  intro row hrow
  obtain ⟨acc', hacc⟩ := foldl_hintStep_row h Gen.hintRows hnd info row hrow
  rw [e]
  unfold applyHints
  rw [hacc]
  exact ⟨fun v hv => hintStep_some _ _ _ _ hv, fun hn hc => hintStep_none _ _ _ hn hc⟩

def converted (o : Output) : List (String × Val) × Nat := (o.info, o.formatVersion)

/-- **the data request does not change the conversion**: whichever files the caller asked for, a format-1 or
    format-2 font yields the same font info (hint data included) and reports the same format; with the lib
    switch alone also the same feature text -/
theorem conversion_independent_of_request (i : Input) (l f : Bool) :
    (load { i with reqLib := l, reqFeatures := f }).toOption.map converted = (load i).toOption.map converted ∧
    (load { i with reqLib := l }).toOption.map (·.features) = (load i).toOption.map (·.features) := by
  unfold load
  constructor
  · cases hf : fromFile i.fmt i.attrs with
    | error e => rfl
    | ok info =>
      simp only
      split
      · cases i.robofab.hint with
        | none => rfl
        | some h =>
          simp only
          cases validated (applyHints Gen.hintRows h info) <;> rfl
      · rfl
  · cases hf : fromFile i.fmt i.attrs with
    | error e => rfl
    | ok info =>
      simp only
      split
      · cases i.robofab.hint with
        | none => rfl
        | some h =>
          simp only
          cases validated (applyHints Gen.hintRows h info) <;> rfl
      · rfl

/-- **what else is in the tree does not decide**: whether a legacy font info is accepted depends on the font
    info (and, for format 1, the hint data) alone — not on a `features.fea` being present, empty or not, on the
    other lib keys, or on the data request -/
theorem acceptance_independent_of_other_files (i : Input) (f : Option String) (ks : List String) (l ft : Bool) :
    (load { i with feaFile := f, libKeys := ks, reqLib := l, reqFeatures := ft }).toOption.isSome =
      (load i).toOption.isSome := by
  unfold load
  cases hf : fromFile i.fmt i.attrs with
  | error e => rfl
  | ok info =>
    simp only
    split
    · cases i.robofab.hint with
      | none => rfl
      | some h =>
        simp only
        cases validated (applyHints Gen.hintRows h info) <;> rfl
    · rfl

/-! ### source-level tie of `upconvert_ufov1_robofab_data` (tools/extract_robofab_conv.py)

`Generated.RobofabConv.*` is the statement sequence of the function, regenerated on every run: per statement the
robofab entry, the target and the conversion.  `applyConvRows_model` (Lemmas/RobofabTie.lean, stable) says that
folding the model's table by the conversions of its rows is the model's `applyHints`. -/

def setEq {α} (a b : List α) : Prop := (∀ x ∈ a, x ∈ b) ∧ (∀ x ∈ b, x ∈ a)
instance {α} [DecidableEq α] (a b : List α) : Decidable (setEq a b) := by unfold setEq; infer_instance

/-- the table translated from the source IS the model's table (rows, targets, conversions, in source order), the
    feature statements are the model's, `validate` follows the last assignment, the keys removed from the lib are
    the model's, an empty text is reported as absent -/
theorem source_robofab_table_eq_model :
    Generated.RobofabConv.hintTable = modelHintTable ∧
    Generated.RobofabConv.featureTable = modelFeatureTable ∧
    Generated.RobofabConv.hintValidateAfter = some Generated.RobofabConv.hintTable.length ∧
    setEq Generated.RobofabConv.removed Gen.robofabRemoved ∧
    Generated.RobofabConv.featuresNoneWhenEmpty = true ∧
    (Generated.RobofabConv.hintTable.map (·.2.1)).Nodup := by decide +kernel

/-- hence the fold `load` performs is the fold of the translated statements by their conversions, for every hint
    dictionary and every font info -/
theorem source_robofab_statements_are_applyHints (hint info : List (String × Val)) :
    applyConvRows Generated.RobofabConv.hintTable hint info = applyHints Gen.hintRows hint info := by
  rw [source_robofab_table_eq_model.1]
  exact applyConvRows_model hint info

/-- a successful format-1 load with hint data returns the font info the translated statements produce -/
theorem source_robofab_load_runs_table (i : Input) (o : Output) (h : List (String × Val)) (h1 : i.fmt = 1)
    (hl : i.hasLib = true) (hh : i.robofab.hint = some h) (hload : load i = .ok o) :
    ∃ info, fromFile 1 i.attrs = .ok info ∧
      o.info = applyConvRows Generated.RobofabConv.hintTable h info := by
  unfold load at hload
  cases hf : fromFile i.fmt i.attrs with
  | error e => simp [hf] at hload
  | ok info =>
    simp only [hf] at hload
    simp only [h1, hl, Bool.and_self, if_true, decide_true, hh] at hload
    cases hs : validated (applyHints Gen.hintRows h info) with
    | error e => simp [hs] at hload
    | ok info' =>
      simp only [hs, Except.ok.injEq] at hload
      refine ⟨info, by rw [← h1]; exact hf, ?_⟩
      rw [← hload, source_robofab_statements_are_applyHints]
      exact (validated_ok hs).1

/-- the specification's conversion of a translated row -/
def specKindOfConv : RConv → Option Spec.HintKind
  | .direct => some .copied
  | .copyIfPresent => some .copied
  | .flattenIfPresent => some .zonesFlattened
  | _ => none

def featureRoleOfConv : RConv → Option Nat
  | .appendText => some 0
  | .newlineThenBlocks => some 1
  | .blockOrder => some 2
  | _ => none

/-- every translated row converts as the specification's table prescribes: the entry goes to the attribute
    `Spec.hintAttrs` names, zone lists (and only they) are flattened, everything else is copied; every entry of the
    specification has its statement; the entry types are the specification's; the three feature keys play the
    specification's roles; the lib keys read are exactly the robofab keys, and they are the keys removed -/
theorem source_robofab_conversions_are_spec :
    (∀ row ∈ Generated.RobofabConv.hintTable,
      lookup Spec.hintAttrs row.1 = some row.2.1 ∧ specKindOfConv row.2.2 = some (Spec.hintKindOf row.1)) ∧
    (∀ p ∈ Spec.hintAttrs, ∃ row ∈ Generated.RobofabConv.hintTable, row.1 = p.1 ∧ row.2.1 = p.2) ∧
    setEq (Generated.RobofabConv.hintTypes.map fun t => (t.1, t.2.2)) Spec.hintEntryTypes ∧
    setEq (Generated.RobofabConv.featureTable.filterMap fun r => (featureRoleOfConv r.2.2).map fun n => (r.1, n))
      Spec.featureKeyRoles ∧
    (∀ row ∈ Generated.RobofabConv.featureTable, row.2.1 = "features") ∧
    Generated.RobofabConv.featureFallbackOrder ∈ Spec.fallbackOrders ∧
    setEq (Generated.RobofabConv.libKeys.map (·.1)) Spec.robofabKeys ∧
    setEq Generated.RobofabConv.removed Spec.robofabKeys ∧
    Generated.RobofabConv.hintLibKey = "org.robofab.postScriptHintData" := by decide +kernel

/-- semantically: a present, well-shaped entry (zones for a zone list, anything but zones otherwise) leaves in its
    attribute exactly the value the specification prescribes, whatever the other entries are -/
theorem source_robofab_row_value_is_spec (hint acc : List (String × Val)) (v : Val) :
    ∀ row ∈ Generated.RobofabConv.hintTable, lookup hint row.1 = some v →
      ((Spec.hintKindOf row.1 = .zonesFlattened) ↔ (∃ l, v = .numss l)) →
      getKey (convStep hint acc row) row.2.1 = some (Spec.hintValue (Spec.hintKindOf row.1) v) := by
  intro row hrow hv hshape
  have hk := (source_robofab_conversions_are_spec.1 row hrow).2
  have hp := convStep_present hint acc row v hv
  have hflat : flatten v = Spec.hintValue (Spec.hintKindOf row.1) v := by
    cases hkind : Spec.hintKindOf row.1 with
    | zonesFlattened =>
      obtain ⟨l, rfl⟩ := hshape.1 hkind
      rfl
    | copied =>
      have hn : ¬ ∃ l, v = .numss l := fun h => by
        have := hshape.2 h; rw [hkind] at this; cases this
      cases v <;> first | rfl | exact absurd ⟨_, rfl⟩ hn
  cases hc : row.2.2 with
  | direct => rw [← hflat]; exact hp.1 (Or.inl hc)
  | flattenIfPresent => rw [← hflat]; exact hp.1 (Or.inr hc)
  | copyIfPresent =>
    rw [hc] at hk
    simp only [specKindOfConv, Option.some.injEq] at hk
    rw [← hk]
    have : Spec.hintValue .copied v = v := by cases v <;> rfl
    rw [this]; exact hp.2 hc
  | appendText => rw [hc] at hk; cases hk
  | newlineThenBlocks => rw [hc] at hk; cases hk
  | blockOrder => rw [hc] at hk; cases hk

/-- **the feature statements, interpreted**: for every robofab lib - any blocks, classes or none, an order list that
    is complete, incomplete, with repeated or unknown tags, or none at all - the text assembled by folding the
    statements translated from the source (`String::new()`, then each statement by its conversion) is the model's
    `featureText`; without an order list the source's fallback (`sorted`) reads as the order list of the sorted tags -/
theorem source_robofab_features_eq_model (r : Robofab) :
    featureTextOf Generated.RobofabConv.featureTable Generated.RobofabConv.featureFallbackOrder r =
      featureText (withFallback Generated.RobofabConv.featureFallbackOrder r) := by
  rw [source_robofab_table_eq_model.2.1]
  exact featureTextOf_model _ r

/-- C10's determinism clause for the converted feature text: two block maps holding the same blocks (the same
    hash map iterated in two orders) give the same text, with or without an order list -/
theorem source_robofab_features_deterministic (r : Robofab) (fs fs' : List (String × String))
    (hp : fs'.Perm fs) (hn : (fs.map (·.1)).Nodup) :
    featureTextOf Generated.RobofabConv.featureTable Generated.RobofabConv.featureFallbackOrder
        { r with feats := some fs' } =
      featureTextOf Generated.RobofabConv.featureTable Generated.RobofabConv.featureFallbackOrder
        { r with feats := some fs } :=
  featureTextOf_perm _ _ r fs fs' hp hn (by decide)

/-- the same on the model's side: under the source's fallback the model's text does not depend on the order in
    which the block map is handed to it -/
theorem source_robofab_model_text_deterministic (r : Robofab) (fs fs' : List (String × String))
    (hp : fs'.Perm fs) (hn : (fs.map (·.1)).Nodup) :
    featureText (withFallback Generated.RobofabConv.featureFallbackOrder { r with feats := some fs' }) =
      featureText (withFallback Generated.RobofabConv.featureFallbackOrder { r with feats := some fs }) := by
  rw [← source_robofab_features_eq_model, ← source_robofab_features_eq_model]
  exact source_robofab_features_deterministic r fs fs' hp hn

-- non-vacuity: an incomplete order list with a repeated and an unknown tag; no order list (sorted); no blocks
example : featureTextOf Generated.RobofabConv.featureTable Generated.RobofabConv.featureFallbackOrder
    { classes := some "c", order := some ["b", "x", "b"], feats := some [("a", "A"), ("b", "B")] } = "c\nBB" := by
  decide +kernel
example : featureText (withFallback Generated.RobofabConv.featureFallbackOrder
    { classes := some "c", order := some ["b", "x", "b"], feats := some [("a", "A"), ("b", "B")] }) = "c\nBB" := by
  decide +kernel
example : featureTextOf Generated.RobofabConv.featureTable Generated.RobofabConv.featureFallbackOrder
    { order := some ["a"], feats := some [("b", "B"), ("a", "A")] } = "\nA" := by decide +kernel
example : featureTextOf Generated.RobofabConv.featureTable Generated.RobofabConv.featureFallbackOrder
    { classes := some "c", order := some ["a"] } = "c" := by decide +kernel
example : [("b", "B"), ("a", "A")].Perm [("a", "A"), ("b", "B")] := List.Perm.swap _ _ _

-- non-vacuity: a zone list is flattened, a scalar is copied, an absent unconditional entry clears the attribute
example : getKey (convStep [("blueValues", .numss [[1, 2], [3, 4]])] [] ("blueValues", "postscriptBlueValues", .flattenIfPresent))
    "postscriptBlueValues" = some (.nums [1, 2, 3, 4]) := by decide +kernel
example : ("blueValues", "postscriptBlueValues", RConv.flattenIfPresent) ∈ Generated.RobofabConv.hintTable := by
  decide +kernel
example : Spec.hintKindOf "blueValues" = .zonesFlattened ∧ Spec.hintKindOf "hStems" = .copied := by decide
example : applyConvRows Generated.RobofabConv.hintTable [("forceBold", .bool true)]
    [("postscriptBlueFuzz", .int 1), ("postscriptBlueValues", .nums [1, 2])] =
    [("postscriptBlueValues", .nums [1, 2]), ("postscriptForceBold", .bool true)] := by decide +kernel

/-! ### non-vacuity -/

example : (fromFile 2 [("openTypeHheaAscender", .num 0x4029000000000000)]).toOption =
    some [("openTypeHheaAscender", .int 13)] := by decide +kernel          -- 12.5 ↦ 13
example : (fromFile 2 [("openTypeOS2WinDescent", .num 0xc029000000000000)]).toOption =
    some [("openTypeOS2WinDescent", .int 13)] := by decide +kernel         -- -12.5 ↦ 13
example : (fromFile 1 [("fontStyle", .int 64), ("msCharSet", .int 77), ("widthName", .str "Condensed"),
      ("weightValue", .int (-1)), ("designer", .str "d")]).toOption =
    some [("styleMapStyleName", .str "regular"), ("postscriptWindowsCharacterSet", .int 4),
      ("openTypeOS2WidthClass", .int 3), ("openTypeNameDesigner", .str "d")] := by decide +kernel
example : (fromFile 1 [("fontStyle", .int 2)]).toOption = none := by decide +kernel
example : (fromFile 2 [("postscriptBlueValues", .nums (List.replicate 15 0))]).toOption = none := by
  decide +kernel
example : (fromFile 2 [("postscriptBlueValues", .nums (List.replicate 14 0))]).toOption.isSome = true := by
  decide +kernel

def sampleRobofab : Robofab :=
  { classes := some "c", order := some ["b", "x", "a"], feats := some [("a", "A"), ("b", "B")] }

def sampleInput : Input :=
  { fmt := 1, attrs := [], hasLib := true, robofab := sampleRobofab,
    libKeys := ["keep", "org.robofab.opentype.classes"] }

def featAndLib (o : Output) : String × List String := (o.features, o.libKeys)

example : (load sampleInput).toOption.map featAndLib = some ("c\nBA", ["keep"]) := by decide +kernel

end C14
