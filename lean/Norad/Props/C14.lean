import Norad.Model.FontInfoUp
import Norad.Spec.FontInfoUp
/-!
# C14 — format 1 and 2 font info is converted to format 3 as the spec prescribes
-/
namespace C14
open FI

/-- correspondence between the conversion shapes found in the code and the specification's -/
def sconv : Conv → Spec.SConv
  | .id => .same | .roundI32 => .toInt | .roundAbsU32 => .toNonNegInt | .absNum => .nonNegNum
  | .absU32 => .absInt | .panoseAbs => .absEach | .weight => .weight | .enumWidth => .width
  | .enumCharSet => .charSet | .enumFontStyle => .fontStyle

def asSpec (t : List (String × String × Conv)) : List (String × String × Spec.SConv) :=
  t.map fun (a, b, c) => (a, b, sconv c)

/-- the format-2 table in the code is the specification's table (as sets of rows) -/
theorem v2_table_eq_spec :
    (∀ r ∈ asSpec Gen.v2Table, r ∈ Spec.tableV2) ∧ (∀ r ∈ Spec.tableV2, r ∈ asSpec Gen.v2Table) := by
  decide +kernel

end C14
