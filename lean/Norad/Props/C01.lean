import Norad.Lemmas.NumWriters
import Norad.Lemmas.RoundTrip
/-!
# C01 — saving a font and loading it back preserves all font data

Theorems about the model `Model/RoundTrip.lean` (font = parts; each part has a codec to / from an
abstract file value).  The model follows norad *after* the four `fix:` commits of branch `fix/rt`
(kerning: round before the cast; kerning / font info / unitsPerEm: integer path only inside the i32
range); the writers of the pinned tree are kept as `…Pinned` for the counterexamples.

Full-strength number statement, FALSE on the repaired tree as well (recorded finding, low severity):
  `∀ v finite, Close (w v).val v`   for `w ∈ {kernWrite, infoWrite, upmWrite}`
it fails exactly for non-zero |v| ≤ ε = 2⁻⁵² (`…_counterexample`); under the guard `v = 0 ∨ ε < |v|` it
is proved (`int_or_float_within_1e9`).
-/
namespace RT

/-! ## the number lemma -/

/-- guard of the number lemma: zero, or of magnitude above `f64::EPSILON` -/
def NumGuard (v : ℚ) : Prop := v = 0 ∨ eps < |v|

/-- every finite value under the guard is read back within 1e-9 relative, for each of the three
    int-or-float writers (units-per-em is non-negative by construction of its type) -/
theorem int_or_float_within_1e9 (v : ℚ) (hv : NumGuard v) :
    Close (kernWrite v).val v ∧ Close (infoWrite v).val v ∧ (0 ≤ v → Close (upmWrite v).val v) :=
  ⟨kern_close v hv, info_close v hv, fun h0 => upm_close v h0 hv⟩

example : NumGuard (1 - 1 / 9007199254740992) := by unfold NumGuard eps; right; norm_num [abs_of_pos]
example : NumGuard 3000000000 := by unfold NumGuard eps; right; norm_num [abs_of_pos]

/-- the guard cannot be dropped: 10⁻¹⁷ is written as the integer 0 by all three writers, and 0 is not
    within 1e-9 relative of 10⁻¹⁷ (recorded finding `tiny-written-as-zero`) -/
theorem int_or_float_within_1e9_counterexample :
    kernWrite (1 / 100000000000000000) = .int 0 ∧ infoWrite (1 / 100000000000000000) = .int 0 ∧
    upmWrite (1 / 100000000000000000) = .int 0 ∧ ¬ Close (Num.int 0).val (1 / 100000000000000000) := by
  refine ⟨by decide +kernel, by decide +kernel, by decide +kernel, ?_⟩
  unfold Close Num.val; norm_num

/-- pinned tree: the kerning writer tests `round` but truncates: one ulp below 1 is written as 0;
    repaired (`fix:` round before the cast): written as 1 -/
theorem kerning_truncation_pinned_counterexample :
    kernWritePinned (1 - 1 / 9007199254740992) = .int 0 ∧ kernWrite (1 - 1 / 9007199254740992) = .int 1 := by
  constructor <;> decide +kernel

/-- pinned tree: `as i32` saturates, 3·10⁹ ↦ 2147483647 for all three writers;
    repaired (`fix:` range guard): written as a real -/
theorem saturation_pinned_counterexample :
    kernWritePinned 3000000000 = .int 2147483647 ∧ infoWritePinned 3000000000 = .int 2147483647 ∧
    upmWritePinned 3000000000 = .int 2147483647 ∧
    kernWrite 3000000000 = .real 3000000000 ∧ infoWrite 3000000000 = .real 3000000000 ∧
    upmWrite 3000000000 = .real 3000000000 := by
  refine ⟨?_, ?_, ?_, ?_, ?_, ?_⟩ <;> decide +kernel

/-! ### the same at the level of in-memory numbers (bit patterns / integers read from a file) -/

/-- two in-memory numbers agree: finite values within the tolerance, anything else identical -/
def CloseV (a b : NumV) : Prop :=
  match a.val?, b.val? with
  | some x, some y => Close x y
  | _, _ => a = b

def NumOK (v : NumV) : Prop := ∀ q, v.val? = some q → NumGuard q

/-- write with any writer that is within tolerance under the guard, read back: within tolerance;
    non-finite values are written as reals and come back identical -/
theorem num_roundtrip (w : ℚ → Num) (hw : ∀ q, NumGuard q → Close (w q).val q) (v : NumV) (hv : NumOK v) :
    CloseV (readNum (writeWith w v)) v := by
  unfold writeWith
  cases h : v.val? with
  | none => simp [readNum, CloseV, h]
  | some q =>
    simp only
    have hc := hw q (hv q h)
    cases hwq : w q with
    | int k =>
      simp only [readNum]
      unfold CloseV
      rw [h]
      simp only [NumV.val?]
      rw [hwq] at hc; exact hc
    | real x =>
      simp only [readNum, CloseV, h]
      exact close_refl q

theorem kerning_value_roundtrip (v : NumV) (hv : NumOK v) : CloseV (readNum (writeWith kernWrite v)) v :=
  num_roundtrip kernWrite (fun q h => kern_close q h) v hv

theorem fontinfo_value_roundtrip (v : NumV) (hv : NumOK v) : CloseV (readNum (writeWith infoWrite v)) v :=
  num_roundtrip infoWrite (fun q h => info_close q h) v hv

/-! ## lib: recursive key sorting keeps the dictionary (as a map, at every depth) -/

/-- `lib.plist` / `layerinfo.plist` lib / object libs: what is written (keys sorted recursively) shows
    at every path the same node as the in-memory dictionary -/
theorem lib_roundtrip (d : Dict) (p : List Seg) :
    ((PV.dict (sortDict d)).get p).map PV.leaf = ((PV.dict d).get p).map PV.leaf := by
  have := sortRec_get_leaf p (PV.dict d)
  simpa [sortRec, sortDict] using this

example : (sortDict [("b", PV.int 1), ("a", PV.dict [("z", PV.bool true), ("y", PV.str "s")])]).map (·.1) = ["a", "b"] := by
  decide

/-! ## features: CR LF → LF -/

/-- what is read back is the saved text with CR LF replaced by LF; it has the same line-ending normal
    form as the original -/
theorem features_roundtrip (s : List Char) : lfNorm (crlfToLf s) = lfNorm s := lfNorm_crlfToLf s

/-- the replacement is not idempotent (CR CR LF ↦ CR LF ↦ LF): "equal up to CR LF" has to be read as
    equality of the normal forms -/
theorem crlfToLf_not_idempotent_counterexample :
    crlfToLf (crlfToLf ['\r', '\r', '\n']) ≠ crlfToLf ['\r', '\r', '\n'] := by decide

/-! ## layers: order -/

/-- a font whose first layer is the default one (every font the containers can hold, C06) loads with
    its layers in the saved order -/
theorem layers_roundtrip_order (l : Layer) (r : List Layer) (h : l.dir = glyphsDir) :
    defaultFirst (l :: r) = .ok (l :: r) := defaultFirst_id l r h

/-- foreign input (C04): the default layer is moved to the front, the others keep their file order -/
theorem layers_default_moved_to_front (ls : List Layer) (i : Nat) (h : findDefault ls = some i) :
    ∃ d, ls[i]? = some d ∧ d.dir = glyphsDir ∧ defaultFirst ls = .ok (d :: ls.eraseIdx i) := by
  obtain ⟨d, h1, h2, _⟩ := findDefault_spec ls i h
  exact ⟨d, h1, h2, by simp [defaultFirst, h, h1]⟩

/-! ## metainfo -/

/-- whatever the creator of the font in memory, what is written says norad, format 3 -/
theorem metainfo_roundtrip (f : Font) (t : Tree) (h : saveFont f = .ok t) :
    t.creator = some defaultCreator ∧ t.fv = 3 := by
  unfold saveFont at h
  split at h; · cases h
  split at h; · cases h
  split at h; · cases h
  split at h
  · cases h
  · cases h
  · split at h
    · cases h
    · cases h
      constructor
      · simp only [mkTree]; split <;> simp_all
      · rfl

end RT
