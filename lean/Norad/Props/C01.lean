import Norad.Lemmas.NumWriters
import Norad.Lemmas.RoundTrip
import Norad.Lemmas.FontRT
import Norad.Generated.RoundTrip
import Norad.Generated.Vocab
import Norad.Lemmas.FieldTable
import Mathlib.Data.List.Forall2
/-!
# C01 — saving a font and loading it back preserves all font data

Theorems about the model `Model/RoundTrip.lean` (font = parts; each part has a codec to / from an
abstract file value).  The model follows norad *after* the four `fix:` commits of branch `fix/rt`
(kerning: round before the cast; kerning / font info / unitsPerEm: integer path only inside the i32
range); the writers of the pinned tree are kept as `…Pinned` for the counterexamples.

Full-strength number statement, FALSE on the repaired tree as well (recorded finding, low severity):
  `∀ v finite, Close (w v).val v`   for `w ∈ {kernWrite, infoWrite, upmWrite}`
it fails exactly for non-zero |v| ≤ ε = 2⁻⁵² (`…_counterexample`); under the guard `v = 0 ∨ ε < |v|` it
is proved (`int_or_float_within_1e9`).
-/
namespace RT

variable {P : Parts} (L : PartLaws P)

/-! ## the number lemma -/

/-- guard of the number lemma: zero, or of magnitude above `f64::EPSILON` -/
def NumGuard (v : ℚ) : Prop := v = 0 ∨ eps < |v|

/-- every finite value under the guard is read back within 1e-9 relative, for each of the three
    int-or-float writers (units-per-em is non-negative by construction of its type) -/
theorem int_or_float_within_1e9 (v : ℚ) (hv : NumGuard v) :
    Close (kernWrite v).val v ∧ Close (infoWrite v).val v ∧ (0 ≤ v → Close (upmWrite v).val v) :=
  ⟨kern_close v hv, info_close v hv, fun h0 => upm_close v h0 hv⟩

example : NumGuard (1 - 1 / 9007199254740992) := by unfold NumGuard eps; right; norm_num [abs_of_pos]
example : NumGuard 3000000000 := by unfold NumGuard eps; right; norm_num [abs_of_pos]

/-- the guard cannot be dropped: 10⁻¹⁷ is written as the integer 0 by all three writers, and 0 is not
    within 1e-9 relative of 10⁻¹⁷ (recorded finding `tiny-written-as-zero`) -/
theorem int_or_float_within_1e9_counterexample :
    kernWrite (1 / 100000000000000000) = .int 0 ∧ infoWrite (1 / 100000000000000000) = .int 0 ∧
    upmWrite (1 / 100000000000000000) = .int 0 ∧ ¬ Close (Num.int 0).val (1 / 100000000000000000) := by
  refine ⟨by decide +kernel, by decide +kernel, by decide +kernel, ?_⟩
  unfold Close Num.val; norm_num

/-- pinned tree: the kerning writer tests `round` but truncates: one ulp below 1 is written as 0;
    repaired (`fix:` round before the cast): written as 1 -/
theorem kerning_truncation_pinned_counterexample :
    kernWritePinned (1 - 1 / 9007199254740992) = .int 0 ∧ kernWrite (1 - 1 / 9007199254740992) = .int 1 := by
  constructor <;> decide +kernel

/-- pinned tree: `as i32` saturates, 3·10⁹ ↦ 2147483647 for all three writers;
    repaired (`fix:` range guard): written as a real -/
theorem saturation_pinned_counterexample :
    kernWritePinned 3000000000 = .int 2147483647 ∧ infoWritePinned 3000000000 = .int 2147483647 ∧
    upmWritePinned 3000000000 = .int 2147483647 ∧
    kernWrite 3000000000 = .real 3000000000 ∧ infoWrite 3000000000 = .real 3000000000 ∧
    upmWrite 3000000000 = .real 3000000000 := by
  refine ⟨?_, ?_, ?_, ?_, ?_, ?_⟩ <;> decide +kernel

/-! ### the same at the level of in-memory numbers (bit patterns / integers read from a file) -/

/-- two in-memory numbers agree: finite values within the tolerance, anything else identical -/
def CloseV (a b : NumV) : Prop :=
  match a.val?, b.val? with
  | some x, some y => Close x y
  | _, _ => a = b

def NumOK (v : NumV) : Prop := ∀ q, v.val? = some q → NumGuard q

/-- write with any writer that is within tolerance under the guard, read back: within tolerance;
    non-finite values are written as reals and come back identical -/
theorem num_roundtrip (w : ℚ → Num) (hw : ∀ q, NumGuard q → Close (w q).val q) (v : NumV) (hv : NumOK v) :
    CloseV (readNum (writeWith w v)) v := by
  unfold writeWith
  cases h : v.val? with
  | none => simp [readNum, CloseV, h]
  | some q =>
    simp only
    have hc := hw q (hv q h)
    cases hwq : w q with
    | int k =>
      simp only [readNum]
      unfold CloseV
      rw [h]
      simp only [NumV.val?]
      rw [hwq] at hc; exact hc
    | real x =>
      simp only [readNum, CloseV, h]
      exact close_refl q

theorem kerning_value_roundtrip (v : NumV) (hv : NumOK v) : CloseV (readNum (writeWith kernWrite v)) v :=
  num_roundtrip kernWrite (fun q h => kern_close q h) v hv

theorem fontinfo_value_roundtrip (v : NumV) (hv : NumOK v) : CloseV (readNum (writeWith infoWrite v)) v :=
  num_roundtrip infoWrite (fun q h => info_close q h) v hv

/-! ## lib: recursive key sorting keeps the dictionary (as a map, at every depth) -/

/-- `lib.plist` / `layerinfo.plist` lib / object libs: what is written (keys sorted recursively) shows
    at every path the same node as the in-memory dictionary -/
theorem lib_roundtrip (d : Dict) (p : List Seg) :
    ((PV.dict (sortDict d)).get p).map PV.leaf = ((PV.dict d).get p).map PV.leaf := by
  have := sortRec_get_leaf p (PV.dict d)
  simpa [sortRec, sortDict] using this

example : (sortDict [("b", PV.int 1), ("a", PV.dict [("z", PV.bool true), ("y", PV.str "s")])]).map (·.1) = ["a", "b"] := by
  decide

/-! ## features: CR LF → LF -/

/-- what is read back is the saved text with CR LF replaced by LF; it has the same line-ending normal
    form as the original -/
theorem features_roundtrip (s : List Char) : lfNorm (crlfToLf s) = lfNorm s := lfNorm_crlfToLf s

/-- the replacement is not idempotent (CR CR LF ↦ CR LF ↦ LF): "equal up to CR LF" has to be read as
    equality of the normal forms -/
theorem crlfToLf_not_idempotent_counterexample :
    crlfToLf (crlfToLf ['\r', '\r', '\n']) ≠ crlfToLf ['\r', '\r', '\n'] := by decide

/-! ## layers: order -/

/-- a font whose first layer is the default one (every font the containers can hold, C06) loads with
    its layers in the saved order -/
theorem layers_roundtrip_order (l : (Layer P)) (r : List (Layer P)) (h : l.dir = glyphsDir) :
    defaultFirst (l :: r) = .ok (l :: r) := defaultFirst_id l r h

/-- foreign input (C04): the default layer is moved to the front, the others keep their file order -/
theorem layers_default_moved_to_front (ls : List (Layer P)) (i : Nat) (h : findDefault ls = some i) :
    ∃ d, ls[i]? = some d ∧ d.dir = glyphsDir ∧ defaultFirst ls = .ok (d :: ls.eraseIdx i) := by
  obtain ⟨d, h1, h2, _⟩ := findDefault_spec ls i h
  exact ⟨d, h1, h2, by simp [defaultFirst, h, h1]⟩

/-! ## metainfo -/

/-- whatever the creator of the font in memory, what is written says norad, format 3 -/
theorem metainfo_roundtrip (f : (Font P)) (t : (Tree P)) (h : saveFont f = .ok t) :
    t.creator = some defaultCreator ∧ t.fv = 3 := by
  unfold saveFont at h
  split at h; · cases h
  split at h; · cases h
  split at h; · cases h
  split at h; · cases h
  split at h
  · cases h
  · cases h
  · split at h
    · cases h
    · cases h
      constructor
      · simp only [mkTree]; split <;> simp_all
      · rfl

/-! ## the whole font -/

/-- two dictionaries are the same map, at every depth, whatever the key order -/
def DictEquiv (d d' : Dict) : Prop :=
  ∀ k p, ((lookupKV k d').bind (·.get p)).map PV.leaf = ((lookupKV k d).bind (·.get p)).map PV.leaf

theorem dictEquiv_sort (d : Dict) : DictEquiv d (sortDict d) := by
  intro k p
  rw [lookup_sortDict]
  cases lookupKV k d with
  | none => rfl
  | some v => simpa using sortRec_get_leaf p v

/-- a channel read back as k/1000 is the original to three decimals -/
def ChanEq (b k : Nat) : Prop := ∃ q, decode b = some q ∧ |q * 1000 - (k : ℚ)| ≤ 1 / 2

def ColEquiv : ColV → ColV → Prop
  | .bits r g b a, .milli r' g' b' a' => ChanEq r r' ∧ ChanEq g g' ∧ ChanEq b b' ∧ ChanEq a a'
  | .milli r g b a, .milli r' g' b' a' => r = r' ∧ g = g' ∧ b = b' ∧ a = a'
  | _, _ => False

def OptRel {α β : Type} (R : α → β → Prop) : Option α → Option β → Prop
  | none, none => True
  | some a, some b => R a b
  | _, _ => False

def GuideEquiv (g g' : Guide) : Prop := g'.id = g.id ∧ g'.rest = g.rest ∧ OptRel DictEquiv g.lib g'.lib

/-- a glyph after the round trip: same name, same file, and the glyph the parser returns for the
    written one (`normGlyph`: the identity for opaque tokens; C02's `normG` for norad's glif codec) -/
def GlyphEquiv (g g' : (GlyphE P)) : Prop := g'.name = g.name ∧ g'.file = g.file ∧ g'.tok = L.normGlyph g.tok

def LayerEquiv (l l' : (Layer P)) : Prop :=
  l'.name = l.name ∧ l'.dir = l.dir ∧ OptRel ColEquiv l.color l'.color ∧ DictEquiv l.lib l'.lib ∧
  List.Forall₂ (GlyphEquiv L) l.glyphs l'.glyphs

def NumEntryEquiv (a b : String × NumV) : Prop :=
  b.1 = a.1 ∧ (if isLenKey a.1 = true then b.2 = a.2 else CloseV b.2 a.2)

/-- "the same font": what C01 demands of `load(save(f))`.  Layers in the same order; numbers within
    1e-9 relative; colours to three decimals; dictionaries as maps; feature text up to CR LF; the
    un-modelled parts (glyph tokens, other font-info fields, store entries) identical -/
structure FontEquiv (f f' : (Font P)) : Prop where
  creator : f'.creator = some defaultCreator
  fv : f'.fv = 3
  nums : List.Forall₂ NumEntryEquiv f.info.nums f'.info.nums
  upm : OptRel (fun a b => CloseV b a) f.info.upm f'.info.upm
  guides : OptRel (List.Forall₂ GuideEquiv) f.info.guides f'.info.guides
  rest : f'.info.rest = f.info.rest
  lib : DictEquiv f.lib f'.lib
  groups : f'.groups = f.groups
  kerning : List.Forall₂ (fun a b => b.1 = a.1 ∧ List.Forall₂ (fun p q => q.1 = p.1 ∧ CloseV q.2 p.2) a.2 b.2)
    f.kerning f'.kerning
  features : lfNorm f'.features = lfNorm f.features
  layers : List.Forall₂ (LayerEquiv L) f.layers f'.layers
  data : f'.data = f.data
  images : f'.images = f.images

/-- a colour built through `Color::new` (finite channels ≥ 0), or one that was loaded -/
def ColOK : ColV → Prop
  | .bits r g b a => ∀ x ∈ [r, g, b, a], ∃ q, decode x = some q ∧ 0 ≤ q
  | .milli _ _ _ _ => True

/-- the number guards of `font_roundtrip` (the recorded finding lives outside them) -/
structure NumbersOK (f : (Font P)) : Prop where
  info : ∀ e ∈ f.info.nums, isLenKey e.1 = false → NumOK e.2
  upm : ∀ v, f.info.upm = some v → NumOK v ∧ ∀ q, v.val? = some q → 0 ≤ q
  kerning : ∀ e ∈ f.kerning, ∀ p ∈ e.2, NumOK p.2
  colours : ∀ l ∈ f.layers, ∀ c, l.color = some c → ColOK c

theorem forall₂_map_self {α β : Type} (R : α → β → Prop) (g : α → β) (l : List α) (h : ∀ a ∈ l, R a (g a)) :
    List.Forall₂ R l (l.map g) := by
  induction l with
  | nil => exact List.Forall₂.nil
  | cons a r ih =>
    exact List.Forall₂.cons (h a (List.mem_cons_self ..)) (ih fun x hx => h x (List.mem_cons_of_mem _ hx))

theorem milliOf_close (q : ℚ) (h : 0 ≤ q) : |q * 1000 - ((milliOf q : ℕ) : ℚ)| ≤ 1 / 2 := by
  unfold milliOf
  simp only [floor_eq]
  have hx : (0 : ℚ) ≤ q * 1000 := by positivity
  have hf0 : 0 ≤ ⌊q * 1000⌋ := Int.floor_nonneg.2 hx
  have h1 := Int.floor_le (q * 1000)
  have h2 := Int.lt_floor_add_one (q * 1000)
  have key : ∀ k : ℤ, 0 ≤ k → |q * 1000 - (k : ℚ)| ≤ 1 / 2 → |q * 1000 - ((k.toNat : ℕ) : ℚ)| ≤ 1 / 2 := by
    intro k hk hc
    rw [show ((k.toNat : ℕ) : ℚ) = ((k : ℤ) : ℚ) by rw [← Int.cast_natCast, Int.toNat_of_nonneg hk]]
    exact hc
  by_cases hr1 : q * 1000 - ((⌊q * 1000⌋ : ℤ) : ℚ) < 1 / 2
  · simp only [hr1, ↓reduceIte]
    apply key _ hf0
    rw [abs_le]; constructor <;> linarith
  · simp only [hr1, ↓reduceIte]
    by_cases hr2 : 1 / 2 < q * 1000 - ((⌊q * 1000⌋ : ℤ) : ℚ)
    · simp only [hr2, ↓reduceIte]
      apply key _ (by omega)
      push_cast; rw [abs_le]; constructor <;> linarith
    · simp only [hr2, ↓reduceIte]
      have hr : q * 1000 - ((⌊q * 1000⌋ : ℤ) : ℚ) = 1 / 2 := le_antisymm (not_lt.1 hr2) (not_lt.1 hr1)
      by_cases hr3 : ⌊q * 1000⌋ % 2 = 0
      · simp only [hr3, ↓reduceIte]
        apply key _ hf0
        rw [abs_le]; constructor <;> linarith
      · simp only [hr3, ↓reduceIte]
        apply key _ (by omega)
        push_cast; rw [abs_le]; constructor <;> linarith

theorem chanEq_milli (x : Nat) (h : ∃ q, decode x = some q ∧ 0 ≤ q) : ChanEq x (chanMilli x) := by
  obtain ⟨q, h1, h2⟩ := h
  exact ⟨q, h1, by simpa [chanMilli, h1] using milliOf_close q h2⟩

/-- `layerinfo_roundtrip`: colour to three decimals, lib as a map -/
theorem layerinfo_roundtrip (l : (Layer P)) (hc : ∀ c, l.color = some c → ColOK c) :
    LayerEquiv L l (rtLayer L l) := by
  refine ⟨rfl, rfl, ?_, dictEquiv_sort l.lib,
    forall₂_map_self (GlyphEquiv L) (normE L) l.glyphs (fun g _ => ⟨rfl, rfl, rfl⟩)⟩
  simp only [rtLayer]
  cases hcol : l.color with
  | none => trivial
  | some c =>
    have hx := hc c hcol
    cases c with
    | bits r g b a =>
      simp only [Option.map_some, OptRel, milliCol, saveColor, ColEquiv]
      exact ⟨chanEq_milli r (hx r (by simp)), chanEq_milli g (hx g (by simp)), chanEq_milli b (hx b (by simp)),
        chanEq_milli a (hx a (by simp))⟩
    | milli r g b a => simp [OptRel, milliCol, saveColor, ColEquiv]

theorem dictEquiv_rtLib (f : (Font P)) (hk : lookupKV objectLibsKey f.lib = none) : DictEquiv f.lib (rtLib f) := by
  unfold rtLib
  split
  · exact dictEquiv_sort f.lib
  · intro k p
    by_cases hkk : k = objectLibsKey
    · subst hkk; rw [lookupKV_erase_self, hk]
    · rw [lookupKV_erase_ne _ _ _ hkk, lookup_sortDict, lookupKV_append_ne _ _ _ _ (Ne.symm hkk)]
      cases lookupKV k f.lib with
      | none => rfl
      | some v => simpa using sortRec_get_leaf p v

/-- `groups_kerning_roundtrip`, kerning half (groups are written and read as they are) -/
theorem kerning_roundtrip (k : List (String × List (String × NumV))) (h : ∀ e ∈ k, ∀ p ∈ e.2, NumOK p.2) :
    List.Forall₂ (fun a b => b.1 = a.1 ∧ List.Forall₂ (fun p q => q.1 = p.1 ∧ CloseV q.2 p.2) a.2 b.2)
      k (loadKerning (saveKerning k)) := by
  have : loadKerning (saveKerning k) =
      k.map (fun e => (e.1, e.2.map fun p => (p.1, readNum (writeWith kernWrite p.2)))) := by
    simp [loadKerning, saveKerning, List.map_map, Function.comp_def]
  rw [this]
  apply forall₂_map_self
  intro e he
  refine ⟨rfl, ?_⟩
  apply forall₂_map_self
  intro p hp
  exact ⟨rfl, kerning_value_roundtrip p.2 (h e he p hp)⟩

theorem guides_roundtrip (gs : List Guide) : List.Forall₂ GuideEquiv gs (gs.map sortGuide) := by
  apply forall₂_map_self
  intro g _
  refine ⟨rfl, rfl, ?_⟩
  simp only [sortGuide]
  cases g.lib with
  | none => trivial
  | some l => exact dictEquiv_sort l

/-- **C01, model level.**  Every valid font whose numbers are inside the guard is saved without error,
    the saved tree loads without error, and the loaded font is the same font: same layers in the same
    order with colour (3 decimals) and lib, same glyph tokens, font info, groups, kerning, lib, feature
    text up to CR LF, data and images; numbers within 1e-9 relative.  The write options do not occur:
    the abstract file values do not depend on them (indentation and quoting are below this model; the
    correspondence runs every case under varying options). -/
theorem font_roundtrip (f : (Font P)) (hv : ValidFont L f) (hn : NumbersOK f) :
    ∃ t f', saveFont f = .ok t ∧ loadFont t = .ok f' ∧ FontEquiv L f f' := by
  obtain ⟨t, h1, h2⟩ := save_load_eq L f hv
  refine ⟨t, rtFont L f, h1, h2, ?_⟩
  refine { creator := rfl, fv := rfl, nums := ?_, upm := ?_, guides := ?_, rest := rfl,
           lib := dictEquiv_rtLib f hv.noKey, groups := rfl, kerning := kerning_roundtrip _ hn.kerning,
           features := features_roundtrip _, layers := ?_, data := rfl, images := rfl }
  · have : (rtFont L f).info.nums = f.info.nums.map
        (fun e => (e.1, readNum (if isLenKey e.1 = true then NumW.real e.2 else writeWith infoWrite e.2))) := by
      simp [rtFont, rtInfo, loadNums, saveNums, List.map_map, Function.comp_def]
    rw [this]
    apply forall₂_map_self
    intro e he
    refine ⟨rfl, ?_⟩
    by_cases hl : isLenKey e.1 = true
    · simp [hl, readNum]
    · simp only [hl]
      exact fontinfo_value_roundtrip e.2 (hn.info e he (by simpa using hl))
  · simp only [rtFont, rtInfo]
    cases hu : f.info.upm with
    | none => trivial
    | some v =>
      obtain ⟨h1, h2⟩ := hn.upm v hu
      simp only [Option.map_some, OptRel]
      unfold writeWith
      cases hq : v.val? with
      | none => simp [readNum, CloseV, hq]
      | some q =>
        simp only
        have hc := upm_close q (h2 q hq) (h1 q hq)
        cases hwq : upmWrite q with
        | int k =>
          simp only [readNum]
          unfold CloseV
          rw [hq]
          simp only [NumV.val?]
          rw [hwq] at hc; exact hc
        | real x =>
          simp only [readNum, CloseV, hq]
          exact close_refl q
  · simp only [rtFont, rtInfo]
    cases f.info.guides with
    | none => trivial
    | some gs => exact guides_roundtrip gs
  · simp only [rtFont]
    apply forall₂_map_self
    intro l hl
    exact layerinfo_roundtrip L l (hn.colours l hl)

/-- non-vacuity: the empty font is valid and inside the number guards -/
def emptyFont : Font tokenParts where
  creator := none
  fv := 3
  minor := 0
  info := {}
  lib := []
  groups := []
  kerning := []
  features := []
  layers := [{ name := "public.default", dir := "glyphs" }]
  data := []
  images := []

example : ValidFont tokenLaws emptyFont where
  fv := rfl
  noKey := rfl
  ids := rfl
  libIds := by intro g hg; cases hg
  dirs := by decide
  defFirst := ⟨_, _, rfl, rfl⟩
  files := by intro l hl; simp [emptyFont] at hl; subst hl; rfl
  glyphsOK := by intro l hl g hg; simp [emptyFont] at hl; subst hl; cases hg
  restValid := rfl

/-! ## source-level tie (DESIGN 11.8): what `tools/extract_roundtrip.py` read from the Rust of THIS run

`Generated.RoundTrip` is regenerated from `src/glyph/serialize.rs`, `src/glyph/parse.rs`, `src/glyph/mod.rs`,
`src/font.rs`, `src/layer.rs`, `src/fontinfo.rs`, `src/kerning.rs` before the build.  The writer omits a value
under a gate; the reader assumes a value when it is absent; the two must be the same value. -/

namespace Source
open Generated.RoundTrip

def readerDefault (e a : String) : Option String :=
  (glifReaderDefaults.find? (fun r => r.elem == e && r.attr == a)).map (·.dflt)

/-- an attribute that is always written needs no default; one that is omitted at `v` must be read as `v` -/
def attrRowOk (w : WRow) : Bool :=
  w.omitted == "-" || readerDefault w.elem w.attr == some w.omitted

/-- the glyph fields an element fills, and which reader default (of `Glyph::new_impl`) an omitted element leaves -/
def elementFields : String → List String
  | "advance" => ["width", "height"]
  | "image" => ["image"]
  | "lib" => ["lib"]
  | "note" => ["note"]
  | "outline" => ["contours", "components"]
  | "contour" => ["contours"]
  | "component" => ["components"]
  | "anchor" => ["anchors"]
  | "guideline" => ["guidelines"]
  | "unicode" => ["codepoints"]
  | _ => ["?"]

/-- gate of a whole element vs the default of the fields it fills (`neither-normal` vs `0`: the advance is
    dropped for 0/0 — and for subnormal, infinite and NaN values, the recorded C02 finding) -/
def elementGateOk (gate dflt : String) : Bool :=
  (gate == "none" && dflt == "none") || (gate == "empty" && dflt == "empty") ||
  (gate == "both-empty" && dflt == "empty") || (gate == "each" && dflt == "empty") ||
  (gate == "neither-normal" && dflt == "0")

def elementRowOk (r : String × String) : Bool :=
  (elementFields r.1).all fun f => match readerDefault "glyph" f with
    | some d => elementGateOk r.2 d
    | none => false

/-- an optional file / key: the condition under which it is not written vs what load gives without it -/
def fileGateOk (gate read : String) : Bool :=
  (gate == "empty" && read == "empty") || (gate == "none" && read == "none") ||
  (gate == "color-none-and-lib-empty" && read == "none+empty")

def fileRowOk (r : String × String) : Bool :=
  match absentReads.find? (fun a => a.1 == r.1) with
  | some a => fileGateOk r.2 a.2
  | none => false

/-- the optional parts this model gates, with the gate the model uses (`mkTree`, `saveLayerInfo`) -/
def modelFileGates : List (String × String) :=
  [("data", "empty"), ("features.fea", "empty"), ("fontinfo.plist", "empty"), ("groups.plist", "empty"),
   ("images", "empty"), ("kerning.plist", "empty"), ("layerinfo.plist", "color-none-and-lib-empty"),
   ("layerinfo.plist:color", "none"), ("layerinfo.plist:lib", "empty"), ("lib.plist", "empty")]

/-- the three writers of the model: function under the test, comparison, threshold, bounds, what is cast
    (`kernWrite`, `infoWrite`, `upmWrite`) -/
def modelNumberWriters : List NRow :=
  [⟨"kerning", "round", "lt", "f64::EPSILON", "ge i32::MIN", "le i32::MAX", "rounded"⟩,
   ⟨"fontinfo", "fract", "le", "f64::EPSILON", "ge i32::MIN", "le i32::MAX", "raw"⟩,
   ⟨"unitsPerEm", "fract", "lt", "f64::EPSILON", "-", "le i32::MAX", "raw"⟩]

end Source

open Generated.RoundTrip Source in
/-- **every attribute the glif writer omits under a gate is omitted exactly at the value the glif parser
    assumes when the attribute is absent** (smooth / false, type / offcurve, the six transform coefficients at
    the identity, advance width and height / 0, every optional name, colour, identifier / none) -/
theorem source_gates_match_defaults : glifWriter.all attrRowOk = true := by decide

open Generated.RoundTrip Source in
/-- every element the glif writer leaves out is left out exactly when the glyph field it fills has the value
    `Glyph::new_impl` starts from -/
theorem source_element_gates_match_defaults : glifElementGates.all elementRowOk = true := by decide

open Generated.RoundTrip Source in
/-- **every file (and layerinfo key) that is written only when non-empty reads back as the empty value when it
    is absent**, and `FontInfo::is_empty` is equality with the default value the loader uses -/
theorem source_absent_files_read_as_empty :
    fileGates.all fileRowOk = true ∧ fontinfoEmptyIsDefault = true := by decide

open Generated.RoundTrip Source in
/-- the gates of the optional files in the source are the gates of the model (`mkTree`, `saveLayerInfo`) … -/
theorem source_file_gates_match_model : fileGates = modelFileGates := by decide

/-- … and these ARE the model's gates: nothing optional is written for the empty font, and what `loadFont`
    returns for a tree without the optional files is the empty value of every part -/
theorem model_file_gates (ol : Dict) :
    (mkTree emptyFont []).fontinfo.isNone ∧ (mkTree emptyFont []).lib.isNone ∧ (mkTree emptyFont []).groups.isNone ∧
    (mkTree emptyFont []).kerning.isNone ∧ (mkTree emptyFont []).features.isNone ∧
    (mkTree { emptyFont with lib := [("k", PV.bool true)] } ol).lib.isSome ∧
    (mkTree { emptyFont with groups := [("g", [])] } ol).groups.isSome ∧
    (mkTree { emptyFont with kerning := [("a", [])] } ol).kerning.isSome ∧
    (mkTree { emptyFont with features := ['x'] } ol).features.isSome ∧
    (mkTree { emptyFont with info := { rest := some "r" } } ol).fontinfo.isSome ∧
    (saveLayerInfo ({ name := "n", dir := "d" } : Layer tokenParts)).isNone ∧
    (saveLayerInfo ({ name := "n", dir := "d", lib := [("k", PV.bool true)] } : Layer tokenParts)).isSome ∧
    (saveLayerInfo ({ name := "n", dir := "d", color := some (ColV.milli 0 0 0 0) } : Layer tokenParts)).isSome := by
  refine ⟨rfl, rfl, rfl, rfl, rfl, ?_, rfl, rfl, rfl, rfl, rfl, rfl, rfl⟩
  simp [mkTree, emptyFont]
  split <;> simp

open Generated.RoundTrip Source in
/-- **the constants and tests of the three int-or-float writers in the source are those of the model**:
    `f64::EPSILON` = `eps`, the i32 bounds, strict / non-strict comparison, what is cast; the colour string has
    as many decimals as the model's thousandths -/
theorem source_number_writers_match_model :
    numberWriters = modelNumberWriters ∧ eps = 1 / (epsilonDen : ℚ) ∧ RT.i32Max = Generated.RoundTrip.i32Max ∧
    RT.i32Min = Generated.RoundTrip.i32Min ∧ 10 ^ colorDecimals = 1000 := by
  refine ⟨by decide, ?_, rfl, rfl, by decide⟩
  unfold eps epsilonDen; norm_num

/-- the descriptor `modelNumberWriters` describes the model: strictness at distance exactly ε, the cast of the
    rounded (kerning) or the raw truncated value (font info, unitsPerEm), the upper bound inclusive -/
theorem model_number_writers :
    kernWrite (1 - eps) = .real (1 - eps) ∧ kernWrite (1 - eps / 2) = .int 1 ∧
    infoWrite (1 + eps) = .int 1 ∧ infoWrite (-1 - eps) = .int (-1) ∧ infoWrite (1 - eps / 2) = .real (1 - eps / 2) ∧
    upmWrite (1 + eps) = .real (1 + eps) ∧ upmWrite (1 + eps / 2) = .int 1 ∧
    kernWrite 2147483647 = .int 2147483647 ∧ kernWrite 2147483648 = .real 2147483648 ∧
    infoWrite (-2147483648) = .int (-2147483648) ∧ upmWrite 2147483647 = .int 2147483647 := by
  refine ⟨?_, ?_, ?_, ?_, ?_, ?_, ?_, ?_, ?_, ?_, ?_⟩ <;> decide +kernel

/-! ## serde of the font-info fields, of the metainfo and of guideline geometry: one table-driven round trip

The field tables are the REGENERATED ones (`Generated.Vocab`, from `src/fontinfo.rs`, `src/font.rs`, `src/guideline.rs` of the
run): 108 font-info fields with their plist keys and Rust types, 14 record types resolved recursively.  The shape part
(keys pairwise different in every struct at every depth, all leaf types among the 17 known ones) is decided on the table;
the value part is `FT.roundtrip`, structural.  What stays assumed is `FT.LeafLaw`: the primitive leaves (strings,
integers, booleans, enumerations, the int-or-float numbers — for those see `int_or_float_within_1e9` —, the custom
sequences `Os2Panose` / `Os2FamilyClass` / `Bitlist`) through serde's primitive impls and the `plist` crate. -/

open Generated.Vocab FT in
/-- the shape of `FontInfo`, read from the source -/
def fontinfoTy : FT.Ty := structOf recordFields fontinfoFields

open Generated.Vocab FT in
def metainfoTy : FT.Ty := structOf recordFields metainfoFields

open Generated.Vocab FT in
/-- `RawGuideline`: six optional leaves under the keys the writer uses -/
def guidelineTy : FT.Ty := .struct (guidelineWriterKeys.map fun k => (k, true, FT.Ty.leaf k))

/-- the leaf types that occur in the tables -/
def knownLeaves : List String :=
  ["f64", "IntegerOrFloat", "String", "Guideline", "Integer", "NonNegativeInteger", "GaspBehavior", "Bitlist",
   "Os2FamilyClass", "Os2Panose", "Os2WidthClass", "Float", "bool", "PostscriptWindowsCharacterSet", "StyleMapStyle",
   "NonNegativeIntegerOrFloat", "WoffAttributeDirection", "FormatVersion", "u32"]

/-- **shape part, decided on the regenerated tables**: in the font info, in every record type nested in it, in the
    metainfo and in the guideline no two fields share a plist key (otherwise one would overwrite the other on write or
    shadow it on read), every record type a field names is in the table (nothing unresolved is left among the leaves),
    108 fields, and the guideline writer and reader use the same keys -/
theorem source_field_tables_shape :
    FT.keysOK fontinfoTy = true ∧ FT.keysOK metainfoTy = true ∧ FT.keysOK guidelineTy = true ∧
    (FT.leaves fontinfoTy ++ FT.leaves metainfoTy).all (knownLeaves.contains ·) = true ∧
    Generated.Vocab.fontinfoFields.length = 108 ∧
    Generated.Vocab.guidelineWriterKeys = Generated.Vocab.guidelineParserKeys := by
  refine ⟨by decide +kernel, by decide +kernel, by decide +kernel, by decide +kernel, by decide +kernel, by decide +kernel⟩

/-- **`read (write v) = v` for every value of the font-info table** (all 108 fields, nested records and vectors
    included), for every leaf codec satisfying the leaf law -/
theorem fontinfo_fieldtable_roundtrip {L : Type} (C : FT.LeafCodec L) (hL : FT.LeafLaw C) (v : FT.Val L) (p : PV)
    (h : FT.enc C fontinfoTy v = some p) : FT.dec C fontinfoTy p = some v :=
  FT.roundtrip C hL fontinfoTy v p source_field_tables_shape.1 h

theorem metainfo_fieldtable_roundtrip {L : Type} (C : FT.LeafCodec L) (hL : FT.LeafLaw C) (v : FT.Val L) (p : PV)
    (h : FT.enc C metainfoTy v = some p) : FT.dec C metainfoTy p = some v :=
  FT.roundtrip C hL metainfoTy v p source_field_tables_shape.2.1 h

/-- guideline geometry, name, colour and identifier: the six keys of `RawGuideline` -/
theorem guideline_fieldtable_roundtrip {L : Type} (C : FT.LeafCodec L) (hL : FT.LeafLaw C) (v : FT.Val L) (p : PV)
    (h : FT.enc C guidelineTy v = some p) : FT.dec C guidelineTy p = some v :=
  FT.roundtrip C hL guidelineTy v p source_field_tables_shape.2.2.1 h

/-- non-vacuity: a font info with a family name, a gasp record and nothing else is written as a two-key dictionary -/
example : ∃ p, FT.enc ⟨fun _ (x : String) => some (PV.str x), fun _ p => match p with | .str s => some s | _ => none⟩
    (.struct [("a", true, .leaf "String"), ("b", false, .vec (.leaf "String"))])
    (.struct [none, some (.list [.leaf "x"])]) = some p := ⟨_, rfl⟩

end RT
