import Norad.Props.C16
import Norad.Generated.StoreOps
import Norad.Generated.StorePlanGen
/-!
# C16 — source-level tie of the store OPERATIONS

`Generated/StoreOps.lean` (namespace `C16.Gen`) is regenerated from `src/datastore.rs` on every run by
`tools/extract_store_ops.py`: both `validate_entry` (clause by clause, every condition through an expression
translator), `Store::load_item`, `Store::get`, `insert`, `remove`, `clear`, `keys`, `is_empty`, `len`, `contains_key`,
`iter`, both `try_list_contents` (the attribute chain and which walk surrounds it), `Store::new`.

Every theorem here states that a regenerated definition IS the model's (`Gen.x = x`, as functions).  The theorems of
`Props/C16.lean` are therefore theorems about the regenerated code; `source_store_inv_reachable`,
`source_rejected_insert_unchanged`, `source_lazy_get_is_disk_at_first_access` and `source_newStore_inv` restate four
of them directly over `Gen`.  A change of the Rust inside a translated shape changes the generated text and the
equalities no longer check.

Property theorems only.
-/
namespace C16
open Path StoreOrder StorePlan AbsFS FontSave

/-- both `validate_entry`, as the code has them now, are the model's validation (all keys, stores, contents) -/
theorem source_validate_eq_model : Gen.validate = validate := by
  funext kind k items b
  cases kind with
  | data =>
    have hd : (items.any fun key => ((parse key.1 != parse k) && (parse key.1).startsWith (parse k)))
        = descendantInStore items (parse k) := by
      unfold descendantInStore
      congr 1
      funext e
      exact Bool.and_comm _ _
    simp only [Gen.validate, Gen.validateData, validate, validateData, hd, ancestorInStore]
    rfl
  | image =>
    have hdp : (Gen.isSomeAnd (parse k).parent? fun p => !p.isEmpty) = hasDirPart (parse k) := by
      unfold Gen.isSomeAnd hasDirPart
      cases (parse k).parent? <;> rfl
    simp only [Gen.validate, Gen.validateImage, validate, validateImage, validateImagePath, hdp, pngSig]
    generalize hasDirPart (parse k) = d
    generalize (parse k).abs = a
    generalize List.isEmpty k = e
    cases e <;> cases a <;> cases d <;> try rfl
    by_cases hp : pngSig.isPrefixOf b = true
    · have h2 : List.isPrefixOf [137, 80, 78, 71, 13, 10, 26, 10] b = true := hp
      simp [h2]
    · have h2 : List.isPrefixOf [137, 80, 78, 71, 13, 10, 26, 10] b = false := Bool.eq_false_iff.2 hp
      simp [h2]

/-- `Store::load_item`: read, then validate, then `Loaded` or `Error` -/
theorem source_loadItem_eq_model : Gen.loadItem = loadItem := by
  funext kind disk k items
  unfold Gen.loadItem loadItem Gen.tryLoadItem
  rw [source_validate_eq_model]
  cases disk k with
  | none => rfl
  | some b => cases validate kind k items b <;> rfl

/-- `Store::get`: look-up, refill of a `NotLoaded` cell with the path handed in, result by cell state -/
theorem source_get_eq_model : Gen.get = get := by
  funext s disk k
  unfold Gen.get get
  rw [source_loadItem_eq_model]
  cases find? s.items k with
  | none => rfl
  | some e =>
    obtain ⟨k0, c⟩ := e
    cases c with
    | notLoaded =>
      simp only [if_true]
      cases loadItem s.kind disk k s.items <;> rfl
    | loaded b => rfl
    | error e => rfl

/-- `Store::insert`: validation first, the map is touched only afterwards -/
theorem source_insert_eq_model : Gen.insert = insert := by
  funext s k b
  unfold Gen.insert insert
  rw [source_validate_eq_model]
  cases validate s.kind k s.items b <;> rfl

theorem source_remove_eq_model : Gen.remove = remove := rfl

theorem source_clear_eq_model : Gen.clear = clear := rfl

/-- `keys`, `is_empty`, `len`, `contains_key` read the map and nothing else -/
theorem source_readers_eq_model :
    Gen.keys = keys ∧ Gen.isEmpty = isEmpty ∧ (∀ s, Gen.len s = (keys s).length) ∧
    (∀ s k, Gen.containsKey s k = (find? s.items k).isSome) := by
  refine ⟨rfl, rfl, fun s => by simp [Gen.len, keys], fun s k => ?_⟩
  unfold Gen.containsKey
  cases hf : find? s.items k with
  | none =>
    cases hh : hasKey s.items (parse k) with
    | false => rfl
    | true => exact absurd hf (find?_ne_none_iff.2 hh)
  | some e => simpa using find?_hasKey hf

/-- `Store::iter` -/
theorem source_iter_eq_model : Gen.iter = iter := by
  have h : ∀ (ks : List Key) (s : Store) (disk : Disk), Gen.iterFrom s disk ks = iterFrom s disk ks := by
    intro ks
    induction ks with
    | nil => intro s disk; rfl
    | cons k r ih =>
      intro s disk
      simp only [Gen.iterFrom, iterFrom, source_get_eq_model, ih]
  funext s disk
  unfold Gen.iter iter
  rw [h]
  rfl

/-- the directories the lazy load reads and the listing walks are the model's store directories -/
theorem source_store_op_dirs_match_model : Gen.loadDir = storeDirName ∧ Gen.listDir = storeDirName := by
  constructor <;> (funext kind; cases kind <;> decide)

/-- both `try_list_contents`: data walks every depth, collects files, descends into directories, refuses anything
    else; images read the top level only, collect files, refuse everything else -/
theorem source_listing_eq_model :
    Gen.listWith (Gen.listRecursive .data) (Gen.listAct .data) (Gen.listErr .data) = listData ∧
    Gen.listWith (Gen.listRecursive .image) (Gen.listAct .image) (Gen.listErr .image) = listImages := by
  have d1 : ∀ nk, (Gen.listAct .data nk == .refuse) = (nk == .symlink) := by intro nk; cases nk <;> rfl
  have d2 : ∀ nk, (Gen.listAct .data nk == .collect) = (nk == .file) := by intro nk; cases nk <;> rfl
  have i1 : ∀ nk, (Gen.listAct .image nk == .refuse) = (nk != .file) := by intro nk; cases nk <;> rfl
  have i2 : ∀ nk, (Gen.listAct .image nk == .collect) = (nk == .file) := by intro nk; cases nk <;> rfl
  constructor
  · funext t
    simp only [Gen.listWith, Gen.listRecursive, Gen.listErr, listData, d1, d2, if_true]
  · funext t
    simp only [Gen.listWith, Gen.listRecursive, Gen.listErr, listImages, i1, i2]
    by_cases h : ((t.filter fun e => e.1.length == 1).any fun e => e.2 != .file) = true
    · simp [h]
    · have hf : ((t.filter fun e => e.1.length == 1).filter fun e => e.2 == .file)
          = t.filter fun e => e.1.length == 1 := by
        apply List.filter_eq_self.2
        intro e he
        have := h
        simp only [List.any_eq_true, not_exists, not_and] at this
        have h2 := this e he
        simpa using h2
      simp [h, hf]

/-- `Store::new`: the listing, one `NotLoaded` cell per listed path -/
theorem source_newStore_eq_model : Gen.newStore = newStore := by
  funext kind t
  unfold Gen.newStore newStore
  cases kind with
  | data => rw [source_listing_eq_model.1]; rfl
  | image => rw [source_listing_eq_model.2]; rfl

/-- one step of a history, and whole histories, over the regenerated operations -/
theorem source_step_eq_model : Gen.step = step := by
  funext st op
  cases op <;>
    simp only [Gen.step, step, source_insert_eq_model, source_remove_eq_model, source_get_eq_model,
      source_clear_eq_model, source_iter_eq_model, source_readers_eq_model.1, source_readers_eq_model.2.1]

theorem source_run_eq_model : Gen.run = run := by
  funext st ops
  induction ops generalizing st with
  | nil => rfl
  | cons op r ih => simp only [Gen.run, run, source_step_eq_model, ih]

/-! ### the property, stated over the regenerated code -/

/-- every history of the operations AS THE SOURCE HAS THEM NOW, with arbitrary disk changes in between, preserves the
    invariant -/
theorem source_store_inv_reachable (st : State) (ops : List Op) (h : Inv st.store) :
    Inv (Gen.run st ops).store := by
  rw [source_run_eq_model]; exact store_inv_reachable st ops h

example : Inv (Gen.run ⟨⟨.data, []⟩, fun _ => none⟩ [.insert ['a'] [1], .get ['a'], .iter]).store :=
  source_store_inv_reachable _ _ (inv_empty .data)

/-- a rejected insertion of the regenerated `insert` leaves the store unchanged -/
theorem source_rejected_insert_unchanged (s : Store) (k : Key) (b : Bytes) (e : Err)
    (h : (Gen.insert s k b).2 = .error e) : (Gen.insert s k b).1 = s := by
  rw [source_insert_eq_model] at h ⊢; exact rejected_insert_unchanged s k b e h

example : (Gen.insert ⟨.data, []⟩ [] [1]).2 = .error .emptyPath := by decide

/-- the regenerated `get` on a lazy cell returns what the disk holds at that very call, validated -/
theorem source_lazy_get_is_disk_at_first_access (s : Store) (disk : Disk) (k k0 : Key)
    (h : find? s.items k = some (k0, .notLoaded)) :
    (Gen.get s disk k).2 = some (cellResult (Gen.loadItem s.kind disk k s.items)) ∧
    ∀ b, (Gen.get s disk k).2 = some (.ok b) → disk k = some b := by
  rw [source_get_eq_model, source_loadItem_eq_model]
  exact lazy_get_is_disk_at_first_access s disk k k0 h

example : find? [((['a'] : Key), Cell.notLoaded)] ['a'] = some (['a'], .notLoaded) := by decide

/-- a store the regenerated `Store::new` returns for a well-formed tree satisfies the invariant, all cells lazy -/
theorem source_newStore_inv (kind : Kind) (t : Listing) (s : Store) (hwf : ListingWF t)
    (h : Gen.newStore kind t = .ok s) : Inv s ∧ ∀ e ∈ s.items, e.2 = .notLoaded := by
  rw [source_newStore_eq_model] at h; exact newStore_inv kind t s hwf h

example : Gen.newStore .image [([['a']], .file)] = .ok ⟨.image, [(['a'], .notLoaded)]⟩ := by decide

/-! ### `Clone`, `Default`, `PartialEq` of `Store<T>` -/

/-- `Store<T>` has exactly the state the model accounts for; `Clone` takes EVERY field from the original (the clone reads
    lazily from the same root: the driver's `CL` step continues on the same store value); `Default` makes every field
    empty (`NEW`) -/
theorem source_store_traits_match_model :
    Gen.storeFields = modelledFields ∧
    Gen.cloneFields = modelledFields.map (fun f => (f, "clone")) ∧
    Gen.defaultFields = modelledFields.map (fun f => (f, "default")) := by decide

/-- `PartialEq::eq` as the source has it is the model's comparison by keys -/
theorem source_storeEq_eq_model : Gen.storeEq = storeEq := by
  funext a b
  unfold Gen.storeEq storeEq
  rfl

/-- the comparison is reflexive on every store -/
theorem store_eq_reflexive (s : Store) : storeEq s s = true := by
  unfold storeEq
  simp only [beq_self_eq_true, Bool.true_and, List.all_eq_true]
  intro e he
  unfold hasKey
  exact List.any_eq_true.2 ⟨e, he, by simp⟩

/-! ### the store-writing blocks of `Font::save_impl` (`Generated/StorePlanGen.lean`) -/

/-- the `data` block of `save_impl`, effect by effect (`create_dir_all` of the destination's parent, then the write, per
    entry; nothing for an empty store), is the data part of `FontSave.plan` -/
theorem source_data_plan_eq_model {β : Type} (t : APath) (items : List (Path.P × β)) :
    PlanGen.planData t items = items.flatMap (planDataItem t) := by
  unfold PlanGen.planData PlanGen.planDataPre
  cases items with
  | nil => rfl
  | cons a r => rfl

/-- the `images` block (one `create_dir`, then one plain write per entry; nothing for an empty store) is
    `FontSave.planImages` -/
theorem source_image_plan_eq_model {β : Type} (t : APath) (items : List (Path.P × β)) :
    PlanGen.planImages t items = planImages t items := by
  have hm : ∀ l : List (Path.P × β),
      l.flatMap (PlanGen.planImagesItem t) = l.map fun kb => Eff.write (joinRel (sub t "images") kb.1) kb.2 := by
    intro l
    induction l with
    | nil => rfl
    | cons a r ih => simp only [List.flatMap_cons, List.map_cons, ih]; rfl
  unfold PlanGen.planImages planImages PlanGen.planImagesPre
  rw [hm]
  rfl

/-- the store plans AS REGENERATED run on the abstract file system and leave the verbatim files
    (`store_plan_runs`, `image_plan_runs` over `PlanGen`) -/
theorem source_store_plans_run (s : Store) (h : Inv s) (hplain : ∀ k ∈ keys s, (parse k).allNormal = true)
    (t : APath) (fs : FS StoreOrder.Bytes) (ws : List WriteFile) (h1 : writesOf s = some ws)
    (hT : ∀ m, m <+: t → m ≠ [] → isDir fs m = true) :
    ((∀ q, (t ++ [storeDirName .data]) <+: q → node fs q = none) →
      ∃ fs', runEffs (PlanGen.planData t (ws.map fun w => (parse w.key, w.bytes))) fs = (none, fs') ∧
        treeOf fs' = writeAll (treeOf fs) (storeWrites (t ++ [storeDirName .data]) ws)) ∧
    (s.kind = .image → (∀ q, (t ++ [storeDirName .image]) <+: q → node fs q = none) →
      ∃ fs', runEffs (PlanGen.planImages t (ws.map fun w => (parse w.key, w.bytes))) fs = (none, fs') ∧
        treeOf fs' = writeAll (treeOf fs) (storeWrites (t ++ [storeDirName .image]) ws)) := by
  constructor
  · intro hfresh
    rw [source_data_plan_eq_model]
    exact store_plan_runs s h hplain t fs ws h1 hT hfresh
  · intro hkind hfresh
    rw [source_image_plan_eq_model]
    exact image_plan_runs s h hkind hplain t fs ws h1 hT hfresh

example : PlanGen.planImages (β := Nat) [['t']] [(parse ['a'], 1)]
    = [.mkdir [.normal ['t'], .normal "images".toList], .write [.normal ['t'], .normal "images".toList, .normal ['a']] 1] := by
  rfl

end C16
