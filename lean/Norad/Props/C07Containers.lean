import Norad.Props.C07
import Norad.Props.C06
/-!
# C07, container level — assigned names are unique ignoring case and stable, under any history

`Props/C07.lean` proves the properties of the name-to-file-name *function*; `Props/C06.lean` proves the
container invariant for every file-name function meeting the contracts `AssignOK` / `AssignLOK`.  This
file discharges the contracts for the real algorithm (`C07.glyphFileName`, `C07.layerDirName`) and
reads the container clauses of C07 off the invariant:

* within one layer, and within one font's layer set, assigned names are pairwise distinct even when
  compared case-insensitively, under any history, including after loading from disk
  — `layer_paths_distinct_mod_lower`, `layerset_paths_distinct_mod_lower`
* a created layer never gets the default directory — `layerset_never_assigns_glyphs`
* entries that stay in a container keep their file name — `path_stable_insert/remove/rename`
-/
namespace Layers

/-! ## the real algorithm meets the contracts -/

theorem assignOK_glyphFileName (U : Char → Bool) (lower : Str → Str) :
    AssignOK lower (C07.glyphFileName U lower) := by
  intro n ps p h
  have := C07.fileName_accepted_stateless (ok := fun s => !ps.contains s) h
  simpa using this

theorem assignOK_layerDirName (U : Char → Bool) (lower : Str → Str) :
    AssignOK lower (C07.layerDirName U lower) := by
  intro n ps p h
  have := C07.fileName_accepted_stateless (ok := fun s => !ps.contains s) h
  simpa using this

theorem escape_length (U : Char → Bool) (b : Bool) (name : Str) : name.length ≤ (C07.escape U b name).length := by
  induction name generalizing b with
  | nil => simp [C07.escape]
  | cons c cs ih =>
    simp only [C07.escape, List.length_append, List.length_cons]
    have h1 : 1 ≤ (C07.escChar U b c).length := by
      cases h : C07.escChar U b c with
      | nil => exact absurd h (C07.escChar_ne_nil U b c)
      | cons _ _ => simp
    have := ih false
    omega

theorem insertReserved_length (r : Str) : r.length ≤ (C07.insertReserved r).length := by
  unfold C07.insertReserved; split <;> simp

/-- a candidate for a non-empty layer name is longer than the six letters `glyphs` -/
theorem candidate_layer_length (U : Char → Bool) (name : Str) (hn : name ≠ []) (k : Nat) :
    7 ≤ (C07.candidate U name C07.layerPrefix [] k).length := by
  have hname : 1 ≤ name.length := by cases name with | nil => exact absurd rfl hn | cons _ _ => simp
  -- stage 1: prefix + escaped name (+ reserved underscore)
  have hr1 : 8 ≤ (C07.insertReserved (C07.layerPrefix ++ C07.escape U C07.layerPrefix.isEmpty name)).length := by
    have h1 := insertReserved_length (C07.layerPrefix ++ C07.escape U C07.layerPrefix.isEmpty name)
    have h2 := escape_length U C07.layerPrefix.isEmpty name
    have h3 : C07.layerPrefix.length = 7 := by decide
    simp only [List.length_append] at h1
    omega
  -- clipping keeps at least 252 bytes, i.e. 63 characters
  have hclip : ∀ (n : Nat) (s : Str), 28 ≤ n → n < C07.usize s → 7 ≤ (C07.takeBytes n s).length := by
    intro n s hn' hlt
    have h1 := C07.takeBytes_gap hlt
    have h2 := C07.usize_le_4len (C07.takeBytes n s)
    omega
  have hbody : 7 ≤ (C07.body U name C07.layerPrefix []).length := by
    unfold C07.body
    simp only [List.isEmpty_nil, if_true, C07.fixTrailing_length]
    split
    · rename_i hc
      apply hclip
      · simp [C07.maxLen, C07.usize]
      · simp only [C07.usize, List.map_nil, List.sum_nil, Nat.add_zero, Nat.sub_zero] at hc ⊢
        exact hc
    · omega
  unfold C07.candidate C07.candidateFrom
  split
  · simpa using hbody
  · have hcb : 5 ≤ (C07.counterBase U name C07.layerPrefix []).length := by
      unfold C07.counterBase
      simp only
      split
      · rename_i hc
        have := hclip (C07.maxLen - C07.usize [] - C07.numberLen) (C07.body U name C07.layerPrefix [])
          (by simp [C07.maxLen, C07.numberLen, C07.usize])
          (by simp only [C07.maxLen, C07.numberLen, C07.usize, List.map_nil, List.sum_nil] at hc ⊢; omega)
        omega
      · omega
    simp only [List.length_append, C07.twoDigits, List.length_cons, List.length_nil]
    omega

/-- `Name::new(..).is_ok()` implies a non-empty name; that is all the layer contract needs -/
theorem assignLOK_layerDirName (U : Char → Bool) (lower : Str → Str) (valid : Str → Bool)
    (hv : ∀ n, valid n = true → n ≠ []) :
    AssignLOK lower (C07.layerDirName U lower) valid := by
  refine ⟨assignOK_layerDirName U lower, ?_⟩
  intro n ps p hvn h hp
  obtain ⟨k, _, hk, _, _⟩ := C07.fileName_some h
  have := candidate_layer_length U n (hv n hvn) k
  rw [← hk, hp] at this
  simp [glyphsDir] at this


/-! ## the container clauses of C07, for the real algorithm, in every reachable state -/

section
variable (U : Char → Bool) (lower : Str → Str) (valid : Str → Bool) (hv : ∀ n, valid n = true → n ≠ [])
include hv

/-- the state reached by any operation history with the real file-name algorithm -/
def runReal (S : LayerSet) (ops : List Op) : LayerSet :=
  run lower (C07.glyphFileName U lower) (C07.layerDirName U lower) valid S ops

theorem real_inv_reachable (S : LayerSet) (ops : List Op) (h : SInv lower S) :
    SInv lower (runReal U lower valid S ops) :=
  inv_reachable lower _ _ valid (assignOK_glyphFileName U lower) (assignLOK_layerDirName U lower valid hv) S ops h

/-- **within one layer, glif file names are pairwise distinct ignoring case** — after any history from a
    new font (`inv_init`) or from a font loaded from a well-formed tree (`inv_loaded`) -/
theorem layer_paths_distinct_mod_lower (S : LayerSet) (ops : List Op) (h : SInv lower S) :
    ∀ l ∈ (runReal U lower valid S ops).layers, (l.contents.map (fun e => lower e.2)).Nodup :=
  fun l hl => ((real_inv_reachable U lower valid hv S ops h).layersInv l hl).distinct

/-- **within one font, layer directories are pairwise distinct ignoring case** (the default layer's
    `glyphs` included: no other layer lives there and, see `paths_nodup`, all directories differ) -/
theorem layerset_paths_distinct_mod_lower (S : LayerSet) (ops : List Op) (h : SInv lower S) :
    ((runReal U lower valid S ops).layers.tail.map (fun l => lower l.path)).Nodup ∧
    ((runReal U lower valid S ops).layers.map (·.path)).Nodup :=
  ⟨(real_inv_reachable U lower valid hv S ops h).tailDistinct,
   paths_nodup lower _ (real_inv_reachable U lower valid hv S ops h)⟩

/-- **a created or renamed layer never gets the default directory** -/
theorem layerset_never_assigns_glyphs (S : LayerSet) (ops : List Op) (h : SInv lower S) :
    ∀ l ∈ (runReal U lower valid S ops).layers.tail, l.path ≠ glyphsDir :=
  (real_inv_reachable U lower valid hv S ops h).tailNotDefault

end

/-! ### entries that stay in a container keep their file name -/

section
variable (lower : Str → Str) (assignG : Str → List Str → Option Str) (valid : Str → Bool)

theorem lookup_eraseKey_ne {k n : Str} (l : List (Str × Str)) (h : n ≠ k) :
    lookup n (eraseKey k l) = lookup n l := by
  induction l with
  | nil => rfl
  | cons e r ih =>
    obtain ⟨k', v⟩ := e
    by_cases hk : k' = k
    · subst hk
      have : lookup n ((k', v) :: r) = lookup n r := by simp [lookup, Ne.symm h]
      rw [this, ← ih]; simp [eraseKey]
    · have : eraseKey k ((k', v) :: r) = (k', v) :: eraseKey k r := by simp [eraseKey, hk]
      rw [this]; simp only [lookup]; split
      · rfl
      · exact ih

/-- inserting glyph `g` leaves the file name of every other glyph, and of `g` itself if it was already
    there, unchanged -/
theorem path_stable_insert (L : Layer) (g n p : Str) (h : lookup n L.contents = some p) :
    lookup n (insertGlyph lower assignG L g).1.contents = some p := by
  unfold insertGlyph
  split
  · exact h
  · rename_i hg
    split
    · exact h
    · simp only [lookup]
      split
      · rename_i hgn; subst hgn
        exact absurd (List.mem_map.2 ⟨(g, p), lookup_mem h, rfl⟩) hg
      · exact h

/-- removing glyph `g` leaves every other glyph's file name unchanged -/
theorem path_stable_remove (L : Layer) (g n : Str) (hn : n ≠ g) :
    lookup n (removeGlyph lower L g).contents = lookup n L.contents := by
  simp only [removeGlyph]; exact lookup_eraseKey_ne _ hn

/-- renaming `old` leaves the file name of every glyph other than `old` unchanged (also of an existing
    `new` that is overwritten: it keeps its file) -/
theorem path_stable_rename (L : Layer) (old new n p : Str) (ow : Bool) (hn : n ≠ old)
    (h : lookup n L.contents = some p) :
    lookup n (renameGlyph lower assignG valid L old new ow).1.contents = some p := by
  unfold renameGlyph
  split; · exact h
  split; · exact h
  split; · exact h
  apply path_stable_insert
  rw [path_stable_remove lower L old n hn]; exact h

theorem lookup_filter_keep (l : List (Str × Str)) (P : Str × Str → Bool) (n p : Str)
    (hP : ∀ v, P (n, v) = true) (h : lookup n l = some p) : lookup n (l.filter P) = some p := by
  induction l with
  | nil => simp [lookup] at h
  | cons e r ih =>
    obtain ⟨k', v⟩ := e
    simp only [lookup] at h
    by_cases hkn : k' = n
    · subst hkn
      simp only [if_true] at h
      simp [List.filter_cons, hP v, lookup, h]
    · simp only [hkn, if_false] at h
      simp only [List.filter_cons]
      split
      · simp only [lookup, hkn, if_false]; exact ih h
      · exact ih h

/-- `retain` keeps the file name of every glyph it keeps -/
theorem path_stable_retain (L : Layer) (keep : Str → Bool) (n p : Str) (hk : n ∈ L.glyphs ∧ keep n = true)
    (h : lookup n L.contents = some p) : lookup n (retainGlyphs lower L keep).contents = some p := by
  simp only [retainGlyphs]
  apply lookup_filter_keep _ _ n p _ h
  intro v; simp [hk.1, hk.2]

end

end Layers
