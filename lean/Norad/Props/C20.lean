import Norad.Lemmas.C20
import Norad.Generated.KurboConv
import Norad.Props.C11
/-!
# C20 — contour → Bézier path and transform conversions follow the glif drawing rules

Property theorems only.  `toKurbo` is the transcription of `Contour::to_kurbo` (`Model/C20.lean`,
the code after the three `fix:` commits of branch `fix/c20`), `specPath` the outline the glif rules
define (`Spec/C20.lean`), `C11.Legal` the legality predicate of C11 (what the parser accepts, by
`C11.accepts_iff_legal`).  Everything is over an arbitrary coordinate type `α` and an arbitrary
midpoint function `mid`.

On the unrepaired tree the first two theorems are false: `line, curve, line` made `to_kurbo` return
`Err(BadPoint)`, `line, qcurve, line` lost a corner, four off-curves gave a lone `MoveTo`.  The
witnesses are kept in `corpus/C20/fixed-defects.case`; `known_findings.txt` lists the repairs.
-/
namespace C20
open C11 (PT)

variable {α : Type} (mid : α → α → α)

/-- legality of a contour = C11's predicate on its (type, smooth) sequence -/
abbrev Legal (pts : List (Pt α)) : Prop := C11.Legal (pts.map (·.base))

/-- every segment of the outline of a legal contour is well-formed -/
theorem legal_specSegments (pts : List (Pt α)) (h : Legal pts) :
    ∀ s ∈ specSegments pts, SegGood s := by
  cases pts with
  | nil => simp [specSegments]
  | cons f rest =>
    obtain ⟨hl, hend⟩ := h
    by_cases hf : f.typ = .move
    · simp only [specSegments, hf, if_true]
      exact open_segGood f rest hf hl
    · simp only [specSegments, hf, if_false]
      cases hsp : splitLastOn (f :: rest) with
      | none => simp
      | some t =>
        obtain ⟨pre, s, post⟩ := t
        obtain ⟨hd, hs, hpost⟩ := splitLastOn_some _ _ _ _ hsp
        have hc : C11.isClosed ((f :: rest).map (·.base)) = true := by
          rw [← isClosed_eq]; simp only [isClosed]; cases h : f.typ <;> simp_all
        simp only [hc, if_true] at hend
        simp only
        rw [hd] at hc hl hend
        exact closed_segGood pre post s hs hpost hc hl hend

/-- **C20, full strength (path)**: for every legal contour the conversion succeeds and returns
    exactly the outline of the specification. -/
theorem toKurbo_eq_spec (pts : List (Pt α)) (h : Legal pts) :
    toKurbo mid pts = .ok (specPath mid pts) := by
  have hseg := legal_specSegments pts h
  cases pts with
  | nil => simp [toKurbo, isClosed, rotateIdx, allOffPath, specPath]
  | cons f rest =>
    by_cases hf : f.typ = .move
    · have hcl : isClosed (f :: rest) = false := by simp [isClosed, hf]
      simp only [specSegments, hf, if_true] at hseg
      have hgo := go_eq_spec mid rest [] (fun s hs => (hseg s hs).1)
      have hlen : (f :: rest).length = (f :: rest).length := rfl
      simp only [toKurbo, hcl, Bool.false_eq_true, if_false, cycleSkipTake_zero, drawWalk, hgo,
        prepend, specPath, hf, if_true, List.singleton_append]
    · have hcl : isClosed (f :: rest) = true := by
        simp only [isClosed]; cases h : f.typ <;> simp_all
      simp only [specSegments, hf, if_false] at hseg
      simp only [toKurbo, hcl, if_true, specPath, hf, if_false]
      cases hsp : splitLastOn (f :: rest) with
      | some t =>
        obtain ⟨pre, s, post⟩ := t
        obtain ⟨hd, hs, hpost⟩ := splitLastOn_some _ _ _ _ hsp
        simp only [hsp] at hseg
        have hgo := go_eq_spec mid (post ++ pre ++ [s]) [] (fun t ht => (hseg t ht).1)
        simp only
        rw [hd, rotateIdx_split pre post s hs hpost]
        simp only [cycleSkipTake_split, drawWalk, hgo, prepend, List.singleton_append]
      | none =>
        have hall := splitLastOn_none _ hsp
        rw [rotateIdx_none _ hall]
        simp only
        cases hlast : (f :: rest).getLast? with
        | none => simp at hlast
        | some last =>
          have hz := allOff_zip mid f f rest last hlast
          simp only [allOffPath, impliedStart, List.head?_cons, hlast, List.drop_one, List.tail_cons,
            List.take_succ_cons, List.take_zero, hz]

/-- for every contour the parser accepts, conversion to a path succeeds -/
theorem toKurbo_succeeds (pts : List (Pt α)) (h : Legal pts) :
    ∃ els, toKurbo mid pts = .ok els :=
  ⟨_, toKurbo_eq_spec mid pts h⟩

/-- the outline with an on-curve point: a `moveTo` at the expected start, then the segments -/
theorem specPath_segments (pts : List (Pt α)) (hon : ∃ q ∈ pts, q.typ ≠ .off) :
    ∃ st, expectedStart mid pts = some st ∧
      specPath mid pts = .moveTo st :: (specSegments pts).flatMap (specEls mid) := by
  cases pts with
  | nil => simp at hon
  | cons f rest =>
    by_cases hf : f.typ = .move
    · exact ⟨f.pos, by simp [expectedStart, hf], by simp [specPath, specSegments, hf]⟩
    · cases hsp : splitLastOn (f :: rest) with
      | none =>
        obtain ⟨q, hq, hqo⟩ := hon
        exact absurd (splitLastOn_none _ hsp q hq) hqo
      | some t =>
        obtain ⟨pre, s, post⟩ := t
        exact ⟨s.pos, by simp [expectedStart, hf, hsp], by simp [specPath, specSegments, hf, hsp]⟩

/-- **start**: the path of a legal non-empty contour begins with its only `MoveTo`; an open contour
    starts at its move point, a closed one at one of its on-curve points, a closed contour of
    off-curves only at the implied point between its last and first point. -/
theorem starts_at_move_or_oncurve (pts : List (Pt α)) (els : List (El α)) (h : Legal pts)
    (hk : toKurbo mid pts = .ok els) (hne : pts ≠ []) :
    ∃ st rest, els = .moveTo st :: rest ∧ (∀ e ∈ rest, e.isMove = false) ∧
      (isClosed pts = false → pts.head?.map (·.pos) = some st) ∧
      (isClosed pts = true →
        (∃ q ∈ pts, q.typ ≠ .off ∧ q.pos = st) ∨
        ((∀ q ∈ pts, q.typ = .off) ∧ impliedStart mid pts = some st)) := by
  rw [toKurbo_eq_spec mid pts h] at hk
  injection hk with hk
  subst hk
  have hseg := legal_specSegments pts h
  cases pts with
  | nil => exact absurd rfl hne
  | cons f rest =>
    by_cases hf : f.typ = .move
    · refine ⟨f.pos, (segments [] rest).flatMap (specEls mid), by simp [specPath, hf], ?_, ?_, ?_⟩
      · intro e he
        simp only [List.mem_flatMap] at he
        obtain ⟨s, hs, hes⟩ := he
        have := hseg s (by simpa [specSegments, hf] using hs)
        exact specEls_noMove mid s this.2.2 e hes
      · intro _; simp
      · intro hc; simp [isClosed, hf] at hc
    · have hcl : isClosed (f :: rest) = true := by
        simp only [isClosed]; cases h : f.typ <;> simp_all
      cases hsp : splitLastOn (f :: rest) with
      | some t =>
        obtain ⟨pre, s, post⟩ := t
        obtain ⟨hd, hs, hpost⟩ := splitLastOn_some _ _ _ _ hsp
        refine ⟨s.pos, (segments [] (post ++ pre ++ [s])).flatMap (specEls mid),
          by simp [specPath, hf, hsp], ?_, ?_, ?_⟩
        · intro e he
          simp only [List.mem_flatMap] at he
          obtain ⟨t, ht, het⟩ := he
          have := hseg t (by simpa [specSegments, hf, hsp] using ht)
          exact specEls_noMove mid t this.2.2 e het
        · intro hc; rw [hcl] at hc; exact absurd hc (by simp)
        · intro _; left; exact ⟨s, by rw [hd]; simp, hs, rfl⟩
      | none =>
        have hall := splitLastOn_none _ hsp
        cases hlast : (f :: rest).getLast? with
        | none => simp at hlast
        | some last =>
          refine ⟨mid last.pos f.pos, quads mid ((f :: rest).map (·.pos)) (mid last.pos f.pos),
            by simp [specPath, hf, hsp, impliedStart, hlast], quads_noMove mid _ _, ?_, ?_⟩
          · intro hc; rw [hcl] at hc; exact absurd hc (by simp)
          · intro _; right; exact ⟨hall, by simp [impliedStart, hlast]⟩

/-- **one segment per on-curve point, of the kind its off-curves call for**: after the `MoveTo`
    the path is the concatenation of one drawing per on-curve point (all of them for a closed
    contour, all after the `move` for an open one); a `line` point has no pending off-curves, a
    `curve` point at most two (`segment_kinds` says what each combination draws). -/
theorem one_segment_per_oncurve (pts : List (Pt α)) (els : List (El α)) (h : Legal pts)
    (hk : toKurbo mid pts = .ok els) (hon : ∃ q ∈ pts, q.typ ≠ .off) :
    ∃ st, els = .moveTo st :: (specSegments pts).flatMap (specEls mid) ∧
      (specSegments pts).length = (drawnOnCurves pts).length ∧
      ∀ s ∈ specSegments pts, s.2.typ ≠ .off ∧ s.2.typ ≠ .move ∧
        (s.2.typ = .line → s.1 = []) ∧ (s.2.typ = .curve → s.1.length ≤ 2) := by
  rw [toKurbo_eq_spec mid pts h] at hk
  injection hk with hk
  subst hk
  obtain ⟨st, _, hst⟩ := specPath_segments mid pts hon
  refine ⟨st, hst, ?_, ?_⟩
  · cases pts with
    | nil => rfl
    | cons f rest =>
      by_cases hf : f.typ = .move
      · simp only [specSegments, drawnOnCurves, hf, if_true]
        rw [← segments_endpoints rest []]; simp
      · cases hsp : splitLastOn (f :: rest) with
        | none =>
          obtain ⟨q, hq, hqo⟩ := hon
          exact absurd (splitLastOn_none _ hsp q hq) hqo
        | some t =>
          obtain ⟨pre, s, post⟩ := t
          obtain ⟨hd, hs, hpost⟩ := splitLastOn_some _ _ _ _ hsp
          simp only [specSegments, drawnOnCurves, hf, if_false, hsp]
          rw [← List.length_map (f := (·.2)), segments_endpoints, hd]
          have hpf : post.filter (fun p => p.typ != .off) = [] := by
            rw [List.filter_eq_nil_iff]; intro q hq; simp [hpost q hq]
          simp [List.filter_append, List.filter_cons, hs, hpf]
  · intro s hs
    have := legal_specSegments pts h s hs
    exact ⟨this.2.1, this.2.2, fun hl => this.1.1 (Or.inl hl), this.1.2⟩

/-- what a well-formed segment draws, case by case -/
theorem segment_kinds (o : List α) (p : Pt α) :
    (p.typ = .line → specEls mid (o, p) = [.lineTo p.pos]) ∧
    (p.typ = .curve → o = [] → specEls mid (o, p) = [.lineTo p.pos]) ∧
    (p.typ = .curve → ∀ a, o = [a] → specEls mid (o, p) = [.quadTo a p.pos]) ∧
    (p.typ = .curve → ∀ a b, o = [a, b] → specEls mid (o, p) = [.curveTo a b p.pos]) ∧
    (p.typ = .qcurve → o = [] → specEls mid (o, p) = [.lineTo p.pos]) ∧
    (p.typ = .qcurve → ∀ a, o = [a] → specEls mid (o, p) = [.quadTo a p.pos]) ∧
    (p.typ = .qcurve → ∀ a b r, o = a :: b :: r →
      specEls mid (o, p) = .quadTo a (mid a b) :: specEls mid (b :: r, p)) := by
  refine ⟨?_, ?_, ?_, ?_, ?_, ?_, ?_⟩
  · intro h; simp [specEls, h]
  · intro h ho; subst ho; simp [specEls, h]
  · intro h a ho; subst ho; simp [specEls, h]
  · intro h a b ho; subst ho; simp [specEls, h]
  · intro h ho; subst ho; simp [specEls, h, quads]
  · intro h a ho; subst ho; simp [specEls, h, quads]
  · intro h a b r ho; subst ho; simp [specEls, h, quads]

/-- **order**: the segments end at the on-curve points, in contour order (a closed contour starts
    at its last on-curve point, so its segments end at the on-curve points exactly as listed). -/
theorem oncurves_in_order (pts : List (Pt α)) (els : List (El α)) (h : Legal pts)
    (hk : toKurbo mid pts = .ok els) (hon : ∃ q ∈ pts, q.typ ≠ .off) :
    ∃ st, els = .moveTo st :: (specSegments pts).flatMap (specEls mid) ∧
      (specSegments pts).map (·.2) = drawnOnCurves pts ∧
      ∀ s ∈ specSegments pts, (specEls mid s).getLast?.bind El.endPt = some s.2.pos := by
  rw [toKurbo_eq_spec mid pts h] at hk
  injection hk with hk
  subst hk
  obtain ⟨st, _, hst⟩ := specPath_segments mid pts hon
  refine ⟨st, hst, ?_, ?_⟩
  · cases pts with
    | nil => rfl
    | cons f rest =>
      by_cases hf : f.typ = .move
      · simp only [specSegments, drawnOnCurves, hf, if_true]
        exact segments_endpoints rest []
      · cases hsp : splitLastOn (f :: rest) with
        | none =>
          obtain ⟨q, hq, hqo⟩ := hon
          exact absurd (splitLastOn_none _ hsp q hq) hqo
        | some t =>
          obtain ⟨pre, s, post⟩ := t
          obtain ⟨hd, hs, hpost⟩ := splitLastOn_some _ _ _ _ hsp
          simp only [specSegments, drawnOnCurves, hf, if_false, hsp]
          rw [segments_endpoints, hd]
          have hpf : post.filter (fun p => p.typ != .off) = [] := by
            rw [List.filter_eq_nil_iff]; intro q hq; simp [hpost q hq]
          simp [List.filter_append, List.filter_cons, hs, hpf]
  · intro s hs
    exact specEls_last mid s (legal_specSegments pts h s hs).2.1

/-- **closed contours return to their start** -/
theorem closed_returns_to_start (pts : List (Pt α)) (els : List (El α)) (h : Legal pts)
    (hk : toKurbo mid pts = .ok els) (hc : isClosed pts = true) (hne : pts ≠ []) :
    ∃ st rest, els = .moveTo st :: rest ∧ rest.getLast?.bind El.endPt = some st := by
  rw [toKurbo_eq_spec mid pts h] at hk
  injection hk with hk
  subst hk
  cases pts with
  | nil => exact absurd rfl hne
  | cons f rest =>
    have hf : f.typ ≠ .move := by
      intro hf; simp [isClosed, hf] at hc
    cases hsp : splitLastOn (f :: rest) with
    | some t =>
      obtain ⟨pre, s, post⟩ := t
      obtain ⟨hd, hs, hpost⟩ := splitLastOn_some _ _ _ _ hsp
      refine ⟨s.pos, (segments [] (post ++ pre ++ [s])).flatMap (specEls mid),
        by simp [specPath, hf, hsp], ?_⟩
      obtain ⟨o, ho⟩ := segments_snoc (post ++ pre) s [] hs
      rw [ho, List.flatMap_append]
      simp only [List.flatMap_cons, List.flatMap_nil, List.append_nil]
      rw [getLast?_append_ne_nil _ _ (specEls_ne_nil mid (o, s) hs)]
      exact specEls_last mid (o, s) hs
    | none =>
      cases hlast : (f :: rest).getLast? with
      | none => simp at hlast
      | some last =>
        exact ⟨mid last.pos f.pos, quads mid ((f :: rest).map (·.pos)) (mid last.pos f.pos),
          by simp [specPath, hf, hsp, impliedStart, hlast], quads_last mid _ _⟩

/-- **no point is lost**: the input points, in the order the outline visits them (`visitOrder`:
    as written for an open contour and for off-curves only; from the last on-curve point round to
    it again for a closed one), are control points or end points of the path, in that order. -/
theorem no_point_lost (pts : List (Pt α)) (els : List (El α)) (h : Legal pts)
    (hk : toKurbo mid pts = .ok els) :
    List.Sublist ((visitOrder pts).map (·.pos)) (els.flatMap El.points) := by
  rw [toKurbo_eq_spec mid pts h] at hk
  injection hk with hk
  subst hk
  have hseg := legal_specSegments pts h
  -- the walk `w` after the start: segments cover it, every segment's drawing covers the segment
  have key : ∀ (w : List (Pt α)), (∀ q, w.getLast? = some q → q.typ ≠ .off) →
      (∀ s ∈ segments [] w, SegGood s) →
      List.Sublist (w.map (·.pos)) (((segments [] w).flatMap (specEls mid)).flatMap El.points) := by
    intro w hlast hgood
    have hcov := segments_cover w [] hlast (fun _ => rfl)
    simp only [List.nil_append] at hcov
    rw [← hcov, List.flatMap_assoc]
    exact flatMap_sublist _ _ _ (fun s hs => specEls_sublist mid s (hgood s hs))
  cases pts with
  | nil => simp [visitOrder]
  | cons f rest =>
    by_cases hf : f.typ = .move
    · simp only [specSegments, hf, if_true] at hseg
      simp only [visitOrder, specPath, hf, if_true, List.map_cons, List.flatMap_cons, El.points,
        List.singleton_append]
      refine List.Sublist.cons_cons _ (key rest ?_ hseg)
      -- an open legal contour does not end in an off-curve
      intro q hq hqo
      have hcl : C11.isClosed ((f :: rest).map (·.base)) = false := by
        rw [← isClosed_eq]; simp [isClosed, hf]
      have hend := h.2
      simp only [hcl, Bool.false_eq_true, if_false] at hend
      have hrest : rest ≠ [] := by intro hc; subst hc; simp at hq
      obtain ⟨l, rfl⟩ : ∃ l, rest = l ++ [q] := List.getLast?_eq_some_iff.1 hq
      have hqo' : q.base.typ = .off := hqo
      have : C11.trailOffs ((f :: (l ++ [q])).map (·.base))
          = C11.trailOffs ((f.base :: l.map (·.base)) ++ [q.base]) := by simp
      rw [this, C11.trailOffs_snoc] at hend
      simp [hqo'] at hend
    · cases hsp : splitLastOn (f :: rest) with
      | some t =>
        obtain ⟨pre, s, post⟩ := t
        obtain ⟨hd, hs, hpost⟩ := splitLastOn_some _ _ _ _ hsp
        simp only [specSegments, hf, if_false, hsp] at hseg
        simp only [visitOrder, specPath, hf, if_false, hsp, List.map_cons, List.flatMap_cons,
          El.points, List.singleton_append]
        refine List.Sublist.cons_cons _ (key (post ++ pre ++ [s]) ?_ hseg)
        intro q hq
        simp at hq
        subst hq
        exact hs
      | none =>
        cases hlast : (f :: rest).getLast? with
        | none => simp at hlast
        | some last =>
          simp only [visitOrder, specPath, hf, if_false, hsp, impliedStart, List.head?_cons, hlast,
            List.flatMap_cons, El.points, List.singleton_append]
          refine List.Sublist.cons _ ?_
          exact List.Sublist.trans (List.sublist_append_left _ _) (quads_sublist mid _ _)

/-! ## the driver's oracle -/

theorem specPath_head (pts : List (Pt α)) (hne : pts ≠ []) :
    ∃ st rest, expectedStart mid pts = some st ∧ specPath mid pts = .moveTo st :: rest := by
  cases pts with
  | nil => exact absurd rfl hne
  | cons f r =>
    by_cases hf : f.typ = .move
    · exact ⟨f.pos, (segments [] r).flatMap (specEls mid), by simp [expectedStart, hf],
        by simp [specPath, hf]⟩
    · cases hsp : splitLastOn (f :: r) with
      | some t =>
        obtain ⟨pre, s, post⟩ := t
        exact ⟨s.pos, (segments [] (post ++ pre ++ [s])).flatMap (specEls mid),
          by simp [expectedStart, hf, hsp], by simp [specPath, hf, hsp]⟩
      | none =>
        cases hlast : (f :: r).getLast? with
        | none => simp at hlast
        | some last =>
          exact ⟨mid last.pos f.pos, quads mid ((f :: r).map (·.pos)) (mid last.pos f.pos),
            by simp [expectedStart, hf, hsp, impliedStart, hlast],
            by simp [specPath, hf, hsp, impliedStart, hlast]⟩

/-- **the executable rules the driver evaluates on the implementation's path are true of the
    outline of every legal contour** (so they cannot raise an alarm on correct behaviour, and each
    of them is a consequence of `toKurbo_eq_spec`). -/
theorem oracle_accepts_outline [DecidableEq α] (pts : List (Pt α)) (h : Legal pts) :
    startOK mid pts (specPath mid pts) = true ∧ segCountOK pts (specPath mid pts) = true ∧
    orderOK pts (specPath mid pts) = true ∧ kindOK mid pts (specPath mid pts) = true ∧
    closedOK pts (specPath mid pts) = true ∧ noPointLostOK pts (specPath mid pts) = true := by
  have hk := toKurbo_eq_spec mid pts h
  have hgood := legal_specSegments pts h
  have hsegs : ∀ t, splitLastOn pts = some t →
      ∃ st, specPath mid pts = .moveTo st :: (specSegments pts).flatMap (specEls mid) ∧
        (specSegments pts).map (·.2) = drawnOnCurves pts := by
    intro t ht
    obtain ⟨pre, s, post⟩ := t
    obtain ⟨hd, hs, _⟩ := splitLastOn_some _ _ _ _ ht
    obtain ⟨st, h1, h2, _⟩ := oncurves_in_order mid pts _ h hk ⟨s, by rw [hd]; simp, hs⟩
    exact ⟨st, h1, h2⟩
  refine ⟨?_, ?_, ?_, ?_, ?_, ?_⟩
  · by_cases hne : pts = []
    · subst hne; simp [startOK, expectedStart, specPath]
    · obtain ⟨st, rest, h1, h2⟩ := specPath_head mid pts hne
      obtain ⟨st', rest', h3, h4, _⟩ := starts_at_move_or_oncurve mid pts _ h hk hne
      rw [h2] at h3
      injection h3 with h5 h6
      subst h6
      simp only [startOK, h1, h2, decide_true, Bool.true_and, List.all_eq_true]
      intro e he
      simp [h4 e he]
  · unfold segCountOK
    cases hsp : splitLastOn pts with
    | none => rfl
    | some t =>
      obtain ⟨st, h1, _⟩ := hsegs t hsp
      simp only [h1, List.drop_one, List.tail_cons, beq_iff_eq]
      exact length_flatMap_eq _ _ _ (fun s hs => specEls_length mid s (hgood s hs))
  · unfold orderOK
    cases hsp : splitLastOn pts with
    | none => rfl
    | some t =>
      obtain ⟨st, h1, h2⟩ := hsegs t hsp
      simp only [h1, List.drop_one, List.tail_cons]
      rw [chunks_flatMap _ _ _ (fun s hs => specEls_length mid s (hgood s hs))]
      simp only [beq_iff_eq, List.map_map, ← h2]
      apply List.map_congr_left
      intro s hs
      exact specEls_last mid s (hgood s hs).2.1
  · unfold kindOK
    cases hsp : splitLastOn pts with
    | none => rfl
    | some t =>
      obtain ⟨st, h1, _⟩ := hsegs t hsp
      simp only [h1, List.drop_one, List.tail_cons]
      rw [chunks_flatMap _ _ _ (fun s hs => specEls_length mid s (hgood s hs))]
      simp
  · unfold closedOK
    by_cases hc : isClosed pts = true
    · by_cases hne : pts = []
      · subst hne; simp
      · obtain ⟨st, rest, h1, h2⟩ := closed_returns_to_start mid pts _ h hk hc hne
        have : pts.isEmpty = false := by cases pts <;> simp_all
        simp [hc, this, h1, h2]
    · simp [hc]
  · exact isSublist_of_sublist _ _ (no_point_lost mid pts _ h hk)

/-! ## transforms -/

/-- **the transform formula** of the property, over any type with `+` and `*` (so also `Float`) -/
theorem transform_formula {β : Type} [Add β] [Mul β] (t : Affine β) (x y : β) :
    transform t x y =
      (t.xScale * x + t.yxScale * y + t.xOffset, t.xyScale * x + t.yScale * y + t.yOffset) := rfl

/-- applying the transform is the same expression as `kurbo::Affine * Point` on the converted
    transform (term for term, hence bit for bit in floating point) -/
theorem transform_eq_kurbo {β : Type} [Add β] [Mul β] (t : Affine β) (x y : β) :
    (toK t).apply x y = transform t x y := rfl

/-- converting a transform to kurbo and back is the identity, in both directions -/
theorem affine_roundtrip {β : Type} (t : Affine β) (k : KAffine β) :
    ofK (toK t) = t ∧ toK (ofK k) = k := ⟨rfl, rfl⟩

/-- the kurbo conversion maps the coefficients `[xScale, xyScale, yxScale, yScale, xOffset, yOffset]`
    in this order (a consistent swap in both conversions would keep `affine_roundtrip` true) -/
theorem toK_coeffs {β : Type} (t : Affine β) :
    toK t = ⟨t.xScale, t.xyScale, t.yxScale, t.yScale, t.xOffset, t.yOffset⟩ := rfl

/-! ## source-level tie: the conversion regenerated from `src/glyph/mod.rs` on every run

`Generated/KurboConv.lean` is written by `tools/extract_kurbo_conv.py` from `Contour::is_closed`, `Contour::to_kurbo`
(start-point selection, the two walks, the off-curve-only block, the five arms of `match pt.typ`, the slice-pattern
arms of the `Curve` arm with the error returned, the `QCurve` loop, every `close_path` call), `ContourPoint::transform`
(expression structure preserved), both `From` impls, and kurbo's `Affine * Point` from the vendored crate, as they
stand in the working tree.  The theorems below say that the regenerated definitions ARE the hand-written model's, so
`toKurbo_eq_spec` and everything above is re-checked against the current source; a changed arm, threshold, error,
rotation constant, midpoint pair, cross term or coefficient order makes one of them fail to check (and the
correspondence run then supplies the concrete contour or transform). -/

theorem source_isClosed_eq_model : @Gen.isClosed = @isClosed := by
  funext α pts
  cases pts <;> rfl

theorem source_rotateIdx_eq_model : @Gen.rotateIdx = @rotateIdx := rfl

theorem source_curveArm_eq_model : @Gen.curveArm = @curveArm := by
  funext α offs e
  rcases offs with _ | ⟨a, _ | ⟨b, _ | ⟨c, r⟩⟩⟩ <;> rfl

theorem source_qcurveLoop_eq_model : @Gen.qcurveLoop = @qcurveLoop := by
  funext α mid l
  induction l with
  | nil => funext e; simp [Gen.qcurveLoop, qcurveLoop]
  | cons a r ih =>
    cases r with
    | nil => funext e; simp [Gen.qcurveLoop, qcurveLoop]
    | cons b r' => funext e; simp [Gen.qcurveLoop, qcurveLoop, ih]

theorem source_qcurveArm_eq_model : @Gen.qcurveArm = @qcurveArm := by
  funext α mid offs e
  simp [Gen.qcurveArm, qcurveArm, source_qcurveLoop_eq_model]

theorem source_go_eq_model : @Gen.go = @go := by
  funext α mid offs ps
  induction ps generalizing offs with
  | nil => simp [Gen.go, go]
  | cons p ps ih =>
    unfold Gen.go go
    rw [source_curveArm_eq_model, source_qcurveArm_eq_model]
    cases p.typ <;> simp [ih]
    cases curveArm offs p.pos <;> rfl

theorem source_drawWalk_eq_model : @Gen.drawWalk = @drawWalk := by
  funext α mid pts
  cases pts <;> simp [Gen.drawWalk, drawWalk, source_go_eq_model]

theorem source_allOffPath_eq_model : @Gen.allOffPath = @allOffPath := rfl

/-- the conversion as regenerated from the source is the model the theorems are about -/
theorem source_toKurbo_eq_model : @Gen.toKurbo = @toKurbo := by
  funext α mid pts
  unfold Gen.toKurbo toKurbo
  rw [source_isClosed_eq_model, source_rotateIdx_eq_model, source_drawWalk_eq_model,
    source_allOffPath_eq_model]
  cases isClosed pts <;> cases rotateIdx pts <;> rfl

/-- **the property, stated of the regenerated source**: for every legal contour it succeeds with the outline -/
theorem source_toKurbo_eq_spec {α : Type} (mid : α → α → α) (pts : List (Pt α)) (h : Legal pts) :
    Gen.toKurbo mid pts = .ok (specPath mid pts) := by
  rw [source_toKurbo_eq_model]
  exact toKurbo_eq_spec mid pts h

/-- the model never produces `close` … -/
theorem go_never_closes {α : Type} (mid : α → α → α) (ps : List (Pt α)) (offs : List α) (els : List (El α))
    (h : go mid offs ps = .ok els) : El.close ∉ els := by
  induction ps generalizing offs els with
  | nil => simp [go] at h; subst h; simp
  | cons p ps ih =>
    unfold go at h
    have hq : ∀ (o : List α) (e : α), El.close ∉ qcurveLoop mid o e := by
      intro o
      induction o with
      | nil => intro e; simp [qcurveLoop]
      | cons a r ihq =>
        cases r with
        | nil => intro e; simp [qcurveLoop]
        | cons b r' => intro e; simp only [qcurveLoop, List.mem_cons, not_or]; exact ⟨by simp, ihq e⟩
    have hpre : ∀ (a : List (El α)) (q : List α), El.close ∉ a → prepend a (go mid q ps) = .ok els → El.close ∉ els := by
      intro a q ha hp
      cases hg : go mid q ps with
      | error e => simp [hg, prepend] at hp
      | ok b =>
        simp only [hg, prepend, Except.ok.injEq] at hp
        subst hp
        simp only [List.mem_append, not_or]
        exact ⟨ha, ih q b hg⟩
    cases ht : p.typ with
    | move => simp only [ht] at h; exact hpre _ _ (by simp) h
    | line => simp only [ht] at h; exact hpre _ _ (by simp) h
    | off => simp only [ht] at h; exact ih _ _ h
    | qcurve =>
      simp only [ht] at h
      refine hpre _ _ ?_ h
      unfold qcurveArm
      simp only [List.mem_append, not_or]
      exact ⟨by split <;> simp, hq _ _⟩
    | curve =>
      simp only [ht] at h
      cases hc : curveArm offs p.pos with
      | error e => simp [hc] at h
      | ok a =>
        simp only [hc] at h
        refine hpre _ _ ?_ h
        unfold curveArm at hc
        rcases offs with _ | ⟨x, _ | ⟨y, _ | ⟨z, r⟩⟩⟩ <;> simp at hc <;> subst hc <;> simp

/-- … and the source has no `close_path` call: "returns to its start" is the end point of the last segment -/
theorem source_never_closes {α : Type} (mid : α → α → α) (pts : List (Pt α)) (els : List (El α))
    (h : Gen.toKurbo mid pts = .ok els) : Gen.emitsClose = false ∧ El.close ∉ els := by
  refine ⟨rfl, ?_⟩
  rw [source_toKurbo_eq_model] at h
  unfold toKurbo at h
  have hdw : ∀ w, drawWalk mid w = .ok els → El.close ∉ els := by
    intro w hw
    cases w with
    | nil => simp [drawWalk] at hw; subst hw; simp
    | cons s r =>
      simp only [drawWalk] at hw
      cases hg : go mid [] r with
      | error e => simp [hg, prepend] at hw
      | ok b =>
        simp only [hg, prepend, Except.ok.injEq] at hw
        subst hw
        simpa using go_never_closes mid r [] b hg
  split at h
  · split at h
    · simp only [Except.ok.injEq] at h
      subst h
      unfold allOffPath
      split <;> simp
    · exact hdw _ h
  · exact hdw _ h

/-- the transform formula of the source is the model's (structure of `+` and `*` included) -/
theorem source_transform_eq_model : @Gen.transform = @transform := rfl

/-- `transform` exists in two build variants (statements under `#[cfg(feature = "kurbo")]` /
    `#[cfg(not(feature = "kurbo"))]`): the default-feature build — the one a user gets unless asking otherwise, and the
    one the kurbo-enabled harness never executes — is the model's formula as well … -/
theorem source_transform_plain_eq_model : @Gen.transformPlain = @transform := rfl

/-- … so the two builds of the source compute the same expression -/
theorem source_transform_builds_agree : @Gen.transform = @Gen.transformPlain := rfl

/-- neither build of `transform` returns early: there is no condition in front of the formula (the translator turns
    `if transform.is_identity() { return; }` and the like into a guarded arm over `Num`, reading the predicate's body from
    the source; such a `Gen.transform` takes an extra argument and `source_transform_eq_model` no longer type-checks) -/
theorem source_transform_has_no_early_return : Gen.transformGuards = 0 ∧ Gen.transformPlainGuards = 0 :=
  ⟨rfl, rfl⟩

/-- both conversions of the source map the coefficients as the model does -/
theorem source_conversions_eq_model : @Gen.toK = @toK ∧ @Gen.ofK = @ofK := ⟨rfl, rfl⟩

/-- kurbo's `Affine * Point`, read from the vendored crate, is the model's `KAffine.apply` -/
theorem source_kurbo_apply_eq_model : @Gen.kApply = @KAffine.apply := rfl

/-- **the transform part of the property, stated of the regenerated sources alone**: norad's `transform` is the same
    expression as kurbo's `Affine * Point` on the converted transform, it is the formula of the property, and the two
    conversions are inverse to each other -/
theorem source_transform_property {β : Type} [Add β] [Mul β] (t : Affine β) (k : KAffine β) (x y : β) :
    Gen.kApply (Gen.toK t) x y = Gen.transform t x y ∧
    Gen.transform t x y =
      (t.xScale * x + t.yxScale * y + t.xOffset, t.xyScale * x + t.yScale * y + t.yOffset) ∧
    Gen.ofK (Gen.toK t) = t ∧ Gen.toK (Gen.ofK k) = k := ⟨rfl, rfl, rfl, rfl⟩

/-! ## non-vacuity and regression witnesses (integer coordinates, `mid a b = (a + b) / 2`) -/

section examples
def im (a b : Int) : Int := (a + b) / 2
def pt (t : PT) (x : Int) : Pt Int := ⟨⟨t, false⟩, x⟩

-- the three repaired defects now satisfy the full statement
example : toKurbo im [pt .line 0, pt .curve 10, pt .line 20]
    = .ok [.moveTo 20, .lineTo 0, .lineTo 10, .lineTo 20] := by rfl
example : toKurbo im [pt .line 0, pt .qcurve 10, pt .line 20]
    = .ok [.moveTo 20, .lineTo 0, .lineTo 10, .lineTo 20] := by rfl
example : toKurbo im [pt .off 0, pt .off 10, pt .off 20, pt .off 40]
    = .ok [.moveTo 20, .quadTo 0 5, .quadTo 10 15, .quadTo 20 30, .quadTo 40 20] := by rfl
-- a closed contour starting inside a run of off-curves: the start point is a `curve` whose
-- off-curves wrap around the end of the list
example : toKurbo im [pt .off 2, pt .curve 4, pt .line 6, pt .off 8]
    = .ok [.moveTo 6, .curveTo 8 2 4, .lineTo 6] := by rfl
example : Legal [pt .off 2, pt .curve 4, pt .line 6, pt .off 8] :=
  (C11.accepts_iff_legal _).1 (by decide)
-- the hypothesis `Legal` is needed: three off-curves before a `curve` is an error
example : toKurbo im [pt .off 2, pt .off 3, pt .curve 4, pt .off 8] = .error .tooMany := by rfl
-- and the theorems are not vacuous for off-curves only
example : Legal [pt .off 0, pt .off 10, pt .off 20] := (C11.accepts_iff_legal _).1 (by decide)
end examples

end C20
