import Norad.Lemmas.C20
