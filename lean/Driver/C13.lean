import Norad.Base.Proto
import Norad.Spec.FontInfo
import Norad.Model.FontInfoUp
/-! Driver module for C13: `C13 <key=value ..> => v=<..> s=<..> l=<..>` (see harness/src/c13.rs) -/
namespace Driver.C13
open Proto _root_.C13 FI

def parseInt (s : String) : Option Int :=
  if s.startsWith "-" then (s.drop 1).toString.toNat?.map (fun n => -Int.ofNat n)
  else s.toNat?.map Int.ofNat

def parseList {α} (f : String → Option α) (sep : String) (s : String) : Option (List α) :=
  if s = "-" then some [] else (s.splitOn sep).mapM f

def parseGuide (s : String) : Option RawGuide :=
  let (shape, id) : String × Option String := match s.splitOn "#" with
    | [a, b] => (a, some b)
    | _ => (s, none)
  let ident : Option (Option (List Char)) := match id with
    | none => some none
    | some h => (unhexStr h).map some
  match ident with
  | none => none
  | some ident =>
    if shape = "v" then some ⟨true, false, none, ident⟩
    else if shape = "h" then some ⟨false, true, none, ident⟩
    else if shape = "n" then some ⟨false, false, none, ident⟩
    else if shape = "xy" then some ⟨true, true, none, ident⟩
    else if shape.startsWith "xa" then (dblOfHex (shape.drop 2).toString).map fun d => ⟨true, false, some d, ident⟩
    else if shape.startsWith "ya" then (dblOfHex (shape.drop 2).toString).map fun d => ⟨false, true, some d, ident⟩
    else if shape.startsWith "a" then (dblOfHex (shape.drop 1).toString).map fun d => ⟨true, true, some d, ident⟩
    else none

def parseItem (s : String) : Option ExtItem :=
  match s.splitOn "x" with
  | [a, b] => match a.toNat?, b.toNat? with
    | some n, some v => some ⟨n, v⟩
    | _, _ => none
  | _ => none

def parseRecord (s : String) : Option (List ExtItem) :=
  if s = "_" then some [] else (s.splitOn ",").mapM parseItem

/-- identifiers norad's `Identifier` type can hold: at most 100 characters in 0x20..0x7E -/
def identOK (s : List Char) : Bool := s.length ≤ 100 && s.all fun c => 0x20 ≤ c.toNat && c.toNat ≤ 0x7E

def applyTok (r : RawInfo) (t : String) : Option RawInfo :=
  match t.splitOn "=" with
  | [k, v] =>
    match k with
    | "empty" => some r
    | "route" => some r
    | "files" => some r
    | "req" => some r
    | "d" => (unhexStr v).map fun s => { r with created := some s }
    | "g" => (parseList parseInt "," v).map fun l => { r with gasp := some l }
    | "gl" => (parseList parseGuide ";" v).map fun l => { r with guidelines := some l }
    | "sel" => (parseList parseInt "," v).map fun l => { r with selection := some l }
    | "fc" => (parseList parseInt "," v).map fun l => { r with familyClass := some l }
    | "bv" => v.toNat?.map fun n => { r with blueValues := some n }
    | "ob" => v.toNat?.map fun n => { r with otherBlues := some n }
    | "fb" => v.toNat?.map fun n => { r with familyBlues := some n }
    | "fob" => v.toNat?.map fun n => { r with familyOtherBlues := some n }
    | "sh" => v.toNat?.map fun n => { r with stemSnapH := some n }
    | "sv" => v.toNat?.map fun n => { r with stemSnapV := some n }
    | "we" => (parseList parseRecord ";" v).map fun l => { r with woffExtensions := some l }
    | "wc" => v.toNat?.map fun n => { r with woffCredits := some n }
    | "wp" => v.toNat?.map fun n => { r with woffCopyright := some n }
    | "wd" => v.toNat?.map fun n => { r with woffDescription := some n }
    | "wt" => v.toNat?.map fun n => { r with woffTrademark := some n }
    | "wl" => v.toNat?.map fun n => { r with woffLicense := some n }
    | "pan" => (parseList parseInt "," v).map fun l => { r with panose := some l }
    | "wcl" => (parseInt v).map fun n => { r with widthClass := some n }
    | "cs" => (parseInt v).map fun n => { r with winCharSet := some n }
    | "sm" => (unhexStr v).map fun s => { r with styleMap := some s }
    | _ => none
  | _ => none

def parseRaw (toks : List String) : Option RawInfo :=
  toks.foldl (fun acc t => match acc with | none => none | some r => applyTok r t) (some {})

def obsField (obs : List String) (k : String) : String :=
  match obs.find? (·.startsWith (k ++ "=")) with
  | some t => (t.drop (k.length + 1)).toString
  | none => "?"

/-- first component before `:` -/
def headOf (s : String) : String := (s.splitOn ":").headD ""

def run (inp obs : List String) : Verdict :=
  match parseRaw (inp.drop 1) with
  | none => { agree := false, model := "bad-input" }
  | some raw =>
    -- identifiers outside norad's `Identifier` type and charset codes cannot be built in memory
    let identsOK := match raw.guidelines with
      | some gs => gs.all fun g => match g.ident with | some s => identOK s | none => true
      | none => true
    let memOK := identsOK && raw.winCharSet.isNone
    let info? := inMemory raw
    -- the glue stream: route x other files x entry point; what else is in the tree and what was requested must not
    -- matter: the font info is accepted iff it is well typed and satisfies the rules, and a returned font validates
    match (inp.drop 1).find? (·.startsWith "route=") with
    | some routeTok =>
      let route := (routeTok.drop 6).toString
      let zerosG (n : Nat) : List Nat := List.replicate n 0
      let lists : List (String × String × Option Nat) :=
        [("postscriptBlueValues", "blueValues", raw.blueValues), ("postscriptOtherBlues", "otherBlues", raw.otherBlues),
         ("postscriptFamilyBlues", "familyBlues", raw.familyBlues),
         ("postscriptFamilyOtherBlues", "familyOtherBlues", raw.familyOtherBlues),
         ("postscriptStemSnapH", "hStems", raw.stemSnapH), ("postscriptStemSnapV", "vStems", raw.stemSnapV)]
      let accepted : Bool :=
        if route = "v3" then (match loadInfo raw with | .loaded _ => identsOK | _ => false)
        else if route = "v2" then
          let attrs : List (String × _root_.C14.Val) :=
            (match raw.created with | some d => [("openTypeHeadCreated", _root_.C14.Val.str (String.ofList d))] | none => []) ++
            (match raw.selection with | some l => [("openTypeOS2Selection", _root_.C14.Val.ints l)] | none => []) ++
            (match raw.familyClass with | some l => [("openTypeOS2FamilyClass", _root_.C14.Val.ints l)] | none => []) ++
            lists.filterMap fun (k, _, n) => n.map fun n => (k, _root_.C14.Val.nums (zerosG n))
          (match _root_.C14.fromFile 2 attrs with | .ok _ => true | .error _ => false)
        else
          let hint : List (String × _root_.C14.Val) := (lists.zipIdx).filterMap fun ((_, k, n), idx) =>
            n.map fun n => (k, if idx < 4 then _root_.C14.Val.numss [zerosG n] else _root_.C14.Val.nums (zerosG n))
          (match _root_.C14.load { fmt := 1, attrs := [("familyName", .str "F")], hasLib := true, robofab := { hint := some hint } } with
           | .ok _ => true | .error _ => false)
      let modelOut := if accepted then "g=loaded" else "g=rejected"
      let oG := obsField obs "g"
      let iG := headOf oG
      let implOut := "g=" ++ iG
      let viol : List String := match info? with | some i => violated i | none => []
      let feats := ",".intercalate viol
      let spec : List String :=
        (if iG = "panic" then ["load-panics"] else []) ++
        (if oG.startsWith "loaded:invalid" || oG.startsWith "loaded:validate-panics" then ["loaded-info-invalid:" ++ feats] else []) ++
        (if iG = "loaded" && (info?.isNone || !viol.isEmpty) then ["load-accepts-violation:" ++ feats] else []) ++
        (if iG = "rejected" && info?.isSome && viol.isEmpty && identsOK then ["load-rejects-conforming"] else []) ++
        (if iG = "unrelated-error" then ["unexpected-error-class"] else [])
      let tags := ["glue", "route-" ++ route, "g-" ++ iG, if viol.isEmpty then "conforming" else "violating"] ++
        (inp.drop 1).filterMap (fun t => if t.startsWith "req=" then some ("req-" ++ (t.drop 4).toString) else none) ++
        (match (inp.drop 1).find? (·.startsWith "files=") with
         | some t => ((t.drop 6).toString.splitOn ",").map ("file-" ++ ·)
         | none => []) ++ viol.map ("viol-" ++ ·) ++ ["nt"]
      { agree := modelOut == implOut, spec := spec, tags := tags, model := modelOut }
    | none =>
    -- model
    let mV := match info? with
      | some i => if memOK then (match validate i with | .ok => "ok" | .err _ => "err" | .panic => "panic") else "na"
      | none => "na"
    let mS := match info? with
      | some i => if memOK then (match saveInfo i with
          | .ok => "ok" | .refused _ => "refused" | .late _ => "late" | .panic => "panic") else "na"
      | none => "na"
    let mL := if !identsOK then "parse" else match loadInfo raw with
      | .loaded _ => "loaded" | .parseErr => "rejected" | .invalid _ => "rejected" | .panic => "panic"
    -- the upconversion paths (C14 model): the same attributes in a format-2 file, the lists as robofab hint data
    let onlyV2 := raw.gasp.isNone && raw.guidelines.isNone && raw.woffExtensions.isNone && raw.woffCredits.isNone &&
      raw.woffCopyright.isNone && raw.woffDescription.isNone && raw.woffTrademark.isNone && raw.woffLicense.isNone &&
      raw.panose.isNone && raw.widthClass.isNone && raw.winCharSet.isNone && raw.styleMap.isNone
    let onlyLists := onlyV2 && raw.created.isNone && raw.selection.isNone && raw.familyClass.isNone
    let zeros (n : Nat) : List Nat := List.replicate n 0
    let listAttrs : List (String × Option Nat) :=
      [("postscriptBlueValues", raw.blueValues), ("postscriptOtherBlues", raw.otherBlues),
       ("postscriptFamilyBlues", raw.familyBlues), ("postscriptFamilyOtherBlues", raw.familyOtherBlues),
       ("postscriptStemSnapH", raw.stemSnapH), ("postscriptStemSnapV", raw.stemSnapV)]
    let v2Attrs : List (String × _root_.C14.Val) :=
      (match raw.created with | some d => [("openTypeHeadCreated", _root_.C14.Val.str (String.ofList d))] | none => []) ++
      (match raw.selection with | some l => [("openTypeOS2Selection", _root_.C14.Val.ints l)] | none => []) ++
      (match raw.familyClass with | some l => [("openTypeOS2FamilyClass", _root_.C14.Val.ints l)] | none => []) ++
      listAttrs.filterMap fun (k, n) => n.map fun n => (k, _root_.C14.Val.nums (zeros n))
    let mU2 := if !onlyV2 then "na" else match _root_.C14.fromFile 2 v2Attrs with
      | .ok _ => "loaded" | .error _ => "rejected"
    let hintNames := ["blueValues", "otherBlues", "familyBlues", "familyOtherBlues", "hStems", "vStems"]
    let hint : List (String × _root_.C14.Val) :=
      ((hintNames.zip (listAttrs.map (·.2))).zipIdx).filterMap fun ((k, n), idx) =>
        n.map fun n => (k, if idx < 4 then _root_.C14.Val.numss [zeros n] else _root_.C14.Val.nums (zeros n))
    let mU1 := if !onlyLists then "na" else
      match _root_.C14.load { fmt := 1, attrs := [], hasLib := true, robofab := { hint := some hint } } with
      | .ok _ => "loaded" | .error _ => "rejected"
    let modelOut := s!"v={mV} s={mS} so={mS} sq={mS} l={mL} u2={mU2} u1={mU1}"
    -- implementation, at the compared abstraction
    let oV := obsField obs "v"
    let oS := obsField obs "s"
    let oL := obsField obs "l"
    let iV := headOf oV
    let iS := headOf oS
    let iL := match headOf oL with
      | "parse" => if identsOK then "rejected" else "parse"
      | "invalid" => "rejected"
      | x => x
    let legacyClass (s : String) : String := match headOf s with
      | "parse" => "rejected" | "invalid" => "rejected" | x => x
    let iU2 := legacyClass (obsField obs "u2")
    let iU1 := legacyClass (obsField obs "u1")
    -- the other public save entry points: save_with_options with default and with custom options
    let oSo := obsField obs "so"
    let oSq := obsField obs "sq"
    let iSo := headOf oSo
    let iSq := headOf oSq
    let implOut := s!"v={iV} s={iS} so={iSo} sq={iSq} l={iL} u2={iU2} u1={iU1}"
    -- specification oracle on the implementation's own verdicts
    let viol : List String := match info? with | some i => violated i | none => []
    let feats := ",".intercalate viol
    let rulesHold := viol.isEmpty
    let spec : List String :=
      (if iV = "panic" then ["validate-panics"] else []) ++
      (if iL = "panic" then ["load-panics"] else []) ++
      (if iV = "ok" && !rulesHold then ["validate-accepts-violation:" ++ feats] else []) ++
      (if iV = "err" && rulesHold then ["validate-rejects-conforming"] else []) ++
      ([("save", oS), ("save_with_options", oSo), ("save_with_options-custom", oSq)].flatMap fun (lbl, o) =>
        let i := headOf o
        (if i = "panic" then [lbl ++ "-panics"] else []) ++
        (if i = "ok" && !rulesHold then [lbl ++ "-accepts-violation:" ++ feats] else []) ++
        (if o.startsWith "ok:" then [lbl ++ "d-file-" ++ (o.drop 3).toString] else []) ++
        (if (i = "refused" || i = "refused-wiped" || i = "late") && rulesHold then [lbl ++ "-rejects-conforming"] else []) ++
        (if i = "late" || i = "refused-wiped" then [lbl ++ "-refuses-after-wipe:" ++ feats] else []) ++
        (if i = "other" || i = "?" then [lbl ++ "-unexpected-result"] else [])) ++
      (if iL = "loaded" && (info?.isNone || !rulesHold || !identsOK) then ["load-accepts-violation:" ++ feats] else []) ++
      (if oL = "loaded:diff" then ["loaded-value-differs"] else []) ++
      (if iL = "rejected" && info?.isSome && rulesHold && identsOK then ["load-rejects-conforming"] else []) ++
      (if iU2 = "panic" || iU1 = "panic" then ["legacy-load-panics"] else []) ++
      (if iU2 = "loaded" && (info?.isNone || !rulesHold) then ["format2-load-accepts-violation:" ++ feats] else []) ++
      (if iU1 = "loaded" && (info?.isNone || !rulesHold) then ["format1-hint-load-accepts-violation:" ++ feats] else []) ++
      (if iU2 = "rejected" && info?.isSome && rulesHold then ["format2-load-rejects-conforming"] else []) ++
      (if iU1 = "rejected" && info?.isSome && rulesHold then ["format1-hint-load-rejects-conforming"] else []) ++
      (if iL = "other" || iS = "other" || iU2 = "other" || iU1 = "other" then ["unexpected-error-class"] else [])
    -- a refusal may name any rule that is violated, not one that holds (`validate_error_kind`)
    let kindOf (s : String) : String := ((s.splitOn ":").getD 1 "")
    let rulesOfKind (k : String) : List String := match k with
      | "InvalidOpenTypeHeadCreatedDate" => ["date"]
      | "UnsortedGaspEntries" => ["gasp"]
      | "DuplicateGuidelineIdentifiers" => ["ids"]
      | "InvalidGuidelineAngle" => ["angle"]
      | "DisallowedSelectionBits" => ["selection"]
      | "InvalidOs2FamilyClass" => ["class"]
      | "InvalidPostscriptListLength" => ["blueValues", "otherBlues", "familyBlues", "familyOtherBlues", "stemH", "stemV"]
      | "PostscriptListMustBePairs" => ["blueValues", "otherBlues", "familyBlues", "familyOtherBlues"]
      | "EmptyWoffAttribute" => ["woffExt", "woffCredits", "woffCopyright", "woffDescription", "woffTrademark"]
      | _ => []
    let kindBad (o : String) : Bool :=
      (o.startsWith "err:" || o.startsWith "refused:" || o.startsWith "invalid:") && !rulesHold &&
        !(rulesOfKind (kindOf o)).any viol.contains
    let spec := spec ++
      (if info?.isSome && (kindBad oV || kindBad oS || kindBad oSo || kindBad oSq || kindBad oL) then ["refusal-names-a-rule-that-holds"] else [])
    -- tags
    let tags :=
      [if rulesHold then "conforming" else "violating", "v-" ++ iV, "s-" ++ iS, "so-" ++ iSo, "sq-" ++ iSq, "l-" ++ iL, "u2-" ++ iU2, "u1-" ++ iU1] ++
      viol.map ("viol-" ++ ·) ++
      (if info?.isNone then ["ill-typed"] else []) ++
      (if iV = "err" then ["kind-" ++ kindOf oV] else []) ++
      (inp.drop 1).map (fun t => "has-" ++ (t.splitOn "=").headD "") ++
      (if (inp.drop 1) ≠ ["empty=1"] then ["nt"] else [])
    { agree := modelOut == implOut, spec := spec, tags := tags, model := modelOut }

end Driver.C13
