import Norad.Base.Proto
import Norad.Model.Kerning
import Norad.Spec.Kerning
/-!
Driver module for C15.

* `C15 load <fmt> <G> <K> <S> <L> => ok <G> <K> | err <class> | panic`
  `Font::load` of a generated tree.  `<G>` = `G!` (no groups.plist) or `G:k=m,m;k=;…`, `<K>` = `K!` or
  `K:first=second:bits,second:bits;…`, `<L>` = `L:n,n` the glyph names of the loaded layers (what the
  property speaks about and what the repaired code consults), `<S>` = `S:n,n` the names norad's
  interning table holds after the layers are loaded (glyph names plus component bases: what the code
  consulted before the repair; a failure that depends on the difference is labelled).  All names hex.
* `C15 save <G> => ok | err <class> | panic`: `Font::save` of a new font with these groups.
-/
namespace Driver.C15
open Proto StrMap

def splitNonEmpty (s : String) (sep : String) : List String := (s.splitOn sep).filter (· ≠ "")

def parseNames (s : String) : Option (List Str) := (splitNonEmpty s ",").mapM unhexStr

def parseGroups (tok : String) : Option (Option Kern.Groups) :=
  if tok = "G!" then some none
  else if !tok.startsWith "G:" then none
  else
    match (splitNonEmpty (tok.drop 2).toString ";").mapM (fun e =>
      match e.splitOn "=" with
      | [k, ms] => match unhexStr k, parseNames ms with
        | some k', some ms' => some (k', ms')
        | _, _ => none
      | _ => none) with
    | some g => some (some g)
    | none => none

def hexNat (s : String) : Option Nat :=
  s.toList.foldl (fun acc c => match acc, hexVal c with
    | some a, some d => some (a * 16 + d)
    | _, _ => none) (some 0)

def parseSeconds (s : String) : Option Kern.Seconds :=
  (splitNonEmpty s ",").mapM (fun p =>
    match p.splitOn ":" with
    | [n, b] => match unhexStr n, hexNat b with
      | some n', some b' => some (n', UInt64.ofNat b')
      | _, _ => none
    | _ => none)

def parseKerning (tok : String) : Option (Option Kern.Kerning) :=
  if tok = "K!" then some none
  else if !tok.startsWith "K:" then none
  else
    match (splitNonEmpty (tok.drop 2).toString ";").mapM (fun e =>
      match e.splitOn "=" with
      | [k, ss] => match unhexStr k, parseSeconds ss with
        | some k', some ss' => some (k', ss')
        | _, _ => none
      | _ => none) with
    | some k => some (some k)
    | none => none

def parseSet (pre : String) (tok : String) : Option (List Str) :=
  if tok.startsWith pre then parseNames (tok.drop pre.length).toString else none

def hex16 (v : UInt64) : String :=
  String.ofList ((List.range 16).reverse.map (fun i => hexDigit ((v.toNat / 16 ^ i) % 16)))

def renderGroups (g : Kern.Groups) : String :=
  "G:" ++ ";".intercalate ((sortEntries g).map (fun e =>
    hexOfStr e.1 ++ "=" ++ ",".intercalate (e.2.map hexOfStr)))

def renderKerning (k : Kern.Kerning) : String :=
  "K:" ++ ";".intercalate ((sortEntries k).map (fun e =>
    hexOfStr e.1 ++ "=" ++ ",".intercalate ((sortEntries e.2).map (fun s => hexOfStr s.1 ++ ":" ++ hex16 s.2))))

def hasSuffixed (t : Kern.Table) (pfx legacy : Str) : Bool :=
  t.any (fun e => e.2 != pfx ++ removeAll legacy e.1)

def runLoadSeg (fmtTok gTok kTok sTok lTok : String) (obs : List String) : Verdict :=
  match fmtTok.toNat?, parseGroups gTok, parseKerning kTok, parseSet "S:" sTok, parseSet "L:" lTok with
  | some fmt, some g?, some k?, some S, some L =>
    let legacy := fmt != 3
    -- model
    let m := Kern.loadGroupsKerning Kern.decimal fmt g? k? L
    let (modelOut, tbls) := match m with
      | .panic s => ("panic " ++ s, none)
      | .outOfFuel => ("out-of-fuel", none)
      | .ok (.error _) => ("err", none)
      | .ok (.ok (g', k')) => ("ok " ++ renderGroups g' ++ " " ++ renderKerning k',
          match g? with
          | some g => if legacy then
              match Kern.upconvertKerning Kern.decimal g (k?.getD []) L with
              | .ok o => some (o.t1, o.t2)
              | _ => none
            else none
          | none => none)
    let implOut := match obs with
      | ["ok", g, k] => "ok " ++ g ++ " " ++ k
      | "err" :: _ => "err"
      | _ => " ".intercalate obs
    -- specification on the implementation's observation, with the glyph names of the layers
    let g := g?.getD []
    let k := k?.getD []
    let mustAccept :=
      if g?.isNone then true
      else if legacy then KernSpec.convertedValidB g k L else KernSpec.validGroupsB g
    let spec : List String :=
      match obs with
      | ["ok", gT, kT] =>
        match parseGroups gT, parseKerning kT with
        | some (some g'), some (some k') =>
          (if mustAccept then [] else ["accepted-invalid-groups"]) ++
          (if !KernSpec.validGroupsB g' then ["returned-invalid-groups"] else []) ++
          (if legacy && g?.isSome then KernSpec.judgeUpconversion g k L g' k'
           else (if renderGroups g' == renderGroups g then [] else ["groups-altered"]) ++
                (if renderKerning k' == renderKerning k then [] else ["kerning-altered"]))
        | _, _ => ["unparsable-observation"]
      | "err" :: _ => if mustAccept then ["rejected-valid-groups"] else []
      | _ => ["panic-or-unknown"]
    -- diagnosis only: the observation violates the statement for the glyph names of the layers but is
    -- what a conversion consulting the interning table (the code before the repair) returns
    let internedDiffers := legacy && g?.isSome &&
      (KernSpec.sources1 g k L != KernSpec.sources1 g k S || KernSpec.sources2 g k L != KernSpec.sources2 g k S)
    let internedMatters := internedDiffers && !spec.isEmpty &&
      (match obs with
       | ["ok", gT, kT] =>
         match parseGroups gT, parseKerning kT with
         | some (some g'), some (some k') => (KernSpec.judgeUpconversion g k S g' k').isEmpty
         | _, _ => false
       | _ => false)
    let spec := if internedMatters then spec.map (fun r => r ++ ":consistent-with-interning-table") else spec
    let n1 := (KernSpec.sources1 g k L).length
    let n2 := (KernSpec.sources2 g k L).length
    let tags :=
      ["load", "fmt" ++ toString fmt, "src1-" ++ toString (min n1 4), "src2-" ++ toString (min n2 4)] ++
      (if g?.isNone then ["no-groups-file"] else []) ++
      (if k?.isNone then ["no-kerning-file"] else []) ++
      (match tbls with
       | some (t1, t2) => (if hasSuffixed t1 Kern.pfx1 Kern.mmkL || hasSuffixed t2 Kern.pfx2 Kern.mmkR
                            then ["suffixed"] else []) ++
                          (if KernSpec.nongroupKeyClash g k t1 t2 then ["nongroup-clash"] else [])
       | none => []) ++
      (if (KernSpec.sources1 g k L).any (fun n => (KernSpec.sources2 g k L).contains n) then ["both-sides"] else []) ++
      (if (keys g).any (fun n => L.contains n) then ["glyph-named-group"] else []) ++
      (if internedDiffers then ["interned-differs"] else []) ++
      (if g.any (fun e => Kern.pfx1.isPrefixOf e.1 || Kern.pfx2.isPrefixOf e.1) then ["has-kern-group"] else []) ++
      [if mustAccept then "valid" else "invalid"] ++
      (if (legacy && g?.isSome && n1 + n2 > 0) ||
          g.any (fun e => Kern.pfx1.isPrefixOf e.1 || Kern.pfx2.isPrefixOf e.1) then ["nt"] else [])
    { agree := modelOut == implOut, spec := spec, tags := tags, model := modelOut }
  | _, _, _, _, _ => { agree := false, model := "bad-input" }

def runSaveSeg (gTok : String) (obs : List String) : Verdict :=
  match parseGroups gTok with
  | some (some g) =>
    let modelOut := match Kern.validateGroups g with
      | .ok () => "ok"
      | .error _ => "err"
    let implOut := match obs with
      | "ok" :: _ => "ok"
      | "err" :: _ => "err"
      | _ => " ".intercalate obs
    let valid := KernSpec.validGroupsB g
    let spec := match obs with
      | "ok" :: _ => if valid then [] else ["wrote-invalid-groups"]
      | "ok-but-reload-fails" :: _ => if valid then ["written-groups-do-not-reload"] else ["wrote-invalid-groups"]
      | "ok-but-reload-differs" :: _ =>
        (if valid then [] else ["wrote-invalid-groups"]) ++ ["written-groups-reload-differently"]
      | "err" :: _ => if valid then ["refused-valid-groups"] else []
      | _ => ["panic-or-unknown"]
    let kern := g.any (fun e => Kern.pfx1.isPrefixOf e.1 || Kern.pfx2.isPrefixOf e.1)
    let tags := ["save", if valid then "valid" else "invalid"] ++
      (if g.any (fun e => e.1 == Kern.pfx1 || e.1 == Kern.pfx2) then ["prefix-only"] else []) ++
      (if kern then ["has-kern-group", "nt"] else [])
    { agree := modelOut == implOut, spec := spec, tags := tags, model := modelOut }
  | _ => { agree := false, model := "bad-input" }

/-- split the observation at `||`: one segment per entry point of the API -/
def segments (obs : List String) : List (List String) :=
  let rec go (cur : List String) : List String → List (List String)
    | [] => [cur.reverse]
    | "||" :: r => cur.reverse :: go [] r
    | t :: r => go (t :: cur) r
  go [] obs

/-- merge the verdicts of the entry points: all must agree with the model and satisfy the specification -/
def mergeSegs (vs : List (String × Verdict)) : Verdict :=
  match vs with
  | [] => { agree := false, model := "no-observation" }
  | (_, v0) :: _ =>
    let bad := vs.filter (fun nv => !nv.2.agree || !nv.2.spec.isEmpty)
    let spec := vs.foldl (fun acc nv => acc ++ nv.2.spec.filter (fun r => !acc.contains r)) []
    let note := match bad with
      | [] => ""
      | (n, v) :: _ => if n == (vs.head?.map (·.1)).getD "" then "" else "[entry point " ++ n ++ ": model " ++ v.model ++ "] "
    { agree := vs.all (·.2.agree), spec := spec, tags := v0.tags, model := note ++ v0.model }

/-- request shape id ↦ (name, groups requested, kerning requested, layers requested); the ids of
    `harness/src/c15.rs: request_shape` -/
def shapeOf (id : Nat) : String × Bool × Bool × Bool :=
  match id with
  | 0 => ("Font::load", true, true, true)
  | 1 => ("load_requested_data(default)", true, true, true)
  | 2 => ("load_requested_data(none.groups.kerning)", true, true, false)
  | 3 => ("load_requested_data(default.kerning(false))", true, false, true)
  | 4 => ("load_requested_data(default.groups(false))", false, true, true)
  | 5 => ("load_requested_data(default.groups(false).kerning(false))", false, false, true)
  | 6 => ("load_requested_data(default.lib(false))", true, true, true)
  | 7 => ("load_requested_data(none.groups)", true, false, false)
  | 8 => ("load_requested_data(none.kerning)", false, true, false)
  | 9 => ("load_requested_data(none.kerning.groups)", true, true, false)
  | 10 => ("load_requested_data(default.layers(false))", true, true, false)
  | 11 => ("load_requested_data(default.kerning(false).kerning(true))", true, true, true)
  | 12 => ("load_requested_data(all.kerning(false).features(false).data(false).images(false))", true, false, true)
  | _ => ("load_requested_data(none.layers.groups)", true, false, true)

/-- one segment `@<shape> <outcome>`: what is not requested is, for the model and for the specification, a
    file that is not there (groups: nothing returned, nothing validated; kerning: the conversion sees no
    pairs, so only the legacy-prefixed groups are sources; layers: the glyph set is empty) -/
def runShapeSeg (fmt g k s l : String) (seg : List String) : String × Verdict :=
  match seg with
  | idTok :: o =>
    match (idTok.drop 1).toString.toNat? with
    | some id =>
      if idTok.startsWith "@" then
        let (name, gq, kq, lq) := shapeOf id
        (name, runLoadSeg fmt (if gq then g else "G!") (if kq then k else "K!")
          (if lq then s else "S:") (if lq then l else "L:") o)
      else ("?", { agree := false, model := "bad-segment" })
    | none => ("?", { agree := false, model := "bad-segment" })
  | [] => ("?", { agree := false, model := "bad-segment" })

def runLoad (fmt g k s l : String) (obs : List String) : Verdict :=
  match segments obs with
  | [] => { agree := false, model := "bad-observation" }
  | [seg] => (runShapeSeg fmt g k s l seg).2
  | segs => mergeSegs (segs.map (runShapeSeg fmt g k s l))

/-- `Font::save`, `Font::save_with_options(default)`, `Font::save_with_options(two spaces, single quotes)` -/
def runSave (g : String) (obs : List String) : Verdict :=
  match segments obs with
  | [o1] => runSaveSeg g o1
  | [o1, o2, o3] => mergeSegs [("Font::save", runSaveSeg g o1),
      ("Font::save_with_options(default)", runSaveSeg g o2),
      ("Font::save_with_options(custom)", runSaveSeg g o3)]
  | _ => { agree := false, model := "bad-observation" }

def run (inp obs : List String) : Verdict :=
  match inp with
  | [_, "load", fmt, g, k, s, l] => runLoad fmt g k s l obs
  | [_, "save", g] => runSave g obs
  | _ => { agree := false, model := "bad-line" }

end Driver.C15
