import Norad.Base.Proto
import Norad.Spec.C12
/-! Token-level glue shared by the glif drivers (C12, C02): events, plist values, glyph dumps, and the
shape reader that turns an event list into a `Spec.Doc` (driver only; nothing is proved about it). -/
namespace Driver.Glif
open Proto _root_.Glif

def hexNat (s : String) : Option Nat :=
  s.toList.foldl (fun acc c => match acc, hexVal c with
    | some a, some d => some (a * 16 + d)
    | _, _ => none) (some 0)

def natHex16 (n : Nat) : String :=
  let rec go (k : Nat) (n : Nat) (acc : List Char) : List Char :=
    match k with
    | 0 => acc
    | k + 1 => go k (n / 16) (hexDigit (n % 16) :: acc)
  String.ofList (go 16 n [])

/-! ### plist values: `s<hex>` `i..` `r..` `b.` `x..` `t..` `[v,v]` `{hexkey=v,..}` -/

def isAtomChar (c : Char) : Bool := c.isAlphanum || c = '-' || c = '.' || c = '+'

partial def parsePV : List Char → Option (PV × List Char)
  | '[' :: r =>
    let rec items (r : List Char) (acc : List PV) : Option (List PV × List Char) :=
      match r with
      | ']' :: t => some (acc.reverse, t)
      | ',' :: t => items t acc
      | _ => match parsePV r with
        | some (v, t) => items t (v :: acc)
        | none => none
    match items r [] with
    | some (xs, t) => some (.arr xs, t)
    | none => none
  | '{' :: r =>
    let rec ents (r : List Char) (acc : List (Str × PV)) : Option (List (Str × PV) × List Char) :=
      match r with
      | '}' :: t => some (acc.reverse, t)
      | ',' :: t => ents t acc
      | _ =>
        let k := r.takeWhile (· ≠ '=')
        match unhexStr (String.ofList k), parsePV ((r.dropWhile (· ≠ '=')).drop 1) with
        | some ks, some (v, t) => ents t ((ks, v) :: acc)
        | _, _ => none
    match ents r [] with
    | some (kv, t) => some (.dict kv, t)
    | none => none
  | 's' :: r =>
    let h := r.takeWhile isAtomChar
    match unhexStr (String.ofList h) with
    | some s => some (.str s, r.dropWhile isAtomChar)
    | none => none
  | c :: r =>
    if c.isAlpha then
      let h := r.takeWhile isAtomChar
      some (.atom (String.ofList (c :: h)), r.dropWhile isAtomChar)
    else none
  | [] => none

partial def renderPV : PV → String
  | .str s => "s" ++ hexOfStr s
  | .atom t => t
  | .arr xs => "[" ++ ",".intercalate (xs.map renderPV) ++ "]"
  | .dict kv => "{" ++ ",".intercalate (kv.map fun e => hexOfStr e.1 ++ "=" ++ renderPV e.2) ++ "}"

def renderDict (d : Dict) : String := renderPV (.dict d)

def parseDictTok (s : String) : Option Dict :=
  match parsePV s.toList with
  | some (.dict d, []) => some d
  | _ => none

/-! ### events -/

def parseAttrs (s : String) : Option (Option (List Attr)) :=
  if s = "!" then some none
  else if s = "" then some (some [])
  else
    let ps := s.splitOn ","
    match ps.mapM (fun p => match p.splitOn "=" with
        | [k, v] => match unhexStr k, unhexStr v with
          | some k', some v' => some (k', v')
          | _, _ => none
        | _ => none) with
    | some as => some (some as)
    | none => none

def parseEv (tok : String) : Option Ev :=
  match tok.splitOn ":" with
  | ["D"] => some .decl
  | ["C"] => some .comment
  | ["O"] => some .other
  | ["A"] => some .cdata
  | ["X"] => some .error
  | ["T!"] => some (.text none)
  | ["T", h] => (unhexStr h).map (fun s => .text (some s))
  | ["S", n, a] => match unhexStr n, parseAttrs a with
    | some n', some a' => some (.start n' a')
    | _, _ => none
  | ["E", n, a] => match unhexStr n, parseAttrs a with
    | some n', some a' => some (.empty n' a')
    | _, _ => none
  | ["Z", n] => (unhexStr n).map .close
  | ["L", a, v] => match parseAttrs a with
    | some a' =>
      if v = "bad" then some (.startLib a' .bad)
      else if v = "nd" then some (.startLib a' .notDict)
      else (parseDictTok v).map (fun d => .startLib a' (.dict d))
    | none => none
  | _ => none

def parseNum (tok : String) : Option (Str × Nat) :=
  match tok.splitOn "=" with
  | [k, v] => match unhexStr k, hexNat v with
    | some k', some v' => some (k', v')
    | _, _ => none
  | _ => none

def lookupNum (tbl : List (Str × Nat)) (s : Str) : Option Nat :=
  match tbl.find? (fun e => e.1 = s) with
  | some e => some e.2
  | none => none

/-! ### glyph dump (same format as `harness/src/c12.rs::glyph_tokens`) -/

def optS : Option Str → String
  | some s => hexOfStr s
  | none => "~"
def optLib : Option Dict → String
  | some d => renderDict d
  | none => "~"
def colTok : Option Color → String
  | some c => ",".intercalate [natHex16 c.r, natHex16 c.g, natHex16 c.b, natHex16 c.a]
  | none => "~"
def trTok (t : Transform) : String :=
  ",".intercalate ([t.xScale, t.xyScale, t.yxScale, t.yScale, t.xOffset, t.yOffset].map natHex16)
def ptChar : C11.PT → String
  | .move => "m" | .line => "l" | .off => "o" | .curve => "c" | .qcurve => "q"

def glyphTokens (g : Glyph) : List String :=
  ["N:" ++ hexOfStr g.name, "W:" ++ natHex16 g.width, "H:" ++ natHex16 g.height,
   "U:" ++ ",".intercalate (g.codepoints.map toString), "NOTE:" ++ optS g.note,
   match g.image with
   | none => "IMG:~"
   | some i => "IMG:" ++ hexOfStr i.fileName ++ ":" ++ colTok i.color ++ ":" ++ trTok i.transform] ++
  g.anchors.map (fun a => ":".intercalate
    ["A", natHex16 a.x, natHex16 a.y, optS a.name, colTok a.color, optS a.ident, optLib a.lib]) ++
  g.guidelines.map (fun gl =>
    let (k, x, y, d) := match gl.line with
      | .vertical x => ("v", natHex16 x, "~", "~")
      | .horizontal y => ("h", "~", natHex16 y, "~")
      | .angle x y d => ("a", natHex16 x, natHex16 y, natHex16 d)
    ":".intercalate ["G", k, x, y, d, optS gl.name, colTok gl.color, optS gl.ident, optLib gl.lib]) ++
  g.contours.flatMap (fun c =>
    ":".intercalate ["C", optS c.ident, optLib c.lib] ::
    c.points.map (fun p => ":".intercalate
      ["P", natHex16 p.x, natHex16 p.y, ptChar p.typ, if p.smooth then "1" else "0", optS p.name, optS p.ident, optLib p.lib])) ++
  g.components.map (fun k => ":".intercalate ["K", hexOfStr k.base, trTok k.transform, optS k.ident, optLib k.lib]) ++
  ["LIB:" ++ renderDict g.lib]

def pOptS (s : String) : Option (Option Str) := if s = "~" then some none else (unhexStr s).map some
def pOptLib (s : String) : Option (Option Dict) := if s = "~" then some none else (parseDictTok s).map some
def pCol (s : String) : Option (Option Color) :=
  if s = "~" then some none else
  match (s.splitOn ",").mapM hexNat with
  | some [r, g, b, a] => some (some ⟨r, g, b, a⟩)
  | _ => none
def pTr (s : String) : Option Transform :=
  match (s.splitOn ",").mapM hexNat with
  | some [a, b, c, d, e, f] => some ⟨a, b, c, d, e, f⟩
  | _ => none
def pPt (s : String) : Option C11.PT :=
  match s with
  | "m" => some .move | "l" => some .line | "o" => some .off | "c" => some .curve | "q" => some .qcurve
  | _ => none

/-- read a glyph dump back (for the specification oracle on the implementation's own output) -/
def parseGlyphTokens (toks : List String) : Option Glyph :=
  let step (acc : Option Glyph) (tok : String) : Option Glyph :=
    match acc with
    | none => none
    | some g =>
      match tok.splitOn ":" with
      | ["N", n] => (unhexStr n).map (fun n => { g with name := n })
      | ["W", w] => (hexNat w).map (fun w => { g with width := w })
      | ["H", h] => (hexNat h).map (fun h => { g with height := h })
      | ["U", u] => if u = "" then some g else
          ((u.splitOn ",").mapM String.toNat?).map (fun l => { g with codepoints := l })
      | ["NOTE", n] => (pOptS n).map (fun n => { g with note := n })
      | ["IMG", "~"] => some g
      | ["IMG", f, c, t] => match unhexStr f, pCol c, pTr t with
        | some f, some c, some t => some { g with image := some ⟨f, c, t⟩ }
        | _, _, _ => none
      | ["A", x, y, n, c, i, l] => match hexNat x, hexNat y, pOptS n, pCol c, pOptS i, pOptLib l with
        | some x, some y, some n, some c, some i, some l =>
          some { g with anchors := g.anchors ++ [{ x := x, y := y, name := n, color := c, ident := i, lib := l }] }
        | _, _, _, _, _, _ => none
      | ["G", k, x, y, d, n, c, i, l] =>
        let line : Option Line := match k, hexNat x, hexNat y, hexNat d with
          | "v", some x, _, _ => some (.vertical x)
          | "h", _, some y, _ => some (.horizontal y)
          | "a", some x, some y, some d => some (.angle x y d)
          | _, _, _, _ => none
        match line, pOptS n, pCol c, pOptS i, pOptLib l with
        | some line, some n, some c, some i, some l =>
          some { g with guidelines := g.guidelines ++ [{ line := line, name := n, color := c, ident := i, lib := l }] }
        | _, _, _, _, _ => none
      | ["C", i, l] => match pOptS i, pOptLib l with
        | some i, some l => some { g with contours := g.contours ++ [{ points := [], ident := i, lib := l }] }
        | _, _ => none
      | ["P", x, y, t, s, n, i, l] => match hexNat x, hexNat y, pPt t, pOptS n, pOptS i, pOptLib l with
        | some x, some y, some t, some n, some i, some l =>
          match g.contours.reverse with
          | c :: r =>
            let p : Point := { x := x, y := y, typ := t, smooth := s = "1", name := n, ident := i, lib := l }
            some { g with contours := (({ c with points := c.points ++ [p] }) :: r).reverse }
          | [] => none
        | _, _, _, _, _, _ => none
      | ["K", b, t, i, l] => match unhexStr b, pTr t, pOptS i, pOptLib l with
        | some b, some t, some i, some l =>
          some { g with components := g.components ++ [{ base := b, transform := t, ident := i, lib := l }] }
        | _, _, _, _ => none
      | ["LIB", l] => (parseDictTok l).map (fun l => { g with lib := l })
      | _ => none
  toks.foldl step (some { name := [] })

/-! ### shape reader: event list → `Spec.Doc` (none = not of the glif shape) -/

open Spec in
/-- a content-free element in either spelling at the head of the list -/
def takeElem : List Ev → Option (Elem × List Ev)
  | .empty n a :: r => some ({ name := n, attrs := a, selfClosed := true }, r)
  | .start n a :: .close m :: r => if n = m then some ({ name := n, attrs := a, selfClosed := false }, r) else none
  | _ => none

open Spec in
partial def shapeContour (evs : List Ev) (acc : List CItem) : Option (List CItem × List Ev) :=
  match evs with
  | .close n :: r => if n = sContour then some (acc.reverse, r) else none
  | .comment :: r => shapeContour r (.comment :: acc)
  | _ => match takeElem evs with
    | some (e, r) => shapeContour r (.elem e :: acc)
    | none => none

open Spec in
partial def shapeOutline (evs : List Ev) (acc : List OItem) : Option (List OItem × List Ev) :=
  match evs with
  | .close n :: r => if n = sOutline then some (acc.reverse, r) else none
  | .comment :: r => shapeOutline r (.comment :: acc)
  | .empty n a :: r =>
    if n = sContour then shapeOutline r (.contour a true [] :: acc)
    else shapeOutline r (.elem { name := n, attrs := a, selfClosed := true } :: acc)
  | .start n a :: r =>
    if n = sContour then
      match shapeContour r [] with
      | some (kids, r') => shapeOutline r' (.contour a false kids :: acc)
      | none => none
    else match takeElem evs with
      | some (e, r') => shapeOutline r' (.elem e :: acc)
      | none => none
  | _ => none

open Spec in
partial def shapeNote (evs : List Ev) (acc : List NItem) : Option (List NItem × List Ev) :=
  match evs with
  | .close n :: r => if n = sNote then some (acc.reverse, r) else none
  | .comment :: r => shapeNote r (.comment :: acc)
  | .cdata :: r => shapeNote r (.cdata :: acc)
  | .text s :: r => shapeNote r (.text s :: acc)
  | _ => none

open Spec in
partial def shapeBody (evs : List Ev) (acc : List Item) : Option (List Item × List Ev) :=
  match evs with
  | .close n :: r => if n = sGlyph then some (acc.reverse, r) else none
  | .comment :: r => shapeBody r (.comment :: acc)
  | .startLib a v :: r =>
    let inner := r.takeWhile (fun e => match e with | .close n => n ≠ sLib | .error => false | _ => true)
    match r.drop inner.length with
    | .close _ :: r' => shapeBody r' (.lib a v inner :: acc)
    | _ => none
  | .empty n a :: r =>
    if n = sOutline then shapeBody r (.outline a true [] :: acc)
    else shapeBody r (.elem { name := n, attrs := a, selfClosed := true } :: acc)
  | .start n a :: r =>
    if n = sOutline then
      match shapeOutline r [] with
      | some (kids, r') => shapeBody r' (.outline a false kids :: acc)
      | none => none
    else if n = sNote then
      match shapeNote r [] with
      | some ([], r') => shapeBody r' (.elem { name := n, attrs := a, selfClosed := false } :: acc)
      | some (kids, r') => shapeBody r' (.note a kids :: acc)
      | none => none
    else match takeElem evs with
      | some (e, r') => shapeBody r' (.elem e :: acc)
      | none => none
  | _ => none

open Spec in
def shape (evs : List Ev) : Option Doc :=
  let prolog := evs.takeWhile (fun e => match e with | .decl => true | .comment => true | _ => false)
  match evs.drop prolog.length with
  | .start n a :: r =>
    if n = sGlyph then
      match shapeBody r [] with
      | some (items, trailer) =>
        if trailer.any (fun e => match e with | .error => true | _ => false) then none
        else some { prolog := prolog, gattrs := a, items := items, trailer := trailer }
      | none => none
    else none
  | .empty n a :: r =>
    if n = sGlyph ∧ !r.any (fun e => match e with | .error => true | _ => false) then
      some { prolog := prolog, gattrs := a, gSelfClosed := true, items := [], trailer := r }
    else none
  | _ => none

end Driver.Glif
