import Norad.Base.Proto
import Norad.Model.Layers
import Norad.Model.C07
/-!
Driver module for C06 (and the container level of C07): operation histories.
See `harness/src/c06.rs` for the line format.

The file-name functions are the C07 model (`C07.glyphFileName`, `C07.layerDirName`, proved to meet the
contracts `AssignOK` / `AssignLOK` in `Props/C07Containers.lean`), with `is_uppercase` / `to_lowercase`
of the non-ASCII characters of the pools sent by the harness, so the model predicts every assigned path
exactly, which ties the `path_set` bookkeeping of the containers to the model as well.
-/
namespace Driver.C06
open Proto Layers

abbrev Str := List Char

structure ObsLayer where
  name : Str
  path : Str
  glyphs : List Str
  paths : List (Str × Str)

def strLe (a b : Str) : Bool := decide (String.ofList a ≤ String.ofList b)
def sortStrs (l : List Str) : List Str := l.mergeSort strLe
def sortPairs (l : List (Str × Str)) : List (Str × Str) := l.mergeSort (fun a b => strLe a.1 b.1)

def splitOnC (s : String) (sep : String) : List String := if s = "" then [] else s.splitOn sep

def parsePairs (s : String) : Option (List (Str × Str)) :=
  (splitOnC s "+").mapM fun gf =>
    match gf.splitOn "=" with
    | [g, f] => match unhexStr g, unhexStr f with
      | some g', some f' => some (g', f')
      | _, _ => none
    -- a third part is the `name` attribute inside the glif file; the loader takes the glyph's name from the
    -- contents.plist key, so the model ignores it
    | [g, f, _] => match unhexStr g, unhexStr f with
      | some g', some f' => some (g', f')
      | _, _ => none
    | _ => none

def parseNames (s : String) : Option (List Str) := (splitOnC s "+").mapM unhexStr

def parseObsLayer (s : String) : Option ObsLayer :=
  match s.splitOn "~" with
  | [n, p, gs, ps] =>
    match unhexStr n, unhexStr p, parseNames gs, parsePairs ps with
    | some n', some p', some gs', some ps' => some ⟨n', p', gs', ps'⟩
    | _, _, _, _ => none
  | _ => none

def parseObsState (s : String) : Option (List ObsLayer) := (splitOnC s ";").mapM parseObsLayer

/-- `res@state` -/
def parseObs (tok : String) : Option (String × List ObsLayer) :=
  match tok.splitOn "@" with
  | [r, st] => (parseObsState st).map (fun s => (r, s))
  | _ => none

def parseLc (tok : String) : List (Str × Str × Bool) :=
  let body := (tok.drop 3).toString
  (splitOnC body ",").filterMap fun e =>
    match e.splitOn ":" with
    | [u, l, up] => match unhexStr u, unhexStr l with
      | some u', some l' => some (u', l', up = "1")
      | _, _ => none
    | [u, l] => match unhexStr u, unhexStr l with
      | some u', some l' => some (u', l', false)
      | _, _ => none
    | _ => none

def lowerWith (tbl : List (Str × Str × Bool)) (s : Str) : Str :=
  s.flatMap fun c =>
    if c.toNat < 128 then [c.toLower]
    else match tbl.find? (fun e => e.1 = [c]) with
      | some e => e.2.1
      | none => [c]

def upperWith (tbl : List (Str × Str × Bool)) (c : Char) : Bool :=
  if c.toNat < 128 then c.isUpper
  else match tbl.find? (fun e => e.1 = [c]) with
    | some e => e.2.2
    | none => false

def parseBool (s : String) : Bool := s = "1"

def parseOp (tok : String) : Option Op :=
  match tok.splitOn "." with
  | ["ig", li, g] => (unhexStr g).bind fun g' => li.toNat?.map fun i => Op.insertGlyph i g'
  | ["rg", li, g] => (unhexStr g).bind fun g' => li.toNat?.map fun i => Op.removeGlyph i g'
  | ["mg", li, o, n, ow] =>
    match li.toNat?, unhexStr o, unhexStr n with
    | some i, some o', some n' => some (Op.renameGlyph i o' n' (parseBool ow))
    | _, _, _ => none
  | ["cl", li] => li.toNat?.map Op.clear
  | ["rt", li, keep] => (parseNames keep).bind fun k => li.toNat?.map fun i => Op.retain i k
  | ["eo", li, g] => (unhexStr g).bind fun g' => li.toNat?.map fun i => Op.entryOrInsert i g'
  | ["er", li, g] => (unhexStr g).bind fun g' => li.toNat?.map fun i => Op.entryRemove i g'
  | ["nl", n] => (unhexStr n).map Op.newLayer
  | ["gc", n] => (unhexStr n).map Op.getOrCreate
  | ["rl", n] => (unhexStr n).map Op.removeLayer
  | ["ml", o, n, ow] =>
    match unhexStr o, unhexStr n with
    | some o', some n' => some (Op.renameLayer o' n' (parseBool ow))
    | _, _ => none
  | ["rs", keep] => (parseNames keep).map Op.retainLayers
  | ["re"] => some Op.removeEmpty
  | _ => none

/-- `Name::new(..).is_ok()` (`name.rs`): non-empty, no C0/C1 control characters, no DEL -/
def validName (s : Str) : Bool :=
  !s.isEmpty && s.all (fun c => !(c.toNat < 0x20 || c.toNat = 0x7f || (0x80 ≤ c.toNat && c.toNat ≤ 0x9f)))

def parseTreeLayer (s : String) : Option (Str × Str × List (Str × Str)) :=
  match s.splitOn "~" with
  | [n, d, gs] =>
    match unhexStr n, unhexStr d, parsePairs gs with
    | some n', some d', some gs' => some (n', d', gs')
    | _, _, _ => none
  | _ => none

def parseTree (s : String) : Option Tree :=
  match (splitOnC s ";").mapM parseTreeLayer with
  | none => none
  | some ls =>
    -- a directory listed twice keeps its first contents (as the harness writes it)
    let dirs := ls.foldl (fun acc (e : Str × Str × List (Str × Str)) =>
      if acc.any (fun (d : Str × DirT) => d.1 = e.2.1) then acc
      else acc ++ [(e.2.1, { contents := sortPairs e.2.2, files := e.2.2.map (·.2) })]) []
    some { layercontents := ls.map (fun e => (e.1, e.2.1)), dirs := dirs }

/-! ### comparison of a model state with an observed state -/

def layerMatches (m : Layer) (o : ObsLayer) : Bool :=
  m.name = o.name && m.path = o.path && sortStrs m.glyphs = sortStrs o.glyphs &&
  sortPairs m.contents = sortPairs o.paths

def stateMatches (m : LayerSet) (o : List ObsLayer) : Bool :=
  m.layers.length = o.length && (m.layers.zip o).all (fun e => layerMatches e.1 e.2)

def resClass (r : Res) : String :=
  match r with
  | .ok => "ok"
  | .err _ => "err"
  | .panic s => if s = "99 file-name clashes (documented)" then "panic:documented" else "panic:undocumented"

def obsResClass (r : String) : String := if r.startsWith "err" then "err" else r

/-! ### specification rules, evaluated on observed states only -/

def nodupB (l : List Str) : Bool :=
  match l with
  | [] => true
  | a :: r => !r.contains a && nodupB r

def obsEq (a b : List ObsLayer) : Bool :=
  a.length = b.length && (a.zip b).all fun e =>
    e.1.name = e.2.name && e.1.path = e.2.path && e.1.glyphs = e.2.glyphs && e.1.paths = e.2.paths

def specState (lower : Str → Str) (o : List ObsLayer) : List String :=
  (if nodupB (o.map (·.name)) then [] else ["names-unique"]) ++
  (match o with
   | [] => ["one-default-first"]
   | d :: rest => if d.path = glyphsDir && rest.all (fun l => l.path ≠ glyphsDir) then [] else ["one-default-first"]) ++
  (if (o.drop 1).all (fun l => l.name ≠ defaultName) then [] else ["reserved-name"]) ++
  (if o.all (fun l => nodupB (l.paths.map (fun e => lower e.2))) then [] else ["glyph-paths-distinct"]) ++
  (if nodupB (o.map (fun l => lower l.path)) then [] else ["layer-paths-distinct"]) ++
  (if o.all (fun l => nodupB l.glyphs) then [] else ["glyph-names-unique"])

structure Acc where
  st : LayerSet
  prev : List ObsLayer
  agree : Bool := true
  spec : List String := []
  firstBad : String := ""
  steps : Nat := 0
  errs : Nat := 0

def stepAll (U : Char → Bool) (lower : Str → Str) (acc : Acc) (opTok : String) (obsTok : String) : Acc :=
  match parseOp opTok, parseObs obsTok with
  | some op, some (r, post) =>
    let assignG := C07.glyphFileName U lower
    let assignL := C07.layerDirName U lower
    let (st', mr) := step lower assignG assignL validName acc.st op
    let okRes := resClass mr == obsResClass r
    let okSt := stateMatches st' post
    let spec := specState lower post ++
      (if r.startsWith "err" && !obsEq acc.prev post then ["err-unchanged"] else []) ++
      (if r = "panic:undocumented" then ["panic"] else [])
    { acc with st := st', prev := post,
               agree := acc.agree && okRes && okSt,
               spec := acc.spec ++ spec,
               firstBad := if acc.firstBad = "" && !(okRes && okSt) then
                   s!"step{acc.steps}:{opTok}:model-res={resClass mr}:state-match={okSt}" else acc.firstBad,
               steps := acc.steps + 1,
               errs := acc.errs + (if r.startsWith "err" then 1 else 0) }
  | _, _ => { acc with agree := false, firstBad := "unparsable:" ++ opTok }

def dedup (l : List String) : List String := l.foldl (fun acc x => if acc.contains x then acc else acc ++ [x]) []

def reportOf (ls : List Layer) : String :=
  ";".intercalate (ls.map fun l =>
    hexOfStr l.name ++ "~" ++ hexOfStr l.path ++ "~" ++ "+".intercalate ((sortStrs l.glyphs).map hexOfStr))

def reportObs (ls : List ObsLayer) : String :=
  ";".intercalate (ls.map fun l =>
    hexOfStr l.name ++ "~" ++ hexOfStr l.path ++ "~" ++ "+".intercalate ((sortStrs l.glyphs).map hexOfStr))

/-- a report with the directory of every layer erased (`name~path~glyphs;…` → `name~~glyphs;…`): which free directory a
    layer received is not part of what the recorded `entry` findings are about -/
def erasePaths (rep : String) : String :=
  ";".intercalate ((rep.splitOn ";").map fun l =>
    match l.splitOn "~" with
    | [n, _, g] => n ++ "~~" ++ g
    | _ => l)

/-- some glyph went through the raw `entry` API (created: `eo`, removed: `er`) and LATER, in the same layer, through
    `insert_glyph` under the same name (`ig`) or became the target of a `rename_glyph` (`mg`): from then on the indices
    of that glyph are in step again (model: `insertGlyph` looks at `contents`, not at the glyph map), and the recorded
    `entry` findings no longer speak about it -/
def entryResynced : List String → Bool
  | [] => false
  | t :: rest =>
    (match t.splitOn "." with
     | [k, li, g] =>
       (k = "eo" || k = "er") && rest.any (fun u =>
         match u.splitOn "." with
         | ["ig", li', g'] => li' = li && g' = g
         | ["mg", li', _, n, _] => li' = li && n = g
         | _ => false)
     | _ => false) || entryResynced rest

def run (inp obs : List String) : Verdict :=
  match inp with
  | _ :: lcTok :: initTok :: opToks =>
    let lower := lowerWith (parseLc lcTok)
    let U := upperWith (parseLc lcTok)
    let stepObs := obs.takeWhile (· ≠ "|")
    let fin := (obs.dropWhile (· ≠ "|")).drop 1
    -- initial state
    let aName : Str := "a".toList
    let bName : Str := "b".toList
    let filterOf : String → LFilter := fun k =>
      if k = "loadf1" then { all := false, loadDefault := false, custom := some (fun _ _ => true) }
      else if k = "loadf2" then { all := false, loadDefault := true, custom := some (fun n _ => n = aName) }
      else if k = "loadf3" then { all := false, loadDefault := false, custom := none }
      else if k = "loadf4" then { all := false, loadDefault := false, custom := some (fun n _ => n = aName || n = bName) }
      else if k = "loadf5" then { all := false, loadDefault := true, custom := none }
      else if k = "loadf6" then { all := false, loadDefault := false, custom := some (fun _ p => p = glyphsDir) }
      else { all := true, loadDefault := false, custom := none }
    let init : Option LayerSet :=
      if initTok = "new" then some LayerSet.default
      else match initTok.splitOn ":" with
        | [k, spec] => (parseTree spec).bind (loadTreeF lower (filterOf k))
        | _ => none
    match stepObs with
    | [] => { agree := false, model := "no-observation" }
    | first :: restObs =>
      if first = "init-err" || first = "init-panic" then
        { agree := init.isNone, tags := ["init-rejected"],
          spec := if first = "init-panic" then ["panic:load"] else [],
          model := if init.isNone then "init-rejected" else "init-ok" }
      else
      match init, parseObs first with
      | some st0, some (_, o0) =>
        let acc0 : Acc := { st := st0, prev := o0, agree := stateMatches st0 o0,
                            spec := (specState lower o0).map (fun r => if initTok = "new" then r else r ++ ":at-load"),
                            firstBad := if stateMatches st0 o0 then "" else "init-state" }
        if opToks.length ≠ restObs.length then { agree := false, model := "length-mismatch" } else
        let acc := (opToks.zip restObs).foldl (fun a e => stepAll U lower a e.1 e.2) acc0
        -- final save / load
        let unsynced := acc.st.layers.any fun l => sortStrs l.glyphs ≠ sortStrs (keys l.contents)
        let usedEntry := opToks.any (fun t => t.startsWith "eo." || t.startsWith "er.")
        let saveTok := (fin.find? (·.startsWith "save:")).getD "save:?"
        let loadTok := (fin.find? (·.startsWith "load:")).getD "load:?"
        let repTok := ((fin.find? (·.startsWith "r=")).getD "r=").drop 2 |>.toString
        let expected := reportObs acc.prev
        let (mSave, mRep) := match saveTree acc.st with
          | .panic _ => ("save:panic", "")
          | .ok t => match loadTree lower t with
            | some s' => ("save:ok", reportOf s'.layers)
            | none => ("save:ok", "load-failed")
        let finAgree := mSave == saveTok && (saveTok ≠ "save:ok" || (loadTok == "load:ok" && mRep == repTok))
        -- the recorded `entry` findings are exactly the failures the MODEL predicts from the indices being out of
        -- step; a failure the model does not predict (another save class, another report) is not one of them
        -- (compared with the directories erased: a harmless difference in WHICH free directory was handed out must not
        -- turn the recorded finding into an unrecognised one)
        let predicted := mSave == saveTok && (saveTok ≠ "save:ok" || erasePaths mRep == erasePaths repTok)
        -- a failure the model does NOT predict in a history that put an `entry` glyph back through `insert_glyph` /
        -- a rename target is labelled `entry-resynced`: never one of the recorded findings
        let feats := (if usedEntry && unsynced && predicted then ["entry-unsynced"]
                      else if usedEntry && !predicted && entryResynced opToks then ["entry-resynced"] else [])
        let finSpec :=
          if saveTok = "save:ok" && loadTok = "load:ok" && repTok = expected then []
          else
            let kind :=
              if saveTok = "save:panic" then "save-panic"
              else if saveTok ≠ "save:ok" then "save-failed"
              else if loadTok ≠ "load:ok" then "load-failed"
              else "report-differs"
            ["saveload:" ++ ",".intercalate (feats ++ [kind])]
        let tags :=
          [if initTok = "new" then "init-new" else "init-loaded",
           "len" ++ toString (min (opToks.length / 5 * 5) 50),
           "layers" ++ toString (min acc.st.layers.length 5)] ++
          (if acc.errs > 0 then ["has-err"] else []) ++
          (if usedEntry then ["uses-entry"] else []) ++
          (if usedEntry && entryResynced opToks then ["entry-resynced"] else []) ++
          (if initTok = "new" then [] else
             match (((initTok.splitOn ":").getD 1 "").splitOn ";").findIdx?
                     (fun l => (l.splitOn "~").getD 1 "" = hexOfStr glyphsDir) with
             | some 0 => ["default-listed-first"]
             | some _ => ["default-listed-later"]
             | none => []) ++
          (if (opToks.zip restObs).any (fun e => (e.1.startsWith "ml." || e.1.startsWith "mg.") && e.2.startsWith "err:Invalid")
             then ["refused-invalid"] else []) ++
          (dedup (opToks.map fun t => "op-" ++ (t.take 2).toString)) ++
          (if opToks.length ≥ 2 then ["nt"] else [])
        { agree := acc.agree && finAgree,
          spec := dedup (acc.spec ++ finSpec),
          tags := tags,
          model := if acc.agree && finAgree then "ok" else
            (if acc.firstBad ≠ "" then acc.firstBad else s!"final:model={mSave}:{mRep}") }
      | _, _ => { agree := false, model := "unparsable-init-or-model-load-failed" }
  | _ => { agree := false, model := "bad-line" }

end Driver.C06
