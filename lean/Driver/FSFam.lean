import Norad.Base.Proto
import Norad.Model.FontSave
/-!
Shared parsing for the file-system family (C08, C09): font description tokens → `AFont String`,
tree tokens → `FS String`, comparison of a model file system with an observed tree.
See `harness/src/fsfam.rs` for the token formats.

File contents are tokens: `p<hash>` / `n<hash>` for observed bytes (first letter = PNG signature), `*` for
what the model renders (uninterpreted: matches any observed file).
-/
namespace Driver.FSFam
open Proto AbsFS FontSave

def splitOnC (s : String) (sep : String) : List String := if s = "" then [] else s.splitOn sep

def field (toks : List String) (key : String) : String :=
  match toks.find? (fun t => t.startsWith (key ++ "=")) with
  | some t => (t.drop (key.length + 1)).toString
  | none => ""

def fieldNat (toks : List String) (key : String) : Nat := (field toks key).toNat?.getD 0

def unhexD (s : String) : Str := (unhexStr s).getD []

def splitPath (s : String) : APath := (splitOnC s "/").map String.toList

def parseTree (s : String) : FS String :=
  if s = "-" then [] else
  (s.splitOn ",").filterMap fun e =>
    match e.splitOn ":" with
    | [p, "d"] => some (splitPath p, Node.dir)
    | [p, "f", t] => some (splitPath p, Node.file t)
    | [p, "l"] => some (splitPath p, Node.file "symlink")
    | _ => none

/-- The abstract file system has no symbolic links.  The one place where the checks put one is the target path
    itself: `Path::exists` follows it (true for a link to a directory) and `remove_dir_all` on a symbolic link
    unlinks the link WITHOUT following it — for the save this is exactly a directory without entries at the target.
    (The snapshot does not descend through the link; what is behind it is outside the target and covered by the
    frame rule.) -/
def preForModel (t : APath) (pre : FS String) : FS String :=
  pre.map fun e => if e.1 == t && e.2 == Node.file "symlink" then (e.1, Node.dir) else e

def parseCell (s : String) : Cell String :=
  if s = "n" then .notLoaded else if s = "e" then .error else .loaded (s.drop 1).toString

def parseStore (s : String) : Store String :=
  match s.splitOn "|" with
  | [root, items] =>
    { root := if root = "~" then [] else splitPath root,
      items := (splitOnC items "+").filterMap fun kv =>
        match kv.splitOn "=" with
        | [k, c] => some (Path.parse (unhexD k), parseCell c)
        | _ => none }
  | _ => { root := [], items := [] }

def parseEntry (s : String) : Option AEntry :=
  match s.splitOn "=" with
  | [g, f, st] =>
    some { name := unhexD g, file := unhexD f,
           glyph := if st = "m" then none else some { tok := 1, encodable := st = "o" } }
  | _ => none

def parseLayer (s : String) : Option ALayer :=
  match s.splitOn "~" with
  | [n, d, i, es] =>
    some { name := unhexD n, dir := unhexD d, info := i.toNat?.getD 0,
           entries := (splitOnC es "+").filterMap parseEntry }
  | _ => none

def parseGuide (s : String) : Option AGuide :=
  match s.splitOn ":" with
  | [i, l] => some { ident := if i = "~" then none else some (unhexD i), lib := if l = "~" then none else some 1 }
  | _ => none

def parseFont (toks : List String) : AFont String :=
  { version := fieldNat toks "v",
    metaTok := 1,
    info := { body := fieldNat toks "ib", guides := (splitOnC (field toks "ig") ",").filterMap parseGuide,
              valid := fieldNat toks "iv" = 1, serialisable := fieldNat toks "is" = 1 },
    lib := (splitOnC (field toks "lib") ",").map fun k => (unhexD k, LVal.v 1),
    groups := fieldNat toks "g", groupsValid := fieldNat toks "gv" = 1,
    kerning := fieldNat toks "k", features := fieldNat toks "fe",
    layers := (splitOnC (field toks "L") ";").filterMap parseLayer,
    data := parseStore (field toks "D"), images := parseStore (field toks "I") }

/-- `validate_entry` of datastore.rs as applied at first access -/
def entryOk (kind : StoreKind) (keys : List Path.P) (k : Path.P) (b : String) : Bool :=
  !k.isEmpty && !k.abs &&
  (match kind with
   | .data => k.properAncestors.all fun a => a.isEmpty || !keys.contains a
   | .images => (match k.parent? with
       | some p => p.isEmpty
       | none => true) && b.startsWith "p")

def cfg : Cfg String := { render := fun _ => "*", entryOk := entryOk }

def strLe (a b : Str) : Bool := decide (String.ofList a ≤ String.ofList b)
def pathStr (p : APath) : String := "/".intercalate (p.map String.ofList)

/-- canonical listing of a file system: sorted `path:kind[:token]`, first entry per path -/
def listing (fs : FS String) : List (String × String) :=
  let rec go : FS String → List APath → List (String × String)
    | [], _ => []
    | (q, n) :: r, seen =>
      if seen.contains q then go r seen
      else (pathStr q, match n with | .dir => "d" | .file t => "f:" ++ t) :: go r (q :: seen)
  (go fs []).mergeSort (fun a b => decide (a.1 ≤ b.1))

/-- model listing vs observed listing: same paths and kinds; a model token `*` matches any file -/
def treeMatches (m o : List (String × String)) : Bool :=
  m.length = o.length && (m.zip o).all fun e =>
    e.1.1 = e.2.1 && (e.1.2 = e.2.2 || (e.1.2 = "f:*" && e.2.2.startsWith "f:"))

def firstDiff (m o : List (String × String)) : String :=
  match (m.zip o).find? (fun e => !(e.1.1 = e.2.1 && (e.1.2 = e.2.2 || (e.1.2 = "f:*" && e.2.2.startsWith "f:")))) with
  | some e => s!"model {e.1.1}:{e.1.2} vs impl {e.2.1}:{e.2.2}"
  | none => s!"lengths {m.length} vs {o.length}"

def dedup (l : List String) : List String := l.foldl (fun acc x => if acc.contains x then acc else acc ++ [x]) []

def refusalVariant : Refusal → String
  | .downgrade => "Downgrade"
  | .objectLibsKey => "PreexistingPublicObjectLibsKey"
  | .invalidGroups => "InvalidGroups"
  | .invalidFontInfo => "InvalidFontInfo"
  | .invalidStoreEntry => "InvalidStoreEntry"

def refusalVariants : List String :=
  ["Downgrade", "PreexistingPublicObjectLibsKey", "InvalidGroups", "InvalidFontInfo", "InvalidStoreEntry"]

/-- result class at the abstraction level of the properties -/
def resClass (r : Option SaveErr) : String :=
  match r with
  | none => "ok"
  | some (.refused _) => "refused"
  | some .panic => "panic"
  | some _ => "late-error"

def obsClass (r : String) : String :=
  if r = "ok" then "ok" else if r = "panic" then "panic"
  else if refusalVariants.contains (r.drop 4).toString then "refused" else "late-error"

/-- saves of a loaded font (in place or elsewhere): every plain file that was on disk below `data/` and `images/` of the
    SOURCE when the font was loaded, and that the history did not remove through the API (`KEEP`, computed by the
    harness from the directory tree, not from norad's listing; restricted to the stores the load requested), is
    below the target afterwards — with the bytes of a successful re-insert, otherwise with the bytes it had in the
    source.  Features: `untracked` (the font has no entry for it), `lost`, `changed`. -/
def keepFailures (f : AFont String) (pre post : FS String) (t src : APath) (keep : String) : List String :=
  if keep = "-" || keep = "" then [] else
  let fails := (keep.splitOn ",").filterMap fun e =>
    match e.splitOn ":" with
    | [k, hk] =>
      let kind := if k = "d" then StoreKind.data else StoreKind.images
      let key := Path.parse (unhexD hk)
      let path := t ++ [(storeDirName kind).toList] ++ namesOf key
      let cell : Option (Cell String) := ((f.store kind).items.find? (fun kc => kc.1 == key)).map (·.2)
      let expected : Option (Node String) := match cell with
        | some (Cell.loaded b) => some (Node.file b)
        | _ => lookup pre (src ++ [(storeDirName kind).toList] ++ namesOf key)
      match cell, lookup post path with
      | none, _ => some "untracked"
      | _, none => some "lost"
      | _, some n => if some n == expected then none else some "changed"
    | _ => none
  dedup fails


end Driver.FSFam
