import Norad.Base.Proto
import Norad.Model.Par
/-!
Driver module for C19.  Line format: see `harness/src/c19.rs`.

Per line (= one generated UFO tree):
* the model's sequential build (`seqFont`) is compared with the dump of the sequential build of the
  harness, the model's sequential save (`saveIn` in `contents` order) with the listing of the saved tree;
* the executable parallel model is replayed on the same files under pseudo-random complete schedules
  derived from the line's seed (two pool shapes, both `retStored` variants; random write orders for the
  save) and must reproduce the sequential model (self-check of the executable model; the theorems
  `par_load_eq_seq` / `par_save_eq_seq` are what covers *all* schedules);
* specification oracle on the implementation's own observation: every repetition of the parallel build, for
  every pool size, produced the dump / saved-file listing / tree hash of the sequential build.
-/
namespace Driver.C19
open Proto Par

def splitOnC (s : String) (sep : String) : List String := if s = "" then [] else s.splitOn sep

structure FileIn where
  file : File
  fname : Str

structure LayerIn where
  name : Str
  dir : Str
  files : List FileIn

def parseFile (s : String) : Option FileIn :=
  match s.splitOn "," with
  | [k, fnm, a, seed, bad, comps] =>
    match unhexStr k, unhexStr fnm, unhexStr a, seed.toNat?, bad.toNat?, (splitOnC comps "+").mapM unhexStr with
    | some k', some f', some a', some sd, some b, some cs => some ⟨⟨k', a', cs, sd, b != 0⟩, f'⟩
    | _, _, _, _, _, _ => none
  | _ => none

def parseLayer (tok : String) : Option LayerIn :=
  match tok.splitOn ":" with
  | [t, n, d, fs] =>
    if t ≠ "L" && t ≠ "A" then none else
    match unhexStr n, unhexStr d, (splitOnC fs ";").mapM parseFile with
    | some n', some d', some fs' => some ⟨n', d', fs'⟩
    | _, _, _ => none
  | _ => none

/-- one glyph of a dump: name, body token, "its own name finds it", component bases -/
structure GlyphObs where
  name : Str
  body : String
  found : Bool
  comps : List Str
deriving BEq

structure LayerObs where
  name : Str
  dir : Str
  len : Nat
  glyphs : List GlyphObs
deriving BEq

def parseGlyphObs (s : String) : Option GlyphObs :=
  match s.splitOn "," with
  | [n, b, k, comps] =>
    match unhexStr n, (splitOnC comps "+").mapM unhexStr with
    | some n', some cs => some ⟨n', b, k = "1", cs⟩
    | _, _ => none
  | _ => none

def parseLayerObs (tok : String) : Option LayerObs :=
  match tok.splitOn ":" with
  | [t, n, d, len, gs] =>
    if t ≠ "D" && t ≠ "E" then none else
    match unhexStr n, unhexStr d, len.toNat?, (splitOnC gs ";").mapM parseGlyphObs with
    | some n', some d', some l, some gs' => some ⟨n', d', l, gs'⟩
    | _, _, _, _ => none
  | _ => none

/-- listing of one saved layer directory: file name ↦ glyph name found inside (`none` = unreadable) -/
structure SaveObs where
  dir : Str
  files : List (Str × Option Str)
deriving BEq

def parseSaveObs (tok : String) : Option SaveObs :=
  match tok.splitOn ":" with
  | ["S", d, fs] =>
    match unhexStr d, (splitOnC fs ";").mapM (fun e =>
        match e.splitOn "=" with
        | [f, n] => (unhexStr f).map (fun f' => (f', if n = "?" then none else unhexStr n))
        | _ => none) with
    | some d', some fs' => some ⟨d', fs'⟩
    | _, _ => none
  | _ => none

structure PoolObs where
  threads : Nat
  reps : Nat
  dumpsEq : Nat
  saves : Nat
  listEq : Nat
  hashEq : Nat

def parsePool (tok : String) : Option PoolObs :=
  match ((tok.drop 1).toString).splitOn ":" with
  | [k, n, nd, nsv, ns, nh] =>
    match k.toNat?, n.toNat?, nd.toNat?, nsv.toNat?, ns.toNat?, nh.toNat? with
    | some k', some n', some nd', some nsv', some ns', some nh' => some ⟨k', n', nd', nsv', ns', nh'⟩
    | _, _, _, _, _, _ => none
  | _ => none

def strLt (a b : Str) : Bool := Par.lexLt a b

def sortedStrict : List Str → Bool
  | a :: b :: r => strLt a b && sortedStrict (b :: r)
  | _ => true

def nodupB (l : List Str) : Bool :=
  match l with
  | [] => true
  | a :: r => !r.contains a && nodupB r

/-! ### the model on one tree -/

/-- files of a layer dealt to `n` workers: contiguous chunks (as rayon splits) or round robin -/
def deal (n : Nat) (roundRobin : Bool) (fs : List File) : List (List File) :=
  let n := max n 1
  if roundRobin then
    (List.range n).map fun w => (fs.zipIdx.filter (fun p => p.2 % n = w)).map (·.1)
  else
    let size := (fs.length + n - 1) / n
    let size := max size 1
    (List.range n).map fun w => (fs.drop (w * size)).take size

/-- all layers under pseudo-random complete schedules, the name list carried along; `none` if a schedule
    could not be completed within the fuel (never happens: every step of a busy worker makes progress) -/
def parFontRandom (b : Bool) (n : Nat) (rr : Bool) : Nat → NameSet → Nat → List (List File) →
    Option (List (Option LayerMap))
  | _, _, _, [] => some []
  | x, s, nx, fs :: rest =>
    let fuel := (fs.foldl (fun a f => a + 2 * f.reqs.length + 3) 0) + 8
    let (st, sched) := runRandom b fuel x (St.init s nx (deal n rr fs)) []
    if !st.allDone then none else
    -- re-run the recorded schedule with `run`, the function the theorems speak about
    let st2 := run b sched (St.init s nx (deal n rr fs))
    if !st2.allDone then none else
    match parFontRandom b n rr (lcg (x + sched.length)) st2.sh.set st2.sh.next rest with
    | none => none
    | some r => some (layerOf (st2.sh.out.map Item.view) :: r)

/-- two layer maps agree on every key of interest -/
def mapsAgree (keys : List Str) (a b : Option LayerMap) : Bool :=
  match a, b with
  | none, none => true
  | some m, some m' => keys.all fun k => m k == m' k
  | _, _ => false

def shuffle (x : Nat) (l : List Entry) : List Entry :=
  let rec go (fuel : Nat) (x : Nat) (l : List Entry) (acc : List Entry) : List Entry :=
    match fuel, l with
    | 0, _ => acc ++ l
    | _, [] => acc
    | f + 1, l =>
      let x' := lcg x
      let i := (x' / 65536) % l.length
      match l[i]? with
      | some e => go f x' (l.eraseIdx i) (e :: acc)
      | none => acc ++ l
  go l.length x l []

/-! ### histories through the public API between load and save (layer.rs:517-567, `Layer::entry`)

The two indices of a layer: the glyph map and `contents` (glyph name ↦ file).  File names given out by
`insert_glyph` come from the C07 algorithm and are not predicted here (`none`); `entry(..).or_insert(..)`
touches the glyph map only (recorded C06 finding: such a glyph is not saved — by either build). -/

inductive ApiOp
  | ins (li : Nat) (n : Str) (seed : Nat)
  | rem (li : Nat) (n : Str)
  | ren (li : Nat) (o n : Str)
  | entry (li : Nat) (n : Str) (seed : Nat)
  /-- the glyphs stored under `a` and `b` exchanged through `get_glyph_mut` (key and own name then differ) -/
  | swap (li : Nat) (a b : Str)
  /-- the slot of `b` overwritten with a clone of the glyph stored under `a` -/
  | copy (li : Nat) (a b : Str)

def parseOp (t : String) : Option ApiOp :=
  match t.splitOn "." with
  | ["ig", li, n, sd] => match li.toNat?, unhexStr n, sd.toNat? with
    | some l, some n', some s' => some (.ins l n' s') | _, _, _ => none
  | ["rg", li, n] => match li.toNat?, unhexStr n with
    | some l, some n' => some (.rem l n') | _, _ => none
  | ["mg", li, o, n] => match li.toNat?, unhexStr o, unhexStr n with
    | some l, some o', some n' => some (.ren l o' n') | _, _, _ => none
  | ["eo", li, n, sd] => match li.toNat?, unhexStr n, sd.toNat? with
    | some l, some n', some s' => some (.entry l n' s') | _, _, _ => none
  | ["sw", li, a, b] => match li.toNat?, unhexStr a, unhexStr b with
    | some l, some a', some b' => some (.swap l a' b') | _, _, _ => none
  | ["cp", li, a, b] => match li.toNat?, unhexStr a, unhexStr b with
    | some l, some a', some b' => some (.copy l a' b') | _, _, _ => none
  | _ => none

structure LState where
  glyphs : List (Str × View)
  contents : List (Str × Option Str)

def LState.setSlot (L : LState) (k : Str) (v : View) : LState :=
  { L with glyphs := L.glyphs.map (fun e => if e.1 = k then (k, v) else e) }

def LState.insert (L : LState) (v : View) : LState :=
  { glyphs := L.glyphs.filter (·.1 ≠ v.name) ++ [(v.name, v)],
    contents := if L.contents.any (·.1 = v.name) then L.contents else L.contents ++ [(v.name, none)] }

def LState.remove (L : LState) (n : Str) : LState :=
  { glyphs := L.glyphs.filter (·.1 ≠ n), contents := L.contents.filter (·.1 ≠ n) }

def LState.apply (L : LState) : ApiOp → LState
  | .ins _ n seed => L.insert ⟨n, [], seed⟩
  | .rem _ n => L.remove n
  | .ren _ o n =>
    if L.glyphs.any (·.1 = n) then L else
    match L.glyphs.find? (·.1 = o) with
    | none => L
    | some g => (L.remove o).insert { g.2 with name := n }
  | .entry _ n seed =>
    if L.glyphs.any (·.1 = n) then L else { L with glyphs := L.glyphs ++ [(n, ⟨n, [], seed⟩)] }
  | .swap _ a b =>
    match L.glyphs.find? (·.1 = a), L.glyphs.find? (·.1 = b) with
    | some x, some y => (L.setSlot a y.2).setSlot b x.2
    | _, _ => L
  | .copy _ a b =>
    match L.glyphs.find? (·.1 = a) with
    | some x => L.setSlot b x.2
    | none => L

def ApiOp.layer : ApiOp → Nat
  | .ins l _ _ | .rem l _ | .ren l _ _ | .entry l _ _ | .swap l _ _ | .copy l _ _ => l

def applyOps (ls : List LState) (ops : List ApiOp) : List LState :=
  ops.foldl (fun ls op => ls.zipIdx.map (fun p => if p.2 = op.layer then p.1.apply op else p.1)) ls

def sortViews (l : List (Str × View)) : List (Str × View) := l.mergeSort (fun a b => !lexLt b.1 a.1)
def sortNames (l : List Str) : List Str := l.mergeSort (fun a b => !lexLt b a)

/-- dump after the history: the glyph map in key order -/
def stateMatchesDump (L : LState) (o : LayerObs) : Bool :=
  let gs := sortViews L.glyphs
  o.len = gs.length && o.glyphs.length = gs.length &&
  (gs.zip o.glyphs).all (fun p => p.2.name = p.1.2.name && p.2.comps = p.1.2.comps &&
    p.2.body = toString p.1.2.body && p.2.found == decide (p.1.1 = p.1.2.name))

/-- saved files after the history: one per `contents` entry; known file names hold their glyph, the
    others hold exactly the glyphs whose file name `insert_glyph` chose -/
def stateMatchesSave (L : LState) (o : SaveObs) : Bool :=
  -- the file of a `contents` key holds the glyph STORED under that key, under the glyph's own name
  let nameAt : Str → Str := fun k => ((L.glyphs.find? (·.1 = k)).map (·.2.name)).getD k
  let known := L.contents.filterMap (fun e => e.2.map (fun f => (f, nameAt e.1)))
  let unknownKeys := (L.contents.filter (·.2.isNone)).map (fun e => nameAt e.1)
  let rest := o.files.filter (fun p => !known.any (·.1 = p.1))
  o.files.length = L.contents.length &&
  known.all (fun k => o.files.any (fun p => p.1 = k.1 && p.2 = some k.2)) &&
  sortNames (rest.filterMap (·.2)) = sortNames unknownKeys && rest.all (·.2.isSome)

/-! ### comparison with the sequential observation -/

def glyphMatches (m : LayerMap) (f : FileIn) (g : GlyphObs) : Bool :=
  match m f.file.key with
  | some v => g.name = v.name && g.comps = v.comps && g.body = toString v.body && g.found
  | none => false

def layerMatches (li : LayerIn) (m : LayerMap) (o : LayerObs) : Bool :=
  o.dir = li.dir && o.len = li.files.length && o.glyphs.length = li.files.length &&
  (li.files.zip o.glyphs).all (fun p => glyphMatches m p.1 p.2)

def saveMatches (li : LayerIn) (d : Dir) (o : SaveObs) : Bool :=
  let fnames := (li.files.map (·.fname)).eraseDups
  o.files.length = fnames.length &&
  o.files.all (fun p => fnames.contains p.1 && d p.1 == p.2 && p.2.isSome)

/-! ### what differs between a parallel dump and the sequential one (features of a load failure) -/

def loadFeatures (seq par : List LayerObs) : List String :=
  if seq.map (·.name) ≠ par.map (·.name) || seq.map (·.dir) ≠ par.map (·.dir) then ["layers"] else
  let pairs := seq.zip par
  (if pairs.any (fun p => p.1.glyphs.map (·.name) ≠ p.2.glyphs.map (·.name) || p.1.len ≠ p.2.len)
    then ["glyph-names"] else []) ++
  (if pairs.any (fun p => p.1.glyphs.map (·.found) ≠ p.2.glyphs.map (·.found)) then ["key-name"] else []) ++
  (if pairs.any (fun p => p.1.glyphs.map (·.comps) ≠ p.2.glyphs.map (·.comps)) then ["components"] else []) ++
  (if pairs.any (fun p => p.1.glyphs.map (·.body) ≠ p.2.glyphs.map (·.body)) then ["body"] else [])

def defaultDir : Str := "glyphs".toList
/-- the two names with equal `DefaultHasher::new()` value (see harness `COLL`) -/
def collA : Str := "g711c6db79da05b78".toList
def collB : Str := "gdde3a1201b0b8338".toList

def bucket (n : Nat) : String :=
  if n < 16 then "lt16" else if n < 128 then "lt128" else if n < 512 then "lt512" else "ge512"

def run (inp obs : List String) : Verdict :=
  let seed := ((inp.find? (·.startsWith "s")).bind (fun t => ((t.drop 1).toString).toNat?)).getD 1
  let reps := ((inp.find? (·.startsWith "r")).bind (fun t => ((t.drop 1).toString).toNat?)).getD 0
  match (inp.filter (·.startsWith "L:")).mapM parseLayer with
  | none => { agree := false, model := "bad-input" }
  | some layers =>
    if !(layers.all fun l => sortedStrict (l.files.map (·.file.key))) then
      { agree := false, model := "bad-input:contents-keys-not-strictly-ascending" } else
    if obs.contains "P-missing" then { agree := false, model := "parallel-harness-binary-missing" } else
    let filesOf := layers.map (fun l => l.files.map (·.file))
    let dupFile := layers.any (fun l => !nodupB (l.files.map (·.fname)))
    -- a `contents.plist` value with a directory component (`../other/f`, `./f`, `sub/f`)
    let dirComp := layers.any (fun l => l.files.any (fun f => f.fname.contains '/'))
    -- model: sequential build
    let seqMaps := seqFont false [] 0 filesOf
    let modelOk := seqMaps.all Option.isSome
    -- model: parallel build under sampled schedules
    let keysOf := layers.map (fun l => l.files.flatMap (fun f => f.file.reqs))
    let shapes : List (Bool × Nat × Bool) :=
      [(false, [2, 4, 3][seed % 3]?.getD 2, false), (true, [16, 5, 2][seed % 3]?.getD 16, true)]
    -- the other font of the process (token `A:`): its names are what a process-wide table would still hold;
    -- the theorems hold from ANY initial name list, the second replay starts from this one
    let preNames : NameSet :=
      (((inp.filter (·.startsWith "A:")).filterMap parseLayer).flatMap
        (fun l => l.files.flatMap (fun f => f.file.reqs))).eraseDups.zipIdx.map (fun p => ⟨p.1, 1000000 + p.2⟩)
    let selfLoad := shapes.all fun (b, n, rr) =>
      match parFontRandom b n rr (seed + n) (if b then preNames else []) (if b then 2000000 else 0) filesOf with
      | none => false
      | some ms => ms.length = seqMaps.length &&
          ((ms.zip seqMaps).zip keysOf).all (fun p => mapsAgree p.2 p.1.1 p.1.2)
    -- model: save, sequential and in shuffled order
    let entriesOf := layers.map (fun l => l.files.map (fun f => (⟨f.file.key, f.fname⟩ : Entry)))
    let seqDirs := entriesOf.map (fun es => saveIn es (fun _ => none))
    let selfSave := dupFile || ((entriesOf.zip seqDirs).zipIdx.all fun p =>
      let es := p.1.1
      let d := saveIn (shuffle (seed + p.2) es) (fun _ => none)
      es.all (fun e => d e.path == p.1.2 e.path))
    -- implementation: sequential observation
    let status := obs.head?.getD "?"
    let dumps := (obs.filter (·.startsWith "D:")).mapM parseLayerObs
    let edumps := (obs.filter (·.startsWith "E:")).mapM parseLayerObs
    let ops : Option (List ApiOp) :=
      match inp.find? (·.startsWith "O:") with
      | none => some []
      | some t => (splitOnC ((t.drop 2).toString) ";").mapM parseOp
    let saves := (obs.filter (·.startsWith "S:")).mapM parseSaveObs
    let seqAgree : Bool × String :=
      if status = "Qerr" then (!modelOk, "impl-load-failed")
      else if status ≠ "Qok" then (false, "impl-status:" ++ status)
      else if !modelOk then (false, "model-load-fails")
      else match dumps, saves, edumps, ops with
        | some ds, some ss, some es, some ops =>
          -- the layer states after the history (glyph map and contents index), from the model's load
          let states0 : List LState := (layers.zip seqMaps).map fun p =>
            { glyphs := p.1.files.filterMap (fun f => (p.2.bind (fun m => m f.file.key)).map (fun v => (f.file.key, v))),
              contents := p.1.files.map (fun f => (f.file.key, some f.fname)) }
          let states := applyOps states0 ops
          let bad := (((layers.zip seqMaps).zip seqDirs).zip states).filterMap fun q =>
            let p := q.1
            let li := p.1.1
            -- with a directory component in `contents` the save may fail or land elsewhere (C09's business): only the
            -- load is compared with the model then; par = seq is compared as always
            let sObs := if dirComp then some (⟨li.dir, []⟩ : SaveObs) else ss.find? (·.dir = li.dir)
            match p.1.2, ds.find? (·.name = li.name), sObs with
            | some m, some o, some s =>
              if !layerMatches li m o then some ("load:" ++ String.ofList li.name)
              else if dirComp then none
              else if ops.isEmpty then
                (if !saveMatches li p.2 s then some ("save:" ++ String.ofList li.name) else none)
              else match es.find? (·.name = li.name) with
                | none => some ("missing-after-history:" ++ String.ofList li.name)
                | some e =>
                  if !stateMatchesDump q.2 e then some ("after-history:" ++ String.ofList li.name)
                  else if !stateMatchesSave q.2 s then some ("save-after-history:" ++ String.ofList li.name)
                  else none
            | _, _, _ => some ("missing:" ++ String.ofList li.name)
          -- layer.rs:90-96: the default layer first, the others in layercontents order
          let order := (layers.filter (·.dir = defaultDir)).map (·.name) ++ (layers.filter (·.dir ≠ defaultDir)).map (·.name)
          if ds.length ≠ layers.length then (false, "layer-count")
          else if ds.map (·.name) ≠ order || (!ops.isEmpty && es.map (·.name) ≠ order) then (false, "layer-order")
          else if obs.contains "E-panic" then (false, "history-panicked")
          else (bad.isEmpty, ",".intercalate bad)
        | _, _, _, _ => (false, "unparsable-observation")
    -- specification oracle: the parallel build against the sequential build (observation only)
    let pools := (obs.filter (fun t => t.startsWith "P" && !t.startsWith "P-")).filterMap parsePool
    let xd := (obs.filter (·.startsWith "XD:")).mapM (fun t => parseLayerObs ((t.drop 1).toString))
    let xe := (obs.filter (·.startsWith "XE:")).mapM (fun t => parseLayerObs ((t.drop 1).toString))
    let xq := (obs.find? (·.startsWith "XQ")).map (fun t => (t.drop 1).toString)
    let loadBad := pools.any (fun p => p.reps < reps || p.reps = 0 || p.dumpsEq ≠ p.reps)
    let saveBad := pools.any (fun p => p.listEq ≠ p.saves || p.hashEq ≠ p.saves)
    let poolsBad := pools.map (·.threads) ≠ [1, 2, 4, 16]
    let gkFeat :=
      (if obs.find? (·.startsWith "DG:") ≠ (obs.find? (·.startsWith "XDG:")).map (fun t => (t.drop 1).toString)
        then ["groups"] else []) ++
      (if obs.find? (·.startsWith "DK:") ≠ (obs.find? (·.startsWith "XDK:")).map (fun t => (t.drop 1).toString)
        then ["kerning"] else [])
    let loadFeat :=
      match xq with
      | none => ["unclassified"]
      | some q =>
        if q ≠ status then ["status"] else
        if !gkFeat.isEmpty then gkFeat else
        match dumps, xd, edumps, xe with
        | some ds, some xs, some es, some xes =>
          let f := loadFeatures ds xs
          let f := if f.isEmpty then (loadFeatures es xes).map (fun x => x ++ "-after-history") else f
          if f.isEmpty then ["unclassified"] else f
        | _, _, _, _ => ["unclassified"]
    let spec :=
      (if poolsBad then ["pool-sizes-missing"] else []) ++
      (if loadBad then ["par-load-eq-seq:" ++ ",".intercalate loadFeat] else []) ++
      (if saveBad then ["par-save-eq-seq:" ++ (if dupFile then "dup-file" else "distinct-files")] else [])
    let nfiles := (layers.map (·.files.length)).foldl (· + ·) 0
    let allReqs := layers.flatMap (fun l => l.files.flatMap (fun f => f.file.comps))
    let shared := layers.any (fun l => l.files.any (fun f => f.file.comps.any (fun c =>
      (allReqs.filter (· = c)).length ≥ 2)))
    let tags :=
      ["layers" ++ toString (min layers.length 5), "files-" ++ bucket nfiles,
       if modelOk then "loads" else "load-fails"] ++
      (if dupFile then ["dup-file"] else []) ++
      (if layers.any (fun l => l.files.any (fun f => f.file.attr ≠ f.file.key)) then ["attr-differs"] else []) ++
      (if shared then ["shared-bases"] else []) ++
      (if layers.length ≥ 2 then ["multi-layer"] else []) ++
      (if layers.length ≥ 5 then ["layers-ge5"] else []) ++
      (if layers.length > 32 then ["layers-gt32"] else []) ++
      (if dirComp then ["dir-component"] else []) ++
      (if inp.contains "V2" then ["ufo2"] else []) ++
      (if inp.any (·.startsWith "G:") && inp.any (·.startsWith "K:") then ["kerning-groups"] else []) ++
      (if inp.any (·.startsWith "A:") then ["other-font-first"] else []) ++
      (if (layers.head?.map (·.dir)) ≠ some defaultDir then ["default-not-first"] else []) ++
      (if (inp.any (·.startsWith "O:")) then ["history"] else []) ++
      (if (inp.any (fun t => t.startsWith "O:" && ((t.splitOn "eo.").length > 1))) then ["entry-op"] else []) ++
      (if layers.any (fun l => l.files.any (fun f => f.file.key = collA || f.file.comps.contains collA)) &&
          layers.any (fun l => l.files.any (fun f => f.file.key = collB || f.file.comps.contains collB))
        then ["hash-colliding-pair"] else []) ++
      (if loadBad then ["par-load-differs"] else []) ++ (if saveBad then ["par-save-differs"] else []) ++
      (if nfiles ≥ 2 && shared then ["nt"] else [])
    let agree := seqAgree.1 && selfLoad && selfSave && !loadBad && (!saveBad || dupFile)
    { agree := agree, spec := spec, tags := tags,
      model :=
        (if modelOk then "loads" else "fails") ++ " files=" ++ toString nfiles ++
        (if !selfLoad then " MODEL-SELF-CHECK-FAILED:sampled-schedule-differs-from-sequential-model" else "") ++
        (if !selfSave then " MODEL-SELF-CHECK-FAILED:shuffled-save-differs" else "") ++
        (if !seqAgree.1 then " sequential-build-differs-from-model:" ++ seqAgree.2 else "") ++
        (if loadBad then " model-says-parallel-load-equals-sequential" else "") ++
        (if saveBad && !dupFile then " model-says-parallel-save-equals-sequential" else "") ++
        (if saveBad && dupFile then " model-allows-any-last-writer-for-shared-files" else "") }

end Driver.C19
