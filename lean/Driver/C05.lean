import Norad.Base.Proto
import Norad.Spec.Ufo3Vocab
import Norad.Spec.Ufo3Read
/-!
Driver module for C05 (interoperability).  Line formats: see `harness/src/c05.rs`; PV tokens: `tools/indep_ufo.py`.

* `n2i`: the observation is the generic value tree an independent reader (xml.etree + plistlib) made of the tree
  norad saved.  Every value of the description must be found in it under the names of `Ufo3` (tables) and, for
  glif documents, by `Ufo3.specRead` (the function `spec_reader_finds_values` is about).
* `i2n`: the observation is the dump (public getters) of what `Font::load` made of the tree the independent writer
  wrote.  It must equal the description: default layer first, the others in file order.

The "model" here is norad as it is: it predicts failure exactly for the recorded surface spellings (explicit close
tags, `<note/>`, ...), so that a disagreement means norad's behaviour changed.
-/
namespace Driver.C05
open Proto Ufo3

inductive PV where
  | s (v : String)
  | i (v : Int)
  | r (bits : Nat)
  | b (v : Bool)
  | data (hex : String)
  | date (v : String)
  | arr (l : List PV)
  | dict (l : List (String × PV))
  deriving Inhabited

def hexNat (s : String) : Option Nat :=
  s.toList.foldl (fun acc c => match acc, hexVal c with
    | some a, some v => some (a * 16 + v)
    | _, _ => none) (some 0)

def unhexS (t : String) : Option String := (unhexStr t).map String.ofList

mutual
partial def parsePV : List String → Option (PV × List String)
  | [] => none
  | t :: rest =>
    if t = "[" then parseArr rest []
    else if t = "{" then parseDict rest []
    else if t = "T" then some (.b true, rest)
    else if t = "F" then some (.b false, rest)
    else
      let body := (t.drop 1).toString
      match t.front with
      | 's' => (unhexS body).map fun v => (.s v, rest)
      | 'i' => body.toInt?.map fun v => (.i v, rest)
      | 'r' => (hexNat body).map fun v => (.r v, rest)
      | 'd' => some (.data body, rest)
      | 'D' => (unhexS body).map fun v => (.date v, rest)
      | _ => none
partial def parseArr : List String → List PV → Option (PV × List String)
  | [], _ => none
  | t :: rest, acc =>
    if t = "]" then some (.arr acc.reverse, rest)
    else match parsePV (t :: rest) with
      | some (v, rest') => parseArr rest' (v :: acc)
      | none => none
partial def parseDict : List String → List (String × PV) → Option (PV × List String)
  | [], _ => none
  | t :: rest, acc =>
    if t = "}" then some (.dict acc.reverse, rest)
    else match unhexS t, parsePV rest with
      | some k, some (v, rest') => parseDict rest' ((k, v) :: acc)
      | _, _ => none
end

def parseTok (tok : String) : Option PV := (parsePV (tok.splitOn ",")).map (·.1)

def strLe (a b : String) : Bool := decide (a ≤ b)

/-- canonical text: dictionaries sorted by key, keys starting with `#` (harness annotations) dropped -/
partial def canon : PV → String
  | .s v => "s" ++ toString v.length ++ ":" ++ v
  | .i v => "i" ++ toString v
  | .r v => "r" ++ toString v
  | .b v => if v then "T" else "F"
  | .data h => "d" ++ h
  | .date v => "D" ++ v
  | .arr l => "[" ++ ",".intercalate (l.map canon) ++ "]"
  | .dict l =>
    let l' := (l.filter (fun e => !e.1.startsWith "#")).mergeSort (fun a b => strLe a.1 b.1)
    "{" ++ ",".intercalate (l'.map fun e => toString e.1.length ++ ":" ++ e.1 ++ "=" ++ canon e.2) ++ "}"

def PV.get (v : PV) (k : String) : Option PV :=
  match v with
  | .dict l => l.lookup k
  | _ => none

def PV.entries : PV → List (String × PV)
  | .dict l => l
  | _ => []

def PV.items : PV → List PV
  | .arr l => l
  | _ => []

def PV.str? : PV → Option String
  | .s v => some v
  | _ => none

def PV.isEmptyColl : PV → Bool
  | .dict [] => true
  | .arr [] => true
  | _ => false

def floatBitsOfInt (n : Int) : Nat := (Float.ofInt n).toBits.toNat

/-- integers read as numbers (positions the specification types "integer or float") -/
partial def numNorm : PV → PV
  | .i n => .r (floatBitsOfInt n)
  | .arr l => .arr (l.map numNorm)
  | .dict l => .dict (l.map fun e => (e.1, numNorm e.2))
  | v => v

def eqPV (a b : PV) : Bool := canon a == canon b
def eqOpt (a b : Option PV) : Bool :=
  match a, b with
  | none, none => true
  | some x, some y => eqPV x y
  | _, _ => false

/-- absent and empty are the same thing for the optional files / collections -/
def orEmptyDict (v : Option PV) : PV := v.getD (.dict [])

/-! ### plist type check against the specification's table -/

def isNum : PV → Bool
  | .i _ => true
  | .r _ => true
  | _ => false

def isInt : PV → Bool
  | .i _ => true
  | _ => false

def hasTy (t : Ty) (v : PV) : Bool :=
  match t, v with
  | .str, .s _ => true
  | .int, .i _ => true
  | .num, x => isNum x
  | .bool, .b _ => true
  | .intList, .arr l => l.all isInt
  | .numList, .arr l => l.all isNum
  | .dictList, .arr l => l.all fun x => match x with | .dict _ => true | _ => false
  | .dict, .dict _ => true
  | _, _ => false

structure Tabs where
  lex : List (String × List Nat)
  hex : List (String × Nat)

def Tabs.lx (t : Tabs) : Lex := { nums := fun s => t.lex.lookup s, hex := fun s => t.hex.lookup s }

def bitsOf : PV → Option Nat
  | .r v => some v
  | .i n => some (floatBitsOfInt n)
  | _ => none

def tabsOf (tree : PV) : Tabs :=
  { lex := ((tree.get "lex").getD (.dict [])).entries.map fun e => (e.1, e.2.items.filterMap bitsOf),
    hex := ((tree.get "hex").getD (.dict [])).entries.filterMap fun e => match e.2 with
      | .i n => some (e.1, n.toNat)
      | _ => none }

/-- a colour string of a property list, read with the independent lexer, as the description spells colours -/
def colorOfString (t : Tabs) (v : PV) : PV :=
  match v with
  | .s raw => match t.lex.lookup raw with
    | some [r, g, b, a] => .arr [.r r, .r g, .r b, .r a]
    | _ => v
  | _ => v

/-- fontinfo as read from the file → the description's form: guideline colours lexed, number-typed keys as numbers -/
def fontinfoNorm (t : Tabs) (isFile : Bool) (fi : PV) : PV :=
  .dict (fi.entries.map fun e =>
    let ty := fontinfoKeys.lookup e.1
    if e.1 = "guidelines" then
      (e.1, .arr (e.2.items.map fun g => .dict (g.entries.map fun ge =>
        if ge.1 = "color" then (ge.1, if isFile then colorOfString t ge.2 else ge.2)
        else if ge.1 = "x" || ge.1 = "y" || ge.1 = "angle" then (ge.1, numNorm ge.2) else ge)))
    else if ty = some .num || ty = some .numList then (e.1, numNorm e.2) else e)

/-! ### glif: generic tree → XNode, description → GlyphD -/

partial def xnodeOf (v : PV) : Option XNode :=
  match v.get "tag" with
  | some (.s tag) =>
    let attrs := ((v.get "attrs").getD (.dict [])).entries.filterMap fun e => e.2.str?.map fun x => (e.1, x)
    match v.get "plist" with
    | some p => some (.elem tag attrs [] (canon p))
    | none =>
      match ((v.get "children").getD (.arr [])).items.mapM xnodeOf, (v.get "text").getD (.s "") with
      | some kids, .s text => some (.elem tag attrs kids text)
      | _, _ => none
  | _ => none

def numOf (v : PV) (k : String) : Option Nat := (v.get k).bind bitsOf
def strOf (v : PV) (k : String) : Option String := (v.get k).bind PV.str?

def colorOf (v : PV) : Option (Option ColorD) :=
  match v.get "color" with
  | none => some none
  | some (.arr [r, g, b, a]) =>
    match bitsOf r, bitsOf g, bitsOf b, bitsOf a with
    | some r, some g, some b, some a => some (some ⟨r, g, b, a⟩)
    | _, _, _, _ => none
  | _ => none

def affineOf (v : PV) : Option (Affine Nat) :=
  match numOf v "xScale", numOf v "xyScale", numOf v "yxScale", numOf v "yScale", numOf v "xOffset", numOf v "yOffset" with
  | some a, some b, some c, some d, some e, some f => some ⟨a, b, c, d, e, f⟩
  | _, _, _, _, _, _ => none

def ptypeOf (s : String) : Option PType :=
  if s = "move" then some .move else if s = "line" then some .line else if s = "offcurve" then some .offcurve
  else if s = "curve" then some .curve else if s = "qcurve" then some .qcurve else none

def listOf (v : PV) (k : String) : List PV := ((v.get k).getD (.arr [])).items

def glyphOfDesc (g : PV) : Option GlyphD := do
  let name ← strOf g "name"
  let w := (numOf g "width").getD 0
  let h := (numOf g "height").getD 0
  let us ← (listOf g "unicodes").mapM fun u => match u with | .i n => some n.toNat | _ => none
  let note := strOf g "note"
  let image ← match g.get "image" with
    | none => some none
    | some im => do
      let f ← strOf im "fileName"
      let t ← affineOf im
      let c ← colorOf im
      pure (some (ImageD.mk f t c))
  let gs ← (listOf g "guidelines").mapM fun x => do
    let c ← colorOf x
    pure (GuidelineD.mk (numOf x "x") (numOf x "y") (numOf x "angle") (strOf x "name") c (strOf x "identifier"))
  let ans ← (listOf g "anchors").mapM fun x => do
    let c ← colorOf x
    let ax ← numOf x "x"
    let ay ← numOf x "y"
    pure (AnchorD.mk ax ay (strOf x "name") c (strOf x "identifier"))
  let cs ← (listOf g "contours").mapM fun c => do
    let ps ← (listOf c "points").mapM fun p => do
      let px ← numOf p "x"
      let py ← numOf p "y"
      let t ← (strOf p "type").bind ptypeOf
      let sm := match p.get "smooth" with | some (.b true) => true | _ => false
      pure (PointD.mk px py t sm (strOf p "name") (strOf p "identifier"))
    pure (ContourD.mk (strOf c "identifier") ps)
  let ks ← (listOf g "components").mapM fun c => do
    let b ← strOf c "base"
    let t ← affineOf c
    pure (ComponentD.mk b t (strOf c "identifier"))
  let lib := match g.get "lib" with
    | some l => if l.isEmptyColl then none else some (canon l)
    | none => none
  pure ⟨name, w, h, us, note, image, gs, ans, cs, ks, lib⟩

/-- an absent and an empty lib element are the same data -/
def normGlyph (g : GlyphD) : GlyphD := { g with lib := if g.lib = some (canon (.dict [])) then none else g.lib }

/-! ### n2i -/

def splitPath (p : String) : List String := p.splitOn "/"

def topFiles : List String :=
  [metainfoFile, fontinfoFile, groupsFile, kerningFile, libFile, featuresFile, layercontentsFile]

def fileOf (files : PV) (path : String) (kind : String) : Option PV := (files.get path).bind (·.get kind)

def pairOf : PV → Option (String × String)
  | .arr [.s a, .s b] => some (a, b)
  | _ => none

def nodup (l : List String) : Bool :=
  match l with
  | [] => true
  | a :: r => !r.contains a && nodup r

def sortedNames (l : List String) : List String := l.mergeSort strLe

def checkN2I (desc tree : PV) : List String := Id.run do
  let t := tabsOf tree
  let files := (tree.get "files").getD (.dict [])
  let mut fails : List String := []
  -- metainfo
  match fileOf files metainfoFile "plist" with
  | some m =>
    if !(eqOpt (m.get "formatVersion") (some (.i 3)) && m.entries.all (fun e => (metainfoKeys.lookup e.1).any (hasTy · e.2))) then
      fails := fails ++ ["n2i-metainfo"]
  | none => fails := fails ++ ["n2i-metainfo"]
  -- fontinfo
  let dfi := orEmptyDict (desc.get "fontinfo")
  let ffi := orEmptyDict (fileOf files fontinfoFile "plist")
  if !(ffi.entries.all fun e => (fontinfoKeys.lookup e.1).any (hasTy · e.2)) then fails := fails ++ ["n2i-fontinfo-vocabulary"]
  if !eqPV (fontinfoNorm t true ffi) (fontinfoNorm t false dfi) then fails := fails ++ ["n2i-fontinfo"]
  -- lib, groups, kerning, features
  if !eqPV (orEmptyDict (fileOf files libFile "plist")) (orEmptyDict (desc.get "lib")) then fails := fails ++ ["n2i-lib"]
  if !eqPV (orEmptyDict (fileOf files groupsFile "plist")) (orEmptyDict (desc.get "groups")) then fails := fails ++ ["n2i-groups"]
  if !eqPV (numNorm (orEmptyDict (fileOf files kerningFile "plist"))) (numNorm (orEmptyDict (desc.get "kerning"))) then
    fails := fails ++ ["n2i-kerning"]
  if !eqPV ((fileOf files featuresFile "text").getD (.s "")) ((desc.get "features").getD (.s "")) then
    fails := fails ++ ["n2i-features"]
  -- layers
  let dlayers := listOf desc "layers"
  let lc := ((fileOf files layercontentsFile "plist").getD (.arr [])).items.filterMap pairOf
  let mut known : List String := topFiles
  if lc.map (·.1) != dlayers.filterMap (strOf · "name") || (lc.head?.map (·.2)) != some defaultGlyphsDir ||
     !nodup (lc.map (·.2)) || !nodup (lc.map (·.2.toLower)) || lc.length != ((fileOf files layercontentsFile "plist").getD (.arr [])).items.length then
    fails := fails ++ ["n2i-layers"]
  for (dl, (_, dir)) in dlayers.zip lc do
    known := known ++ [dir ++ "/" ++ contentsFile, dir ++ "/" ++ layerinfoFile]
    let contents := orEmptyDict (fileOf files (dir ++ "/" ++ contentsFile) "plist")
    if (fileOf files (dir ++ "/" ++ contentsFile) "plist").isNone then fails := fails ++ ["n2i-contents"]
    let dglyphs := listOf dl "glyphs"
    -- one file per glyph: the values of contents.plist are pairwise different, also on a case-insensitive file system
    let cfiles := contents.entries.filterMap (·.2.str?)
    if !nodup cfiles || !nodup (cfiles.map String.toLower) then fails := fails ++ ["n2i-contents-distinct"]
    if sortedNames (contents.entries.map (·.1)) != sortedNames (dglyphs.filterMap (strOf · "name")) then
      fails := fails ++ ["n2i-contents"]
    for dg in dglyphs do
      let gname := (strOf dg "name").getD ""
      match (contents.get gname).bind PV.str? with
      | none => fails := fails ++ ["n2i-contents"]
      | some fn =>
        known := known ++ [dir ++ "/" ++ fn]
        if !fn.endsWith glifSuffix then fails := fails ++ ["n2i-glif-suffix"]
        match (fileOf files (dir ++ "/" ++ fn) "xml").bind xnodeOf, glyphOfDesc dg with
        | some x, some gd =>
          match specRead t.lx x with
          | some got => if normGlyph got != normGlyph gd then fails := fails ++ ["n2i-glif"]
          | none => fails := fails ++ ["n2i-glif-unreadable"]
        | _, _ => fails := fails ++ ["n2i-glif-missing"]
    -- layerinfo
    let li := orEmptyDict (fileOf files (dir ++ "/" ++ layerinfoFile) "plist")
    if !(li.entries.all fun e => (layerinfoKeys.lookup e.1).any (hasTy · e.2)) then fails := fails ++ ["n2i-layerinfo-vocabulary"]
    if !eqOpt ((li.get "color").map (colorOfString t)) (dl.get "color") ||
       !eqPV (orEmptyDict (li.get "lib")) (orEmptyDict (dl.get "lib")) then
      fails := fails ++ ["n2i-layerinfo"]
  -- data, images
  let stored (dirName : String) : PV := .dict (files.entries.filterMap fun e =>
    if e.1.startsWith (dirName ++ "/") then (e.2.get "bytes").map fun b => ((e.1.drop (dirName.length + 1)).toString, b) else none)
  if !eqPV (stored dataDir) (orEmptyDict (desc.get "data")) then fails := fails ++ ["n2i-data"]
  if !eqPV (stored imagesDir) (orEmptyDict (desc.get "images")) then fails := fails ++ ["n2i-images"]
  -- nothing else in the tree
  if !(files.entries.all fun e => known.contains e.1 || e.1.startsWith (dataDir ++ "/") || e.1.startsWith (imagesDir ++ "/")) then
    fails := fails ++ ["n2i-file-names"]
  return fails

/-! ### i2n -/

def sortGlyphs (gs : List PV) : List PV :=
  gs.mergeSort fun a b => strLe ((strOf a "name").getD "") ((strOf b "name").getD "")

def dropKey (k : String) (v : PV) : PV := .dict (v.entries.filter (·.1 != k))

/-- default layer (directory `glyphs`) first, the others in file order -/
def expectedLayers (ls : List PV) : List PV :=
  ls.filter (fun l => strOf l "dir" == some defaultGlyphsDir) ++ ls.filter (fun l => strOf l "dir" != some defaultGlyphsDir)

def glyphData (g : PV) : PV :=
  -- width/height 0 and absent are the same
  let g := dropKey "file" g
  let z (k : String) (g : PV) : PV := match numOf g k with
    | some 0 => dropKey k g
    | _ => g
  z "height" (z "width" g)

def fbits (n : Nat) : Float := Float.ofBits n.toUInt64

/-- the images of (1,0), (0,1), (0,0) under the specification's reading of the six coefficients -/
def probeOf (t : Affine Nat) : List Nat :=
  let tf : Affine Float := ⟨fbits t.xScale, fbits t.xyScale, fbits t.yxScale, fbits t.yScale, fbits t.xOffset, fbits t.yOffset⟩
  let pts : List (Float × Float) := [(1.0, 0.0), (0.0, 1.0), (0.0, 0.0)]
  pts.flatMap fun p => let q := tf.apply p.1 p.2; [q.1.toBits.toNat, q.2.toBits.toNat]

def probesOk (dumpG descG : PV) : Bool :=
  let one (d e : PV) : Bool := match d.get "#probe", affineOf e with
    | some (.arr l), some t => l.filterMap bitsOf == probeOf t
    | none, _ => true
    | _, _ => false
  ((listOf dumpG "components").zip (listOf descG "components")).all (fun p => one p.1 p.2) &&
  (match dumpG.get "image", descG.get "image" with
   | some a, some b => one a b
   | _, _ => true)

/-- what a request asks for, of the description: `default-only` = `none().default_layer(true)` (the default layer and the
font info, nothing else), `all-default` = `all().default_layer(true)`, `named` = `all().filter_layers(name of the default
layer)`; the layer keeps the name the writer gave it -/
def projectDesc (req : String) (desc : PV) : PV :=
  if req = "all" then desc else
  let keepLayers (d : PV) : PV := .dict (d.entries.map fun e =>
    if e.1 = "layers" then (e.1, .arr (e.2.items.filter fun l => strOf l "dir" == some defaultGlyphsDir)) else e)
  let d := keepLayers desc
  if req = "default-only" then
    .dict (d.entries.filter fun e => e.1 = "layers" || e.1 = "fontinfo")
  else d

def checkI2N (desc dump : PV) : List String := Id.run do
  let mut fails : List String := []
  let sect (k : String) (norm : PV → PV) : Bool := eqPV (norm (orEmptyDict (dump.get k))) (norm (orEmptyDict (desc.get k)))
  if !sect "fontinfo" id then fails := fails ++ ["i2n-fontinfo"]
  if !sect "lib" id then fails := fails ++ ["i2n-lib"]
  if !sect "groups" id then fails := fails ++ ["i2n-groups"]
  if !sect "kerning" id then fails := fails ++ ["i2n-kerning"]
  if !eqPV ((dump.get "features").getD (.s "")) ((desc.get "features").getD (.s "")) then fails := fails ++ ["i2n-features"]
  if !sect "data" id then fails := fails ++ ["i2n-data"]
  if !sect "images" id then fails := fails ++ ["i2n-images"]
  let want := expectedLayers (listOf desc "layers")
  let got := listOf dump "layers"
  let key (l : PV) : String := (strOf l "name").getD "?" ++ "\u0000" ++ (strOf l "dir").getD "?"
  if got.map key != want.map key then fails := fails ++ ["i2n-layer-order"]
  for w in want do
    match got.find? (fun g => key g == key w) with
    | none => pure ()
    | some g =>
      if !eqOpt (g.get "color") (w.get "color") || !eqPV (orEmptyDict (g.get "lib")) (orEmptyDict (w.get "lib")) then
        fails := fails ++ ["i2n-layerinfo"]
      let gg := sortGlyphs (listOf g "glyphs")
      let wg := sortGlyphs (listOf w "glyphs")
      if gg.length != wg.length || !(gg.zip wg).all (fun p => eqPV (glyphData p.1) (glyphData p.2)) then
        fails := fails ++ ["i2n-glyphs"]
      if !(gg.zip wg).all (fun p => probesOk p.1 p.2) then fails := fails ++ ["i2n-affine"]
  return fails

/-! ### verdicts -/

def dedup (l : List String) : List String := l.foldl (fun acc x => if acc.contains x then acc else acc ++ [x]) []

/-- surface spellings norad (as it is) refuses (`comment-in-glyph` left this list with norad commit 0ece54e: comments
inside glyph / outline / contour are skipped now and the case must load with every value), and the one it accepts while dropping the value -/
def rejectedSpellings : List String :=
  ["explicit-close-advance", "explicit-close-unicode", "explicit-close-anchor", "explicit-close-guideline",
   "explicit-close-image", "explicit-close-point", "explicit-close-component", "empty-note", "self-closed-glyph",
   "doctype-glif", "cdata-layer-color"]
def alteringSpellings : List String :=
  ["cdata-note", "cdata-fontinfo", "cdata-font-lib", "cdata-layer-lib", "cdata-glyph-lib"]
/-- strings norad writes in a way an XML reader does not give back (n2i) -/
def lossyWritten : List String := ["cr-note", "crlf-note", "ctrl-note", "ctrl-font-lib", "tab-image-filename"]

def withFeats (feats : List String) (rules : List String) : List String :=
  let fs := ",".intercalate (feats.mergeSort strLe)
  (dedup rules).map fun r => if fs = "" then r else r ++ ":" ++ fs

/-- shape of a contour of the description: which kind, and how the start point the writer chose cuts the cyclic list
    (`lead` / `trail` = off-curve points at the start / end of the written list; a closed contour wraps around) -/
def contourTag (c : PV) : List String :=
  let tys := (listOf c "points").map fun p => (strOf p "type").getD "?"
  if tys.isEmpty then [] else
  if tys.head? == some "move" then ["ct-open"] else
  let lead := (tys.takeWhile (· == "offcurve")).length
  let trail := (tys.reverse.takeWhile (· == "offcurve")).length
  if tys.all (· == "offcurve") then ["ct-all-offcurve"]
  else if tys.contains "qcurve" then
    let wrap := lead + trail
    [if lead > 0 && trail > 0 then "ct-quad-seam-split" else if trail > 0 then "ct-quad-starts-on-curve" else
       if lead > 0 then "ct-quad-on-curve-last" else "ct-quad-no-wrap"] ++
    (if wrap ≥ 3 then ["ct-quad-wrap-run3+"] else [])
  else if tys.contains "curve" then ["ct-cubic-seam" ++ toString (min (lead + trail) 3)]
  else ["ct-lines"]

def contourTags (desc : PV) : List String :=
  (listOf desc "layers").flatMap fun l => (listOf l "glyphs").flatMap fun g => (listOf g "contours").flatMap contourTag

def sizeTags (desc : PV) : List String :=
  let ls := listOf desc "layers"
  let ng := (ls.map fun l => (listOf l "glyphs").length).foldl (· + ·) 0
  ["layers" ++ toString (min ls.length 5), "glyphs" ++ toString (min ng 9),
   "fontinfo" ++ toString (min ((orEmptyDict (desc.get "fontinfo")).entries.length / 10 * 10) 100)] ++
  (if (desc.get "lib").isSome then ["font-lib"] else []) ++
  (if (desc.get "kerning").isSome then ["kerning"] else []) ++
  (if (desc.get "groups").isSome then ["groups"] else []) ++
  (if (desc.get "data").isSome || (desc.get "images").isSome then ["stores"] else []) ++
  (if ng > 0 then ["nt"] else [])

def runN (inp obs : List String) : Verdict :=
  match inp with
  | [_, "n2i", feat, pre, descTok] =>
    let feats := (if feat = "-" then [] else [feat]) ++ (if pre = "-" then [] else ["pre-" ++ pre])
    match parseTok descTok, obs with
    | some desc, [o] =>
      let expectBad := lossyWritten.contains feat
      if o.startsWith "malformed:" then
        { agree := expectBad, spec := withFeats feats ["n2i-wellformed"], tags := ["n2i", "malformed"] ++ feats ++ sizeTags desc,
          model := if expectBad then "lossy" else "ok" }
      else if o.startsWith "save-" then
        { agree := false, spec := withFeats feats ["n2i-save"], tags := ["n2i", "save-failed"] ++ feats ++ sizeTags desc, model := "ok" }
      else match parseTok o with
        | some tree =>
          let fails := checkN2I desc tree
          { agree := (fails.isEmpty == !expectBad), spec := withFeats feats fails,
            tags := ["n2i", if fails.isEmpty then "found" else "not-found"] ++ feats ++ sizeTags desc,
            model := if expectBad then "lossy" else "ok" }
        | none => { agree := false, model := "unparsable-tree" }
    | _, _ => { agree := false, model := "bad-n2i-line" }
  | [_, "i2n", _seed, _want, req, descTok] =>
    match (parseTok descTok).map (projectDesc req), obs with
    | some desc, applied :: rest =>
      let feats := (if applied = "-" then [] else applied.splitOn "+") ++ (if req = "all" then [] else ["req-" ++ req])
      let expectReject := feats.any rejectedSpellings.contains
      let expectAltered := feats.any alteringSpellings.contains
      let modelS := if expectReject then "rejected" else if expectAltered then "altered" else "equal"
      match rest with
      | ["ok", dumpTok] =>
        match parseTok dumpTok with
        | some dump =>
          let fails := checkI2N desc dump
          { agree := !expectReject && (fails.isEmpty == !expectAltered), spec := withFeats feats fails,
            tags := ["i2n", if fails.isEmpty then "equal" else "differs"] ++ feats ++ sizeTags desc ++ contourTags desc,
            model := modelS }
        | none => { agree := false, model := "unparsable-dump" }
      | [e] =>
        { agree := expectReject && e != "panic", spec := withFeats feats [if e = "panic" then "i2n-panic" else "i2n-rejected"],
          tags := ["i2n", "rejected"] ++ feats ++ sizeTags desc ++ contourTags desc, model := modelS }
      | _ => { agree := false, model := "bad-i2n-observation" }
    | _, _ => { agree := false, model := "bad-i2n-line" }
  | [_, "les", src, _seed, descTok, opsTok] =>
    -- load, edit, save: the description of the SAVED font is the dump of the in-memory font after the edits
    let feats := ["les-" ++ src]
    let nops := if opsTok = "-" then 0 else (opsTok.splitOn ";").length
    match parseTok descTok, obs with
    | some desc0, [dumpTok, treeTok] =>
      if treeTok.startsWith "malformed:" then
        { agree := false, spec := withFeats feats ["n2i-wellformed"], tags := ["les", "malformed"] ++ sizeTags desc0, model := "ok" }
      else match parseTok dumpTok, parseTok treeTok with
        | some dump, some tree =>
          -- without layer operations the loaded (and written back) order is: default layer first, the others in the
          -- order of the source's layercontents.plist
          let layerOps := opsTok != "-" && (opsTok.splitOn ";").any fun o => o.startsWith "nl." || o.startsWith "ml." || o.startsWith "rl."
          let nameOf (l : PV) : String := (strOf l "name").getD "?"
          let orderFail := if !layerOps && (listOf dump "layers").map nameOf != (expectedLayers (listOf desc0 "layers")).map nameOf
            then ["les-layer-order"] else []
          let fails := checkN2I dump tree ++ orderFail
          { agree := fails.isEmpty, spec := withFeats feats fails,
            tags := ["les", "les-" ++ src, "ops" ++ toString (min nops 5), if fails.isEmpty then "found" else "not-found"] ++
              sizeTags dump, model := "ok" }
        | _, _ => { agree := false, model := "unparsable-les-observation" }
    | some desc0, [e] =>
      { agree := false, spec := withFeats feats [if e.startsWith "save" then "n2i-save" else "les-load"],
        tags := ["les", "failed"] ++ sizeTags desc0, model := "ok" }
    | _, _ => { agree := false, model := "bad-les-line" }
  | _ => { agree := false, model := "bad-line" }

/-- lines of the first protocol version (no `pre` / `req` token) are a fresh target / a plain `Font::load` -/
def run (inp obs : List String) : Verdict :=
  match inp with
  | [m, "n2i", feat, descTok] => runN [m, "n2i", feat, "-", descTok] obs
  | [m, "i2n", seed, want, descTok] => runN [m, "i2n", seed, want, "all", descTok] obs
  | _ => runN inp obs

end Driver.C05
