import Norad.Base.Proto
import Driver.C11
import Driver.C06
import Driver.C05
/-!
# Line-protocol driver

Reads protocol lines on stdin (`<model> <input tokens> => <observation tokens>`), runs the model's
executable definitions and the specification predicate, prints one tab-separated verdict per line:
`<AGREE|DISAGREE>\t<spec: ok | fail:rule;rule>\t<tags>\t<model output>`.
-/
open Proto

def dispatch (inp obs : List String) : Verdict :=
  match inp.head? with
  | some "C11" => Driver.C11.run inp obs
  | some "C06" => Driver.C06.run inp obs
  | some "C05" => Driver.C05.run inp obs
  | _ => { agree := false, model := "unknown-model" }

partial def loop (h : IO.FS.Stream) (out : IO.FS.Stream) : IO Unit := do
  let line ← h.getLine
  if line.isEmpty then return ()
  let t := line.trimAscii.toString
  if t.isEmpty || t.startsWith "#" then
    out.putStrLn "SKIP"
  else
    let (inp, obs) := splitLine t
    let v := dispatch inp obs
    let spec := if v.spec.isEmpty then "ok" else "fail:" ++ ";".intercalate v.spec
    out.putStrLn ((if v.agree then "AGREE" else "DISAGREE") ++ "\t" ++ spec ++ "\t" ++
      ",".intercalate v.tags ++ "\t" ++ v.model)
  loop h out

def main : IO Unit := do
  let stdin ← IO.getStdin
  let stdout ← IO.getStdout
  loop stdin stdout
