import Norad.Base.Proto
import Driver.C11
import Driver.C06
import Driver.C03
import Driver.C18
import Driver.C20
import Driver.C07
import Driver.C15
import Driver.C10
import Driver.C13
import Driver.C14
import Driver.C16
import Driver.C16Req
import Driver.C12
import Driver.C02
import Driver.C08
import Driver.C09
import Driver.C17
import Driver.C19
import Driver.C01
import Driver.C04
import Driver.C05
import Driver.Small
/-!
# Line-protocol driver

Reads protocol lines on stdin (`<model> <input tokens> => <observation tokens>`), runs the model's
executable definitions and the specification predicate, prints one tab-separated verdict per line:
`<AGREE|DISAGREE>\t<spec: ok | fail:rule;rule>\t<tags>\t<model output>`.
-/
open Proto

def dispatch (inp obs : List String) : Verdict :=
  match inp.head? with
  | some "SM" => Driver.Small.run inp obs
  | some "C11" => Driver.C11.run inp obs
  | some "C06" => Driver.C06.run inp obs
  | some "C03" => Driver.C03.run inp obs
  | some "C18" | some "C18L" | some "C18F" => Driver.C18.run inp obs
  | some "C20" => Driver.C20.run inp obs
  | some "C07" => Driver.C07.run inp obs
  | some "C15" => Driver.C15.run inp obs
  | some "C10" => Driver.C10.run inp obs
  | some "C13" => Driver.C13.run inp obs
  | some "C14" => Driver.C14.run inp obs
  | some "C16" => Driver.C16.run inp obs
  | some "C16path" => Driver.C16.runPath inp obs
  | some "C16req" => Driver.C16Req.run inp obs
  | some "C16pp" => Driver.C16.runPair inp obs
  | some "C12" => Driver.C12.run inp obs
  | some "C02" => Driver.C02.run inp obs
  | some "C08" => Driver.C08.run inp obs
  | some "C09" => Driver.C09.run inp obs
  | some "C17" => Driver.C17.run inp obs
  | some "C19" => Driver.C19.run inp obs
  | some "C01" => Driver.C01.run inp obs
  | some "C04" => Driver.C04.run inp obs
  | some "C05" => Driver.C05.run inp obs
  | _ => { agree := false, model := "unknown-model" }

partial def loop (h : IO.FS.Stream) (out : IO.FS.Stream) : IO Unit := do
  let line ← h.getLine
  if line.isEmpty then return ()
  let t := line.trimAscii.toString
  if t.isEmpty || t.startsWith "#" then
    out.putStrLn "SKIP"
  else
    let (inp, obs) := splitLine t
    let v := dispatch inp obs
    let spec := if v.spec.isEmpty then "ok" else "fail:" ++ ";".intercalate v.spec
    out.putStrLn ((if v.agree then "AGREE" else "DISAGREE") ++ "\t" ++ spec ++ "\t" ++
      ",".intercalate v.tags ++ "\t" ++ v.model)
  loop h out

def main : IO Unit := do
  let stdin ← IO.getStdin
  let stdout ← IO.getStdout
  loop stdin stdout
