import Norad.Base.Proto
import Norad.Model.RoundTrip
/-!
Driver module for C01 (font round trip) and the font level of C04.  Line format: `harness/src/c01.rs`.

* model: `RT.saveFont` on the described font, `RT.loadFont` on the resulting abstract tree; compared with
  what the implementation wrote (which top-level files exist, metainfo, integer-vs-real of every number of
  fontinfo.plist and kerning.plist, layercontents, colour strings, feature bytes) and with the loaded font.
* specification (`specFont`), evaluated on the implementation's observation only: the loaded font equals
  the one that was saved, numbers within 1e-9 relative, colours to 3 decimals, features up to CR LF.
-/
namespace Driver.C01
open Proto RT

/-- the correspondence runs the model on opaque tokens -/
abbrev Font := RT.Font tokenParts
abbrev Layer := RT.Layer tokenParts
abbrev GlyphE := RT.GlyphE tokenParts
abbrev Tree := RT.Tree tokenParts

/-! ### doubles -/

partial def adjustUp (a : Rat) (e : Int) : Int := if a * pow2 (-e) < 9007199254740992 then e else adjustUp a (e + 1)
partial def adjustDown (a : Rat) (e : Int) : Int :=
  if e ≤ -1074 then -1074 else if 2251799813685248 ≤ a * pow2 (-e) / 2 then e else adjustDown a (e - 1)

/-- nearest double, ties to even (finite results only; used for integers and k/1000) -/
def encode (q : Rat) : Nat :=
  if q = 0 then 0 else
  let s : Nat := if q < 0 then 1 else 0
  let a := absQ q
  let e0 : Int := (Nat.log2 a.num.toNat : Int) - (Nat.log2 a.den : Int) - 52
  -- 2^52 ≤ a / 2^e < 2^53 (or e = -1074 for subnormals)
  let e1 := adjustUp a (e0 - 2)
  let e := if e1 < -1074 then -1074 else e1
  let x := a * pow2 (-e)
  let f := x.floor
  let r := x - (f : Int)
  let m0 : Int := if r < 1/2 then f else if 1/2 < r then f + 1 else (if f % 2 = 0 then f else f + 1)
  let (m, e) := if m0 = 9007199254740992 then ((4503599627370496 : Int), e + 1) else (m0, e)
  let field : Int := if m < 4503599627370496 then 0 else e + 1075
  let mant : Int := if m < 4503599627370496 then m else m - 4503599627370496
  s * 2 ^ 63 + field.toNat * 2 ^ 52 + mant.toNat

def hex16 (n : Nat) : String :=
  String.ofList ((List.range 16).reverse.map fun i => hexDigit (n / 16 ^ i % 16))

def parseHexNat (s : String) : Option Nat :=
  s.toList.foldl (fun acc c => match acc, hexVal c with
    | some a, some d => some (a * 16 + d)
    | _, _ => none) (some 0)

def numBits : NumV → Nat
  | .bits b => b
  | .ofInt n => encode (n : Rat)

/-! ### plist values on the protocol -/

partial def pvParse : List String → Option (PV × List String)
  | [] => none
  | t :: rest =>
    let body := (t.drop 1).toString
    match t.toList.head? with
    | some 's' => (unhexStr body).map fun s => (PV.str (String.ofList s), rest)
    | some 'i' => body.toInt?.map fun n => (PV.int n, rest)
    | some 'r' => (parseHexNat body).map fun b => (PV.real b, rest)
    | some 'b' => some (PV.bool (body = "1"), rest)
    | some 'x' => some (PV.data body, rest)
    | some 't' => some (PV.date body, rest)
    | some 'a' =>
      match body.toNat? with
      | none => none
      | some n =>
        let rec go (k : Nat) (acc : List PV) (r : List String) : Option (PV × List String) :=
          if k = 0 then some (PV.arr acc.reverse, r) else
          match pvParse r with
          | some (v, r') => go (k - 1) (v :: acc) r'
          | none => none
        go n [] rest
    | some 'd' =>
      match body.toNat? with
      | none => none
      | some n =>
        let rec goD (k : Nat) (acc : List (String × PV)) (r : List String) : Option (PV × List String) :=
          if k = 0 then some (PV.dict acc.reverse, r) else
          match r with
          | kt :: r1 =>
            match unhexStr kt, pvParse r1 with
            | some key, some (v, r') => goD (k - 1) ((String.ofList key, v) :: acc) r'
            | _, _ => none
          | [] => none
        goD n [] rest
    | _ => none

def parsePV (s : String) : Option PV :=
  match pvParse (s.splitOn ",") with
  | some (v, []) => some v
  | _ => none

def parseDict (s : String) : Option Dict :=
  match parsePV s with
  | some (.dict l) => some l
  | _ => none

/-- canonical form: keys sorted at every level (plist::Dictionary equality ignores the order) -/
partial def pvPrint : PV → List String
  | .str s => ["s" ++ hexOfStr s.toList]
  | .int n => ["i" ++ toString n]
  | .real b => ["r" ++ hex16 b]
  | .bool b => [if b then "b1" else "b0"]
  | .data h => ["x" ++ h]
  | .date s => ["t" ++ s]
  | .arr l => ("a" ++ toString l.length) :: l.flatMap pvPrint
  | .dict l => ("d" ++ toString l.length) :: (sortKV l).flatMap fun e => hexOfStr e.1.toList :: pvPrint e.2

def dictStr (d : Dict) : String := ",".intercalate (pvPrint (.dict d))

/-! ### tokens -/

def splitNE (s : String) (sep : String) : List String := if s = "" then [] else s.splitOn sep

def unhexS (s : String) : Option String := (unhexStr s).map String.ofList
def optUnhex (s : String) : Option (Option String) := if s = "~" then some none else (unhexS s).map some
def hexS (s : String) : String := hexOfStr s.toList
def optHex : Option String → String
  | some s => hexS s
  | none => "~"

def field (toks : List String) (k : String) : Option String :=
  (toks.find? (·.startsWith (k ++ "="))).map fun t => (t.drop (k.length + 1)).toString

def split2 (s : String) (sep : String) : Option (String × String) :=
  match s.splitOn sep with
  | a :: b :: r => some (a, sep.intercalate (b :: r))
  | _ => none

def parseNums (s : String) : Option (List (String × NumV)) :=
  (splitNE s ";").mapM fun (e : String) =>
    match e.splitOn ":" with
    | [k, b] => (parseHexNat b).map fun n => (k, NumV.bits n)
    | _ => none

def parseGuides (s : String) : Option (Option (List Guide)) :=
  if s = "~" then some none else
  ((splitNE s ";").mapM fun (e : String) =>
    match e.splitOn "/" with
    | [i, l, r] =>
      match optUnhex i, (if l = "~" then some none else (parseDict l).map some) with
      | some id, some lib => some ({ id := id, lib := lib, rest := r } : Guide)
      | _, _ => none
    | _ => none).map some

def parseGroups (s : String) : Option (List (String × List String)) :=
  (splitNE s ";").mapM fun (e : String) =>
    match e.splitOn ":" with
    | [g, ns] =>
      match unhexS g, (splitNE ns "+").mapM unhexS with
      | some g', some ns' => some (g', ns')
      | _, _ => none
    | _ => none

def parseKerning (s : String) : Option (List (String × List (String × NumV))) :=
  (splitNE s ";").mapM fun (e : String) =>
    match e.splitOn ":" with
    | [a, m] =>
      match unhexS a, ((splitNE m "+").mapM fun (x : String) =>
          match x.splitOn "/" with
          | [b, bits] => match unhexS b, parseHexNat bits with
            | some b', some n => some (b', NumV.bits n)
            | _, _ => none
          | _ => none) with
      | some a', some m' => some (a', m')
      | _, _ => none
    | _ => none

def parseColor (s : String) : Option (Option ColV) :=
  if s = "~" then some none else
  match (s.splitOn ".").mapM parseHexNat with
  | some [r, g, b, a] => some (some (ColV.bits r g b a))
  | _ => none

/-- layer token + its `dir:file+file` token from `pre=` / `post=` -/
def parseLayer (s : String) (pt : String) : Option Layer :=
  match s.splitOn "/", pt.splitOn ":" with
  | [n, c, l, gs], [d, fs] =>
    let files := splitNE fs "+"
    let gl := splitNE gs "+"
    if files.length ≠ gl.length then none else
    match unhexS n, unhexS d, parseColor c, parseDict l,
          (gl.zip files).mapM (fun (e : String × String) =>
            match e.1.splitOn ":" with
            | [gn, tok] => match unhexS gn, unhexS e.2 with
              | some gn', some f => some ({ name := gn', file := f, tok := tok } : GlyphE)
              | _, _ => none
            | _ => none) with
    | some n', some d', some c', some l', some gs' => some { name := n', dir := d', color := c', lib := l', glyphs := gs' }
    | _, _, _, _, _ => none
  | _, _ => none

def parseStore (s : String) : Option (List (String × String)) :=
  (splitNE s ";").mapM fun (e : String) =>
    match e.splitOn ":" with
    | [p, b] => (unhexS p).map fun p' => (p', b)
    | _ => none

/-- a font from its tokens; `paths` is the matching `pre=` / `post=` value -/
def parseFont (toks : List String) (paths : String) : Option Font := do
  let m ← field toks "m"
  let (c, mi) ← split2 m "."
  let creator ← optUnhex c
  let minor ← mi.toNat?
  let fi ← field toks "fi"
  let nums ← (field toks "n").bind parseNums
  let u ← field toks "u"
  let upm ← if u = "~" then some none else (parseHexNat u).map (fun b => some (NumV.bits b))
  let guides ← (field toks "g").bind parseGuides
  let lib ← (field toks "lib").bind parseDict
  let groups ← (field toks "gr").bind parseGroups
  let kerning ← (field toks "k").bind parseKerning
  let fe ← (field toks "fe").bind unhexStr
  let ls ← field toks "L"
  let lts := ls.splitOn "|"
  let pts := paths.splitOn "|"
  if lts.length ≠ pts.length then none else
  let layers ← (lts.zip pts).mapM fun e => parseLayer e.1 e.2
  let data ← (field toks "d").bind parseStore
  let images ← (field toks "i").bind parseStore
  some { creator := creator, fv := 3, minor := minor,
         info := { nums := nums, upm := upm, guides := guides, rest := if fi = "~" then none else some fi },
         lib := lib, groups := groups, kerning := kerning, features := fe, layers := layers,
         data := data, images := images }

/-! ### printing (the observation syntax of the harness) -/

def colBits : ColV → List Nat
  | .bits r g b a => [r, g, b, a]
  | .milli r g b a => [r, g, b, a].map fun (k : Nat) => encode (((k : Int) : Rat) / 1000)

def printNums (l : List (String × NumV)) : String :=
  ";".intercalate (l.map fun e => e.1 ++ ":" ++ hex16 (numBits e.2))

def printFont (f : Font) : List String :=
  [ "m=" ++ optHex f.creator ++ "." ++ toString f.minor,
    "fi=" ++ f.info.rest.getD "~",
    "n=" ++ printNums f.info.nums,
    "u=" ++ (match f.info.upm with | some v => hex16 (numBits v) | none => "~"),
    "g=" ++ (match f.info.guides with
      | none => "~"
      | some gs => ";".intercalate (gs.map fun g =>
          optHex g.id ++ "/" ++ (match g.lib with | some l => dictStr l | none => "~") ++ "/" ++ g.rest)),
    "lib=" ++ dictStr f.lib,
    "gr=" ++ ";".intercalate (f.groups.map fun e => hexS e.1 ++ ":" ++ "+".intercalate (e.2.map hexS)),
    "k=" ++ ";".intercalate (f.kerning.map fun e =>
      hexS e.1 ++ ":" ++ "+".intercalate (e.2.map fun p => hexS p.1 ++ "/" ++ hex16 (numBits p.2))),
    "fe=" ++ hexOfStr f.features,
    "L=" ++ "|".intercalate (f.layers.map fun l =>
      hexS l.name ++ "/" ++ (match l.color with
        | some c => ".".intercalate ((colBits c).map hex16)
        | none => "~") ++ "/" ++ dictStr l.lib ++ "/" ++
      "+".intercalate (l.glyphs.map fun g => hexS g.name ++ ":" ++ g.tok)),
    "d=" ++ ";".intercalate (f.data.map fun e => hexS e.1 ++ ":" ++ e.2),
    "i=" ++ ";".intercalate (f.images.map fun e => hexS e.1 ++ ":" ++ e.2) ]

def printPaths (f : Font) : String :=
  "|".intercalate (f.layers.map fun l => hexS l.dir ++ ":" ++ "+".intercalate (l.glyphs.map fun g => hexS g.file))

def numW (k : String) : NumW → String
  | .int n => "i" ++ toString n
  | .real v => if isLenKey k then "i" ++ toString (numBits v) else "r" ++ hex16 (numBits v)

def pad3 (k : Nat) : String :=
  let s := toString k
  String.ofList (List.replicate (3 - s.length) '0') ++ s

def trimZeros (l : List Char) : List Char := (l.reverse.dropWhile (· = '0')).reverse

/-- `{:.3}` then trailing zeros and a trailing dot removed -/
def chanStr (k : Nat) : String :=
  if k ≥ 1000 then "1" else if k = 0 then "0" else "0." ++ String.ofList (trimZeros (pad3 k).toList)

def strLe (a b : String) : Bool := decide (a ≤ b)

/-- what the writers leave on disk, in the `written()` syntax of the harness -/
def printTree (t : Tree) : List String :=
  let top := ["metainfo.plist", "layercontents.plist"] ++
    (if t.fontinfo.isSome then ["fontinfo.plist"] else []) ++ (if t.lib.isSome then ["lib.plist"] else []) ++
    (if t.groups.isSome then ["groups.plist"] else []) ++ (if t.kerning.isSome then ["kerning.plist"] else []) ++
    (if t.features.isSome then ["features.fea"] else []) ++ t.dirs.map (·.1) ++
    (if t.data.isEmpty then [] else ["data"]) ++ (if t.images.isEmpty then [] else ["images"])
  [ "files=" ++ "+".intercalate ((top.mergeSort strLe).map hexS),
    "mw=" ++ optHex t.creator ++ "." ++ toString t.fv ++ "." ++ toString t.minor,
    "nw=" ++ (match t.fontinfo with
      | some i => ";".intercalate (i.nums.map fun e => e.1 ++ ":" ++ numW e.1 e.2)
      | none => ""),
    "uw=" ++ (match t.fontinfo.bind (·.upm) with | some w => numW "" w | none => "~"),
    "kw=" ++ (match t.kerning with
      | some k => ";".intercalate (k.map fun e =>
          hexS e.1 ++ ":" ++ "+".intercalate (e.2.map fun p => hexS p.1 ++ "/" ++ numW "" p.2))
      | none => ""),
    "lc=" ++ ";".intercalate (t.layercontents.map fun e => hexS e.1 ++ ":" ++ hexS e.2),
    "cw=" ++ "|".intercalate (t.dirs.map fun d =>
      match d.2.info with
      | none => "~"
      | some li =>
        (match li.color with
         | some (r, g, b, a) => hexS (",".intercalate [chanStr r, chanStr g, chanStr b, chanStr a])
         | none => "~") ++ "." ++ (if li.lib.isSome then "1" else "0")),
    "fw=" ++ (match t.features with | some f => hexOfStr f | none => "~") ]

/-! ### the specification, evaluated on the observation -/

def absR (x : Rat) : Rat := if 0 ≤ x then x else -x
def maxR (a b : Rat) : Rat := if a ≤ b then b else a

/-- strictly relative tolerance: |a − b| ≤ 1e-9 · max(|a|, |b|) -/
def closeQ (a b : Rat) : Bool := decide (absR (a - b) ≤ maxR (absR a) (absR b) / 1000000000)

def closeBits (a b : Nat) : Bool :=
  match decode a, decode b with
  | some x, some y => closeQ x y
  | _, _ => a = b

/-- class of a number that did not survive: used as the feature of the failure -/
def numClass (a : Nat) : String :=
  match decode a with
  | none => "nonfinite"
  | some x =>
    if x ≠ 0 ∧ absR x ≤ eps then "tiny"
    else if absR x ≥ 2147483647 then "big"
    else "near-int"

def dedup (l : List String) : List String := l.foldl (fun acc x => if acc.contains x then acc else acc ++ [x]) []
def sortS (l : List String) : List String := (dedup l).mergeSort strLe

def numsFail (part : String) (a b : List (String × Nat)) : List String :=
  if a.map (·.1) ≠ b.map (·.1) then ["numbers:" ++ part ++ ",shape"] else
  let bad := (a.zip b).filter fun e => if isLenKey e.1.1 then e.1.2 ≠ e.2.2 else !closeBits e.1.2 e.2.2
  if bad.isEmpty then [] else
  ["numbers:" ++ ",".intercalate (sortS (part :: bad.map fun e => numClass e.1.2))]

/-- colours agree to three decimals: the loaded channel is (the double of) k/1000 and k is a nearest
    integer to 1000 · the original channel -/
def chanOk (a b : Nat) : Bool :=
  match decode a, decode b with
  | some x, some y =>
    let k := (y * 1000 + 1/2).floor
    decide (absR (y * 1000 - (k : Int)) ≤ 1 / 1000000) && decide (absR (x * 1000 - (k : Int)) ≤ 1/2)
  | _, _ => false

def colOk : Option ColV → Option ColV → Bool
  | none, none => true
  | some a, some b => ((colBits a).zip (colBits b)).all fun e => chanOk e.1 e.2
  | _, _ => false

def guidesStr (g : Option (List Guide)) : String :=
  match g with
  | none => "~"
  | some gs => ";".intercalate (gs.map fun g =>
      optHex g.id ++ "/" ++ (match g.lib with | some l => dictStr l | none => "~") ++ "/" ++ g.rest)

def bitsOf (l : List (String × NumV)) : List (String × Nat) := l.map fun e => (e.1, numBits e.2)

def specFont (a b : Font) (pre post : String) (exactCol : Bool := false) : List String :=
  (if a.info.rest = b.info.rest then [] else ["fontinfo-other"]) ++
  numsFail "info" (bitsOf a.info.nums) (bitsOf b.info.nums) ++
  (match a.info.upm, b.info.upm with
   | none, none => []
   | some x, some y => numsFail "upm" [("u", numBits x)] [("u", numBits y)]
   | _, _ => ["numbers:upm,shape"]) ++
  (if guidesStr a.info.guides = guidesStr b.info.guides then [] else ["guidelines"]) ++
  (if dictStr a.lib = dictStr b.lib then [] else ["lib"]) ++
  (if a.groups = b.groups then [] else ["groups"]) ++
  (if a.kerning.map (·.1) ≠ b.kerning.map (·.1) then ["numbers:kerning,shape"] else
    numsFail "kerning" ((a.kerning.flatMap fun e => bitsOf e.2)) ((b.kerning.flatMap fun e => bitsOf e.2))) ++
  (if lfNorm a.features = lfNorm b.features then [] else ["features"]) ++
  (if a.layers.map (·.name) = b.layers.map (·.name) then [] else ["layers:order"]) ++
  (if (a.layers.zip b.layers).all (fun e => if exactCol then e.1.color.map colBits = e.2.color.map colBits else colOk e.1.color e.2.color)
    then [] else ["layers:colour"]) ++
  (if (a.layers.zip b.layers).all (fun e => dictStr e.1.lib = dictStr e.2.lib) then [] else ["layers:lib"]) ++
  (if (a.layers.zip b.layers).all (fun e => e.1.glyphs.map (fun g => (g.name, g.tok)) = e.2.glyphs.map (fun g => (g.name, g.tok)))
    then [] else ["layers:glyphs"]) ++
  (if a.data = b.data then [] else ["data"]) ++
  (if a.images = b.images then [] else ["images"]) ++
  (if pre = post then [] else ["paths"])

/-! ### one case -/

def hasTiny (f : Font) : Bool :=
  let all := (f.info.nums.filter (fun e => !isLenKey e.1)).map (·.2) ++ f.info.upm.toList ++ f.kerning.flatMap (fun e => e.2.map (·.2))
  all.any fun v => match v.val? with
    | some x => x ≠ 0 ∧ absR x ≤ eps
    | none => false

def tagsOf (f : Font) (o : String) : List String :=
  [ "opt-" ++ o ] ++
  (if f.info.isEmpty then [] else ["fontinfo"]) ++ (if f.info.nums.isEmpty then [] else ["info-numbers"]) ++
  (if f.info.upm.isSome then ["upm"] else []) ++
  (match f.info.guides with
   | none => []
   | some gs => ["guidelines"] ++ (if gs.any (·.lib.isSome) then ["guideline-libs"] else [])) ++
  (if f.lib.isEmpty then [] else ["lib"]) ++ (if f.groups.isEmpty then [] else ["groups"]) ++
  (if f.kerning.isEmpty then [] else ["kerning"]) ++
  (if f.features.isEmpty then [] else ["features"]) ++ (if f.features.contains '\r' then ["features-cr"] else []) ++
  [ "layers" ++ toString f.layers.length ] ++
  (if f.layers.any (fun l => l.color.isSome && l.lib.isEmpty) then ["layer-colour-only"] else []) ++
  (if f.layers.any (fun l => l.color.isNone && !l.lib.isEmpty) then ["layer-lib-only"] else []) ++
  (match f.layers.head? with | some l => if l.name ≠ "public.default" then ["default-renamed"] else [] | none => []) ++
  (if f.data.isEmpty then [] else ["data"]) ++ (if f.images.isEmpty then [] else ["images"]) ++
  (if f.creator = some defaultCreator then [] else ["creator-foreign"]) ++
  (if hasTiny f then ["tiny"] else []) ++
  (if f.info.isEmpty && f.lib.isEmpty && f.groups.isEmpty && f.kerning.isEmpty && f.features.isEmpty &&
      f.layers.length ≤ 1 && f.data.isEmpty && f.images.isEmpty then [] else ["nt"])

/-- the point-type statistics of the harness (`pt=m..l..o..c..q..s..a..`) as distribution tags -/
def ptTags (s : String) : List String :=
  let num (p : String) : Nat := ((s.splitOn ".").find? (·.startsWith p)).bind (fun t => (t.drop 1).toString.toNat?) |>.getD 0
  (if num "m" > 0 then ["contour-open"] else []) ++ (if num "l" > 0 then ["pt-line"] else []) ++
  (if num "o" > 0 then ["pt-offcurve"] else []) ++ (if num "c" > 0 then ["pt-curve"] else []) ++
  (if num "q" > 0 then ["pt-qcurve"] else []) ++ (if num "a" > 0 then ["contour-all-offcurve"] else []) ++
  (if num "s" > 0 then ["seam-offcurves-" ++ toString (min (num "s") 6)] else [])

/-! ### build histories (`h=` in the input, `hr=` / `rep=` in the observation)

`L=` of the input is the state the documented behaviour of the containers leaves after the history (a refused call
changes nothing); the implementation must REPORT exactly that (`rep=`: name, `len()`, names of `iter()` per layer),
every call must be accepted / refused as stated (the error variant is logged only), and the specification compares
the LOADED font with that reported state. -/

/-- the outcome written at the end of every history op -/
def histExpected (toks : List String) : List String :=
  (splitNE ((field toks "h").getD "") ";").map fun op => (op.splitOn ",").getLast?.getD "?"

/-- ok / err / some / none: the class of an outcome (the variant after `:` is not compared) -/
def outcomeClass (s : String) : String := (s.splitOn ":").head?.getD s

/-- what the containers must report for the described font, in the `rep=` syntax of the harness -/
def printReported (f : Font) : String :=
  "|".intercalate (f.layers.map fun l =>
    hexS l.name ++ ":" ++ toString l.glyphs.length ++ ":" ++ "+".intercalate (l.glyphs.map fun g => hexS g.name))

/-- distribution tags: which kinds of calls the history holds, refused ones with their error kind -/
def histTags (toks : List String) : List String :=
  let ops := splitNE ((field toks "h").getD "") ";"
  if ops.isEmpty then [] else
  dedup (["history"] ++ ops.map fun op =>
    let fs := op.splitOn ","
    let code := fs.head?.getD "?"
    let exp := fs.getLast?.getD "?"
    if exp = "ok" ∨ exp = "some" then "call-" ++ code
    else "refused-" ++ code ++ "-" ++ ((exp.splitOn ":").getLast?.getD exp))

def firstDiff (a b : List String) : String :=
  match (a.zip b).find? (fun e => e.1 ≠ e.2) with
  | some e => "model " ++ (e.1.take 300).toString ++ " impl " ++ (e.2.take 300).toString
  | none => "length"

def outClass {α : Type} : Out α → String
  | .ok _ => "ok"
  | .err _ => "err"
  | .panic _ => "panic"

def runCore (inp obs : List String) : Verdict :=
  let toks := inp.drop 1
  let pre := (field obs "pre").getD ""
  match parseFont toks pre with
  | none => { agree := false, model := "unparsable-input" }
  | some f =>
    let o := (field toks "o").getD "?"
    let tags := tagsOf f o ++ ["target-" ++ (field toks "t").getD "absent"] ++ ptTags ((field obs "pt").getD "") ++
      histTags toks
    let saveObs := (field obs "save").getD "?"
    let loadObs := (field obs "load").getD "?"
    let cls (s : String) : String := if s.startsWith "err" then "err" else s
    match saveFont f with
    | .ok t =>
      if saveObs ≠ "ok" then
        { agree := false, spec := [if saveObs = "panic" then "save-panic" else "save-failed"], tags := tags, model := "save=ok" }
      else
      let wModel := printTree t
      let wObs := ["files", "mw", "nw", "uw", "kw", "lc", "cw", "fw"].map fun k => k ++ "=" ++ (field obs k).getD "?"
      match loadFont t with
      | .ok f' =>
        if loadObs ≠ "ok" then
          { agree := false, spec := [if loadObs = "panic" then "load-panic" else "load-failed"], tags := tags, model := "load=ok" }
        else
        let post := (field obs "post").getD ""
        -- the loaded font follows `cmp=`-less: the second occurrence of each font token
        let loadedToks := (obs.dropWhile (fun t => !t.startsWith "fw=")).drop 1
        match parseFont loadedToks post with
        | none => { agree := false, tags := tags, model := "unparsable-observation" }
        | some g =>
          let mTok := printFont f' ++ ["post=" ++ printPaths f']
          let oTok := printFont g ++ ["post=" ++ post]
          let spec := specFont f g pre post
          let cmpObs := (field obs "cmp").getD "?"
          -- the harness' own comparison must say the same as the specification here
          let cmpAgree := (cmpObs = "ok") == spec.isEmpty
          let agree := wModel = wObs && mTok = oTok && cmpAgree
          { agree := agree, spec := dedup spec, tags := tags,
            model := if agree then "ok" else
              if wModel ≠ wObs then "written: " ++ firstDiff wModel wObs
              else if mTok ≠ oTok then "loaded: " ++ firstDiff mTok oTok
              else "harness-comparison " ++ cmpObs ++ " vs spec " ++ ";".intercalate spec }
      | r =>
        { agree := cls loadObs = outClass r, spec := [if loadObs = "panic" then "load-panic" else "load-failed"],
          tags := tags, model := "load=" ++ outClass r }
    | r =>
      { agree := cls saveObs = outClass r,
        spec := [if saveObs = "panic" then "save-panic" else if saveObs = "ok" then "model-rejects" else "save-failed"],
        tags := tags, model := "save=" ++ outClass r }

/-- `runCore`, and on top of it: the containers accept / refuse every call of the history as documented and report
    the described state (a disagreement of the correspondence; the specification verdict is kept as it is) -/
def run (inp obs : List String) : Verdict :=
  let v := runCore inp obs
  let toks := inp.drop 1
  match parseFont toks ((field obs "pre").getD "") with
  | none => v
  | some f =>
    let hrObs := splitNE ((field obs "hr").getD "") ";"
    let histAgree := (histExpected toks).map outcomeClass = hrObs.map outcomeClass
    let repObs := (field obs "rep").getD "?"
    if !histAgree then
      { v with agree := false,
               model := "history: expected " ++ ";".intercalate (histExpected toks) ++ " impl " ++ ";".intercalate hrObs }
    else if repObs ≠ printReported f then
      { v with agree := false, model := "reported: model " ++ printReported f ++ " impl " ++ repObs }
    else v

end Driver.C01
