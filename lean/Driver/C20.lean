import Norad.Base.Proto
import Norad.Spec.C20
/-!
Driver module for C20.

`C20 K <types> <x,y;x,y;..> => ok <el> <el> .. | err <kind> | panic`
  types: letters m l o c q (upper case = smooth), `-` = empty; input coordinates decimal integers;
  elements `M<b>,<b>` `L<b>,<b>` `Q<b>,<b>,<b>,<b>` `C<b>*6` `Z`, every `<b>` the 16-hex-digit bit
  pattern of an f64.  The model runs on exact coordinates (pairs of `Int` in quarter units, so that
  midpoints of integer inputs are exact).

`C20 T <xs> <xys> <yxs> <ys> <xo> <yo> <x> <y> => tr t:<b>,<b> k:<b>,<b> tk:<b>*6 rt:<b>*6 kt:<b>*6`
  all numbers as bit patterns; `t` = `ContourPoint::transform`, `k` = `kurbo::Affine::from(t) * Point`,
  `tk` = coefficients of `kurbo::Affine::from(t)`, `rt` = fields of `AffineTransform::from(Affine::from(t))`,
  `kt` = coefficients of `Affine::from(AffineTransform::from(Affine::new(inputs)))`; an additional token `p:<b>,<b>` is
  `ContourPoint::transform` in the harness built with norad's DEFAULT features (no kurbo), `p:-` if unavailable.

`C20 C <types> => cl k:<0|1> p:<0|1|->`  `Contour::is_closed` in both builds.
-/
namespace Driver.C20
open Proto _root_.C20

/-! ### numbers -/

def hexNat (s : String) : Option Nat :=
  s.toList.foldl (fun acc c => match acc, hexVal c with
    | some a, some v => some (a * 16 + v)
    | _, _ => none) (some 0)

/-- the value of an f64 bit pattern times `2^k`, when that is an integer -/
def scaledOfBits (k : Nat) (bits : Nat) : Option Int :=
  let sign : Int := if bits / 2 ^ 63 % 2 = 1 then -1 else 1
  let e := bits / 2 ^ 52 % 2048
  let m := bits % 2 ^ 52
  if e = 2047 then none
  else
    -- value = mant * 2^(ex - 1075)
    let mant := if e = 0 then m else 2 ^ 52 + m
    let ex := if e = 0 then 1 else e
    if mant = 0 then some 0
    else if ex + k ≥ 1075 then some (sign * (mant * 2 ^ (ex + k - 1075) : Nat))
    else
      let d := 2 ^ (1075 - (ex + k))
      if mant % d = 0 then some (sign * (mant / d : Nat)) else none

def bitsTok (k : Nat) (s : String) : Option Int :=
  if s.length ≠ 16 then none else (hexNat s).bind (scaledOfBits k)

abbrev P := Int × Int

def midP (a b : P) : P := ((a.1 + b.1) / 2, (a.2 + b.2) / 2)

/-! ### paths -/

def ptTyp (c : Char) : Option C11.Pt :=
  match c with
  | 'm' => some ⟨.move, false⟩ | 'M' => some ⟨.move, true⟩
  | 'l' => some ⟨.line, false⟩ | 'L' => some ⟨.line, true⟩
  | 'o' => some ⟨.off, false⟩ | 'O' => some ⟨.off, true⟩
  | 'c' => some ⟨.curve, false⟩ | 'C' => some ⟨.curve, true⟩
  | 'q' => some ⟨.qcurve, false⟩ | 'Q' => some ⟨.qcurve, true⟩
  | _ => none

def parseCoord (s : String) : Option P :=
  match s.splitOn "," with
  | [x, y] => match x.toInt?, y.toInt? with
    | some a, some b => some (4 * a, 4 * b)
    | _, _ => none
  | _ => none

def parsePts (types coords : String) : Option (List (Pt P)) :=
  let ts := if types = "-" then some [] else types.toList.mapM ptTyp
  let cs := if coords = "-" then some [] else (coords.splitOn ";").mapM parseCoord
  match ts, cs with
  | some t, some c => if t.length = c.length then some ((t.zip c).map fun (b, p) => ⟨b, p⟩) else none
  | _, _ => none

def parseEl (tok : String) : Option (El P) :=
  let body := (tok.drop 1).toString
  let nums := if body = "" then some [] else (body.splitOn ",").mapM (bitsTok 2)
  match tok.toList.head?, nums with
  | some 'M', some [x, y] => some (.moveTo (x, y))
  | some 'L', some [x, y] => some (.lineTo (x, y))
  | some 'Q', some [a, b, x, y] => some (.quadTo (a, b) (x, y))
  | some 'C', some [a, b, c, d, x, y] => some (.curveTo (a, b) (c, d) (x, y))
  | some 'Z', some [] => some .close
  | _, _ => none

def showP (p : P) : String := toString p.1 ++ "," ++ toString p.2

def showEl : El P → String
  | .moveTo p => "M" ++ showP p
  | .lineTo p => "L" ++ showP p
  | .quadTo a p => "Q" ++ showP a ++ "," ++ showP p
  | .curveTo a b p => "C" ++ showP a ++ "," ++ showP b ++ "," ++ showP p
  | .close => "Z"

def showEls (els : List (El P)) : String := "ok " ++ " ".intercalate (els.map showEl)

def runPath (types coords : String) (obs : List String) : Verdict :=
  match parsePts types coords with
  | none => { agree := false, model := "bad-input" }
  | some pts =>
    let modelOut := match toKurbo midP pts with
      | .ok els => showEls els
      | .error _ => "err"
    let implEls : Option (List (El P)) := match obs with
      | "ok" :: rest => rest.mapM parseEl
      | _ => none
    let implOut := match obs, implEls with
      | "ok" :: _, some els => showEls els
      | "ok" :: _, none => "ok unreadable " ++ " ".intercalate obs
      | "err" :: _, _ => "err"
      | _, _ => " ".intercalate obs
    let legal := C11.legalB (pts.map (·.base))
    let hasOn := (splitLastOn pts).isSome
    -- specification oracle on the implementation's own output; only legal contours are constrained
    let spec : List String :=
      if !legal then
        (match obs with | "panic" :: _ => ["panic"] | _ => [])
      else match obs, implEls with
        | "ok" :: _, some els =>
          let sub :=
            (if startOK midP pts els then [] else ["start"]) ++
            (if segCountOK pts els then [] else ["segcount"]) ++
            (if orderOK pts els then [] else ["order"]) ++
            (if kindOK midP pts els then [] else ["kind"]) ++
            (if closedOK pts els then [] else ["closed"]) ++
            (if noPointLostOK pts els then [] else ["lost"])
          let shape := (if isClosed pts then "closed" else "open") ++ (if hasOn then "" else "-alloff")
          if !sub.isEmpty then sub.map (fun r => r ++ ":" ++ shape)
          else if els != specPath midP pts then ["eqspec:" ++ shape] else []
        | "ok" :: _, none => ["unreadable-path"]
        | "err" :: _, _ => ["legal-rejected:" ++ (if isClosed pts then "closed" else "open")]
        | _, _ => ["panic"]
    let typs := pts.map (·.typ)
    let tags :=
      [if legal then "legal" else "illegal",
       if isClosed pts then "closed" else "open",
       "len" ++ toString (min pts.length 10)] ++
      (if !hasOn && !pts.isEmpty then ["alloff"] else []) ++
      (if isClosed pts && hasOn && (pts.getLast?.map (·.typ)) == some .off then ["wrap"] else []) ++
      (if typs.contains .curve then ["curve"] else []) ++
      (if typs.contains .qcurve then ["qcurve"] else []) ++
      (match toKurbo midP pts with | .ok _ => ["m-ok"] | .error _ => ["m-err"]) ++
      (if pts.length ≥ 2 then ["nt"] else [])
    { agree := modelOut == implOut, spec := spec, tags := tags, model := modelOut }

/-! ### transforms -/

def floatTok (s : String) : Option Float :=
  if s.length ≠ 16 then none else (hexNat s).map (fun n => Float.ofBits n.toUInt64)

def hex16 (n : Nat) : String :=
  String.ofList ((List.range 16).reverse.map fun i => hexDigit (n / 16 ^ i % 16))

def showF (x : Float) : String := if x.isNaN then "nan" else hex16 x.toBits.toNat

def showFs (xs : List Float) : String := ",".intercalate (xs.map showF)

def runTransform (args : List String) (obs : List String) : Verdict :=
  match args.mapM floatTok, args.mapM (bitsTok 2) |>.getD [] with
  | some [xs, xys, yxs, ys, xo, yo, x, y], ints =>
    let t : Affine Float := ⟨xs, xys, yxs, ys, xo, yo⟩
    let r := transform t x y
    let kr := (toK t).apply x y
    let k := toK t
    let rt := ofK (toK t)
    let kin : KAffine Float := ⟨xs, xys, yxs, ys, xo, yo⟩
    let kt := toK (ofK kin)
    let modelOut := "tr t:" ++ showFs [r.1, r.2] ++ " k:" ++ showFs [kr.1, kr.2] ++
      " tk:" ++ showFs [k.c0, k.c1, k.c2, k.c3, k.c4, k.c5] ++
      " rt:" ++ showFs [rt.xScale, rt.xyScale, rt.yxScale, rt.yScale, rt.xOffset, rt.yOffset] ++
      " kt:" ++ showFs [kt.c0, kt.c1, kt.c2, kt.c3, kt.c4, kt.c5]
    let implOut := " ".intercalate obs
    let field (pfx : String) : Option String :=
      (obs.find? (·.startsWith pfx)).map (fun s => (s.drop pfx.length).toString)
    -- `p:` = `ContourPoint::transform` in the harness built WITHOUT the kurbo feature (`-`: no such binary)
    let pObs := field "p:"
    let modelOut := modelOut ++ (match pObs with
      | none => ""
      | some "-" => " p:-"
      | some _ => " p:" ++ showFs [r.1, r.2])
    let inStr := showFs [xs, xys, yxs, ys, xo, yo]
    -- exact check of the formula of the property on inputs where integer arithmetic is exact
    let exactOf (fld : Option String) : Option Bool :=
      match ints, fld with
      | [a, b, c, d, e, f, px, py], some ts =>
        if [a, b, c, d, e, f, px, py].all (fun v => v.natAbs ≤ 2 ^ 22) then
          let m := transform (⟨a, b, c, d, 4 * e, 4 * f⟩ : Affine Int) px py
          match (ts.splitOn ",").mapM (bitsTok 4) with
          | some [ix, iy] => some (ix == m.1 && iy == m.2)
          | _ => some false
        else none
      | _, _ => none
    let exact := exactOf (field "t:")
    let exactPlain := match pObs with
      | some "-" => none
      | other => exactOf other
    let spec : List String :=
      (match field "t:", field "k:" with
        | some a, some b => if a == b then [] else ["transform-ne-kurbo"]
        | _, _ => ["unreadable-transform"]) ++
      (if field "rt:" == some inStr then [] else ["roundtrip:norad-kurbo-norad"]) ++
      (if field "kt:" == some inStr then [] else ["roundtrip:kurbo-norad-kurbo"]) ++
      (if exact == some false then ["formula"] else []) ++
      (match pObs, field "t:" with
        | some "-", _ => []
        | some a, some b => if a == b then [] else ["transform-differs-between-builds"]
        | _, _ => []) ++
      (if exactPlain == some false then ["formula:plain"] else [])
    let tags := ["transform", if exact.isSome then "exact-int" else "float-only"] ++
      (match pObs with | some "-" => ["noplain"] | some _ => ["plain"] | none => ["noplain"]) ++
      (if r.1.isNaN || r.2.isNaN then ["nan"] else []) ++
      (if r.1.isInf || r.2.isInf then ["inf"] else []) ++ ["nt"]
    { agree := modelOut == implOut, spec := spec, tags := tags, model := modelOut }
  | _, _ => { agree := false, model := "bad-input" }

/-- `C20 C <types> => cl k:<0|1> p:<0|1|->`: `Contour::is_closed` in the kurbo build and in the default build -/
def runClosed (types : String) (obs : List String) : Verdict :=
  let ts := if types = "-" then some [] else types.toList.mapM ptTyp
  match ts with
  | none => { agree := false, model := "bad-input" }
  | some bs =>
    let pts : List (Pt P) := bs.map fun b => ⟨b, (0, 0)⟩
    let m := if isClosed pts then "1" else "0"
    -- the specification, independently: closed unless the first point is a `move`
    let want := if C11.isClosed bs then "1" else "0"
    let field (pfx : String) : Option String :=
      (obs.find? (·.startsWith pfx)).map (fun s => (s.drop pfx.length).toString)
    let pObs := field "p:"
    let modelOut := "cl k:" ++ m ++ (match pObs with | none => "" | some "-" => " p:-" | some _ => " p:" ++ m)
    let spec : List String :=
      (if field "k:" == some want then [] else ["closed-test:kurbo"]) ++
      (match pObs with
        | some "-" => []
        | none => []
        | some v => (if v == want then [] else ["closed-test:plain"]) ++
                    (if some v == field "k:" then [] else ["is-closed-differs-between-builds"]))
    let tags := ["is-closed", if want == "1" then "closed" else "open"] ++
      (match pObs with | some "-" => ["noplain"] | some _ => ["plain"] | none => ["noplain"]) ++
      (if bs.length ≥ 1 then ["nt"] else [])
    { agree := modelOut == " ".intercalate obs, spec := spec, tags := tags, model := modelOut }

/-- `C20 G <fmt> <types> <coords> <names> => ok <el>.. | anchor <b>,<b> | rej <kind> | shape c=<n> a=<m> | panic`:
    a glif document (format 1 or 2, names on some points, coordinates that may coincide) parsed by the real parser and
    its contour converted.  The expected path is the model's on the point list OF THE XML (this line's input): a parser
    that drops, merges or moves a point on the way to `to_kurbo` shows as a violated rule of the property. -/
def runGlif (fmt types coords names : String) (obs : List String) : Verdict :=
  match parsePts types coords with
  | none => { agree := false, model := "bad-input" }
  | some pts =>
    let legal := C11.legalB (pts.map (·.base))
    let named := names.toList.map (· == '1')
    let coincide := decide ((pts.map (·.pos)).eraseDups.length < pts.length)
    let extra := ["glif", "fmt" ++ fmt] ++ (if named.any id then ["named"] else []) ++
      (if coincide then ["coincide"] else [])
    -- format 1: a contour that is exactly one named `move` is an implicit anchor (the only case)
    let isAnchor := fmt == "1" && (match pts, named with
      | [p], [true] => p.typ == .move
      | _, _ => false)
    if !legal then
      let m := "rej"
      let impl := match obs with | "rej" :: _ => "rej" | _ => " ".intercalate obs
      { agree := m == impl, spec := (match obs with | "panic" :: _ => ["panic"] | _ => []),
        tags := "illegal" :: extra, model := m }
    else if isAnchor then
      let m := match pts with | [p] => "anchor " ++ showP p.pos | _ => "?"
      let impl := match obs with
        | ["anchor", c] => (match (c.splitOn ",").mapM (bitsTok 2) with
            | some [x, y] => "anchor " ++ showP (x, y)
            | _ => " ".intercalate obs)
        | _ => " ".intercalate obs
      { agree := m == impl, spec := (if m == impl then [] else ["implicit-anchor:fmt1"]),
        tags := ["legal", "anchor", "nt"] ++ extra, model := m }
    else
      match obs with
      | "ok" :: _ =>
        let v := runPath types coords obs
        { v with tags := v.tags ++ extra, spec := v.spec.map (fun r => r ++ ",glif-fmt" ++ fmt) }
      | "rej" :: _ =>
        let v := runPath types coords ["err"]
        { v with tags := v.tags ++ extra, spec := v.spec.map (fun r => r ++ ",glif-fmt" ++ fmt) }
      | _ =>
        -- the parser did not return exactly this one contour (dropped, split, turned into an anchor)
        let v := runPath types coords ["shape"]
        { agree := false, spec := ["contour-differs-from-xml:glif-fmt" ++ fmt], tags := v.tags ++ extra, model := v.model }

def run (inp obs : List String) : Verdict :=
  match inp with
  | [_, "K", types, coords] => runPath types coords obs
  | [_, "G", fmt, types, coords, names] => runGlif fmt types coords names obs
  | [_, "C", types] => runClosed types obs
  | _ :: "T" :: args => runTransform args obs
  | _ => { agree := false, model := "bad-line" }

end Driver.C20
