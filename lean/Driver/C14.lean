import Norad.Base.Proto
import Norad.Model.FontInfoUp
import Norad.Spec.FontInfoUp
import Norad.Spec.FontInfo
/-! Driver module for C14 (see harness/src/c14.rs for the line format) -/
namespace Driver.C14
open Proto _root_.C14 FI

def parseInt (s : String) : Option Int :=
  if s.startsWith "-" then (s.drop 1).toString.toNat?.map (fun n => -Int.ofNat n)
  else s.toNat?.map Int.ofNat

def parseList {α} (f : String → Option α) (sep : String) (s : String) : Option (List α) :=
  if s = "-" then some [] else (s.splitOn sep).mapM f

def bitsOf (s : String) : Option Nat := if s.length ≠ 16 then none else hexNat s

def unhexS (s : String) : Option String := (unhexStr s).map String.ofList

def parseVal (s : String) : Option Val :=
  match s.splitOn ":" with
  | [t, v] =>
    match t with
    | "f" => (bitsOf v).map .num
    | "i" => (parseInt v).map .int
    | "s" => (unhexS v).map .str
    | "b" => some (.bool (v == "1"))
    | "l" => (parseList bitsOf "," v).map .nums
    | "il" => (parseList parseInt "," v).map .ints
    | "ll" => (parseList (fun r => if r = "_" then some [] else (r.splitOn ",").mapM bitsOf) ";" v).map .numss
    | _ => none
  | _ => none

def hex16 (n : Nat) : String :=
  String.ofList ((List.range 16).reverse.map fun i => hexDigit ((n / 16 ^ i) % 16))

def renderVal : Val → String
  | .num b => "f:" ++ hex16 b
  | .int z => "i:" ++ toString z
  | .str s => "s:" ++ hexOfStr s.toList
  | .bool b => "b:" ++ (if b then "1" else "0")
  | .nums l => "l:" ++ (if l.isEmpty then "-" else ",".intercalate (l.map hex16))
  | .ints l => "il:" ++ (if l.isEmpty then "-" else ",".intercalate (l.map toString))
  | .numss _ => "ll:?"

structure Parsed where
  inp : Input
  hintSeen : Bool := false

def splitEq (t : String) : Option (String × String) :=
  match t.splitOn "=" with
  | k :: rest@(_ :: _) => some (k, "=".intercalate rest)
  | _ => none

def applyTok (p : Parsed) (t : String) : Option Parsed :=
  match splitEq t with
  | none => none
  | some (k, v) =>
    let i := p.inp
    if k = "files" then some p
    else if k = "req" then
      let (l, f) := match v with
        | "nolib" => (false, true) | "nofeat" => (true, false) | "none" => (false, false)
        | "onlylib" => (true, false) | "nolayers" => (false, true) | _ => (true, true)
      some { p with inp := { i with reqLib := l, reqFeatures := f } }
    else if k = "lib" then some { p with inp := { i with hasLib := true } }
    else if k = "hint" then some { p with inp := { i with robofab := { i.robofab with hint := some (i.robofab.hint.getD []) } } }
    else if k.startsWith "H." then
      (parseVal v).map fun x =>
        { p with inp := { i with robofab := { i.robofab with hint := some ((i.robofab.hint.getD []) ++ [((k.drop 2).toString, x)]) } } }
    else if k = "classes" then (unhexS v).map fun s => { p with inp := { i with robofab := { i.robofab with classes := some s } } }
    else if k = "order" then (parseList unhexS "," v).map fun l => { p with inp := { i with robofab := { i.robofab with order := some l } } }
    else if k = "feat" then
      (parseList (fun e => match e.splitOn ":" with
        | [a, b] => match unhexS a, unhexS b with | some x, some y => some (x, y) | _, _ => none
        | _ => none) ";" v).map fun l => { p with inp := { i with robofab := { i.robofab with feats := some l } } }
    else if k = "libkey" then (unhexS v).map fun s => { p with inp := { i with libKeys := i.libKeys ++ [s] } }
    else if k = "fea" then (unhexS v).map fun s => { p with inp := { i with feaFile := some s } }
    else (parseVal v).map fun x => { p with inp := { i with attrs := i.attrs ++ [(k, x)] } }

def sortStrings (l : List String) : List String := (l.toArray.qsort (· < ·)).toList

def renderInfo (info : List (String × Val)) : List String :=
  sortStrings (info.map fun (k, v) => k ++ "=" ++ renderVal v)

def perms {α} : List α → List (List α)
  | [] => [[]]
  | x :: r => (perms r).flatMap fun p => (List.range (p.length + 1)).map fun i => p.take i ++ [x] ++ p.drop i

def obsField (obs : List String) (k : String) : Option String :=
  match obs.find? (·.startsWith (k ++ "=")) with
  | some t => some (t.drop (k.length + 1)).toString
  | none => none

def run (inp obs : List String) : Verdict :=
  match inp with
  | _ :: fmtTok :: toks =>
    let fmt := fmtTok.toNat?.getD 0
    match toks.foldl (fun acc t => match acc with | none => none | some p => applyTok p t) (some ({ inp := { fmt := fmt, attrs := [] } } : Parsed)) with
    | none => { agree := false, model := "bad-input" }
    | some p =>
      let rf := p.inp.robofab
      -- all keys of lib.plist: the robofab ones that are present plus the others
      let robKeys :=
        (if rf.hint.isSome then ["org.robofab.postScriptHintData"] else []) ++
        (if rf.classes.isSome then ["org.robofab.opentype.classes"] else []) ++
        (if rf.order.isSome then ["org.robofab.opentype.featureorder"] else []) ++
        (if rf.feats.isSome then ["org.robofab.opentype.features"] else [])
      let i : Input := { p.inp with libKeys := if p.inp.hasLib then p.inp.libKeys ++ robKeys else [] }
      let unordered := fmt = 1 && i.hasLib && rf.order.isNone && (rf.feats.getD []).length ≥ 2
      -- implementation
      let implOk := obs.head? == some "ok"
      let implInfo := (obs.dropWhile (· ≠ "|")).drop 1
      let implFeat := (obsField obs "feat").getD "?"
      let implLib := (obsField obs "lib").getD "?"
      let implFmt := (obsField obs "fmt").getD "?"
      -- model
      let m := load i
      let (modelOut, agree) := match m with
        | .error _ => ("err", !implOk && (match obs.head? with | some h => h.startsWith "err" | none => false))
        | .ok o =>
          let libS := if o.libKeys.isEmpty then "-" else ",".intercalate (sortStrings (o.libKeys.map fun (k : String) => hexOfStr k.toList))
          let infoS := renderInfo o.info
          let featOK :=
            if unordered then
              let fs := rf.feats.getD []
              (perms fs).any fun pf => hexOfStr (featureText { rf with feats := some pf }).toList == implFeat
            else hexOfStr o.features.toList == implFeat
          (s!"ok fmt={o.formatVersion} feat={hexOfStr o.features.toList} lib={libS} | " ++ " ".intercalate infoS,
           implOk && featOK && implLib == libS && implInfo == infoS && implFmt == toString o.formatVersion)
      -- specification oracle on the implementation's own output
      let table := if fmt = 1 then Spec.tableV1 else Spec.tableV2
      let outInfo : List (String × String) := implInfo.filterMap splitEq
      let outVal (k : String) : Option Val := (lookup outInfo k).bind parseVal
      -- per input attribute
      let perAttr : List (String × Option String) := i.attrs.map fun (k, v) =>
        match lookup table k with
        | none => (k, some "unknown")                  -- not a legacy attribute: the load has to fail
        | some (k3, c) =>
          match Spec.expect c v with
          | none => (k, some "mustfail")
          | some none => (k, if (outVal k3).isSome then some ("kept:" ++ k) else none)
          | some (some pred) =>
            match outVal k3 with
            | none => (k, some ("missing:" ++ k))
            | some o => (k, if pred o then none else some ("value:" ++ k))
      let mustFail := perAttr.any fun (_, r) => r == some "unknown" || r == some "mustfail"
      let attrFails := perAttr.filterMap fun (_, r) => match r with
        | some s => if s == "unknown" || s == "mustfail" then none else some s
        | none => none
      -- attributes the output may hold: images of the input attributes, and the hint data
      let hintOn := fmt = 1 && i.hasLib && rf.hint.isSome
      let allowed : List String := i.attrs.filterMap (fun (k, _) => (lookup table k).map (fun (r : String × Spec.SConv) => r.1)) ++
        (if hintOn then Spec.hintAttrs.map (fun (r : String × String) => r.2) else [])
      let extras := outInfo.filter fun (k, _) => !allowed.contains k
      -- hint data: every entry present in the lib is in the font info, lists flattened
      let hintFails := if hintOn then (rf.hint.getD []).filterMap fun (k, v) =>
          match lookup Spec.hintAttrs k with
          | none => none
          | some k3 =>
            let want : Val := match v with | Val.numss l => Val.nums l.flatten | x => x
            if outVal k3 == some want then none else some ("hint:" ++ k)
        else []
      let libOut := if implLib = "-" then [] else (implLib.splitOn ",").filterMap unhexS
      let robLeft := if fmt = 1 then libOut.filter Spec.robofabKeys.contains else []
      let othersLost := (if i.hasLib && i.reqLib then p.inp.libKeys else []).filter fun k => !libOut.contains k
      let libUnrequested := !i.reqLib && !libOut.isEmpty
      let spec : List String :=
        if implOk then
          (if mustFail then ["unknown-enum-or-attribute-accepted"] else []) ++
          (if !mustFail && !attrFails.isEmpty then ["attribute-conversion:" ++ ",".intercalate (sortStrings attrFails)] else []) ++
          (if !extras.isEmpty then ["unexpected-attribute:" ++ ",".intercalate (sortStrings (extras.map (fun (r : String × String) => r.1)))] else []) ++
          (if !hintFails.isEmpty then ["hint-data-not-moved:" ++ ",".intercalate (sortStrings hintFails)] else []) ++
          (if !robLeft.isEmpty then ["robofab-key-left-in-lib:" ++ ",".intercalate (sortStrings robLeft)] else []) ++
          (if !othersLost.isEmpty then ["lib-key-lost"] else []) ++
          (if libUnrequested then ["lib-loaded-though-not-requested"] else []) ++
          (let existing := if i.reqFeatures then p.inp.feaFile.getD "" else ""
           -- converted feature text replaces the file's; when features were not requested the statement
           -- does not say whether converted text is still delivered, so the empty text is admitted as well
           let cands : List String :=
             if fmt = 1 && i.hasLib then
               ((Spec.featureCandidates rf.classes rf.order rf.feats).map fun t => if t.isEmpty then existing else t) ++
               (if i.reqFeatures then [] else [""])
             else [existing]
           if cands.any (fun t => hexOfStr t.toList == implFeat) then [] else ["feature-text"]) ++
          (if implFmt ≠ "3" then ["format-version-not-3"] else []) ++
          (if obsField obs "val" ≠ some "ok" then ["converted-info-fails-validation"] else []) ++
          (if obsField obs "save" ≠ some "ok" then ["converted-font-cannot-be-saved"] else [])
        else if obs.head? == some "panic" then ["panic"]
        else
          -- a refusal is legitimate only for an unknown value/attribute or a font info that breaks the C13 rules
          (match m with
           | .ok _ => if mustFail then [] else ["convertible-font-refused"]
           | .error _ => [])
      let tags :=
        ["fmt" ++ toString fmt, if implOk then "ok" else "err"] ++
        (if unordered then ["unordered"] else []) ++
        (toks.filterMap fun t => if t.startsWith "files=" then some "ordinary-ufo" else none) ++
        (if !i.reqLib then ["req-nolib"] else []) ++ (if !i.reqFeatures then ["req-nofeatures"] else []) ++
        (if i.hasLib then ["lib"] else []) ++ (if hintOn then ["hint"] else []) ++
        (if rf.feats.isSome then ["feats"] else []) ++
        (if mustFail then ["mustfail"] else []) ++
        (i.attrs.filterMap fun (k, _) => (lookup table k).map fun (_, c) => "conv-" ++ (reprStr c).replace "C14.Spec.SConv." "") ++
        ["attrs" ++ toString (min i.attrs.length 9)] ++
        (if !i.attrs.isEmpty || i.hasLib then ["nt"] else [])
      { agree := agree, spec := spec, tags := tags.eraseDups, model := modelOut }
  | _ => { agree := false, model := "bad-line" }

end Driver.C14
