import Driver.FSFam
import Norad.Model.FontLoad
/-!
Driver module for C17.  Line format: `harness/src/c17.rs`.

File contents are tokens describing the parsed value (the harness wrote the files, so it knows):
`M<version>` metainfo, `B<hexkey>+..[;O<hexid>+..]` lib (with the object libs), `N<body>;<gid>+..` fontinfo
(`~` = guideline without identifier), `G<n>` groups, `K<n>` kerning, `F<n>` features,
`C<hexname>=<hexdir>+..` layercontents, `O<hexglyph>=<hexfile>+..` contents, `Y<n>` layerinfo, `X<n>` glif,
`R` store file, `Z` garbage.  `Parser String` decodes them; anything else is corrupt.

Correspondence: `loadImpl` on TREE with the request = PART, on GTREE = GARB, with everything requested = FULL
(canonical dumps).  Specification rules on the implementation's own dumps:
`restrict-eq` (PART = `restrict` REQ FULL), `garbage-same` (GARB = PART), `partial-succeeds`,
`default-first`.
-/
namespace Driver.C17
open Proto AbsFS FontSave FontLoad Driver.FSFam

def body (s : String) : String := (s.drop 1).toString

def pairsOf (s : String) : List (Str × Str) :=
  (splitOnC s "+").filterMap fun e =>
    match e.splitOn "=" with
    | [a, b] => some (unhexD a, unhexD b)
    | _ => none

def parser : Parser String where
  metainfo s := if s.startsWith "M" then (body s).toNat?.map (·, 1) else none
  lib s :=
    if s.startsWith "B" then
      match (body s).splitOn ";" with
      | [ks] => some (some ((splitOnC ks "+").map fun k => (unhexD k, LVal.v 1)))
      | [ks, ol] =>
        some (some (((splitOnC ks "+").map fun k => (unhexD k, LVal.v 1)) ++
          [(objectLibsKey, LVal.objDict ((splitOnC (body ol) "+").map fun i => (unhexD i, some 1)))]))
      | _ => none
    else none
  fontinfo s :=
    if s.startsWith "N" then
      match (body s).splitOn ";" with
      | [b, gs] => some { body := b.toNat?.getD 0, valid := true, serialisable := true,
                          guides := (splitOnC gs "+").map fun g => if g = "~" then none else some (unhexD g) }
      | _ => none
    else none
  groups s := if s.startsWith "G" then (body s).toNat?.map (·, true) else none
  kerning s := if s.startsWith "K" then (body s).toNat? else none
  features s := if s.startsWith "F" then (body s).toNat? else none
  layercontents s := if s.startsWith "C" then some (pairsOf (body s)) else none
  contents s := if s.startsWith "O" then some (pairsOf (body s)) else none
  layerinfo s := if s.startsWith "Y" then (body s).toNat? else none
  glif s := if s.startsWith "X" then some { tok := 1, encodable := true } else none

def root : APath := ["t".toList]

def parseTreeHex (s : String) : FS String :=
  (root, Node.dir) ::
  (splitOnC s ",").filterMap fun e =>
    match e.splitOn ":" with
    | [p, "d"] => some (root ++ ((String.ofList (unhexD p)).splitOn "/").map String.toList, Node.dir)
    | [p, "f", t] => some (root ++ ((String.ofList (unhexD p)).splitOn "/").map String.toList, Node.file t)
    | _ => none

def parseReq (sw : Nat) (tok : String) : Request :=
  let cs := tok.toList
  let all := cs.head? = some '1'
  let ld := (cs.drop 1).head? = some '1'
  let c := String.ofList (cs.drop 2)
  let custom : Option (Str → Str → Bool) :=
    if c = "-" then none
    else if c = "t" then some fun _ _ => true
    else if c = "f" then some fun _ _ => false
    else if c = "x" then some fun _ d => !(Path.parse d == Path.parse glyphsDir)
    else if c.startsWith "n" then some fun n _ => n == unhexD (body c)
    else some fun _ d => Path.parse d == Path.parse (unhexD (body c))
  { lib := sw % 2 = 1, groups := sw / 2 % 2 = 1, kerning := sw / 4 % 2 = 1, features := sw / 8 % 2 = 1,
    data := sw / 16 % 2 = 1, images := sw / 32 % 2 = 1, all := all, loadDefault := ld, custom := custom }

/-- the filter predicate behind a tag; `n` / `d` take their parameter from the harness's REQ token -/
def predOf (tag : Char) (param : Str) : Str → Str → Bool :=
  if tag = 't' then fun _ _ => true
  else if tag = 'f' then fun _ _ => false
  else if tag = 'x' then fun _ d => !(Path.parse d == Path.parse glyphsDir)
  else if tag = 'n' then fun n _ => n == param
  else fun _ d => Path.parse d == Path.parse param

def partOf (c : Char) : Option PartSwitch :=
  if c = 'l' then some .lib else if c = 'g' then some .groups else if c = 'k' then some .kerning
  else if c = 'f' then some .features else if c = 'a' then some .data else if c = 'i' then some .images else none

/-- one call token of a `seq=` recipe (see harness/src/c17.rs) -/
def callOf (param : Str) (tok : String) : Option Call :=
  let b := tok.endsWith "1"
  if tok = "A" || tok = "Df" then some .all
  else if tok = "N" then some .none
  else if tok = "L1" || tok = "L0" then some (.layers b)
  else if tok = "D1" || tok = "D0" then some (.defaultLayer b)
  else match tok.toList with
    | ['F', tag] => some (.filter tag (predOf tag param))
    | [c, _] => (partOf c).map fun s => Call.part s b
    | _ => none

/-- the call sequence of a recipe: `seq=` as it is; the older `sw` + `shape` recipes as the harness translates them -/
def callsOfRecipe (inp : List String) (param : Str) : List Call :=
  let seq := field inp "seq"
  let toks : List String :=
    if seq ≠ "" then seq.splitOn "."
    else
      let sw := fieldNat inp "sw"
      let parts := (["l", "g", "k", "f", "a", "i"].zipIdx).map fun (c, i) => c ++ (if sw / 2 ^ i % 2 = 1 then "1" else "0")
      let tail := match fieldNat inp "shape" with
        | 0 => ["L1"] | 1 => ["L0"] | 2 => ["D1"] | 3 => ["Fn"] | 4 => ["Fd"] | 5 => ["Ft"] | 6 => ["Ff"]
        | 7 => ["D1", "Fn"] | 8 => ["Ff", "L1"] | 9 => ["L1", "D0"] | _ => ["Fx"]
      ["N"] ++ parts ++ tail
  toks.filterMap (callOf param)

/-- the tag of the filter installed last (what the REQ token shows), `-` for none -/
def lastTag (cs : List Call) : String :=
  cs.foldl (fun acc c => match c with
    | .all => "-" | .none => "-"
    | .filter tag _ => String.singleton tag
    | _ => acc) "-"

def swOf (r : Request) : Nat :=
  (if r.lib then 1 else 0) + (if r.groups then 2 else 0) + (if r.kerning then 4 else 0) +
  (if r.features then 8 else 0) + (if r.data then 16 else 0) + (if r.images then 32 else 0)

def sortS (l : List String) : List String := l.mergeSort (fun a b => decide (a ≤ b))

/-- canonical dump of an abstract font at the abstraction level of C17 -/
def dump (f : AFont String) : String :=
  let guide (g : AGuide) := (match g.ident with | some i => hexOfStr i | none => "~") ++ ":" ++
    (match g.lib with | some _ => "1" | none => "~")
  let layer (l : ALayer) := hexOfStr l.name ++ "~" ++ hexOfStr l.dir ++ "~" ++ toString l.info ++ "~" ++
    "+".intercalate (l.entries.map fun e => hexOfStr e.name ++ "=" ++ hexOfStr e.file)
  let keys (s : Store String) := "+".intercalate (sortS (s.items.map fun kc => kc.1.render))
  s!"lib={"+".intercalate (sortS (f.lib.map fun e => hexOfStr e.1))} ib={f.info.body} ig={",".intercalate (f.info.guides.map guide)} " ++
  s!"g={f.groups} k={f.kerning} fe={f.features} L={";".intercalate (f.layers.map layer)} D={keys f.data} I={keys f.images}"

/-- section of the observation between `|` separators that starts with `<key>=` -/
def sectionOf (obs : List String) (key : String) : List String :=
  let rec go : List String → List String
    | [] => []
    | t :: r => if t.startsWith (key ++ "=") then t :: r.takeWhile (· ≠ "|") else go r
  go obs

def resOf (sec : List String) (key : String) : String := field sec key

def dumpRes (r : Except LoadErr (AFont String)) : String :=
  match r with
  | .ok f => "ok " ++ dump f
  | .error .panic => "panic"
  | .error _ => "err"

def obsDump (sec : List String) (key : String) : String :=
  let r := resOf sec key
  if r = "ok" then "ok " ++ dump (parseFont sec)
  else if r = "panic" then "panic" else "err"

/-- a dump cut at ` L=` and ` D=`: scalar parts, layers, stores -/
def cut3 (s : String) : String × String × String :=
  match s.splitOn " L=" with
  | [a, r] => (match r.splitOn " D=" with
    | [b, c] => (a, b, c)
    | _ => (a, r, ""))
  | _ => (s, "", "")

def run (inp obs : List String) : Verdict :=
  -- the part switches: from the call sequence when the harness reports them, else from the recipe
  let sw := if field obs "SW" ≠ "" then fieldNat obs "SW" else fieldNat inp "sw"
  let tree := parseTreeHex (field obs "TREE")
  let gtree := parseTreeHex (field obs "GTREE")
  -- the request is the MODEL's: `Req.apply` on the call sequence of the recipe.  The harness's own interpreter (REQ=, SW=)
  -- must agree with it; its token only supplies the parameter of a by-name / by-directory predicate.
  let reqTok := field obs "REQ"
  let param := unhexD (String.ofList (reqTok.toList.drop 3))
  let calls := callsOfRecipe inp param
  let req := Req.apply calls
  let modelTok := (if req.all then "1" else "0") ++ (if req.loadDefault then "1" else "0") ++ lastTag calls
  let harnessTok := String.ofList (reqTok.toList.take 3)
  let reqAgree := modelTok == harnessTok && swOf req == sw
  let fullS := sectionOf obs "FULL"
  let partS := sectionOf obs "PART"
  let garbS := sectionOf obs "GARB"
  if fullS.isEmpty || partS.isEmpty || garbS.isEmpty then { agree := false, model := "no-observation" } else
  let oFull := obsDump fullS "FULL"
  let oPart := obsDump partS "PART"
  let oGarb := obsDump garbS "GARB"
  -- model
  let mFull := dumpRes (loadImpl parser tree root Request.everything)
  let mPart := dumpRes (loadImpl parser tree root req)
  let mGarb := dumpRes (loadImpl parser gtree root req)
  let agree := mFull == oFull && mPart == oPart && mGarb == oGarb && reqAgree
  -- specification on the implementation's dumps
  let fullOk := resOf fullS "FULL" = "ok"
  let partOk := resOf partS "PART" = "ok"
  let expected := "ok " ++ dump (restrict req (parseFont fullS))
  let feats := ",".intercalate
    ((if (cut3 oPart).1 ≠ (cut3 expected).1 then ["parts"] else []) ++
     (if (cut3 oPart).2.1 ≠ (cut3 expected).2.1 then ["layers"] else []) ++
     (if (cut3 oPart).2.2 ≠ (cut3 expected).2.2 then ["stores"] else []))
  let s1 := if fullOk && partOk && oPart ≠ expected then ["restrict-eq:" ++ feats] else []
  let s2 := if fullOk && !partOk then ["partial-succeeds"] else []
  let s3 := if oGarb ≠ oPart then ["garbage-same"] else []
  let s4 := if partOk then
      (match (parseFont partS).layers with
       | l :: _ => if l.dir == glyphsDir then [] else ["default-first"]
       | [] => ["default-first"]) else []
  let tags := ["shape" ++ field inp "shape", "extra" ++ field inp "extra",
               if partOk then "part-ok" else "part-err"] ++
    (if sw ≠ 63 || field inp "shape" ≠ "0" then ["nt"] else [])
  { agree := agree, spec := s1 ++ s2 ++ s3 ++ s4, tags := tags,
    model := if agree then "ok" else if !reqAgree then s!"request: Req.apply gives {modelTok} sw={swOf req}, the harness reports {harnessTok} sw={sw}" else
      (if mFull ≠ oFull then "FULL model: " ++ mFull
       else if mPart ≠ oPart then "PART model: " ++ mPart else "GARB model: " ++ mGarb) }

end Driver.C17
