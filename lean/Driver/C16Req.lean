import Norad.Base.Proto
import Norad.Model.FontLoad
import Driver.C17
/-!
Driver module for the second C16 stream (`C16req`): what the data and image stores contain after
`Font::load_requested_data` for a SEQUENCE of request-builder calls, and what a save elsewhere / in place
leaves of data/ and images/.  The expected switches come from `FontLoad.Req.apply` (the documented meaning
of every call, applied in order — the model C17's theorems are about); the source tree is fixed
(see `harness/src/c16req.rs`).
-/
namespace Driver.C16Req
open Proto FontLoad

def png (n : Nat) : String := "89504e470d0a1a0a0" ++ toString n

/-- the files of the source UFO: data/ and images/ as `name=hexbytes` -/
def dataFiles : List (String × String) := [("61", "6431"), ("622f63", "6432")]
def imageFiles (bad : Bool) : List (String × String) :=
  (if bad then [("626164", "6e6f74706e67")] else []) ++ [("702e706e67", png 1), ("712e706e67", png 2)]

def isPngHex (h : String) : Bool := h.startsWith "89504e470d0a1a0a"

def storeTok (fs : List (String × String)) (requested image : Bool) : String :=
  if !requested then "0:" else
  toString fs.length ++ ":" ++ ",".intercalate (fs.map fun f =>
    f.1 ++ "=" ++ (if image && !isPngHex f.2 then "e" else "o" ++ f.2))

def filesTok (fs : List (String × String)) (present : Bool) : String :=
  if !present then "~" else "+".intercalate (fs.map fun f => f.1 ++ "=" ++ f.2)

def run (inp obs : List String) : Verdict :=
  match inp with
  | [_, variant, seq] =>
    let bad := variant == "b"
    let calls := ((seq.splitOn ".").filter (· ≠ "")).filterMap (Driver.C17.callOf [])
    let r := Req.apply calls
    let blocked := r.images && bad       -- a requested entry in error state refuses every save
    let dT := "D" ++ storeTok dataFiles r.data false
    let iT := "I" ++ storeTok (imageFiles bad) r.images true
    -- save into an absent target: requested stores are written completely, others not at all
    let eT := if blocked then "Ee:~:~"
      else "Ek:" ++ filesTok dataFiles r.data ++ ":" ++ filesTok (imageFiles bad) r.images
    -- save in place (onto the source): a refused save leaves the source as it was; otherwise the wipe removes
    -- what was not requested (the store is empty in memory) and the forced entries of requested stores are kept
    let pT := if blocked then "Pe:" ++ filesTok dataFiles true ++ ":" ++ filesTok (imageFiles bad) true
      else "Pk:" ++ filesTok dataFiles r.data ++ ":" ++ filesTok (imageFiles bad) r.images
    let model := ["Lok", dT, iT, eT, pT]
    -- specification on the implementation's own observation, with the switches the call sequence documents
    let get (pre : String) : String := (obs.find? (·.startsWith pre)).getD ""
    let spec :=
      (if obs.head? != some "Lok" then ["requested-load-fails"] else
        let chk (pre : String) (req : Bool) (want : String) : List String :=
          let o := get pre
          if o == want then []
          else if !req then ["unrequested-store-populated"] else ["requested-store-incomplete"]
        let save (pre : String) : List String :=
          let o := get pre
          match (o.drop 1).toString.splitOn ":" with
          | [res, d, i] =>
            if blocked then (if res == "e" then [] else ["error-entry-save-not-refused"])
            else if res != "k" then ["save-fails-without-requested-error-entry"]
            else
              (if r.data && d != filesTok dataFiles true then ["requested-store-files-lost-on-save"] else []) ++
              (if r.images && i != filesTok (imageFiles bad) true then ["requested-store-files-lost-on-save"] else []) ++
              (if !r.data && d != "~" then ["unrequested-store-written"] else []) ++
              (if !r.images && i != "~" then ["unrequested-store-written"] else [])
          | _ => ["unparsable-save-observation"]
        chk "D" r.data dT ++ chk "I" r.images iT ++ save "E" ++ save "P")
    let differ := r.data != r.images
    let tags := ["req", if r.data then "data-on" else "data-off", if r.images then "images-on" else "images-off"] ++
      (if differ then ["switches-differ"] else []) ++ (if blocked then ["blocked"] else []) ++
      (if calls.length ≥ 2 then ["nt"] else [])
    { agree := model == obs, spec := spec.eraseDups, tags := tags, model := " ".intercalate model }
  | _ => { agree := false, model := "bad-line" }

end Driver.C16Req
