import Driver.Glif
/-! Driver module for C12:
`C12 <hexdoc> <ev>* | <num>* => ok <glyph tokens> | err <kind> | panic` (see `harness/src/c12.rs`). -/
namespace Driver.C12
open Proto _root_.Glif Driver.Glif

def kindStr : Kind → String
  | .xml => "xml" | .wrongFirstElement => "wrongFirstElement" | .unsupportedVersion => "unsupportedVersion"
  | .glyphAttrs => "glyphAttrs" | .duplicateElement n => "duplicateElement(" ++ n ++ ")"
  | .unexpectedV1Element n => "unexpectedV1Element(" ++ n ++ ")" | .unexpectedElement => "unexpectedElement"
  | .missingCloseTag => "missingCloseTag" | .unexpectedEof => "unexpectedEof" | .badElement n => "badElement(" ++ n ++ ")"
  | .contour => "contour" | .badLib => "badLib" | .libMustBeDictionary => "libMustBeDictionary"
  | .objectLibsMustBeDictionary => "objectLibsMustBeDictionary" | .objectLibMustBeDictionary => "objectLibMustBeDictionary"

def sortStrs (l : List String) : List String := (l.toArray.qsort (· < ·)).toList

def run (inp obs : List String) : Verdict :=
  match inp with
  | _ :: _doc :: rest =>
    let evToks := rest.takeWhile (· ≠ "|")
    let numToks := (rest.dropWhile (· ≠ "|")).drop 1
    match evToks.mapM parseEv, numToks.mapM parseNum with
    | some evs, some tbl =>
      let rd := lookupNum tbl
      -- model
      let m := parseGlif rd evs
      let modelOut := match m with
        | .ok g => "ok " ++ " ".intercalate (glyphTokens g)
        | .error _ => "err"
      let modelLog := match m with
        | .ok _ => modelOut
        | .error k => "err " ++ kindStr k
      let implOut := match obs with
        | "ok" :: r => "ok " ++ " ".intercalate r
        | "err" :: _ => "err"
        | _ => " ".intercalate obs
      -- specification oracle on the implementation's own verdict (independent of the model)
      let doc := shape evs
      let (viol, unspec, surf, shaped) := match doc with
        | some d => let j := Spec.judge rd d; (sortStrs j.1, j.2, sortStrs (Spec.surface d), true)
        | none => ([], true, [], false)
      let accRej : List String :=
        match obs with
        | "ok" :: _ => if shaped ∧ !unspec then viol.map ("accepted-illegal:" ++ ·) else []
        | "err" :: _ =>
          if shaped ∧ !unspec ∧ viol.isEmpty then
            (match surf with
             | [] => ["rejected-legal"]
             | [f] => ["rejected-legal:" ++ f]
             | _ => [])
          else []
        | _ => ["panic-or-unknown"]
      let wf : List String :=
        match obs with
        | "ok" :: r => match parseGlyphTokens r with
          | some g => Spec.wellformed g
          | none => ["unreadable-observation"]
        | _ => []
      let ver := match doc with | some d => (match (Spec.docVersion d).1 with | some 1 => "v1" | some 2 => "v2" | _ => "v?") | none => "v?"
      let tags :=
        [if shaped then (if unspec then "unspecified" else if viol.isEmpty then "legal" else "illegal") else "unshaped", ver] ++
        viol.map ("viol-" ++ ·) ++ surf.map ("surf-" ++ ·) ++
        (match m with | .ok _ => ["m-ok"] | .error k => ["m-" ++ kindStr k]) ++
        (if evs.length > 3 then ["nt"] else [])
      { agree := modelOut == implOut, spec := accRej ++ wf, tags := tags, model := modelLog }
    | _, _ => { agree := false, model := "bad-input" }
  | _ => { agree := false, model := "bad-line" }

end Driver.C12
