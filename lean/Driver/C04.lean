import Norad.Base.Proto
import Norad.Model.RoundTrip
import Driver.C01
/-!
Driver module for C04 (load, save, load again).  Line format: `harness/src/c04.rs`.

Font level: the font obtained by the first load is handed to the C01 machinery (model `saveFont` /
`loadFont`, specification `specFont`): load(x) versus load(save(load(x))); in addition what was written
must say formatVersion 3 and every written glif format 2 without a minor version, and for generated
format-3 trees the first load must show the content the tree was rendered from.
Glyph level: `parse_raw(x)` versus `parse_raw(encode(parse_raw(x)))`, and `parse_raw(x)` versus the glyph
the document was rendered from.
-/
namespace Driver.C04
open Proto RT Driver.C01

def fontKeys : List String := ["m", "fi", "n", "u", "g", "lib", "gr", "k", "fe", "L", "d", "i"]

def isFontTok (t : String) : Bool := fontKeys.any fun k => t.startsWith (k ++ "=")

def clean (s : String) : String := String.ofList (s.toList.map fun c => if c = ':' || c = ',' then '-' else c)

def runGlif (inp obs : List String) : Verdict :=
  let kind := inp.getD 1 ""
  let x := (field inp "x").getD (if kind = "glifdata" then "testdata" else if kind = "mutglif" then "mutated" else "plain")
  let mc := (field obs "mc").getD "none"
  let sem := (field obs "sem").getD "-"
  -- a meaning-preserving mutation (attribute order, quotes, blanks, comments between elements, number
  -- spellings, element order, prolog) must neither change the parsed glyph nor make the file unacceptable
  let semSpec := if sem = "0" then ["mutation-changed-value:" ++ clean mc]
                 else if sem = "rejected" then ["mutation-rejected:" ++ clean mc] else []
  let f := (field inp "f").getD "-"
  let p1 := (field obs "p1").getD "?"
  let tags := [kind, "glif-f" ++ f, "x-" ++ x] ++ (if p1 = "ok" then ["nt"] else ["rejected"]) ++
    ptTags ((field obs "pt").getD "")
  if p1 = "err" || p1 = "missing" then
    -- not accepted: outside the property; generated documents are all meant to be legal
    { agree := kind = "glifdata" || kind = "mutglif", spec := semSpec, tags := tags ++ (mc.splitOn "+").map ("mut-" ++ ·), model := "accepted" }
  else if p1 = "panic" then { agree := false, spec := ["glif-panic:" ++ x], tags := tags, model := "accepted" }
  else
    let a := (field obs "a").getD "?"
    let enc := (field obs "enc").getD "?"
    let fmt := (field obs "fmt").getD "?"
    let p2 := (field obs "p2").getD "?"
    let fix := (field obs "fix").getD "?"
    let n1 := (field obs "n1").getD "?"
    let n2 := (field obs "n2").getD "?"
    let ax := (field obs "ax").getD "-"
    let cdNote := x.startsWith "cdata-note"
    -- a CDATA note: the recorded behaviour is "the note is dropped at the first load" (n1 = none, everything else as
    -- written).  A CDATA note that is KEPT and differs from what the document says, or that changes in the second
    -- round, is a different failure (other feature / other rule) and never matches the recorded finding.
    let alteredFeat :=
      if cdNote then
        (if n1 = "~" && ax = "1" then x else if n1 = "~" then x ++ ",other-fields" else x ++ "-kept")
      else x
    let spec :=
      (if a = "0" then ["glif-altered:" ++ alteredFeat] else []) ++
      (if enc ≠ "ok" then ["glif-not-writable:" ++ x]
       else (if fmt ≠ "2" then ["glif-format:" ++ x] else []) ++
            (if p2 ≠ "ok" then ["glif-not-reloadable:" ++ x]
             else if fix ≠ "1" then
               (if n1 ≠ n2 && n1 ≠ "?" then ["l2-differs:" ++ (if cdNote then x ++ "-kept" else x) ++ ",note"]
                else ["glif-fixed-point:" ++ x])
             else []))
    -- the model of this level is the expectation itself: accepted, unaltered, writable, format 2, fixed point
    { agree := true, spec := spec ++ semSpec,
      tags := tags ++ (if kind = "mutglif" then (mc.splitOn "+").map ("mut-" ++ ·) else []), model := "ok" }

def run (inp obs : List String) : Verdict :=
  let kind := inp.getD 1 ""
  if kind = "glif" || kind = "glifdata" || kind = "mutglif" then runGlif inp obs else
  let mc := (field obs "mc").getD "none"
  let sem := (field obs "sem").getD "-"
  let semSpec := if sem = "0" then ["mutation-changed-value:" ++ clean mc]
                 else if sem = "rejected" then ["mutation-rejected:" ++ clean mc] else []
  let mutTags := if kind = "mutufo" then (mc.splitOn "+").map ("mut-" ++ ·) else []
  let first := obs.takeWhile (· ≠ "|")
  let second := (obs.dropWhile (· ≠ "|")).drop 1
  let ver := (field inp "v").getD "t"
  let l1 := (field first "l1").getD "?"
  let baseTags := [kind, "ufo-v" ++ ver, "target-" ++ (field inp "t").getD "absent"] ++
    (match field inp "cd" with | some part => ["cdata-" ++ part] | none => []) ++ ptTags ((field first "pt").getD "") ++
    (if kind = "edit" then ["edited-after-load"] else [])
  if l1 = "panic" then { agree := false, spec := ["load-panic"], tags := baseTags, model := "-" }
  else if l1 ≠ "ok" then
    -- not accepted: outside the property (testdata holds deliberately broken trees; generated trees must load)
    -- legacy trees may be refused by the kerning-group upconversion (overlapping groups after renaming: C15)
    -- a tagged CDATA tree may be refused once the dropped text leaves an invalid value (empty date, empty colour)
    { agree := kind = "testdata" || kind = "mutufo" || (ver ≠ "3" && l1 = "err:GroupsUpconversionFailure") ||
        (field inp "cd").isSome,
      spec := semSpec, tags := baseTags ++ ["rejected"] ++ mutTags, model := "accepted" }
  else
    let pre := (field first "pre").getD ""
    let l1toks := first.filter isFontTok
    let v := Driver.C01.runCore ("C01" :: "o=t.1.d" :: l1toks) (("pre=" ++ pre) :: second)
    let mw := (field second "mw").getD "?"
    let gf := (field second "gf").getD ""
    let saved := (field second "load").getD "?" = "ok"
    let extra :=
      (if saved && (mw.splitOn ".").getD 1 "?" ≠ "3" then ["output-v3"] else []) ++
      (if saved && gf ≠ "2" && gf ≠ "" then ["glif-format:" ++ clean gf] else [])
    -- generated format-3 trees: the first load shows what the tree was rendered from
    let altered :=
      if kind = "ufo" && ver = "3" then
        match parseFont (inp.filter isFontTok) pre, parseFont l1toks pre with
        | some want, some got =>
          ((specFont want got pre pre true) ++
            (if want.creator = got.creator && want.minor = got.minor then [] else ["metainfo"])).map
            fun r => (match field inp "cd" with
              -- tagged trees: text nodes of one part are CDATA sections; what the first load drops of them is the
              -- recorded behaviour (the plist reader skips CDATA inside <string>/<key>, parse_note ignores it)
              | some part => "cdata-dropped:part-" ++ part ++ "," ++ clean r
              | none => "accepted-altered:" ++ clean r)
        | _, _ => ["accepted-altered:shape"]
      else []
    let objKey := match parseFont l1toks pre with
      | some f => (lookupKV objectLibsKey f.lib).isSome
      | none => false
    let spec0 := v.spec.map fun r => if r = "save-failed" && objKey then "save-failed:objectlibs-key-kept" else r
    { agree := v.agree, spec := dedup (spec0 ++ extra ++ altered ++ semSpec),
      tags := baseTags ++ mutTags ++ v.tags.filter (fun t => !t.startsWith "opt-"), model := v.model }

end Driver.C04
