import Driver.FSFam
/-!
Driver module for C09.  Line format: `harness/src/c09.rs` (C08's line plus `craft=` and `FRESH=`).

Correspondence: as C08 — result class and post-state of the whole sandbox, `..`-laden paths included (the
model resolves them the way the kernel does).

For a late error on both sides (a failure after the wipe) only the outcome class and the part of the sandbox
OUTSIDE the target are compared: which files had been written before the failure is not part of the statement.

Specification rules on the implementation's own observation:
* `frame`: everything outside the target is the same before and after (any outcome).  Features name the
  unsafe relative paths the font carries (`store-key-dotdot`, `glif-path-dotdot`), so that the two recorded
  escapes are matched and any other escape is not.
* `exact-files`: after a successful save of a font with safe paths, the paths at and below the target are
  exactly `expectedPaths` (hence: no remains, optional files iff non-empty).
  `exact-files:glyph-without-file`: a glyph reported by `Layer::iter()` has no file name (`NOFILE`) and the save succeeded.
* `fresh-identical`: a successful save is byte-identical to saving the same font into a fresh path.
-/
namespace Driver.C09
open Proto AbsFS FontSave Driver.FSFam

def under (t : APath) (p : String) : Bool :=
  let ts := pathStr t
  p = ts || p.startsWith (ts ++ "/")

def run (inp obs : List String) : Verdict :=
  let f := parseFont obs
  let pre := parseTree (field obs "PRE")
  let post := parseTree (field obs "POST")
  let t := splitPath (field obs "T")
  let r := field obs "R"
  if r = "" then { agree := false, model := "no-observation" } else
  let (mr, mfs) := saveImpl cfg f (preForModel t pre) t
  let mList := listing mfs
  let oList := listing post
  let okClass := resClass mr == obsClass r
  -- an untouched symbolic link at the target is the model's entry-less directory (see `preForModel`)
  let oListM := listing (preForModel t post)
  -- a save that FAILS after the wipe on both sides (late error): the property demands nothing of the partial content of the
  -- target (which files had been written before the failure depends on the write order, which is not part of any
  -- statement); the correspondence then compares the outcome class and everything OUTSIDE the target.  The
  -- specification rules below are untouched by this (`frame` is evaluated on every outcome).
  let lateBoth := resClass mr == "late-error" && obsClass r == "late-error"
  let okTree := if lateBoth then treeMatches (mList.filter fun e => !under t e.1) (oListM.filter fun e => !under t e.1)
    else treeMatches mList oListM
  -- specification
  let preOut := (listing pre).filter fun e => !under t e.1
  let postOut := oList.filter fun e => !under t e.1
  let unsafeKey := f.data.items.any (fun kc => !safeRel kc.1) || f.images.items.any (fun kc => !safeRel kc.1)
  let unsafeGlif := f.layers.any fun l => l.entries.any fun e => !safeRel (Path.parse e.file)
  -- a layer directory is a name norad assigned (C07: one normal component) or, for a loaded font, the LAST
  -- component of the `layercontents.plist` entry (`layer.rs` `file_name()`): never anything else
  let badLayerDir := f.layers.any fun l =>
    match (Path.parse l.dir).comps with
    | [.normal _] => (Path.parse l.dir).abs
    | _ => true
  let feats := (if unsafeGlif then ["glif-path-dotdot"] else []) ++ (if unsafeKey then ["store-key-dotdot"] else []) ++
    (if badLayerDir then ["layer-dir"] else [])
  let s0 := if badLayerDir then ["layer-dir-not-single-component"] else []
  -- every glyph has its own glif file, every layer its own directory (exact and ignoring ASCII case)
  let low (x : List Char) : List Char := x.map Char.toLower
  let rec distinct : List (List Char) → Bool
    | [] => true
    | a :: r => !r.contains a && distinct r
  let sameGlif := f.layers.any fun l => !distinct (l.entries.map fun e => low e.file)
  let sameDir := !distinct (f.layers.map fun l => low l.dir)
  let s0 := s0 ++ (if sameGlif then ["glif-files-distinct"] else []) ++ (if sameDir then ["layer-dirs-distinct"] else [])
  let s1 := if preOut == postOut then [] else
    ["frame" ++ (if feats.isEmpty then "" else ":" ++ ",".intercalate feats)]
  let expected := ((expectedPaths f t).map fun e => (pathStr e.1, e.2)) |>.foldl
    (fun acc x => if acc.contains x then acc else acc ++ [x]) [] |>.mergeSort (fun a b => decide (a.1 ≤ b.1))
  let actual := (oList.filter fun e => under t e.1).map fun e => (e.1, e.2.startsWith "f")
  let s2 := if r = "ok" && safePaths f && expected != actual then
      [("exact-files:" ++ (if expected.length < actual.length then "more" else if expected.length > actual.length then "fewer" else "other"))]
    else []
  -- a glyph the containers report (`iter()`) without a file name cannot be among the files a successful save wrote
  let nofile := field obs "NOFILE"
  let s2 := s2 ++ (if r = "ok" && nofile ≠ "" && nofile ≠ "0" then ["exact-files:glyph-without-file"] else [])
  let fresh := field obs "FRESH"
  let s3 := if r = "ok" && fresh ≠ "ok:same" then ["fresh-identical"] else []
  -- round 3: files of a loaded source arrive; an optional file that exists holds something; the tree reproduces itself
  let kf := if r = "ok" then keepFailures f pre post t (splitPath (field obs "SRC")) (field obs "KEEP") else []
  let s5 := if kf.isEmpty then [] else ["loaded-store-files-saved:" ++ ",".intercalate kf]
  let ef := field obs "EMPTYFILES"
  let s6 := if r = "ok" && ef ≠ "" && ef ≠ "-" then
      ["optional-file-empty-content:" ++ ",".intercalate (dedup ((ef.splitOn ",").map fun p => ((p.splitOn "/").getLast?).getD p))]
    else []
  let rs := field obs "RESAVE"
  let s7 := if r = "ok" && safePaths f && rs ≠ "" && rs ≠ "same" then ["resave-reproduces:" ++ rs] else []
  let tags :=
    ["pre" ++ field inp "pre", "res-" ++ obsClass r, "craft" ++ field inp "craft"] ++
    (if fieldNat inp "load" = 1 then ["loaded"] else ["api-built"]) ++
    (if f.data.root == t && t ≠ [] then ["inplace"] else []) ++
    (if safePaths f then ["safe"] else ["unsafe"]) ++
    (if lateBoth then ["late-both"] else []) ++
    (if field inp "pre" ≠ "0" || field inp "craft" ≠ "0" then ["nt"] else [])
  { agree := okClass && okTree,
    spec := s0 ++ s1 ++ s2 ++ s3 ++ s5 ++ s6 ++ s7,
    tags := tags,
    model := if okClass && okTree then resClass mr else
      s!"model-res={resClass mr} impl-res={obsClass r} tree: {if okTree then "same" else firstDiff mList oListM}" }

end Driver.C09
