import Driver.Glif
import Norad.Spec.C02
/-! Driver module for C02 (line format: `harness/src/c02.rs`). -/
namespace Driver.C02
open Proto _root_.Glif Driver.Glif

partial def sortPV : PV → PV
  | .arr xs => .arr (xs.map sortPV)
  | .dict kvs =>
    let a := (kvs.map fun e => (hexOfStr e.1, e.1, sortPV e.2)).toArray.qsort (fun x y => x.1 < y.1)
    .dict (a.toList.map fun e => (e.2.1, e.2.2))
  | v => v

def canonDict (d : Dict) : String := renderPV (sortPV (.dict d))

def attrsTok : Option (List Attr) → String
  | none => "!"
  | some as =>
    -- attributes as a map: the order in which the writer pushes them is not part of the property
    ",".intercalate ((as.map fun a => hexOfStr a.1 ++ "=" ++ hexOfStr a.2).toArray.qsort (· < ·)).toList

def evTok : Ev → String
  | .decl => "D" | .comment => "C" | .other => "O" | .cdata => "A" | .error => "X"
  | .text none => "T!" | .text (some s) => "T:" ++ hexOfStr s
  | .start n a => "S:" ++ hexOfStr n ++ ":" ++ attrsTok a
  | .empty n a => "E:" ++ hexOfStr n ++ ":" ++ attrsTok a
  | .close n => "Z:" ++ hexOfStr n
  | .startLib a v => "L:" ++ attrsTok a ++ ":" ++ (match v with | .bad => "bad" | .notDict => "nd" | .dict d => canonDict d)

/-- drop the plist events between `<lib>` and `</lib>` (the plist writer is not modelled) -/
def dropLibInner : List Ev → Bool → List Ev
  | [], _ => []
  | e :: r, inLib =>
    match e with
    | .startLib .. => e :: dropLibInner r true
    | .close n => if n = sLib then e :: dropLibInner r false else (if inLib then dropLibInner r inLib else e :: dropLibInner r inLib)
    | _ => if inLib then dropLibInner r inLib else e :: dropLibInner r inLib

def parseTbl (toks : List String) : Option (List (Nat × Str)) :=
  toks.mapM fun t => match t.splitOn "=" with
    | [k, v] => match hexNat k, unhexStr v with
      | some k', some v' => some (k', v')
      | _, _ => none
    | _ => none

def lookupTbl (tbl : List (Nat × Str)) (b : Nat) : Str :=
  match tbl.find? (fun e => e.1 = b) with
  | some e => e.2
  | none => "?".toList

def splitBar (l : List String) : List (List String) :=
  let rec go (l : List String) (cur : List String) (acc : List (List String)) : List (List String) :=
    match l with
    | [] => (cur.reverse :: acc).reverse
    | "|" :: r => go r [] (cur.reverse :: acc)
    | x :: r => go r (x :: cur) acc
  go l [] []

def glyphStr (g : Glyph) : String :=
  " ".intercalate (glyphTokens { g with
    lib := (match sortPV (.dict g.lib) with | .dict d => d | _ => g.lib) })

def sortStrs (l : List String) : List String := (l.toArray.qsort (· < ·)).toList
def dedupS : List String → List String
  | [] => []
  | x :: r => if r.contains x then dedupS r else x :: dedupS r

def run (inp obs : List String) : Verdict :=
  match inp with
  | _ :: _seed :: _idx :: opt :: "G" :: rest =>
    match splitBar rest with
    | [gt, evt, showT, fmtT, numT] =>
      match parseGlyphTokens gt, evt.mapM parseEv, parseTbl showT, parseTbl fmtT, numT.mapM parseNum with
      | some g, some implEvs, some shw, some f3, some nums =>
        let indent : Str := match opt.toList with
          | c :: n :: _ => List.replicate (n.toNat - '0'.toNat) (if c = 't' then '\t' else ' ')
          | _ => []
        let f : Fmt := { shw := lookupTbl shw, fmt3 := lookupTbl f3, indent := indent }
        let rd := lookupNum nums
        -- model: the event stream and the glyph read back from it
        let mEvs := encodeGlif f g
        let mToks := mEvs.map evTok
        let iToks := (dropLibInner implEvs false).map evTok
        let mBack := match parseGlif rd mEvs with | .ok h => "ok " ++ " ".intercalate (glyphTokens h) | .error _ => "parseerr"
        let implBack := match obs with
          | "ok" :: r => "ok " ++ " ".intercalate (r.takeWhile (· ≠ "REF"))
          | "parseerr" :: _ => "parseerr"
          | _ => " ".intercalate obs
        let evAgree := mToks == iToks
        -- the compared glyph dumps go through the same canonical printer on both sides
        let implBackCanon := match obs with
          | "ok" :: r => (match parseGlyphTokens (r.takeWhile (· ≠ "REF")) with | some h => "ok " ++ " ".intercalate (glyphTokens h) | none => implBack)
          | _ => implBack
        let mBackCanon := match parseGlif rd mEvs with
          | .ok h => (match parseGlyphTokens (glyphTokens h) with | some h' => "ok " ++ " ".intercalate (glyphTokens h') | none => mBack)
          | .error _ => mBack
        let backAgree := (match parseGlif rd mEvs, obs with
          | .ok h, "ok" :: r => (match parseGlyphTokens (r.takeWhile (· ≠ "REF")) with
              | some h' => glyphStr h == glyphStr h' | none => false)
          | .error _, "parseerr" :: _ => true
          | _, _ => false)
        -- specification oracle on the implementation's own output
        let eqLib : Dict → Dict → Bool := fun a b => canonDict a == canonDict b
        let spec : List String :=
          match obs with
          | "ok" :: r =>
            let back := r.takeWhile (· ≠ "REF")
            let ref := (r.dropWhile (· ≠ "REF")).drop 1
            match parseGlyphTokens back with
            | some h =>
              let rt := dedupS ((Spec02.verdict eqLib indent g h).map ("roundtrip:" ++ ·))
              let od := if ref == back then [] else
                (match parseGlyphTokens ref with
                 | some h0 => dedupS ((Spec02.optionsVerdict eqLib ['\t'] indent g h0 h).map ("options-dependent:" ++ ·))
                 | none => ["options-dependent:unreadable"])
              sortStrs (rt ++ od)
            | none => ["unreadable-observation"]
          | "parseerr" :: _ => ["own-output-rejected"]
          | "encerr" :: _ => ["encode-error"]
          | _ => ["panic-or-unknown"]
        let _ := implBackCanon
        let _ := mBackCanon
        let firstDiff := (mToks.zip iToks).find? (fun p => p.1 != p.2)
        let tags := Spec02.guardFeatures g ++ [(opt.take 1).toString, "w" ++ ((opt.drop 1).take 1).toString] ++
          (if g.lib.isEmpty then [] else ["lib"]) ++ (if (dumpObjectLibs g).isEmpty then [] else ["objlibs"]) ++
          (if g.image.isSome then ["image"] else []) ++ (if g.note.isSome then ["note"] else []) ++
          (if mEvs.length > 4 then ["nt"] else [])
        { agree := evAgree && backAgree, spec := spec, tags := tags,
          model := (if evAgree then "events-equal " else "events-differ " ++
              (match firstDiff with | some (a, b) => "model=" ++ a ++ " impl=" ++ b ++ " " | none => "length ")) ++
            (if backAgree then "back-equal" else "back-differs " ++ (mBack.take 300).toString) }
      | _, _, _, _, _ => { agree := false, model := "bad-input" }
    | _ => { agree := false, model := "bad-line" }
  | _ => { agree := false, model := "bad-line" }

end Driver.C02
