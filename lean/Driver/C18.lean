import Norad.Base.Proto
import Norad.Model.C18
import Norad.Model.DSCodec
import Norad.Model.DSFloat
import Norad.Spec.C18
/-!
Driver module for C18 (line formats: see `harness/src/c18.rs`).

* `C18 <doc> => save:… <tree> load:… eq:… <doc>`: runs `toTree`/`fromTree` on the document, compares the
  model's tree — as a conforming XML processor would see it (`conformView`) — with the tree xml.etree read
  from the saved file, and the model's prediction of the loaded document with what norad loaded.
  Oracle (on the implementation's output only): the loaded document equals the original, and the
  independent reader `Spec.specRead` finds the original's values in the file's tree.
* `C18L <file> => <tree> load:… <doc>`: `fromTree` on the tree of a hand-written file vs norad's `load`.

The codec is instantiated per line: `f32`/`f64`/date strings come from the harness (Rust's own
`to_string`/`to_xml_format`, printed next to the bit pattern), `read` is the inverse table; integers and
base64 are implemented here.  The codec laws the theorems assume are checked on every table (`codec-law`).
-/
namespace Driver.C18
open Proto _root_.C18

inductive SX
  | a (s : String)
  | l (xs : List SX)

partial def parseSX : List String → Option (SX × List String)
  | [] => none
  | "(" :: r =>
    let rec go (acc : List SX) (ts : List String) : Option (SX × List String) :=
      match ts with
      | [] => none
      | ")" :: r => some (.l acc.reverse, r)
      | ts => match parseSX ts with
        | some (x, r) => go (x :: acc) r
        | none => none
    go [] r
  | ")" :: _ => none
  | t :: r => some (.a t, r)

def str? (t : String) : Option String := (unhexStr t).map String.ofList

/-! ## codec tables -/

structure Tab where
  f32 : List (Nat × String) := []
  f64 : List (Nat × String) := []
  date : List ((Int × Nat) × Option String) := []

def hexNat (s : String) : Option Nat :=
  s.toList.foldl (fun acc ch => match acc, hexVal ch with
    | some n, some d => some (n * 16 + d)
    | _, _ => none) (some 0)

/-- `bits:hexdisplay` -/
def numTok (t : String) : Option (Nat × String) :=
  match t.splitOn ":" with
  | [b, d] => match hexNat b, str? d with
    | some n, some s => some (n, s)
    | _, _ => none
  | _ => none

def decNat (cs : List Char) : Option Nat :=
  if cs.isEmpty then none else
  cs.foldl (fun acc ch => match acc with
    | some n => if '0' ≤ ch ∧ ch ≤ '9' then some (n * 10 + (ch.toNat - '0'.toNat)) else none
    | none => none) (some 0)

def parseSigned (s : String) : Option Int :=
  match s.toList with
  | '-' :: r => (decNat r).map fun n => -(n : Int)
  | '+' :: r => (decNat r).map fun n => (n : Int)
  | r => (decNat r).map fun n => (n : Int)

def mkCodec (t : Tab) : Codec where
  showF32 x := match t.f32.lookup x.bits with
    | some s => s
    | none => "?f32:" ++ toString x.bits
  readF32 s :=
    if s = "NaN" then some ⟨0x7fc00000⟩ else (t.f32.find? (·.2 = s)).map fun e => ⟨e.1⟩
  showF64 x := match t.f64.lookup x.bits with
    | some s => s
    | none => "?f64:" ++ toString x.bits
  readF64 s :=
    if s = "NaN" then some ⟨0x7ff8000000000000⟩ else (t.f64.find? (·.2 = s)).map fun e => ⟨e.1⟩
  -- integers and base64: the implementations `codecLaws_refCodec` is proved about (Model/DSCodec.lean)
  showInt := intShow
  parseI64 := parseI64
  parseU64 := parseU64
  parseHexU64 s := if s.isEmpty then none else (hexNat s).bind fun n => if (n : Int) ≤ u64Max then some (n : Int) else none
  encData d := String.ofList (b64enc d)
  decData s := b64dec s.toList
  showDate d := match t.date.lookup (d.secs, d.nanos) with
    | some s => s
    | none => none
  readDate s := (t.date.find? (·.2 = some s)).map fun e => ⟨e.1.1, e.1.2⟩

/-! ## tokens → values (the table is collected on the way) -/

abbrev P := StateT Tab Option

def pS (x : SX) : P String :=
  match x with
  | .a t => match str? t with
    | some s => pure s
    | none => failure
  | _ => failure

def pOS (x : SX) : P (Option String) :=
  match x with
  | .a t => if t = "~" then pure none else
    match str? (t.drop 1).toString with
    | some s => pure (some s)
    | none => failure
  | _ => failure

def pFtok (t : String) : P F32 :=
  match numTok t with
  | some (b, s) => do
    modify fun tab => if tab.f32.any (·.1 = b) then tab else { tab with f32 := tab.f32 ++ [(b, s)] }
    pure ⟨b⟩
  | none => failure

def pF (x : SX) : P F32 :=
  match x with
  | .a t => pFtok t
  | _ => failure

def pOF (x : SX) : P (Option F32) :=
  match x with
  | .a t => if t = "~" then pure none else (pFtok (t.drop 1).toString).map some
  | _ => failure

mutual
partial def pPV (x : SX) : P PV :=
  match x with
  | .l [.a "s", s] => PV.str <$> pS s
  | .l [.a "i", .a t] => match parseSigned t with
    | some i => pure (.int i)
    | none => failure
  | .l [.a "r", .a t] => match numTok t with
    | some (b, s) => do
      modify fun tab => if tab.f64.any (·.1 = b) then tab else { tab with f64 := tab.f64 ++ [(b, s)] }
      pure (.real ⟨b⟩)
    | none => failure
  | .l [.a "b", .a t] => pure (.bool (t = "1"))
  | .l [.a "data", .a t] => match unhex t with
    | some bs => pure (.data bs)
    | none => failure
  | .l [.a "date", .a s, .a n, .a shown] =>
    match parseSigned s, parseSigned n with
    | some secs, some nanos => do
      let sh : Option String := if shown = "!" then none else str? shown
      modify fun tab => if tab.date.any (·.1 = (secs, nanos.toNat)) then tab
        else { tab with date := tab.date ++ [((secs, nanos.toNat), sh)] }
      pure (.date ⟨secs, nanos.toNat⟩)
    | _, _ => failure
  | .l (.a "arr" :: xs) => PV.arr <$> pPVs xs
  | .l (.a "dict" :: kvs) => PV.dict <$> pKVs kvs
  | .l [.a "uid", .a t] => pure (.uid (t.toNat?.getD 0))
  | _ => failure
partial def pPVs (xs : List SX) : P PVs :=
  match xs with
  | [] => pure .nil
  | x :: r => do
    let v ← pPV x
    let vs ← pPVs r
    pure (.cons v vs)
partial def pKVs (xs : List SX) : P KVs :=
  match xs with
  | [] => pure .nil
  | .l [k, v] :: r => do
    let k ← pS k
    let v ← pPV v
    let rest ← pKVs r
    pure (.cons k v rest)
  | _ => failure
end

def pDim (x : SX) : P Dimension :=
  match x with
  | .l [n, u, xv, yv] => do pure ⟨← pS n, ← pOF u, ← pOF xv, ← pOF yv⟩
  | _ => failure

def pAxis (x : SX) : P Axis :=
  match x with
  | .l [n, t, d, .a h, mn, mx, vs, ms] => do
    let n ← pS n; let t ← pS t; let d ← pF d; let mn ← pOF mn; let mx ← pOF mx
    let vs ← match vs with
      | .a _ => pure none
      | .l xs => some <$> xs.mapM pF
    let ms ← match ms with
      | .a _ => pure none
      | .l xs => some <$> xs.mapM fun m => match m with
        | .l [i, o] => do pure (AxisMapping.mk (← pF i) (← pF o))
        | _ => failure
    pure ⟨n, t, d, h = "1", mn, mx, vs, ms⟩
  | _ => failure

def pRule (x : SX) : P Rule :=
  match x with
  | .l [n, .l sets, .l subs] => do
    let n ← pOS n
    let sets ← sets.mapM fun s => match s with
      | .l cs => ConditionSet.mk <$> cs.mapM fun cnd => match cnd with
        | .l [cn, mn, mx] => do pure (Condition.mk (← pS cn) (← pOF mn) (← pOF mx))
        | _ => failure
      | _ => failure
    let subs ← subs.mapM fun s => match s with
      | .l [a, b] => do pure (Substitution.mk (← pS a) (← pS b))
      | _ => failure
    pure ⟨n, sets, subs⟩
  | _ => failure

def pSource (x : SX) : P Source :=
  match x with
  | .l [f, s, n, fi, la, .l loc] => do
    pure ⟨← pOS f, ← pOS s, ← pOS n, ← pS fi, ← pOS la, ← loc.mapM pDim⟩
  | _ => failure

def pInstance (x : SX) : P Instance :=
  match x with
  | .l [f, s, n, fi, ps, smf, sms, .l loc, .l lib] => do
    pure ⟨← pOS f, ← pOS s, ← pOS n, ← pOS fi, ← pOS ps, ← pOS smf, ← pOS sms, ← loc.mapM pDim, ← pKVs lib⟩
  | _ => failure

def pDoc (x : SX) : P Doc :=
  match x with
  | .l [.a "doc", f, .l axes, .l (.a "rules" :: .a proc :: rules), .l sources, .l insts, .l lib] => do
    let f ← pF f
    let axes ← axes.mapM pAxis
    let rules ← rules.mapM pRule
    let sources ← sources.mapM pSource
    let insts ← insts.mapM pInstance
    let lib ← pKVs lib
    pure ⟨f, axes, ⟨if proc = "last" then .last else .first, rules⟩, sources, insts, lib⟩
  | _ => failure

partial def pTree (x : SX) : Option Tree :=
  match x with
  | .l [.a "t", .a t] => (str? t).map Tree.txt
  | .l (.a "e" :: .a n :: .l attrs :: kids) =>
    let rec pairs (xs : List SX) : Option (List (String × String)) :=
      match xs with
      | [] => some []
      | .a k :: .a v :: r => match str? k, str? v, pairs r with
        | some k, some v, some rest => some ((k, v) :: rest)
        | _, _, _ => none
      | _ => none
    match str? n, pairs attrs, kids.mapM pTree with
    | some n, some a, some k => some (.elem n a k)
    | _, _, _ => none
  | _ => none

/-! ## tree comparison -/

def insertSorted {α : Type} (le : α → α → Bool) (x : α) : List α → List α
  | [] => [x]
  | y :: r => if le x y then x :: y :: r else y :: insertSorted le x r

/-- stable insertion sort -/
def sortBy {α : Type} (le : α → α → Bool) (xs : List α) : List α :=
  xs.foldr (fun x acc => insertSorted le x acc) []

def nodeName : Tree → String
  | .elem n _ _ => n
  | .txt _ => ""

/-- attributes as a map; the children of the heterogeneous struct elements grouped by name keeping the
    relative order of same-named siblings (field order and attribute order are not part of the property) -/
partial def canon : Tree → Tree
  | .txt s => .txt s
  | .elem n a k =>
    let k' := k.map canon
    let k'' := if ["designspace", "axis", "rule", "source", "instance"].contains n
      then sortBy (fun x y => nodeName x ≤ nodeName y) k' else k'
    .elem n (sortBy (fun x y => x.1 ≤ y.1) a) k''

partial def treeEq : Tree → Tree → Bool
  | .txt a, .txt b => a == b
  | .elem n a k, .elem m b j => n == m && a == b && k.length == j.length && (k.zip j).all fun p => treeEq p.1 p.2
  | _, _ => false

/-! ## strings of a document by where they are written -/

def optS (x : Option String) : List String := x.toList

def dimAttrStrings (l : List Dimension) : List String := l.map (·.name)

def docAttrStrings (d : Doc) : List String :=
  d.axes.flatMap (fun a => [a.name, a.tag]) ++
  d.rules.rules.flatMap (fun r => optS r.name ++ r.conditionSets.flatMap (fun s => s.conditions.map (·.name)) ++
    r.substitutions.flatMap fun s => [s.name, s.withName]) ++
  d.sources.flatMap (fun s => optS s.familyname ++ optS s.stylename ++ optS s.name ++ [s.filename] ++ optS s.layer ++
    dimAttrStrings s.location) ++
  d.instances.flatMap (fun i => optS i.familyname ++ optS i.stylename ++ optS i.name ++ optS i.filename ++
    optS i.postscriptfontname ++ optS i.stylemapfamilyname ++ optS i.stylemapstylename ++ dimAttrStrings i.location)

mutual
def pvStrings : PV → List String
  | .str s => [s]
  | .arr xs => pvsStrings xs
  | .dict kvs => kvsStrings kvs
  | _ => []
def pvsStrings : PVs → List String
  | .nil => []
  | .cons v r => pvStrings v ++ pvsStrings r
def kvsStrings : KVs → List String
  | .nil => []
  | .cons k v r => k :: pvStrings v ++ kvsStrings r
end

def docTextStrings (d : Doc) : List String :=
  d.instances.flatMap (fun i => kvsStrings i.lib) ++ kvsStrings d.lib

mutual
def pvKinds : PV → List String
  | .str _ => ["lib-str"]
  | .int _ => ["lib-int"]
  | .real _ => ["lib-real"]
  | .bool _ => ["lib-bool"]
  | .data _ => ["lib-data"]
  | .date _ => ["lib-date"]
  | .arr xs => "lib-arr" :: pvsKinds xs
  | .dict kvs => "lib-dict" :: kvsKinds kvs
  | .uid _ => ["lib-uid"]
def pvsKinds : PVs → List String
  | .nil => []
  | .cons v r => pvKinds v ++ pvsKinds r
def kvsKinds : KVs → List String
  | .nil => []
  | .cons _ v r => pvKinds v ++ kvsKinds r
end

/-! ## codec laws on the table of this line -/

def lawsOk (t : Tab) : Bool :=
  let okStr (s : String) : Bool := s ≠ "" && s.toList.all safeChar
  let inj (l : List (Nat × String)) : Bool :=
    l.all fun e => e.2 = "NaN" || (okStr e.2 && l.all fun f => f.1 = e.1 || f.2 ≠ e.2)
  inj t.f32 && inj t.f64 &&
  t.date.all fun e => match e.2 with
    | none => true
    | some s => okStr s && t.date.all fun f => f.1 = e.1 || f.2 ≠ some s

/-- the real RFC 3339 implementation (`Model/DSCodec.lean`, the one `date_codec_roundtrip_of_calendar` is
    about) against what `plist::Date::to_xml_format` printed for every date of the line, both directions -/
def dateImplOk (t : Tab) : Bool :=
  t.date.all fun e =>
    let d : Date := ⟨e.1.1, e.1.2⟩
    rfc3339Show d == e.2 && (match e.2 with
      | some s => rfc3339Read s == some d
      | none => true)

/-- the float model of the simple fragment (`Model/DSFloat.lean`, the one `codec_laws_simple_floats` is about)
    against Rust: the first string reported for a bit pattern is Rust's `Display`, every reported string that
    the model's reader understands must denote that bit pattern -/
def floatImplOk (f : FloatFmt) (l : List (Nat × String)) : Bool :=
  l.all fun e =>
    (match simpleOf f e.1 with
     | some r => (l.find? (·.1 = e.1)).map (·.2) != some e.2 || String.ofList (showDyadic r.1 r.2.1 r.2.2) == e.2
     | none => true) &&
    (match e.2.toList with
     | '~' :: _ => true
     | cs => match readDyadic f cs with
       | some b => b == e.1
       | none => true)

def simpleCount (f : FloatFmt) (l : List (Nat × String)) : Nat := (l.filter fun e => (simpleOf f e.1).isSome).length

def dedup (xs : List String) : List String :=
  xs.foldl (fun acc x => if acc.contains x then acc else acc ++ [x]) []

def outName {α : Type} : Out α → String
  | .ok _ => "ok"
  | .err => "err"
  | .panic => "panic"

/-- the observation tokens after `save:ok`: tree, then `load:…` -/
def splitObs (obs : List String) : Option (Option Tree × List String) :=
  match obs with
  | "notxml" :: r => some (none, r)
  | ts => match parseSX ts with
    | some (x, r) => match pTree x with
      | some t => some (some t, r)
      | none => none
    | none => none

def runSave (inp obs : List String) : Verdict :=
  match parseSX (inp.drop 1) with
  | none => { agree := false, model := "bad-input" }
  | some (sx, _) =>
  match (pDoc sx).run {} with
  | none => { agree := false, model := "bad-doc" }
  | some (d, tab) =>
    let c := mkCodec tab
    let wf := Spec.StatedWF d
    let attrS := docAttrStrings d
    let textS := docTextStrings d
    let fForbidden := (attrS ++ textS).any Spec.hasForbidden
    let fAttrWs := attrS.any Spec.hasAttrWs
    let fTextCR := textS.any Spec.hasCR
    let fBlank := !Spec.LibTextClean d
    let fDate := !Spec.DatesPrintable c d
    let xmlFeats := (if fAttrWs then ["attr-ws"] else []) ++ (if fForbidden then ["forbidden-char"] else []) ++
      (if fTextCR then ["text-cr"] else [])
    let kinds := dedup (d.instances.flatMap (fun i => kvsKinds i.lib) ++ kvsKinds d.lib)
    let tags :=
      [if wf then "stated-wf" else "outside-statement", "axes" ++ toString (min d.axes.length 4),
       "rules" ++ toString (min d.rules.rules.length 4), "sources" ++ toString (min d.sources.length 4),
       "instances" ++ toString (min d.instances.length 4)] ++
      (if d.rules.processing == .last then ["proc-last"] else []) ++
      (if d.rules.processing == .last && d.rules.rules.isEmpty then ["proc-last-no-rules"] else []) ++
      (if d.axes.any (·.hidden) then ["hidden-axis"] else []) ++
      (if d.axes.any (·.values.isSome) then ["discrete-axis"] else []) ++
      (if d.axes.any (·.values == some []) then ["values-empty"] else []) ++
      (if d.axes.any (·.map.isSome) then ["axis-map"] else []) ++
      (if d.instances.any (fun i => i.lib != .nil) then ["instance-lib"] else []) ++
      (if d.lib != .nil then ["doc-lib"] else []) ++ kinds ++ xmlFeats ++
      (if fBlank then ["lib-edge-blank"] else []) ++ (if fDate then ["date-range"] else []) ++
      (if !lawsOk tab then ["codec-law-broken"] else []) ++
      (if !dateImplOk tab then ["date-impl-differs"] else []) ++
      (if !(floatImplOk fmt32 tab.f32 && floatImplOk fmt64 tab.f64) then ["float-impl-differs"] else []) ++
      (if simpleCount fmt32 tab.f32 + simpleCount fmt64 tab.f64 > 0 then ["simple-floats"] else []) ++
      (if simpleCount fmt32 tab.f32 == tab.f32.length && simpleCount fmt64 tab.f64 == tab.f64.length
        then ["all-floats-simple"] else []) ++
      (if Spec.XmlSafe d != xmlFeats.isEmpty then ["xmlsafe-definitions-differ"] else []) ++ ["nt"]
    -- model
    let mt := toTree c d
    let mload : Option Doc := match mt with
      | .ok t => fromTree c t
      | _ => none
    let mview : Option Tree := match mt with
      | .ok t => Spec.conformView t
      | _ => none
    -- implementation
    match obs with
    | ["save:err"] | ["save:panic"] =>
      let o := (obs.headD "").drop 5 |>.toString
      let spec := if wf then [("save-" ++ o) ++ (if fDate then ":date-range" else "")] else []
      { agree := outName mt == o, spec := spec, tags := tags ++ ["save-" ++ o], model := "save:" ++ outName mt }
    | "save:ok" :: rest =>
      match splitObs rest with
      | none => { agree := false, model := "bad-observation", tags := tags }
      | some (itree, rest) =>
        let iload : Option (Option Doc × Bool) := match rest with
          | ["load:err"] => some (none, false)
          | "load:ok" :: eq :: dt => match parseSX dt with
            | some (x, _) => match (pDoc x).run {} with
              | some (d2, _) => some (some d2, eq = "eq:1")
              | none => none
            | none => none
          | _ => none   -- load:panic or garbage
        let treeAgree := match mview, itree with
          | none, none => true
          | some a, some b => treeEq (canon a) (canon b)
          | _, _ => false
        let loadAgree := match iload with
          | some (l, _) => decide (l = mload)
          | none => false
        let agree := outName mt == "ok" && treeAgree && loadAgree && lawsOk tab && dateImplOk tab && floatImplOk fmt32 tab.f32 && floatImplOk fmt64 tab.f64 && Spec.XmlSafe d == xmlFeats.isEmpty
        -- oracle on the implementation's own output
        let rt : List String :=
          if !wf then [] else
          match iload with
          | some (some d2, eq) => if decide (d2 = d) && eq then [] else ["roundtrip-differs"]
          | some (none, _) => ["load-fails"]
          | none => ["load-panics"]
        let rt := rt.map fun r => if fBlank then r ++ ":lib-edge-blank" else r
        let indep : List String :=
          if !wf then [] else
          let found := match itree with
            | some t => decide (Spec.specRead c t = some d)
            | none => false
          -- one failure per kind of known trouble present in the document (each is its own finding)
          if found then [] else if xmlFeats.isEmpty then ["indep-reader"] else xmlFeats.map ("indep-reader:" ++ ·)
        let m := "save:" ++ outName mt ++ " tree:" ++ (if treeAgree then "same" else "DIFFERS") ++
          " load:" ++ (match mload with | some _ => "ok" | none => "err") ++
          (if loadAgree then "" else " LOADED-DOC-DIFFERS") ++ (if lawsOk tab then "" else " CODEC-LAW")
        { agree := agree, spec := rt ++ indep, tags := tags, model := m }
    | _ => { agree := false, model := "bad-observation", tags := tags }

/-- quick-xml skips text events that are empty after trimming.  For struct elements the model ignores text
    children anyway; for the plist containers (`dict`, `array`: a text child would be read as a key) a
    white-space-only text child — an empty container written as `<dict>⏎</dict>` by another tool — is
    dropped here before `fromTree` sees the tree.  Only the load-only streams need it: norad itself writes
    `<dict/>`. -/
partial def dropBlankInContainers : Tree → Tree
  | .txt s => .txt s
  | .elem n a k =>
    let k' := k.map dropBlankInContainers
    if n = "dict" ∨ n = "array" then
      .elem n a (k'.filter fun t => match t with
        | .txt s => trimXml s != ""
        | _ => true)
    else .elem n a k'

/-- `C18L <hex file> => <tree|notxml> load:ok <doc> | load:err` -/
def runLoad (_inp obs : List String) : Verdict :=
  match splitObs obs with
  | none => { agree := false, model := "bad-observation" }
  | some (itree, rest) =>
    let impl : Option (Option (Doc × Tab)) := match rest with
      | ["load:err"] => some none
      | "load:ok" :: dt => match parseSX dt with
        | some (x, _) => ((pDoc x).run {}).map some
        | none => none
      | _ => none
    match impl, itree with
    | some none, none => { agree := true, tags := ["file", "notxml", "nt"], model := "load:err" }
    | some (some _), none => { agree := false, tags := ["file"], model := "not-xml-but-loaded" }
    | some none, some t =>
      -- without a loaded document there is no number table: the model can only be asked whether it
      -- refuses the tree for a structural reason (numbers unreadable = refusal as well)
      let m := fromTree (mkCodec {}) (dropBlankInContainers t)
      { agree := m.isNone, tags := ["file", "load-err", "nt"], model := if m.isNone then "load:err" else "load:ok" }
    | some (some (d2, tab)), some t =>
      let c := mkCodec tab
      let m := fromTree c (dropBlankInContainers t)
      { agree := decide (m = some d2),
        spec := if decide (Spec.specRead c t = some d2) || !Spec.StatedWF d2 then [] else ["indep-reader-file"],
        tags := ["file", "load-ok", "nt"], model := if m.isSome then "load:ok" else "load:err" }
    | none, _ => { agree := false, model := "bad-observation" }

/-- `C18F <seed> <doc> => surf:<f,..> alts ( F* ) ( D* ) <tree|notxml> load:ok eq:<0|1> <doc> | load:err`:
    the description `<doc>` written by an independent writer in another tool's spelling.  Oracle: what
    norad loaded equals the description.  Correspondence: `fromTree` on the xml.etree tree of that file. -/
def runForeign (inp obs : List String) : Verdict :=
  match parseSX (inp.drop 2) with
  | none => { agree := false, model := "bad-input" }
  | some (sx, _) =>
  match (pDoc sx).run {} with
  | none => { agree := false, model := "bad-doc" }
  | some (d, tab0) =>
    match obs with
    | surf :: "alts" :: rest =>
      let feats := if surf = "surf:-" then [] else ((surf.drop 5).toString.splitOn ",")
      match parseSX rest with
      | some (.l a32, rest) =>
        match parseSX rest with
        | some (.l a64, rest) =>
          let add (l : List (Nat × String)) (xs : List SX) : List (Nat × String) :=
            l ++ xs.filterMap fun x => match x with
              | .a t => numTok t
              | _ => none
          let tab : Tab := { tab0 with f32 := add tab0.f32 a32, f64 := add tab0.f64 a64 }
          let c := mkCodec tab
          let fok := floatImplOk fmt32 tab.f32 && floatImplOk fmt64 tab.f64
          let tags := ["foreign-surface", "nt"] ++ feats.map ("surf-" ++ ·) ++
            (if fok then [] else ["float-impl-differs"])
          match splitObs rest with
          | none => { agree := false, model := "bad-observation", tags := tags }
          | some (itree, rest) =>
            let iload : Option (Option Doc × Bool) := match rest with
              | ["load:err"] => some (none, false)
              | "load:ok" :: eq :: dt => match parseSX dt with
                | some (x, _) => match (pDoc x).run {} with
                  | some (d2, _) => some (some d2, eq = "eq:1")
                  | none => none
                | none => none
              | _ => none
            let m : Option Doc := match itree with
              | some t => fromTree c (dropBlankInContainers t)
              | none => none
            let agree := fok && match iload with
              | some (l, _) => decide (l = m)
              | none => false
            let ff := if feats.contains "data-wrapped" then ":data-wrapped" else ""
            let spec : List String :=
              if !Spec.StatedWF d then ["foreign-description-not-wellformed"] else
              if itree.isNone then ["foreign-writer-not-xml"] else
              match iload with
              | some (some d2, eq) => if decide (d2 = d) && eq then [] else ["foreign-differs" ++ ff]
              | some (none, _) => ["foreign-load-fails" ++ ff]
              | none => ["foreign-load-panics"]
            { agree := agree, spec := spec, tags := tags,
              model := "load:" ++ (if m.isSome then "ok" else "err") ++ (if agree then "" else " LOADED-DOC-DIFFERS") }
        | _ => { agree := false, model := "bad-observation" }
      | _ => { agree := false, model := "bad-observation" }
    | _ => { agree := false, model := "bad-observation" }

def run (inp obs : List String) : Verdict :=
  match inp.head? with
  | some "C18L" => runLoad inp obs
  | some "C18F" => runForeign inp obs
  | _ => runSave inp obs

end Driver.C18
