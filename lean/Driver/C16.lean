import Norad.Base.Proto
import Norad.Model.C16
import Norad.Spec.C16
/-!
Driver module for C16 (store histories) and for the path stream `C16path` / `C16pp`.
See `harness/src/c16.rs` for the line format.
-/
namespace Driver.C16
open Proto _root_.C16 Path

/-! ## keys as raw bytes

Unix paths are byte strings: separators, `.` and `..` are decided on bytes, equality is byte
equality.  A key travels as the hex of its bytes and is decoded to one `Char` per byte (code 0–255), so
that the path model applies unchanged to names that are not UTF-8. -/

def unhexKey (s : String) : Option (List Char) :=
  (unhex s).map fun bs => bs.map fun b => Char.ofNat b.toNat

def hexOfKey (k : List Char) : String := hexOfBytes (k.map fun c => UInt8.ofNat c.toNat)

/-! ## concrete disk of the driver: the source store directory as a flat tree -/

inductive TNode | file (b : Bytes) | dir | link (b : Bytes) | dlink
  deriving DecidableEq

abbrev Tree := List (List (List Char) × TNode)

def namesOf (s : List Char) : List (List Char) := splitSlash s

def isProperPrefix (a b : List (List Char)) : Bool := a.isPrefixOf b && a.length < b.length

/-- make every proper prefix of `p` a directory, remove `p` and everything below, then put `n` -/
def envPut (t : Tree) (p : List (List Char)) (n : Option TNode) : Tree :=
  let t1 := t.filter fun e =>
    !(isProperPrefix e.1 p && e.2 != .dir) && !(p.isPrefixOf e.1)
  match n with
  | some x => t1 ++ [(p, x)]
  | none => t1

def readTree (t : Tree) (raw : Key) : Option Bytes :=
  if dirish raw then none else
  let p := parse raw
  if p.abs || !p.allNormal then none else
  let names := p.comps.filterMap fun c => match c with | .normal s => some s | _ => none
  match t.find? (fun e => e.1 == names) with
  | some (_, .file b) => some b
  | some (_, .link b) => some b
  | _ => none

def properPrefixesOf (p : List (List Char)) : List (List (List Char)) :=
  (List.range p.length).filterMap fun i => if i = 0 then none else some (p.take i)

/-- the listing `read_dir` would produce: explicit entries plus the implied directories -/
def toListing (t : Tree) : Listing :=
  let explicit : Listing := t.map fun e => (e.1, match e.2 with
    | .file _ => NodeKind.file | .dir => NodeKind.dir | .link _ => NodeKind.symlink | .dlink => NodeKind.symlink)
  let implied := (t.flatMap fun e => properPrefixesOf e.1).eraseDups
  explicit ++ (implied.filter fun d => !(explicit.any fun e => e.1 == d)).map fun d => (d, NodeKind.dir)

/-! ## tokens -/

def sortStr (l : List String) : List String := l.mergeSort fun a b => !(b < a)

def keysTok (ks : List Key) : String := ",".intercalate (sortStr (ks.map hexOfKey))

def resTok : Except Err Bytes → String
  | .ok b => "o" ++ hexOfBytes b
  | .error _ => "e"

def iterTok (l : List (Key × Except Err Bytes)) : String :=
  ",".intercalate (sortStr (l.map fun e => hexOfKey e.1 ++ "=" ++ resTok e.2))

def sortCsv (s : String) : String := ",".intercalate (sortStr ((s.splitOn ",").filter (· ≠ "")))

def hexLoc (l : List (List Char)) : String := hexOfKey (("/".intercalate (l.map String.ofList)).toList)

def nodeTok (n : Spec.Node) : String :=
  hexLoc n.1 ++ "=" ++ String.singleton n.2.1 ++ (if n.2.1 == 'd' then "" else hexOfBytes n.2.2)

def treeTok (t : List Spec.Node) : String := ",".intercalate (sortStr (t.map nodeTok))

def parseNode (s : String) : Option Spec.Node :=
  match s.splitOn "=" with
  | [p, v] =>
    match unhexKey p, v.toList with
    | some path, k :: rest =>
      let bytes := if rest.isEmpty then some [] else unhex (String.ofList rest)
      bytes.map fun b => (splitSlash path, k, b)
    | _, _ => none
  | _ => none

def parseEntry (s : String) : Option Spec.Entry :=
  match s.splitOn "=" with
  | [k, v] =>
    match unhexKey k, v.toList with
    | some key, 'o' :: rest => (unhex (String.ofList rest)).map fun b => (key, some b)
    | some key, ['e'] => some (key, none)
    | _, _ => none
  | _ => none

def csv (s : String) : List String := (s.splitOn ",").filter (· ≠ "")

/-! ## running one history -/

structure St where
  kind : Kind
  store : Option Store := none
  tree : Tree := []
  hasTree : Bool := false
  dead : Bool := false
  frozen : Bool := false
  out : List String := []      -- model observations, reversed
  spec : List String := []
  tags : List String := []
  prevKeys : Option (List String) := none   -- implementation's key list after the previous step

def dirName : Kind → List Char := storeDirName

/-- the tree a successful save leaves when every key is a plain relative file path -/
def plainTree (kind : Kind) (ws : List WriteFile) : List Spec.Node :=
  let base : Spec.Loc := ["up".toList, "target.ufo".toList, dirName kind]
  let files : List Spec.Node := ws.map fun w =>
    (base ++ ((parse w.key).comps.filterMap fun c => match c with | .normal s => some s | _ => none), 'f', w.bytes)
  let dirs := (files.flatMap fun f => (properPrefixesOf f.1).filter fun d => base.isPrefixOf d).eraseDups
  Spec.outsideSentinels ++ dirs.map (fun d => (d, 'd', [])) ++ files

def isPlain (k : Key) : Bool := (parse k).allNormal && !(parse k).abs && !dirish k && !k.isEmpty

def specKeys (kind : Kind) (ks : List Key) : List String :=
  (if ks.all Spec.nonEmptyRelative then [] else [Spec.failure "key-empty-or-absolute" []]) ++
  (if Spec.prefixFree ks then [] else [Spec.failure "key-is-prefix-of-key" []]) ++
  (if kind == .image && !(ks.all Spec.flat) then [Spec.failure "image-key-with-directory" []] else [])

def specBytes (kind : Kind) (res : String) : List String :=
  if kind != .image then [] else
  match res.toList with
  | 'o' :: rest =>
    match unhex (String.ofList rest) with
    | some b => if Spec.isPng b then [] else [Spec.failure "image-without-png-signature" []]
    | none => []
  | _ => []

/-- contents provenance: bytes returned for a key were inserted for it or were on the disk under it -/
def provenance (toks : List String) : List (List Char × List UInt8) :=
  toks.filterMap fun t =>
    match t.splitOn ":" with
    | [c, k, b] =>
      if c = "I" || c = "W" || c = "L" then
        match unhexKey k, unhex b with
        | some key, some bytes => some (key, bytes)
        | _, _ => none
      else none
    | _ => none

def specProvenance (prov : List (List Char × List UInt8)) (k : Key) (res : String) : List String :=
  match res.toList with
  | 'o' :: rest =>
    match unhex (String.ofList rest) with
    | some b =>
      if prov.any (fun e => parse e.1 == parse k && e.2 == b) then []
      else [Spec.failure "bytes-of-unknown-origin" []]
    | none => []
  | _ => []

def stepTok (prov : List (List Char × List UInt8)) (st : St) (tok : String) (obs0 : String) : St :=
  -- `!` = the same step on the original font (the history runs on a clone) gave another observation
  let differs := obs0.startsWith "!"
  let obs := if differs then (obs0.drop 1).toString else obs0
  let st := if differs then { st with spec := st.spec ++ ["clone-behaves-differently"] } else st
  let push (st : St) (s : String) : St := { st with out := s :: st.out }
  if st.dead then push st "x" else
  let implParts := obs.splitOn "#"
  let implRes := implParts.head!
  let implKeys : Option (List Key) :=
    match implParts with
    | [_, ks] => (csv ks).mapM unhexKey
    | _ => none
  -- key clauses of the specification on the implementation's key set after this step
  let st := match implKeys with
    | some ks => { st with spec := st.spec ++ specKeys st.kind ks }
    | none => st
  let parts := tok.splitOn ":"
  let withKeys (st : St) (res : String) : St :=
    match st.store with
    | some s => push st (res ++ "#" ++ keysTok (keys s))
    | none => push st "x"
  let st' : St :=
    if tok = "NEW" then
      push { st with store := some ⟨st.kind, []⟩ } "ok#"
    else if tok = "LOAD" then
      match newStore st.kind (toListing st.tree) with
      | .ok s =>
        let hidden := (keys s).any fun k => (splitSlash k).any fun n => n.head? == some '.'
        push { st with store := some s, hasTree := true,
                       tags := "loaded" :: (if hidden then ["loaded-hidden-name"] else []) ++ st.tags }
          ("ok#" ++ keysTok (keys s))
      | .error _ => push { st with dead := true, tags := "load-refused" :: st.tags } "err"
    else if parts.head! = "W" || parts.head! = "D" || parts.head! = "M" || parts.head! = "L" || parts.head! = "X" then
      if st.frozen || (st.store.isSome && !st.hasTree) then push st "x" else
      match unhexKey (parts.getD 1 ""), (if parts.length > 2 && parts.head! != "X" then unhex (parts.getD 2 "") else some []) with
      | some p, some b =>
        let node := match parts.head! with
          | "W" => some (TNode.file b) | "M" => some TNode.dir | "L" => some (TNode.link b)
          | "X" => some TNode.dlink | _ => none
        push { st with tree := envPut st.tree (namesOf p) node,
                       tags := (if st.store.isSome then ["env"] else []) ++ st.tags } "-"
      | _, _ => push st "bad-token"
    else
      match st.store with
      | none => push st "x"
      | some s =>
        let disk : Disk := readTree st.tree
        match parts with
        | ["I", k, b] =>
          match unhexKey k, unhex b with
          | some key, some bytes =>
            let (s', r) := insert s key bytes
            let st := { st with store := some s' }
            (match r with
             | .ok _ => withKeys { st with tags := "ins-ok" :: st.tags } "k"
             | .error e => withKeys { st with tags := ("ins-" ++ reprStr e) :: st.tags } "e")
          | _, _ => push st "bad-token"
        | ["R", k] =>
          match unhexKey k with
          | some key => withKeys { st with store := some (remove s key) } "-"
          | none => push st "bad-token"
        | ["G", k] =>
          match unhexKey k with
          | some key =>
            let lazy := match find? s.items key with | some (_, .notLoaded) => true | _ => false
            let resOf (r : Option (Except Err Bytes)) : String := match r with | none => "n" | some x => resTok x
            let (sA, rA) := get s disk key
            -- A look-up of a tracked LAZY key through another spelling that differs in the trailing separator
            -- (`a/`, `a/.` for `a`: equal by components, the territory of the recorded trailing-separator finding):
            -- the code as it is reads the path HANDED IN (and caches ENOTDIR), an equally admissible implementation
            -- reads the STORED key.  The property does not say which; the correspondence accepts either and the model
            -- continues with the one observed.  The specification oracle below is not affected.
            let alt : Option (Store × Option (Except Err Bytes)) :=
              match find? s.items key with
              | some (k0, .notLoaded) =>
                if k0 != key && dirish key != dirish k0 then some (get s (fun _ => disk k0) key) else none
              | _ => none
            let agrees (m : String) : Bool := m == implRes || (m == "e" && implRes.startsWith "e.")
            let (s', r, other) : Store × Option (Except Err Bytes) × Bool :=
              match alt with
              | some (sB, rB) => if !agrees (resOf rA) && agrees (resOf rB) then (sB, rB, true) else (sA, rA, false)
              | none => (sA, rA, false)
            let res := resOf r
            withKeys { st with store := some s',
                               tags := (if other then ["get-other-spelling-reads-stored-key"] else []) ++
                                       (if lazy then ["lazy-get", "lazy-" ++ (res.take 1).toString] else []) ++ st.tags } res
          | none => push st "bad-token"
        | ["H", k] =>
          match unhexKey k with
          | some key => withKeys st (if hasKey s.items (parse key) then "1" else "0")
          | none => push st "bad-token"
        | ["C"] => withKeys { st with store := some (clear s) } "-"
        -- a clone is the same store value
        | ["CL"] => withKeys { st with tags := "clone" :: st.tags } "-"
        | ["T"] =>
          let (s', l) := iter s disk
          withKeys { st with store := some s' } ("t" ++ iterTok l)
        | ["K"] => withKeys st (toString s.items.length ++ "." ++ (if isEmpty s then "1" else "0"))
        | [stok] =>
          if !(stok == "S" || stok == "SA" || stok == "SE") then push st "bad-token" else
          let variant : Char := if stok == "SA" then 'A' else if stok == "SE" then 'E' else 'S'
          let empty : Store := ⟨(if st.kind == .data then .image else .data), []⟩
          let (stores, outcome) :=
            if st.kind == .data then saveStores s empty disk disk else saveStores empty s disk disk
          let s1 := if st.kind == .data then stores.1 else stores.2
          -- after a refused save the cells not reached stay lazy in the code; no environment step is
          -- executed afterwards, so forcing them here is unobservable
          let (s2, l) := iter s1 disk
          let st := { st with store := some s2 }
          (match outcome with
           | .refused _ =>
             withKeys { st with frozen := true, tags := "save-refused" :: ("target-" ++ stok) :: st.tags }
               ("e|" ++ treeTok (Spec.sentinelTreeOf variant) ++ "|" ++ iterTok l)
           | .panic => withKeys { st with tags := "save-panic" :: st.tags } ("p|?|" ++ iterTok l)
           | .effects ws =>
             if (keys s2).all isPlain then
               withKeys { st with tags := "save-plain" :: ("target-" ++ stok) :: st.tags }
                 ("k|" ++ treeTok (plainTree st.kind ws) ++ "|" ++ iterTok l)
             else
               withKeys { st with tags := "save-nonplain" :: st.tags } ("*|*|" ++ iterTok l))
        | _ => push st "bad-token"
  -- a successful load: the key set against the files that were put on disk
  let st' :=
    if tok = "LOAD" && implRes == "ok" then
      match implKeys with
      | some ks =>
        let nodes := (toListing st.tree).map fun e => (e.1, match e.2 with
          | NodeKind.file => 'f' | NodeKind.dir => 'd' | NodeKind.symlink => 'l')
        { st' with spec := st'.spec ++ Spec.loadFailures (st.kind == .image) nodes ks }
      | none => st'
    else st'
  -- specification clauses that need the step
  let st' :=
    match parts, st.store with
    | ["I", _, _], some _ =>
      -- a rejected insertion leaves the key set unchanged (contents are covered by later reads)
      if implRes.startsWith "e" then
        match st.prevKeys, implParts with
        | some pk, [_, ks] => if sortStr pk == sortStr (csv ks) then st'
                              else { st' with spec := st'.spec ++ [Spec.failure "rejected-insert-changed-keys" []] }
        | _, _ => st'
      else st'
    | ["G", k], some _ =>
      match unhexKey k with
      | some key => { st' with spec := st'.spec ++ specBytes st.kind implRes ++ specProvenance prov key implRes }
      | none => st'
    | ["T"], some _ =>
      let es := csv ((implRes.drop 1).toString)
      { st' with spec := st'.spec ++ es.flatMap fun (e : String) =>
          match e.splitOn "=" with
          | [k, v] => (match unhexKey k with
            | some key => specBytes st.kind v ++ specProvenance prov key v
            | none => [])
          | _ => [] }
    | [stok], some _ =>
      if !(stok == "S" || stok == "SA" || stok == "SE") then st' else
      let variant : Char := if stok == "SA" then 'A' else if stok == "SE" then 'E' else 'S'
      match implRes.splitOn "|" with
      | [r, tree, it] =>
        match (csv tree).mapM parseNode, (csv it).mapM parseEntry with
        | some nodes, some es =>
          let rc := (r.toList.headD '?')
          { st' with spec := st'.spec ++ Spec.saveFailures variant (dirName st.kind) es rc nodes ++
              es.flatMap fun (e : Spec.Entry) => match e.2 with
                | some b => specBytes st.kind ("o" ++ hexOfBytes b) ++ specProvenance prov e.1 ("o" ++ hexOfBytes b)
                | none => [] }
        | _, _ => { st' with spec := st'.spec ++ ["unparsable-save-observation"] }
      | _ => { st' with spec := st'.spec ++ ["unparsable-save-observation"] }
    | _, _ => st'
  { st' with prevKeys := match implParts with | [_, ks] => some (csv ks) | _ => st'.prevKeys }

/-- result parts: the implementation logs the error variant after a dot (`e.DirUnderFile`), which is
    not compared -/
def resAgree (m i : String) : Bool :=
  m == i || ((m == "e" || m == "err") && i.startsWith (m ++ "."))

/-- compare one model token with one implementation token -/
def tokAgree (m i : String) : Bool :=
  match m.splitOn "#", i.splitOn "#" with
  | [mr, mk], [ir, ik] =>
    sortCsv mk == sortCsv ik &&
    (match mr.splitOn "|", ir.splitOn "|" with
     | [r1, t1, e1], [r2, t2, e2] =>
       sortCsv e1 == sortCsv e2 && (r1 == "*" || (resAgree r1 r2 && sortCsv t1 == sortCsv t2))
     | [a], [b] =>
       if a.startsWith "t" && b.startsWith "t" then sortCsv (a.drop 1).toString == sortCsv (b.drop 1).toString
       else resAgree a b
     | _, _ => false)
  | [a], [b] => resAgree a b
  | _, _ => false

def run (inp obs : List String) : Verdict :=
  match inp with
  | _ :: kindTok :: toks =>
    let kind := if kindTok = "d" then Kind.data else Kind.image
    if toks.length != obs.length then { agree := false, model := "token-count-mismatch" } else
    let prov := provenance toks
    let st := (toks.zip obs).foldl (fun st p => stepTok prov st p.1 p.2) ({ kind := kind } : St)
    let model := st.out.reverse
    let agree := (model.zip obs).all fun p =>
      tokAgree p.1 (if p.2.startsWith "!" then (p.2.drop 1).toString else p.2)
    let nt := toks.any fun t => t.startsWith "I:" || t.startsWith "G:" || t = "T" || t = "S" || t = "SA" || t = "SE"
    let tags := (st.tags ++ [if kind == .data then "data" else "image",
                             "len" ++ toString (min (toks.length / 5 * 5) 30)] ++ (if nt then ["nt"] else [])).eraseDups
    { agree := agree, spec := st.spec.eraseDups, tags := tags, model := " ".intercalate model }
  | _ => { agree := false, model := "bad-line" }

/-! ## path stream -/

def compTok : Comp → String
  | .normal s => "N" ++ hexOfStr s
  | .cur => "C"
  | .parent => "P"

def pform (p : P) : String := (if p.abs then "1" else "0") ++ ":" ++ ",".intercalate (p.comps.map compTok)

def runPath (inp obs : List String) : Verdict :=
  match inp with
  | [_, h] =>
    match unhexStr h with
    | none => { agree := false, model := "bad-input" }
    | some s =>
      let p := parse s
      let img := match validateImagePath s with | .ok _ => "k" | .error _ => "e"
      let model :=
        ["P", pform p,
         "p=" ++ (match p.parent? with | none => "none" | some q => pform q),
         "f=" ++ (match p.fileName? with | none => "none" | some f => "s" ++ hexOfStr f),
         "abs=" ++ (if p.abs then "1" else "0"),
         "empty=" ++ (if p.isEmpty then "1" else "0"),
         "anc=" ++ ";".intercalate (p.ancestors.map pform),
         "img=" ++ img]
      -- specification side: the string-level facts the property's wording rests on
      let spec :=
        (if (s.isEmpty) == p.isEmpty then [] else ["empty-iff-no-components"]) ++
        (if (s.head? == some '/') == p.abs then [] else ["absolute-iff-leading-slash"])
      { agree := model == obs, spec := spec,
        tags := ["path", "len" ++ toString s.length] ++ (if s.length ≥ 2 then ["nt"] else []),
        model := " ".intercalate model }
  | _ => { agree := false, model := "bad-line" }

def runPair (inp obs : List String) : Verdict :=
  match inp with
  | [_, h1, h2] =>
    match unhexStr h1, unhexStr h2 with
    | some s, some t =>
      let p := parse s; let q := parse t
      let model := ["Q", "sw=" ++ (if p.startsWith q then "1" else "0"),
                    "eq=" ++ (if p == q then "1" else "0"),
                    "join=" ++ pform (p.join q)]
      { agree := model == obs, tags := ["pair"] ++ (if s.length ≥ 1 && t.length ≥ 1 then ["nt"] else []),
        model := " ".intercalate model }
    | _, _ => { agree := false, model := "bad-input" }
  | _ => { agree := false, model := "bad-line" }

end Driver.C16
