import Driver.FSFam
/-!
Driver module for C08.  Line format: `harness/src/c08.rs`.

Correspondence: the model `saveImpl` is run on the described font, the observed pre-state of the sandbox
and the target; its result class (ok / refused / late error / panic) and its post-state (paths, kinds, store
file contents) are compared with the implementation's.

Specification rules, evaluated on the implementation's own observation (font description, PRE, R, POST):
* `refused-save-untouched`: if one of the five refusal kinds applies to the font — with "invalid font info"
  in the specification's sense (`validate` fails **or** the writer refuses it) — the save returns an error
  and POST = PRE, bytes included.  Features: the kinds that apply (`fontinfo-angle` when the only reason is a
  font info that passes `validate`).
* `refusal-variant`: a reported refusal variant is one of the kinds that apply.
* `inplace-save-fails-on-store` (round 6): an in-place save to which no refusal kind applies ends in a panic the model does
  not predict or in `InvalidStoreEntry` (the lazy data was readable when the call started and is gone now).
* `store-files-kept`: after a successful save every store entry is a file under `T/data` / `T/images` with
  the bytes it had (for a lazy entry: the bytes on disk before the call), and nothing else is there.
-/
namespace Driver.C08
open Proto AbsFS FontSave Driver.FSFam

def storeBad (kind : StoreKind) (fs : FS String) (s : Store String) : Bool :=
  s.items.any fun kc =>
    match forceCell cfg kind fs s.root (s.items.map (·.1)) kc.1 kc.2 with
    | .loaded _ => false
    | _ => true

def applicable (f : AFont String) (toks : List String) (pre : FS String) : List String :=
  (if f.version ≠ 3 then ["version"] else []) ++
  (if hasObjectLibsKey f.lib then ["objectlibs"] else []) ++
  (if !f.groupsValid then ["groups"] else []) ++
  (if !f.info.valid then ["fontinfo"] else if fieldNat toks "is" ≠ 1 then ["fontinfo-angle"] else []) ++
  (if storeBad .data pre f.data || storeBad .images pre f.images then ["store"] else [])

def kindOfVariant (v : String) : List String :=
  if v = "Downgrade" then ["version"] else if v = "PreexistingPublicObjectLibsKey" then ["objectlibs"]
  else if v = "InvalidGroups" then ["groups"] else if v = "InvalidFontInfo" then ["fontinfo"]
  else if v = "InvalidStoreEntry" then ["store"] else []

/-- expected store files under the target: `(path, token)`; `none` token = unknown (unreadable lazy cell) -/
def expectedStoreFiles (kind : StoreKind) (pre : FS String) (t : APath) (s : Store String) :
    List (APath × Option String) :=
  s.items.filterMap fun kc =>
    if kc.1.allNormal && !kc.1.abs then
      let names := kc.1.comps.filterMap fun c => match c with | .normal n => some n | _ => none
      let tokn := match forceCell cfg kind pre s.root (s.items.map (·.1)) kc.1 kc.2 with
        | .loaded b => some b
        | _ => none
      some (t ++ [(storeDirName kind).toList] ++ names, tokn)
    else none

def storeFilesKept (kind : StoreKind) (pre post : FS String) (t : APath) (s : Store String) : Bool :=
  let exp := expectedStoreFiles kind pre t s
  let d := t ++ [(storeDirName kind).toList]
  exp.all (fun e => match e.2 with
    | some b => lookup post e.1 == some (.file b)
    | none => false) &&
  (listBelow post d).all (fun e => !e.2 || exp.any (fun x => x.1 == d ++ e.1))

def run (inp obs : List String) : Verdict :=
  let f := parseFont obs
  let pre := parseTree (field obs "PRE")
  let post := parseTree (field obs "POST")
  let t := splitPath (field obs "T")
  let r := field obs "R"
  if r = "" then { agree := false, model := "no-observation" } else
  -- model
  let (mr, mfs) := saveImpl cfg f (preForModel t pre) t
  let mList := listing mfs
  let oList := listing post
  let okClass := resClass mr == obsClass r
  -- an untouched symbolic link at the target is the model's entry-less directory (see `preForModel`)
  let oListM := listing (preForModel t post)
  let okTree := treeMatches mList oListM
  -- specification on the observation
  let app := applicable f obs pre
  let isErr := r.startsWith "err:"
  let same := listing pre == oList
  let s1 := if app.isEmpty || (isErr && same) then [] else ["refused-save-untouched:" ++ ",".intercalate app]
  let variant := (r.drop 4).toString
  let s2 := if isErr && refusalVariants.contains variant &&
      !(kindOfVariant variant).all (fun k => app.contains k) then
      ["refusal-variant:" ++ variant] else []
  let s2b := if isErr && refusalVariants.contains variant && !same then ["refusal-with-effects:" ++ variant] else []
  let s3 := if r = "ok" && !(storeFilesKept .data pre post t f.data && storeFilesKept .images pre post t f.images)
    then ["store-files-kept" ++ (if f.data.root == t then ":inplace" else "")] else []
  let kf := if r = "ok" then keepFailures f pre post t (splitPath (field obs "SRC")) (field obs "KEEP") else []
  let s4 := if kf.isEmpty then [] else
    [(if f.data.root == t || f.images.root == t || splitPath (field obs "SRC") == t then "inplace-keeps-disk-files:"
      else "loaded-store-files-saved:") ++ ",".intercalate kf]
  -- the second sentence of the property, for ANY outcome: when the target is the directory the font was loaded from and
  -- no refusal kind applies (every lazy cell was readable and valid when the call started), the save does not end in a
  -- store failure - a panic the model does not predict, or an InvalidStoreEntry
  let inpl := t ≠ [] && (splitPath (field obs "SRC") == t || f.data.root == t || f.images.root == t)
  let s5 := if inpl && app.isEmpty && ((obsClass r == "panic" && resClass mr != "panic") || (isErr && variant == "InvalidStoreEntry"))
    then ["inplace-save-fails-on-store:" ++ (if r = "panic" then "panic" else "InvalidStoreEntry")] else []
  let inplace := f.data.root == t && t ≠ []
  let tags :=
    ["pre" ++ field inp "pre", "res-" ++ obsClass r] ++
    (app.map ("kind-" ++ ·)) ++
    (if inplace then ["inplace"] else []) ++
    (if fieldNat inp "load" = 1 then ["loaded"] else ["api-built"]) ++
    (if fieldNat inp "sabot" ≠ 0 then ["sabot" ++ field inp "sabot"] else []) ++
    (if field inp "sab" ≠ "" then ["sab"] else []) ++ (if fieldNat inp "retry" ≠ 0 then ["retry"] else []) ++
    (if fieldNat inp "tsp" ≠ 0 then ["tsp" ++ field inp "tsp"] else []) ++
    (if fieldNat inp "stores" ≥ 4 then ["sizes"] else []) ++
    (if field inp "e" ≠ "" then ["edited"] else []) ++
    (if !app.isEmpty || inplace then ["nt"] else [])
  { agree := okClass && okTree,
    spec := s1 ++ s2 ++ s2b ++ s3 ++ s4 ++ s5,
    tags := tags,
    model := if okClass && okTree then resClass mr else
      s!"model-res={resClass mr} impl-res={obsClass r} tree: {if okTree then "same" else firstDiff mList oListM}" }

end Driver.C08
