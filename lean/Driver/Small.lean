import Norad.Base.Proto
import Norad.Model.Small
/-!
Driver module for the SMALL stream (`harness/src/small.rs`): the small types every mechanism depends on.
`SM <kind> <input> => <key=value observations>`.  The expectation is computed from the predicates the property models
themselves use (`Glif.validName`, `Glif.validIdent`, `Small.*`), so a change in `name.rs`, `identifier.rs`,
`shared_types.rs`, `codepoints.rs`, `guideline.rs`, `write.rs` that makes the real type differ from what the theorems
assume of it is a disagreement here, and a violated law is a specification failure with its own rule name.
-/
namespace Driver.Small
open Proto _root_.Small

def kv (obs : List String) (k : String) : String :=
  match obs.find? (·.startsWith (k ++ "=")) with
  | some t => (t.drop (k.length + 1)).toString
  | none => "?"

def b (x : Bool) : String := if x then "1" else "0"

def hexNat (s : String) : Option Nat :=
  s.toList.foldl (fun acc c => match acc, hexVal c with | some a, some d => some (a * 16 + d) | _, _ => none) (some 0)

def floatTok (s : String) : Option Float :=
  if s.length ≠ 16 then none else (hexNat s).map (fun n => Float.ofBits n.toUInt64)

def floats4 (s : String) : Option (List Float) :=
  let ts := s.splitOn ","
  if ts.length ≠ 4 then none else ts.mapM floatTok

/-- hex strings of UTF-8 bytes order like the bytes (two lower-case digits per byte), i.e. like `str` -/
def cmpHex (a c : String) : Int :=
  let a' := if a = "-" then "" else a
  let c' := if c = "-" then "" else c
  if a' = c' then 0 else if a' < c' then -1 else 1

def mk (agree : Bool) (spec : List String) (tags : List String) (model : String) : Verdict :=
  { agree := agree, spec := spec, tags := tags ++ ["nt"], model := model }

def runKind (inp obs : List String) : Verdict :=
  match inp with
  | [_, "aborted", _] => { agree := false, spec := ["panic:small,stream-aborted"], model := "-" }
  | [_, "name", h] =>
    match unhexStr h with
    | none => { agree := false, model := "bad-input" }
    | some s =>
      let v := Glif.validName s
      let flags := [kv obs "new", kv obs "fromstr", kv obs "tryfrom", kv obs "de"]
      let same := flags.all (· = kv obs "new")
      let verbatim := kv obs "disp" = h && kv obs "ser" = h && kv obs "cloneeq" = "1" && kv obs "borrow" = "1" &&
        kv obs "desame" = "1"
      let spec :=
        (if same then [] else ["small:name:constructors-disagree"]) ++
        (if kv obs "new" = b v then [] else ["small:name:valid-set"]) ++
        (if kv obs "new" = "1" && !verbatim then ["small:name:not-verbatim"] else [])
      mk (kv obs "new" = b v) spec ["sm-name", if v then "valid" else "invalid"] ("valid=" ++ b v)
  | [_, "nameord", a, c] =>
    let eq := a = c
    let order := if eq then [a] else if cmpHex a c < 0 then [a, c] else [c, a]
    let n := if eq then "1" else "2"
    let ok := kv obs "cmp" = toString (cmpHex a c) && kv obs "eq" = b eq && kv obs "btfound" = "1" && kv obs "btlen" = n &&
      kv obs "btorder" = ",".intercalate order && kv obs "hfound" = "1" && kv obs "hlen" = n && kv obs "removed" = "1"
    mk ok (if ok then [] else ["small:name:ord-hash-borrow"]) ["sm-nameord"] ("cmp=" ++ toString (cmpHex a c))
  | [_, "ident", h] =>
    match unhexStr h with
    | none => { agree := false, model := "bad-input" }
    | some s =>
      let v := Glif.validIdent s
      let verbatim := kv obs "ser" = h && kv obs "asref" = "1" && kv obs "desame" = "1"
      let deserOK := kv obs "de" ≠ "1" || kv obs "deser" = h
      let spec :=
        (if kv obs "new" = kv obs "de" then [] else ["small:ident:constructors-disagree"]) ++
        (if kv obs "new" = b v then [] else ["small:ident:valid-set"]) ++
        (if (kv obs "new" = "1" && !verbatim) || !deserOK then ["small:ident:not-verbatim"] else [])
      mk (kv obs "new" = b v) spec ["sm-ident", if v then "valid" else "invalid"] ("valid=" ++ b v)
  | [_, "identeq", a, c] =>
    let eq := a = c
    let ok := kv obs "eq" = b eq && kv obs "sizes" = (if eq then "1" else "2")
    mk ok (if ok then [] else ["small:ident:eq-hash"]) ["sm-identeq"] ("eq=" ++ b eq)
  | [_, "color", h] =>
    match floats4 h with
    | none => { agree := false, model := "bad-input" }
    | some chs =>
      let v := chs.all colorChanOK
      let backOK := match floats4 (kv obs "back") with
        | some bs => (chs.zip bs).all fun p => Float.abs (p.1 - p.2) ≤ 0.00051
        | none => false
      let spec :=
        (if kv obs "new" = b v then [] else ["small:color:range"]) ++
        (if kv obs "new" = "1" && kv obs "back" = "err" then ["small:color:own-text-unreadable"] else []) ++
        (if kv obs "new" = "1" && kv obs "back" ≠ "err" && !backOK then ["small:color:text-imprecise"] else [])
      mk (kv obs "new" = b v) spec ["sm-color", if v then "valid" else "invalid"] ("valid=" ++ b v)
  | [_, "colorstr", h] =>
    match unhexStr h with
    | none => { agree := false, model := "bad-input" }
    | some s =>
      let str := String.ofList s
      let o := obs.headD "?"
      let want : Option Bool :=
        if colorTextsAccepted.contains str then some true
        else if colorTextsRefused.contains str then some false else none
      let ok := match want with
        | some true => o.startsWith "ok:"
        | some false => o = "err"
        | none => true
      mk ok (if ok then [] else ["small:color:text-set"]) ["sm-colorstr"] (toString want)
  | [_, "cps", l] =>
    let inp := if l = "-" then [] else l.splitOn ","
    let want := dedupKeepFirst inp
    let w := if want.isEmpty then "-" else ",".intercalate want
    let ok := kv obs "iter" = w && kv obs "intoiter" = w && kv obs "via" = w
    mk ok (if ok then [] else ["small:codepoints:order"]) ["sm-cps"] w
  | [_, "gline", d, idTok] =>
    match floatTok d with
    | none => { agree := false, model := "bad-input" }
    | some deg =>
      let v := angleOK deg
      let identOK := kv obs "ident" = idTok
      let spec :=
        (if identOK then [] else ["small:guideline:identifier-lost"]) ++
        (if kv obs "validate" = b v then [] else ["small:guideline:validate-range"]) ++
        (if (kv obs "ser" = "ok") = (kv obs "validate" = "1") then [] else ["small:guideline:serialiser-disagrees-with-validate"])
      mk (kv obs "validate" = b v && identOK) spec ["sm-gline"] ("valid=" ++ b v)
  | [_, "image", h] =>
    match unhexStr h with
    | none => { agree := false, model := "bad-input" }
    | some s =>
      let v := imageNameOK s
      let spec :=
        (if kv obs "new" = b v then [] else ["small:image:name-set"]) ++
        (if kv obs "new" = kv obs "parsed" then [] else ["small:image:parser-disagrees"])
      mk (kv obs "new" = b v) spec ["sm-image"] ("valid=" ++ b v)
  | [_, "indent", n] =>
    let byte := n.toNat?.getD 0
    let v := byte = 9 || byte = 32
    let ok := kv obs "constructible" = b v && (!v || kv obs "roundtrip" = "ok")
    mk ok (if ok then [] else ["small:writeoptions:indent-byte"]) ["sm-indent"] ("constructible=" ++ b v)
  | [_, "ptype", h] =>
    match unhexStr h with
    | none => { agree := false, model := "bad-input" }
    | some s =>
      let str := String.ofList s
      let want := if pointTypeNames.contains str then "ok:" ++ h else "err"
      let ok := obs.headD "?" = want
      mk ok (if ok then [] else ["small:pointtype:names"]) ["sm-ptype"] want
  | _ => { agree := false, model := "bad-line" }

/-- a probe that panicked (or a value that made a serialiser panic) is a C03 matter whatever else it is -/
def run (inp obs : List String) : Verdict :=
  let v := runKind inp obs
  if obs.any (fun t => t.endsWith "=panic" || t = "panic") then
    { v with spec := v.spec ++ ["panic:small," ++ (inp.drop 1).headD "?"] }
  else v

end Driver.Small
