import Norad.Base.Proto
import Norad.Model.Kerning
import Driver.C15
/-!
Driver module for C10.
`C10 det <fmt> <G> <K> <L> <F> <O> <B> <X> => ok d=<#dumps> t=<#trees> sorted=<0|1> <G'> <K'> T:<hex> | err d=<n>`
The model predicts the single outcome (groups, kerning, features text); the specification demands that
the implementation produced exactly one dump and one saved tree over all loads / processes, and that
the written dictionaries are sorted.
-/
namespace Driver.C10
open Proto StrMap Driver.C15

def parseOptStr (pre : String) (tok : String) : Option (Option Str) :=
  if tok = pre ++ "!" then some none
  else if tok.startsWith (pre ++ ":") then (unhexStr (tok.drop 2).toString).map some
  else none

def parseOrder (tok : String) : Option (Option (List Str)) :=
  if tok = "O!" then some none
  else if tok.startsWith "O:" then (parseNames (tok.drop 2).toString).map some
  else none

def parseBlocks (tok : String) : Option (Option (List (Str × Str))) :=
  if tok = "B!" then some none
  else if !tok.startsWith "B:" then none
  else
    match (splitNonEmpty (tok.drop 2).toString ";").mapM (fun e =>
      match e.splitOn "=" with
      | [k, v] => match unhexStr k, unhexStr v with
        | some k', some v' => some (k', v')
        | _, _ => none
      | _ => none) with
    | some b => some (some b)
    | none => none

def field (pre : String) (toks : List String) : Option String :=
  (toks.find? (·.startsWith pre)).map (fun t => (t.drop pre.length).toString)

def run (inp obs : List String) : Verdict :=
  match inp with
  | [_, "det", fmtTok, gTok, kTok, lTok, fTok, oTok, bTok, _xTok] =>
    match fmtTok.toNat?, parseGroups gTok, parseKerning kTok, parseSet "L:" lTok,
          parseOptStr "F" fTok, parseOrder oTok, parseBlocks bTok with
    | some fmt, some g?, some k?, some L, some cls, some ord, some blk =>
      let feats : Str := if fmt == 1 && (cls.isSome || ord.isSome || blk.isSome || true)
        then Kern.featuresText cls ord blk else []
      let modelOut := match Kern.loadGroupsKerning Kern.decimal fmt g? k? L with
        | .panic s => "panic " ++ s
        | .outOfFuel => "out-of-fuel"
        | .ok (.error _) => "err"
        | .ok (.ok (g', k')) => "ok " ++ renderGroups g' ++ " " ++ renderKerning k' ++ " T:" ++ hexOfStr feats
      let implOut := match obs with
        | ["ok", _, _, _, g, k, t] => "ok " ++ g ++ " " ++ k ++ " " ++ t
        | "err" :: _ => "err"
        | _ => " ".intercalate obs
      let d := field "d=" obs
      let t := field "t=" obs
      let srt := field "sorted=" obs
      let spec : List String :=
        (if d == some "1" then [] else ["load-nondeterministic"]) ++
        (match obs with
         | "ok" :: _ => (if t == some "1" then [] else ["save-nondeterministic"]) ++
                        (if srt == some "1" then [] else ["written-plist-unsorted"])
         | "err" :: _ => []
         | _ => ["panic-or-unknown"])
      let g := g?.getD []
      let k := k?.getD []
      let legacy := fmt != 3
      let n1 := (KernSpec.sources1 g k L).length
      let n2 := (KernSpec.sources2 g k L).length
      let suff := match g? with
        | some g0 => if legacy then
            match Kern.upconvertKerning Kern.decimal g0 k L with
            | .ok o => hasSuffixed o.t1 Kern.pfx1 Kern.mmkL || hasSuffixed o.t2 Kern.pfx2 Kern.mmkR
            | _ => false
          else false
        | none => false
      let nblocks := (blk.getD []).length
      let multi := fmt == 1 && ord.isNone && nblocks ≥ 2
      let tags := ["fmt" ++ toString fmt, "src1-" ++ toString (min n1 4), "src2-" ++ toString (min n2 4),
        "blocks" ++ toString (min nblocks 4)] ++
        (if suff then ["suffixed"] else []) ++ (if multi then ["multi-block-no-order"] else []) ++
        (if ord.isSome then ["featureorder"] else []) ++
        (if suff || multi then ["nt"] else [])
      { agree := modelOut == implOut, spec := spec, tags := tags, model := modelOut }
    | _, _, _, _, _, _, _ => { agree := false, model := "bad-input" }
  | _ => { agree := false, model := "bad-line" }

end Driver.C10
