import Norad.Base.Proto
import Norad.Model.Kerning
import Driver.C15
import Norad.Model.Plist
/-!
Driver module for C10.
`C10 det <fmt> <G> <K> <L> <F> <O> <B> <X> => ok d=<#dumps> t=<#trees> sorted=<0|1> p=<#prestate trees> <G'> <K'> T:<hex> | err d=<n>`
`… <X> <E>`: `<E>` = `E:key=content,…` data-store inserts applied to every loaded font before saving.
`C10 lib <V1> <V2> => eq=<0|1> same=<0|1> lg=<0|1> W1:<V> W2:<V>`: two fonts built through the API whose
libs are V1 / V2 (`<V>` = `i<int>` | `s<hex>` | `d(<hexkey>=<V>,..)` | `a(<V>,..)`).
The model predicts the single outcome (groups, kerning, features text); the specification demands that
the implementation produced exactly one dump and one saved tree over all loads / processes, and that
the written dictionaries are sorted.
-/
namespace Driver.C10
open Proto StrMap Driver.C15

def parseOptStr (pre : String) (tok : String) : Option (Option Str) :=
  if tok = pre ++ "!" then some none
  else if tok.startsWith (pre ++ ":") then (unhexStr (tok.drop 2).toString).map some
  else none

def parseOrder (tok : String) : Option (Option (List Str)) :=
  if tok = "O!" then some none
  else if tok.startsWith "O:" then (parseNames (tok.drop 2).toString).map some
  else none

def parseBlocks (tok : String) : Option (Option (List (Str × Str))) :=
  if tok = "B!" then some none
  else if !tok.startsWith "B:" then none
  else
    match (splitNonEmpty (tok.drop 2).toString ";").mapM (fun e =>
      match e.splitOn "=" with
      | [k, v] => match unhexStr k, unhexStr v with
        | some k', some v' => some (k', v')
        | _, _ => none
      | _ => none) with
    | some b => some (some b)
    | none => none

def field (pre : String) (toks : List String) : Option String :=
  (toks.find? (·.startsWith pre)).map (fun t => (t.drop pre.length).toString)


open PlistM in
mutual
partial def parseVal : List Char → Option (PV × List Char)
  | 'i' :: cs =>
    let ds := cs.takeWhile (fun c => c == '-' || c.isDigit)
    (String.ofList ds).toInt?.map (fun n => (PV.int n, cs.drop ds.length))
  | 's' :: cs =>
    let hs := cs.takeWhile (fun c => c == '-' || (hexVal c).isSome)
    (unhexStr (String.ofList hs)).map (fun s => (PV.str s, cs.drop hs.length))
  | 'd' :: '(' :: cs => parseEntries cs []
  | 'a' :: '(' :: cs => parseItems cs []
  | _ => none
partial def parseEntries : List Char → List (Str × PV) → Option (PV × List Char)
  | ')' :: cs, acc => some (PV.dict acc.reverse, cs)
  | ',' :: cs, acc => parseEntries cs acc
  | cs, acc =>
    let ks := cs.takeWhile (· != '=')
    match cs.drop ks.length with
    | '=' :: r =>
      match unhexStr (String.ofList ks), parseVal r with
      | some k, some (v, r') => parseEntries r' ((k, v) :: acc)
      | _, _ => none
    | _ => none
partial def parseItems : List Char → List PV → Option (PV × List Char)
  | ')' :: cs, acc => some (PV.arr acc.reverse, cs)
  | ',' :: cs, acc => parseItems cs acc
  | cs, acc =>
    match parseVal cs with
    | some (v, r') => parseItems r' (v :: acc)
    | none => none
end

open PlistM in
def parseValTok (t : String) : Option PV :=
  match parseVal t.toList with
  | some (v, []) => some v
  | _ => none

open PlistM in
mutual
partial def renderVal : PV → String
  | .int n => "i" ++ toString n
  | .str s => "s" ++ hexOfStr s
  | .dict es => "d(" ++ ",".intercalate (es.map (fun e => hexOfStr e.1 ++ "=" ++ renderVal e.2)) ++ ")"
  | .arr xs => "a(" ++ ",".intercalate (xs.map renderVal) ++ ")"
end

open PlistM in
def runLib (t1 t2 : String) (obs : List String) : Verdict :=
  match parseValTok t1, parseValTok t2 with
  | some v1, some v2 =>
    let eqM := pvEq v1 v2
    let w1 := renderVal (sortRec v1)
    let w2 := renderVal (sortRec v2)
    let modelOut := "eq=" ++ (if eqM then "1" else "0") ++ " W1:" ++ w1 ++ " W2:" ++ w2
    let implOut := match obs with
      | [e, _, _, a, b] => e ++ " " ++ a ++ " " ++ b
      | _ => " ".intercalate obs
    let eqI := field "eq=" obs
    let same := field "same=" obs
    let lg := field "lg=" obs
    -- the difference of two equal fonts lies only below arrays (where the sort does not reach)?
    let onlyArrays := match field "W1:" obs, field "W2:" obs with
      | some a, some b => match parseValTok a, parseValTok b with
        | some x, some y => renderVal (stripArrays x) == renderVal (stripArrays y)
        | _, _ => false
      | _, _ => false
    let spec : List String :=
      (if eqI == some "1" && same != some "1" then
         [if onlyArrays then "equal-fonts-save-differ:dict-inside-array" else "equal-fonts-save-differ"]
       else []) ++
      (if lg == some "1" then [] else ["layer-or-glyph-lib-order-differs"]) ++
      (match obs with | "err" :: _ => ["save-failed"] | _ => [])
    let hasArrDict := renderVal (stripArrays v1) != renderVal v1
    let tags := ["lib", if eqM then "equal" else "unequal"] ++
      (if w1 != renderVal v1 || w2 != renderVal v2 then ["reordered"] else []) ++
      (if hasArrDict then ["has-array"] else []) ++
      (if w1 != w2 && eqM then ["differs-below-array"] else []) ++
      (if eqM && t1 != t2 then ["nt"] else [])
    { agree := modelOut == implOut, spec := spec, tags := tags, model := modelOut }
  | _, _ => { agree := false, model := "bad-input" }

/-- keys of the files the `X` bit 2 puts into the data directory of the generated tree -/
def diskDataKeys : List Str := ["z.txt", "a.txt", "sub/m.bin", "sub/deep/k.txt", "b.txt"].map String.toList

def parseEditKeys (tok : String) : Option (List Str) :=
  if !tok.startsWith "E:" then none
  else (splitNonEmpty (tok.drop 2).toString ",").mapM (fun e =>
    match e.splitOn "=" with
    | [k, _] => unhexStr k
    | _ => none)

def hasAlias (ks : List (List Str)) : Bool :=
  match ks with
  | [] => false
  | k :: r => r.contains k || hasAlias r

/-- `C10 dup <a> <b> <same>`: a shared identifier inside one glyph (any two object kinds) or between the two
    fontinfo guidelines must be refused, every time; a fontinfo guideline and a glyph guideline are different
    scopes.  The outcome class must be the same in every load and, when ok, the fonts and their saves equal. -/
def runDup (a b same : String) (obs : List String) : Verdict :=
  let refused := same == "1" && !(a == "F" && b != "F") && !(a != "F" && b == "F")
  let expected := if refused then "err" else "ok"
  let cls := obs.head?.getD "?"
  let d := field "d=" obs
  let t := field "t=" obs
  let spec : List String :=
    (if d == some "1" then [] else ["load-nondeterministic:outcome-of-refused-tree"]) ++
    (if cls == "ok" && t != some "1" then ["save-nondeterministic"] else []) ++
    (if cls != "ok" && cls != "err" then ["panic-or-unknown"] else [])
  { agree := cls == expected, spec := spec,
    tags := ["dup", "dup-" ++ a ++ b, if refused then "refused-tree" else "accepted-tree", "nt"], model := expected }

def run (inp obs : List String) : Verdict :=
  match inp with
  | [_, "lib", t1, t2] => runLib t1 t2 obs
  | [_, "dup", a, b, same] => runDup a b same obs
  | [_, "det", fmtTok, gTok, kTok, lTok, fTok, oTok, bTok, xTok, eTok] =>
    match fmtTok.toNat?, parseGroups gTok, parseKerning kTok, parseSet "L:" lTok,
          parseOptStr "F" fTok, parseOrder oTok, parseBlocks bTok with
    | some fmt, some g?, some k?, some L, some cls, some ord, some blk =>
      let feats : Str := if fmt == 1 && (cls.isSome || ord.isSome || blk.isSome || true)
        then Kern.featuresText cls ord blk else []
      let modelOut := match Kern.loadGroupsKerning Kern.decimal fmt g? k? L with
        | .panic s => "panic " ++ s
        | .outOfFuel => "out-of-fuel"
        | .ok (.error _) => "err"
        | .ok (.ok (g', k')) => "ok " ++ renderGroups g' ++ " " ++ renderKerning k' ++ " T:" ++ hexOfStr feats
      let implOut := match obs with
        | ["ok", _, _, _, _, g, k, t] => "ok " ++ g ++ " " ++ k ++ " " ++ t
        | "err" :: _ => "err"
        | _ => " ".intercalate obs
      let d := field "d=" obs
      let t := field "t=" obs
      let srt := field "sorted=" obs
      let pre := field "p=" obs
      let xbits := ((xTok.drop 2).toString.toNat?).getD 0
      let editKeys := (parseEditKeys eTok).getD []
      let storeKeys := editKeys ++ (if (xbits / 2) % 2 == 1 then diskDataKeys else [])
      let alias := !editKeys.isEmpty && hasAlias (storeKeys.map PlistM.normKey)
      let spec : List String :=
        (if d == some "1" then [] else ["load-nondeterministic"]) ++
        (match obs with
         | "ok" :: _ => (if t == some "1" then []
                         else [if alias then "save-nondeterministic:store-keys-alias" else "save-nondeterministic"]) ++
                        (if srt == some "1" then [] else ["written-plist-unsorted"]) ++
                        (if pre == some "1" then [] else ["save-depends-on-target-prestate"])
         | "err" :: _ => []
         | _ => ["panic-or-unknown"])
      let g := g?.getD []
      let k := k?.getD []
      let legacy := fmt != 3
      let n1 := (KernSpec.sources1 g k L).length
      let n2 := (KernSpec.sources2 g k L).length
      let suff := match g? with
        | some g0 => if legacy then
            match Kern.upconvertKerning Kern.decimal g0 k L with
            | .ok o => hasSuffixed o.t1 Kern.pfx1 Kern.mmkL || hasSuffixed o.t2 Kern.pfx2 Kern.mmkR
            | _ => false
          else false
        | none => false
      let nblocks := (blk.getD []).length
      let multi := fmt == 1 && ord.isNone && nblocks ≥ 2
      -- a tag of the order list without an exact key (must be ignored) / with one (must win)
      let orderMiss := fmt == 1 && blk.isSome && (ord.getD []).any (fun t => !hasKey t (blk.getD []))
      let orderExact := fmt == 1 && blk.isSome && (ord.getD []).any (fun t => hasKey t (blk.getD []))
      let tags := ["fmt" ++ toString fmt, "src1-" ++ toString (min n1 4), "src2-" ++ toString (min n2 4),
        "blocks" ++ toString (min nblocks 4)] ++
        (if suff then ["suffixed"] else []) ++ (if multi then ["multi-block-no-order"] else []) ++
        (if ord.isSome then ["featureorder"] else []) ++
        (if orderMiss then ["order-miss"] else []) ++ (if orderMiss && nblocks ≥ 2 then ["order-miss-multi"] else []) ++
        (if orderExact && nblocks ≥ 3 then ["order-exact-among-variants"] else []) ++
        (if !editKeys.isEmpty then ["store-inserts"] else []) ++ (if alias then ["store-alias"] else []) ++
        (if suff || multi || alias || (orderMiss && nblocks ≥ 2) then ["nt"] else [])
      { agree := modelOut == implOut, spec := spec, tags := tags, model := modelOut }
    | _, _, _, _, _, _, _ => { agree := false, model := "bad-input" }
  | _ => { agree := false, model := "bad-line" }

end Driver.C10
