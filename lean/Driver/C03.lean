import Norad.Base.Proto
/-!
Driver module for the C03 support streams (`harness/src/c03.rs`): mutated glif / plist / designspace /
UFO-tree inputs and API-built values.  There is no model prediction for arbitrary bytes: the line is an
oracle-only check — the implementation must answer `ok` or `err`, never `panic:*`, `abort:*`, `timeout`.
(The modelled entry points are covered by the no-panic theorems of `Props/C03.lean`; these streams are
sampling, labelled as such in the evidence.)
-/
namespace Driver.C03
open Proto

def specialKinds : List String :=
  ["layer-dotdot-with-contents", "file-missing", "file-is-dir", "file-symlink-loop"]

def run (inp obs : List String) : Verdict :=
  match inp, obs with
  | _ :: stream :: kind :: _, o :: _ =>
    let kindClass := ((kind.splitOn ":").headD kind)
    let feats : List String :=
      -- parameterised API families report as one rule per family (the replay is the shortest failing member)
      if stream = "api" then ["api", if kind.startsWith "wopt-" then "wopt" else if kind.startsWith "olib-" then "olib" else kind]
      else if stream = "deep" then [kind]
      else if specialKinds.contains kindClass || kindClass = "layer-path" || kindClass = "glif-path" then [stream, kindClass]
      else [stream]
    let spec :=
      if o.startsWith "panic:" then ["panic:" ++ ",".intercalate (feats ++ [(o.drop 6).toString])]
      else if o.startsWith "abort" then ["abort:" ++ ",".intercalate feats]
      else if o = "timeout" then ["hang:" ++ ",".intercalate feats]
      else if o = "ok" || o = "err" then []
      else ["harness-problem:" ++ o]
    { agree := true, spec := spec,
      tags := ["stream-" ++ stream, "out-" ++ ((o.splitOn ":").headD o)] ++
              (if stream = "glif" || stream = "designspace" || stream = "tree" then ["mut-" ++ kindClass] else []) ++
              (if kind ≠ "none" then ["nt"] else []),
      model := "-" }
  | _, _ => { agree := false, model := "bad-line" }

end Driver.C03
