import Norad.Base.Proto
import Norad.Spec.C11
/-! Driver module for C11: `C11 <fmt> :<c1>,<c2>.. => ok :<idx>=<c>,.. | err <kind> | panic` -/
namespace Driver.C11
open Proto _root_.C11

def ptOfChar (c : Char) : Option Pt :=
  match c with
  | 'm' => some ⟨.move, false⟩ | 'M' => some ⟨.move, true⟩
  | 'l' => some ⟨.line, false⟩ | 'L' => some ⟨.line, true⟩
  | 'o' => some ⟨.off, false⟩ | 'O' => some ⟨.off, true⟩
  | 'c' => some ⟨.curve, false⟩ | 'C' => some ⟨.curve, true⟩
  | 'q' => some ⟨.qcurve, false⟩ | 'Q' => some ⟨.qcurve, true⟩
  | _ => none

def charOfPt (p : Pt) : Char :=
  let c := match p.typ with
    | .move => 'm' | .line => 'l' | .off => 'o' | .curve => 'c' | .qcurve => 'q'
  if p.smooth then c.toUpper else c

/-- a contour token: one letter per point, `'` after a letter = the point carries a name -/
def parseContourN : List Char → Option (List (Pt × Bool))
  | [] => some []
  | c :: '\'' :: r => match ptOfChar c, parseContourN r with
    | some p, some t => some ((p, true) :: t)
    | _, _ => none
  | c :: r => match ptOfChar c, parseContourN r with
    | some p, some t => some ((p, false) :: t)
    | _, _ => none

def parseContoursTok (tok : String) : Option (List (List (Pt × Bool))) :=
  if !tok.startsWith ":" then none else
  let body := (tok.drop 1).toString
  if body = "" then some [] else (body.splitOn ",").mapM (fun s => parseContourN s.toList)

def renderContourN (c : List (Pt × Bool)) : String :=
  String.ofList (c.flatMap fun e => if e.2 then [charOfPt e.1, '\''] else [charOfPt e.1])

def renderKept (kept : List (Nat × List (Pt × Bool))) (anchors : List Nat) : String :=
  ":" ++ ",".intercalate (kept.map fun e => toString e.1 ++ "=" ++ renderContourN e.2) ++
  " A:" ++ ",".intercalate (anchors.map toString)

def run (inp obs : List String) : Verdict :=
  match inp with
  | [_, fmt, ctok] =>
    match parseContoursTok ctok with
    | none => { agree := false, model := "bad-input" }
    | some cs =>
      -- `<fmt>` or `<fmt>@<attribute order>`: the order is the harness's business, the model does not depend on it
      let v1 := (fmt.splitOn "@").headD "" = "1"
      let plain := cs.map (·.map Prod.fst)
      -- model
      let modelOut := match parseOutline v1 cs with
        | none => "err"
        | some (kept, anchors) => "ok " ++ renderKept kept anchors
      -- implementation observation, reduced to the compared part
      let implOut := match obs with
        | "ok" :: rest => "ok " ++ " ".intercalate rest
        | "err" :: _ => "err"
        | _ => " ".intercalate obs
      -- specification oracle on the implementation's verdict, independent of the builder model:
      -- accepted ⇔ every contour legal; returned = the non-empty inputs, in order, point for point, names
      -- where they were - except (format 1 only) the contours that are exactly one named move point, which
      -- must come back as anchors
      let allLegal := plain.all legalB
      let ne := (enumFrom 0 cs).filter (fun e => !e.2.isEmpty)
      let isAnchor := fun (c : List (Pt × Bool)) => v1 && (match c with
        | [(p, true)] => p.typ == .move
        | _ => false)
      let expKept := ne.filter (fun e => !isAnchor e.2)
      let expAnch := (ne.filter (fun e => isAnchor e.2)).map (·.1)
      let spec :=
        match obs with
        | "ok" :: rest =>
          (if allLegal then [] else ["accepted-illegal"]) ++
          (if " ".intercalate rest = renderKept expKept expAnch then [] else ["returned-contours-differ"])
        | "err" :: _ => if allLegal then ["rejected-legal"] else []
        | _ => ["panic-or-unknown"]
      let tags :=
        [if allLegal then "legal" else "illegal",
         "contours" ++ toString (min cs.length 4),
         "maxlen" ++ toString (min ((cs.map List.length).foldl max 0) 10)] ++
        (if plain.any (fun c => isClosed c && !c.isEmpty && trailOffs c > 0) then ["wrap"] else []) ++
        (if plain.any (fun c => c.any (·.smooth)) then ["smooth"] else []) ++
        (if cs.any (fun c => c.any (·.2)) then ["named"] else []) ++
        (if !expAnch.isEmpty then ["v1-anchor"] else []) ++
        (if plain.any (fun c => c.length ≥ 250) then ["long-run"] else []) ++
        (if cs.any List.isEmpty then ["empty-contour"] else []) ++
        (if cs.any (fun c => c.length ≥ 2) then ["nt"] else [])
      { agree := modelOut == implOut, spec := spec, tags := tags, model := modelOut }
  | _ => { agree := false, model := "bad-line" }

end Driver.C11
