import Norad.Base.Proto
import Norad.Spec.C11
/-! Driver module for C11: `C11 <fmt> :<c1>,<c2>.. => ok :<idx>=<c>,.. | err <kind> | panic` -/
namespace Driver.C11
open Proto _root_.C11

def ptOfChar (c : Char) : Option Pt :=
  match c with
  | 'm' => some ⟨.move, false⟩ | 'M' => some ⟨.move, true⟩
  | 'l' => some ⟨.line, false⟩ | 'L' => some ⟨.line, true⟩
  | 'o' => some ⟨.off, false⟩ | 'O' => some ⟨.off, true⟩
  | 'c' => some ⟨.curve, false⟩ | 'C' => some ⟨.curve, true⟩
  | 'q' => some ⟨.qcurve, false⟩ | 'Q' => some ⟨.qcurve, true⟩
  | _ => none

def charOfPt (p : Pt) : Char :=
  let c := match p.typ with
    | .move => 'm' | .line => 'l' | .off => 'o' | .curve => 'c' | .qcurve => 'q'
  if p.smooth then c.toUpper else c

def parseContour (s : String) : Option (List Pt) := s.toList.mapM ptOfChar

def parseContoursTok (tok : String) : Option (List (List Pt)) :=
  if !tok.startsWith ":" then none else
  let body := (tok.drop 1).toString
  if body = "" then some [] else (body.splitOn ",").mapM parseContour

/-- render the kept contours with their original index, as the harness does -/
def renderKept (cs : List (List Pt)) : String :=
  let rec go (i : Nat) : List (List Pt) → List String
    | [] => []
    | c :: r => if c.isEmpty then go (i + 1) r
                else (toString i ++ "=" ++ String.ofList (c.map charOfPt)) :: go (i + 1) r
  ":" ++ ",".intercalate (go 0 cs)

def run (inp obs : List String) : Verdict :=
  match inp with
  | [_, _fmt, ctok] =>
    match parseContoursTok ctok with
    | none => { agree := false, model := "bad-input" }
    | some cs =>
      -- model
      let modelOut := match parseContours cs with
        | none => "err"
        | some _ => "ok " ++ renderKept cs
      -- implementation observation, reduced to the compared part
      let implOut := match obs with
        | "ok" :: rest => "ok " ++ " ".intercalate rest
        | "err" :: _ => "err"
        | _ => " ".intercalate obs
      -- specification oracle on the implementation's verdict, independent of the model:
      -- accepted ⇔ every contour legal; returned = non-empty inputs, in order
      let allLegal := cs.all legalB
      let spec :=
        match obs with
        | "ok" :: rest =>
          (if allLegal then [] else ["accepted-illegal"]) ++
          (if " ".intercalate rest = renderKept cs then [] else ["returned-contours-differ"])
        | "err" :: _ => if allLegal then ["rejected-legal"] else []
        | _ => ["panic-or-unknown"]
      let tags :=
        [if allLegal then "legal" else "illegal",
         "contours" ++ toString (min cs.length 4),
         "maxlen" ++ toString (min ((cs.map List.length).foldl max 0) 10)] ++
        (if cs.any (fun c => isClosed c && !c.isEmpty && trailOffs c > 0) then ["wrap"] else []) ++
        (if cs.any (fun c => c.any (·.smooth)) then ["smooth"] else []) ++
        (if cs.any List.isEmpty then ["empty-contour"] else []) ++
        (if cs.any (fun c => c.length ≥ 2) then ["nt"] else [])
      { agree := modelOut == implOut, spec := spec, tags := tags, model := modelOut }
  | _ => { agree := false, model := "bad-line" }

end Driver.C11
