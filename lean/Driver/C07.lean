import Norad.Base.Proto
import Norad.Model.C07
import Norad.Spec.C07
/-! Driver module for C07:
`C07 <pre> <suf> <name> <upper> <lowmap> <mode> => ok <result> <n>:<calls> | panic <n>:<calls> | panic-other ..`
(see `harness/src/c07.rs`).  `U` and `lower` are instantiated from the tables on the line (names with
capital sigma: `lower` from the whole-string lower-casings the closure really saw). -/
namespace Driver.C07
open Proto _root_.C07

inductive Mode
  | kth (n : Nat)
  | taken (l : List Str)

def parseHexList (s : String) : Option (List Str) :=
  if s = "" then some [] else (s.splitOn ",").mapM unhexStr

def parseMode (tok : String) : Option Mode :=
  if tok.startsWith "k" then (tok.drop 1).toString.toNat?.map Mode.kth
  else if tok.startsWith "s:" then (parseHexList (tok.drop 2).toString).map Mode.taken
  else none

def parseLowMap (tok : String) : Option (List (Char × Str)) :=
  if tok = "-" then some [] else
  (tok.splitOn ",").mapM fun e =>
    match e.splitOn "=" with
    | [a, b] =>
      match unhexStr a, unhexStr b with
      | some [c], some l => some (c, l)
      | _, _ => none
    | _ => none

def parseCalls (tok : String) : Option (List Str) :=
  match tok.splitOn ":" with
  | [n, body] =>
    match n.toNat?, parseHexList body with
    | some k, some l => if l.length = k then some l else none
    | _, _ => none
  | _ => none

def acceptOf : Mode → Nat → Str → Bool
  | .kth n, k, _ => k == n
  | .taken l, _, s => !l.contains s

/-- the strings the closure is called with according to the model: lower-cased candidates
    0, 1, .. up to and including the first accepted one, at most 100 -/
def modelCalls (lower : Str → Str) (accept : Nat → Str → Bool) (cand : Nat → Str) :
    Nat → Nat → List Str
  | 0, _ => []
  | fuel + 1, k =>
    let s := lower (cand k)
    if accept k s then [s] else s :: modelCalls lower accept cand fuel (k + 1)

def callsTok (l : List Str) : String :=
  toString l.length ++ ":" ++ ",".intercalate (l.map hexOfStr)

def run (inp obsAll : List String) : Verdict :=
  -- optional last token `T:<hex>,..`: the true whole-string lower-casings of the offered candidates
  let tTok : Option String := match obsAll.getLast? with
    | some t => if t.startsWith "T:" then some (t.drop 2).toString else none
    | none => none
  let obs : List String := if tTok.isSome then obsAll.dropLast else obsAll
  match inp with
  | [_, preT, sufT, nameT, upT, lowT, modeT] =>
    match unhexStr preT, unhexStr sufT, unhexStr nameT, unhexStr upT, parseLowMap lowT,
          parseMode modeT with
    | some pre, some suf, some name, some ups, some lowMap, some mode =>
      let U : Char → Bool := fun c => ups.contains c
      let lowerChar : Char → Str := fun c =>
        match lowMap.find? (·.1 == c) with
        | some (_, l) => l
        | none => [c]
      -- `str::to_lowercase` is the per-character map except for capital sigma, which becomes final
      -- sigma depending on its context.  `lower` is therefore instantiated from what was REALLY offered:
      -- the whole-string lower-casings the closure saw (echoed on the line), looked up modulo the two
      -- lower-case sigmas; a string that is not among them (or an observed string that is not a
      -- lowering of it up to the sigma form) falls back to the per-character map.
      let lowerPC : Str → Str := fun s => s.flatMap lowerChar
      let sig : Str → Str := fun s => s.map fun c => if c == 'ς' then 'σ' else c
      let obsCalls : List Str := match obs with
        | ["ok", _, cT] => (parseCalls cT).getD []
        | [_, cT] => (parseCalls cT).getD []
        | _ => []
      -- the table of TRUE lower-casings sent by the harness when there is one (so a function that lower-cases
      -- differently from `str::to_lowercase` disagrees with the model), else what the closure saw
      let trueLower : List Str := match tTok with
        | some t => (parseHexList t).getD obsCalls
        | none => obsCalls
      let obsTable : List (Str × Str) := trueLower.map fun l => (sig l, l)
      let hasSigma := name.any (· == 'Σ')
      let lower : Str → Str := fun s =>
        let pc := lowerPC s
        if !hasSigma then pc else
        match obsTable.find? (·.1 == sig pc) with
        | some (_, l) => l
        | none => pc
      let accept := acceptOf mode
      -- model
      let res := userNameToFileName U lower name pre suf accept
      let b := body U name pre suf
      let cb := counterBase U name pre suf
      let mcalls := modelCalls lower accept (candidateFrom b cb suf) 100 0
      let modelOut := match res with
        | some r => "ok " ++ hexOfStr r ++ " " ++ callsTok mcalls
        | none => "panic " ++ callsTok mcalls
      let implOut := " ".intercalate obs
      -- specification oracle on the implementation's own observation
      let isGlif := pre.isEmpty && suf == glifSuffix
      let isLayer := pre == layerPrefix && suf.isEmpty
      let wrapper := isGlif || isLayer
      let valid := decide (Spec.ValidName name)
      let spec : List String :=
        match obs with
        | ["ok", rT, cT] =>
          match unhexStr rT, parseCalls cT with
          | some r, some calls =>
            let n := calls.length
            let last := calls.getLast?.getD []
            let dotsp := (takeBytes 248 name).all isDotSp   -- exact guard, `fileName_affixes_layer_iff`
            let feat (fs : List (Bool × String)) : String :=
              let on := (fs.filter (·.1)).map (·.2)
              if on.isEmpty then "" else ":" ++ ",".intercalate on
            -- the seven predicates; those that need norad-controlled affixes only for the wrappers
            (if valid && wrapper && !decide (Spec.SingleComponent r) then ["comp"] else []) ++
            (if valid && wrapper && !decide (Spec.NoLeadingPeriod r) then ["lead"] else []) ++
            (if valid && wrapper && !decide (Spec.NoTrailingPeriodOrSpace r) then ["trail"] else []) ++
            (if valid && wrapper && !decide (Spec.HasAffixes pre suf r) then
               ["affix" ++ feat [(dotsp, "dotsp-name"), (!decide (pre <+: r), "prefix"),
                                 (!decide (suf <:+ r), "suffix")]] else []) ++
            (if valid && wrapper && !decide (Spec.NotReserved r) then ["reserved"] else []) ++
            -- never a rejected candidate: the closure's last call was for this very result
            -- (lower-cased) and that call is the one it accepted; every earlier call was rejected
            (let okLast := n > 0 && last == lower r && accept (n - 1) last
             let okEarlier := (List.range (n - 1)).all fun i => !accept i (calls.getD i [])
             if okLast && okEarlier && n ≤ 100 then [] else
               ["accepted" ++ feat [(!(n > 0 && last == lower r), "not-the-offered-string"),
                                    (!(n > 0 && accept (n - 1) last), "rejected"),
                                    (!okEarlier, "skipped-an-accepted"), (n > 100, "over-100")]]) ++
            (if valid && !decide (Spec.Len255 r) then
               ["len255" ++ feat [(n > 1, "clash"), (Spec.utf8Len r > 257, "gt257"),
                                  (!suf.isEmpty, "suffix")]] else [])
          | _, _ => ["bad-observation"]
        | ["panic", cT] =>
          match parseCalls cT with
          | some calls =>
            -- the documented panic is allowed only after 100 rejected candidates
            if calls.length = 100 && (List.range 100).all (fun i => !accept i (calls.getD i []))
            then [] else ["accepted:early-panic"]
          | none => ["bad-observation"]
        | _ => ["panic-other"]
      -- tags (model side)
      let r0 := pre ++ escape U pre.isEmpty name
      let r1 := insertReserved r0
      let clipped := usize r1 + usize suf > maxLen
      let r2 := if clipped then takeBytes (maxLen - usize suf) r1 else r1
      let ncalls := mcalls.length
      let tags :=
        [if isGlif then "glif" else if isLayer then "layer" else "other-affix",
         match mode with | .kth _ => "stateful" | .taken _ => "taken-set",
         if res.isNone then "panic100" else
           if ncalls = 1 then "clash0" else if ncalls = 2 then "clash1" else if ncalls = 3 then "clash2"
           else if ncalls = 99 then "clash98" else if ncalls = 100 then "clash99" else "clash3-97"] ++
        (if r0 != pre ++ name then ["escaped"] else []) ++
        (if r1 != r0 then ["reserved-word"] else []) ++
        (if clipped then ["clipped"] else []) ++
        (if clipped && usize r2 < maxLen - usize suf then ["straddle"] else []) ++
        (if b != r2 then ["trailfix"] else []) ++
        (if cb != b then ["counter-cut"] else []) ++
        (if name.any (fun c => c.utf8Size > 1) then ["multibyte"] else []) ++
        (if name.any (fun c => U c && c.utf8Size > 1) then ["upper-nonascii"] else []) ++
        (if name.any (fun c => (lowerChar c).length > 1 || usize (lowerChar c) != c.utf8Size)
          then ["lower-resizes"] else []) ++
        (if hasSigma then ["capital-sigma"] else []) ++
        (if hasSigma && mcalls.any (fun l => l.any (· == 'ς')) then ["final-sigma"] else []) ++
        (if !valid then ["invalid-name"] else []) ++
        (if r0 != pre ++ name || r1 != r0 || clipped || b != r2 || ncalls > 1 then ["nt"] else [])
      { agree := modelOut == implOut, spec := spec, tags := tags, model := modelOut }
    | _, _, _, _, _, _ => { agree := false, model := "bad-input" }
  | _ => { agree := false, model := "bad-line" }

end Driver.C07
