import Norad.Props.C11
