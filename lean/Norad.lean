import Norad.Props.C11
import Norad.Props.C06
import Norad.Props.C05
