import Norad.Props.C11
import Norad.Props.C06
import Norad.Props.C08
import Norad.Props.C17
import Norad.Props.C09
