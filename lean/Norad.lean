import Norad.Props.C11
import Norad.Props.C13
import Norad.Props.C14
