import Norad.Props.C11
import Norad.Props.C15
import Norad.Props.C10
