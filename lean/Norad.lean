import Norad.Props.C11
import Norad.Props.C12
import Norad.Props.C02
