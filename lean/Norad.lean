import Norad.Props.C11
import Norad.Props.C06
import Norad.Props.C03
import Norad.Props.C18
import Norad.Props.C20
import Norad.Props.C07
import Norad.Props.C07Containers
