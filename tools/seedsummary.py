#!/usr/bin/env python3
"""summarise seedbatch logs: one line per seed: id, demo-without, demo-with, verdict"""
import re, sys
for f in sys.argv[1:]:
    cur = None
    rows = []
    for line in open(f):
        m = re.match(r"===== (C\d+) seed (r\d-\d)", line)
        if m:
            cur = {"id": m.group(1) + "-" + m.group(2), "wo": "?", "w": "?", "viol": 0, "exit": "?", "nofail": False, "stage": 0, "extra": ""}
            rows.append(cur); continue
        if cur is None: continue
        if line.startswith("--- demo WITHOUT"): cur["stage"] = 1
        elif line.startswith("--- demo WITH"): cur["stage"] = 2
        elif line.startswith("test result") and cur["stage"] in (1, 2):
            k = "wo" if cur["stage"] == 1 else "w"
            cur[k] = "ok" if "test result: ok" in line else "FAIL"
            cur["stage"] = 0 if cur["stage"] == 2 else cur["stage"]
        elif line.startswith("test result") and "FAILED" in line:
            cur["extra"] += " SUITE-FAILS"
        elif line.startswith("VIOLATION"):
            cur["viol"] += 1
            if "no-failing-input-found" in line: cur["nofail"] = True
        elif line.startswith("["):
            m = re.search(r"exit=(\d+)", line)
            if m: cur["exit"] = m.group(1)
            else: cur["exit"] = "1" if cur["viol"] else "0"   # status line cut before exit=
            m = re.search(r"obligations=(\d+) discharged=(\d+)", line)
            if m and m.group(1) != m.group(2): cur["extra"] += " obligations %s/%s" % (m.group(2), m.group(1))
        elif "PATCH" in line or "error" in line or "tooling" in line:
            cur["extra"] += " " + line.strip()[:60]
    for r in rows:
        benign = r["id"].endswith("-3") and any(t in r["id"] for t in ("r3", "r4", "r5"))
        if r["exit"] == "?": verdict = "(running)"
        elif benign: verdict = "quiet" if r["exit"] == "0" else ("ALARM(no-failing-input)" if r["nofail"] and r["viol"] == 1 else "ALARM(concrete)")
        else: verdict = "CAUGHT" if r["exit"] == "1" else "ESCAPED"
        print(f"{r['id']:10s} demo without={r['wo']:4s} with={r['w']:4s} exit={r['exit']} violations={r['viol']:3d} {verdict}{r['extra']}")
