#!/usr/bin/env python3
"""C01 / C04: pull the table-shaped part of norad's write and read paths out of the Rust source and regenerate
lean/Norad/Generated/RoundTrip.lean (DESIGN 3.5 / 11.8).  What is written under a gate and what the reader
assumes when it is absent must be mutually inverse; the `source_*` theorems of Props/C01.lean, C04.lean and
C01Bridge.lean (by `decide`) say so about the source of THIS run.

Sections (each falls back to its pinned copy in tools/pinned/RoundTrip.lean when an ANCHOR - a function, a
`push_attribute` site, a file constant - is not found: a refactor is never an alarm, the result then says
`extraction: pinned`).  Policy, as for every other extractor: a condition or expression whose SHAPE the translator
does not know makes that ROW fall back to its pinned value (reported in `pinned_sections` with the reason; the
behavioural tie is then the only one for that row); a KNOWN shape with different CONTENT (`!x` for `x`, `!= 0.0` for
the identity test, `len() > 1` for `!is_empty()`, `<` for `<=`) is extracted as it is and fails the tie theorem.

  glifWriter         src/glyph/serialize.rs: per glif element and attribute the value at which the attribute is
                     omitted (`-` = always written, none / false / true / 0 / 1 / offcurve / cond:..) and the formatting
                     used (str, display = f64 Display, rgba3, lit:yes, pointtype, hex:04X, path); rows sorted
  glifWriterOrder    the order in which the attributes of each element are pushed (informational: the reader does
                     not depend on it, no theorem does)
  glifElementGates   when a whole element is omitted (advance, image, outline, lib, note; lists are `each`)
  glifReaderDefaults src/glyph/parse.rs + src/glyph/mod.rs: what every attribute is when it is absent (the
                     initial value of the variable its match arm assigns; AffineTransform::default via identity())
                     and the field defaults of Glyph::new_impl for absent elements
  fileGates          src/font.rs save_impl, src/layer.rs layerinfo_to_file_if_needed: the optional files and the
                     condition under which each is not written; the two keys of layerinfo.plist
  absentReads        src/font.rs load_impl, src/layer.rs load_impl / parse_layer_info: what load gives when the
                     file (or key) is absent; FontInfo::is_empty
  numberWriters      src/kerning.rs, src/fontinfo.rs (after the fix commits): comparison operator, threshold constant,
                     what is cast, range bounds of the three int-or-float writers; decimals of the colour string
"""
import os
import re
import sys

ROOT = os.path.dirname(os.path.dirname(os.path.abspath(__file__)))
OUT = os.path.join(ROOT, "lean", "Norad", "Generated", "RoundTrip.lean")
PINNED = os.path.join(ROOT, "tools", "pinned", "RoundTrip.lean")


class NotFound(Exception):
    pass


class UnknownShape(Exception):
    """a condition / expression the translator cannot read: the row falls back to its pinned value"""
    pass


# set by generate(): the pinned tables (for row-level fall-back) and the list of rows that fell back
CTX = {"pinned": {}, "rows": []}


def pinned_rows(section, width):
    """the rows of a pinned table as tuples of strings"""
    text = CTX["pinned"].get(section, "")
    rows = []
    for m in re.finditer(r"[⟨(]((?:\"(?:[^\"\\]|\\.)*\"\s*,\s*){%d}\"(?:[^\"\\]|\\.)*\")[⟩)]" % (width - 1), text):
        rows.append(tuple(x.replace('\\"', '"').replace("\\\\", "\\") for x in re.findall(r"\"((?:[^\"\\]|\\.)*)\"", m.group(1))))
    return rows


def row_fallback(section, key, width, reason):
    for r in pinned_rows(section, width):
        if r[:len(key)] == key:
            CTX["rows"].append("%s row %s (%s)" % (section, ".".join(key), reason))
            return r
    raise NotFound("%s row %s: %s, and no pinned row" % (section, ".".join(key), reason))


def strip_comments(src):
    src = re.sub(r"/\*.*?\*/", "", src, flags=re.S)
    return re.sub(r"//[^\n]*", "", src)


def match_brace(src, i):
    """index just after the brace block opening at src[i] == '{'"""
    depth, j = 1, i + 1
    while depth and j < len(src):
        c = src[j]
        if c == '"':
            j += 1
            while j < len(src) and src[j] != '"':
                j += 2 if src[j] == "\\" else 1
        elif c == "'" and re.match(r"'(\\.|[^\\'])'", src[j:j + 4]):
            j += len(re.match(r"'(\\.|[^\\'])'", src[j:j + 4]).group(0)) - 1
        else:
            depth += {"{": 1, "}": -1}.get(c, 0)
        j += 1
    if depth:
        raise NotFound("unbalanced block")
    return j


def fn_body(src, name, after=0):
    m = re.compile(r"\bfn\s+" + re.escape(name) + r"\b").search(src, after)
    if not m:
        raise NotFound("fn " + name)
    i = src.find("{", m.end())
    if i < 0:
        raise NotFound("fn " + name)
    return src[i:match_brace(src, i)]


def impl_fn(src, typ, name):
    for m in re.finditer(r"\bimpl\s+" + typ + r"\s*\{", src):
        blk = src[m.end() - 1:match_brace(src, m.end() - 1)]
        if re.search(r"\bfn\s+" + name + r"\b", blk):
            return fn_body(blk, name)
    raise NotFound("impl %s { fn %s }" % (typ, name))


def blocks(body):
    """every `if` / `match` / `for` of `body` with header text, block span and (for `if`) the else span"""
    out = []
    for m in re.finditer(r"\b(if|match|for)\b", body):
        i = body.find("{", m.end())
        if i < 0:
            continue
        # the header may not contain ';' (then the '{' belongs to something else)
        header = body[m.end():i]
        if ";" in header:
            continue
        try:
            j = match_brace(body, i)
        except NotFound:
            continue
        els = None
        mm = re.match(r"\s*else\s*\{", body[j:])
        if m.group(1) == "if" and mm:
            k = j + mm.end() - 1
            els = (k, match_brace(body, k))
        out.append((m.group(1), header.strip(), i, j, els))
    return out


def sanitize(text):
    t = re.sub(r"\s+", "", text)
    t = re.sub(r"[^A-Za-z0-9_.!=<>&|():+\-*,']", "_", t)
    return t[:80]


PATH = r"[A-Za-z_][A-Za-z0-9_]*(?:\.[A-Za-z_][A-Za-z0-9_]*)*(?:\(\))?"


def omitted_of_if(header):
    h = re.sub(r"\s+", "", header)
    if re.fullmatch(r"letSome\(.*\)=.*", h):
        return "none"
    m = re.fullmatch(r"(" + PATH + r")!=(-?[0-9]+)\.?([0-9]*)", h)
    if m:
        return m.group(2) if not m.group(3).strip("0") else m.group(2) + "." + m.group(3)
    m = re.fullmatch(r"\((" + PATH + r")-([0-9]+)\.?0*\)\.abs\(\)>f64::EPSILON", h)
    if m:
        return m.group(2)
    if re.fullmatch(r"!" + PATH + r"\.is_empty\(\)", h):
        return "empty"
    if re.fullmatch(r"!" + PATH + r"\.is_empty\(\)\|\|!" + PATH + r"\.is_empty\(\)", h):
        return "both-empty"
    if re.fullmatch(PATH + r"\.is_normal\(\)\|\|" + PATH + r"\.is_normal\(\)", h):
        return "neither-normal"
    if re.fullmatch(PATH, h):
        return "false"
    if re.fullmatch(r"!" + PATH, h):
        return "true"
    m = re.fullmatch(r"(" + PATH + r")!=(?:[A-Za-z_]+::)+([A-Za-z_]+)", h)
    if m:
        return m.group(2).lower()
    m = re.fullmatch(r"(" + PATH + r")\.len\(\)(>|>=|!=|==|<|<=)([0-9]+)", h)
    if m:
        # a test on the length that is not the emptiness test: known shape, other content
        if (m.group(2), m.group(3)) in ((">", "0"), ("!=", "0"), (">=", "1")):
            return "empty"
        return "len-not-%s%s" % ({">": "gt", ">=": "ge", "!=": "ne", "==": "eq", "<": "lt", "<=": "le"}[m.group(2)], m.group(3))
    raise UnknownShape("condition `%s`" % sanitize(header))


def gate_at(body, pos):
    """the value at which the site at `pos` is skipped: innermost enclosing if / match / for"""
    best = None
    for kind, header, i, j, els in blocks(body):
        if i < pos < j:
            cand = (i, kind, header, False, i, j)
        elif els and els[0] < pos < els[1]:
            cand = (els[0], kind, header, True, els[0], els[1])
        else:
            continue
        if best is None or cand[0] > best[0]:
            best = cand
    if best is None:
        return "-"
    _, kind, header, in_else, i, j = best
    if kind == "for":
        return "each"
    if kind == "if":
        if in_else:
            raise UnknownShape("else branch of `%s`" % sanitize(header))
        return omitted_of_if(header)
    # match: the patterns of the arms that do nothing
    arms = body[i + 1:j - 1]
    empty = re.findall(r"([A-Za-z_:|\s]+?)\s*=>\s*(?:\{\s*\}|\(\s*\))\s*,?", arms)
    if not empty:
        raise UnknownShape("match on `%s` without an empty arm" % sanitize(header))
    names = []
    for pat in empty:
        for alt in pat.split("|"):
            names.append(alt.strip().split("::")[-1].lower())
    return "|".join(sorted(names))


def fmt_of(expr, body):
    e = re.sub(r"\s+", "", expr)
    m = re.fullmatch(r'"([^"\\]*)"', e)
    if m:
        return "lit:" + m.group(1)
    if ".to_rgba_string()" in e:
        return "rgba3"
    if ".to_string()" in e:
        return "display"
    if re.search(r"typ\.as_str\(\)", e):
        return "pointtype"
    if ".to_str()" in e:
        return "path"
    m = re.fullmatch(r"([a-z_]+)\.as_str\(\)", e)
    if m:
        mm = re.search(r"\blet\s+" + m.group(1) + r"\s*=\s*format!\(\s*\"\{:([0-9A-Za-z]+)\}\"", body)
        if mm:
            return "hex:" + mm.group(1)
        return "str"
    if e.startswith("&*") or e.endswith(".as_str()"):
        return "str"
    raise UnknownShape("expression `%s`" % sanitize(expr))


ATTR_SITE = re.compile(r"\.push_attribute\(\(\s*\"(\w+)\"\s*,\s*((?:[^()]|\((?:[^()]|\([^()]*\))*\))*?)\)\)", re.S)


def attr_rows(body, elem, transform_rows):
    rows, order = [], []
    sites = [(m.start(), m.group(1), m.group(2)) for m in ATTR_SITE.finditer(body)]
    for m in re.finditer(r"\bwrite_transform_attributes\(", body):
        sites.append((m.start(), None, None))
    if not sites:
        raise NotFound("no push_attribute in the writer of <%s>" % elem)
    for pos, attr, expr in sorted(sites):
        if attr is None:
            try:
                g = gate_at(body, pos)
                if g != "-":
                    raise UnknownShape("transform attributes written under a gate")
                for (_, a, om, f) in transform_rows:
                    rows.append((elem, a, om, f))
                    order.append(a)
            except UnknownShape as ex:
                for (_, a, om, f) in transform_rows:
                    rows.append(row_fallback("glifWriter", (elem, a), 4, str(ex)))
                    order.append(a)
        else:
            try:
                rows.append((elem, attr, gate_at(body, pos), fmt_of(expr, body)))
            except UnknownShape as ex:
                rows.append(row_fallback("glifWriter", (elem, attr), 4, str(ex)))
            order.append(attr)
    return rows, order


def lean_s(s):
    return '"' + s.replace("\\", "\\\\").replace('"', '\\"') + '"'


def glif_writer_tables(ser):
    tbody = fn_body(ser, "write_transform_attributes")
    trows, _ = attr_rows(tbody, "transform", [])
    rows, orders = [], []
    for typ, fn, elem in (("Guideline", "to_event", "guideline"), ("Anchor", "to_event", "anchor"),
                          ("Component", "to_event", "component"), ("Contour", "write_xml", "contour"),
                          ("ContourPoint", "to_event", "point"), ("Image", "to_event", "image")):
        body = impl_fn(ser, typ, fn)
        if not re.search(r'BytesStart::new\(\s*"%s"\s*\)' % elem, body):
            raise NotFound('BytesStart::new("%s")' % elem)
        r, o = attr_rows(body, elem, trows)
        rows += r
        orders.append((elem, o))
    ub = fn_body(ser, "char_to_event")
    r, o = attr_rows(ub, "unicode", trows)
    rows += r
    orders.append(("unicode", o))
    # glyph and advance attributes live in encode_xml_impl
    gb = fn_body(ser, "encode_xml_impl")
    adv = re.search(r'BytesStart::new\(\s*"advance"\s*\)', gb)
    gly = re.search(r'BytesStart::new\(\s*"glyph"\s*\)', gb)
    if not adv or not gly:
        raise NotFound("advance / glyph start tag in encode_xml_impl")
    for m in ATTR_SITE.finditer(gb):
        # the attribute belongs to the closest start tag before it
        elem = "advance" if m.start() > adv.start() and (m.start() - adv.start()) < 600 else "glyph"
        try:
            g = gate_at(gb, m.start())
            if elem == "advance":
                # the gate of the element itself is reported in glifElementGates; here the gate inside it
                inner = [b for b in blocks(gb) if b[2] < m.start() < b[3]]
                inner.sort(key=lambda b: b[2])
                g = omitted_of_if(inner[-1][1]) if inner and inner[-1][2] > adv.start() else "-"
            rows.append((elem, m.group(1), g, fmt_of(m.group(2), gb)))
        except UnknownShape as ex:
            rows.append(row_fallback("glifWriter", (elem, m.group(1)), 4, str(ex)))
    orders.append(("glyph", [m.group(1) for m in ATTR_SITE.finditer(gb) if m.start() < adv.start()]))
    orders.append(("advance", [m.group(1) for m in ATTR_SITE.finditer(gb) if m.start() > adv.start()]))
    return rows, orders, gb


def sec_glif_writer(src):
    rows, _, _ = glif_writer_tables(src["ser"])
    rows = sorted(set(rows))
    return ("def glifWriter : List WRow :=\n  [" +
            ",\n   ".join("⟨%s, %s, %s, %s⟩" % tuple(lean_s(x) for x in r) for r in rows) + "]\n")


def sec_glif_order(src):
    _, orders, _ = glif_writer_tables(src["ser"])
    return ("def glifWriterOrder : List (String × List String) :=\n  [" +
            ",\n   ".join("(%s, [%s])" % (lean_s(e), ", ".join(lean_s(a) for a in o)) for e, o in orders) + "]\n")


def sec_glif_elements(src):
    _, _, gb = glif_writer_tables(src["ser"])
    sites = {
        "advance": r'BytesStart::new\(\s*"advance"\s*\)',
        "image": r"\bimage\.to_event\(\)",
        "outline": r'BytesStart::new\(\s*"outline"\s*\)',
        "lib": r"\bwrite_lib_section\(",
        "note": r'BytesStart::new\(\s*"note"\s*\)',
        "unicode": r"\bchar_to_event\(",
        "anchor": r"\banchor\.to_event\(\)",
        "guideline": r"\bguide\w*\.to_event\(\)",
        "contour": r"\bcontour\.write_xml\(",
        "component": r"\bcomponent\.to_event\(\)",
    }
    rows = []
    for elem, pat in sites.items():
        m = re.search(pat, gb)
        if not m:
            raise NotFound("site of <%s> in encode_xml_impl" % elem)
        try:
            g = gate_at(gb, m.start())
            if elem == "lib" and g == "both-empty":
                # `if !self.lib.is_empty() || !object_libs.is_empty()`: what is written is the lib plus the object
                # libs, so "both empty" is "the written lib is empty"
                hdr = [b[1] for b in blocks(gb) if b[2] < m.start() < b[3]]
                hs = sorted(re.sub(r"\s+", "", hdr[-1]).split("||")) if hdr else []
                if hs == ["!object_libs.is_empty()", "!self.lib.is_empty()"]:
                    g = "empty"
            rows.append((elem, g))
        except UnknownShape as ex:
            rows.append(row_fallback("glifElementGates", (elem,), 2, str(ex)))
    return ("def glifElementGates : List (String × String) :=\n  [" +
            ", ".join("(%s, %s)" % (lean_s(a), lean_s(b)) for a, b in sorted(rows)) + "]\n")


INIT = {"None": "none", "false": "false", "true": "true", "PointType::OffCurve": "offcurve", "Plist::new()": "empty",
        "Vec::new()": "empty", "Default::default()": "empty"}


def norm_init(expr):
    e = re.sub(r"\s+", "", expr)
    if e in INIT:
        return INIT[e]
    m = re.fullmatch(r"(-?[0-9]+)\.?([0-9]*)", e)
    if m:
        return m.group(1) if not m.group(2).strip("0") else m.group(1) + "." + m.group(2)
    m = re.fullmatch(r"PointType::(\w+)", e)
    if m:
        return m.group(1).lower()
    return "init:" + sanitize(expr)


def sec_glif_reader(src):
    try:
        import extract_glif_parser  # the glif builder's extractor, if it has landed
        if hasattr(extract_glif_parser, "reader_defaults"):
            rows = extract_glif_parser.reader_defaults(src["repo"])
            return reader_rows_to_lean(sorted(set(rows)))
    except ImportError:
        pass
    par, mod = src["par"], src["mod"]
    ident = fn_body(mod, "identity")
    tdef = {}
    for m in re.finditer(r"\b(\w+)\s*:\s*(-?[0-9]+\.?[0-9]*)", ident):
        tdef[m.group(1)] = norm_init(m.group(2))
    if not re.search(r"impl\s+(?:std::default::)?Default\s+for\s+AffineTransform", mod) or not tdef:
        raise NotFound("AffineTransform::default / identity")
    rows = []
    for fn, elem in (("parse_point", "point"), ("parse_anchor", "anchor"), ("parse_guideline", "guideline"),
                     ("parse_component", "component"), ("parse_image", "image"), ("parse_advance", "advance"),
                     ("parse_contour", "contour")):
        body = fn_body(par, fn)
        inits = {}
        for m in re.finditer(r"\blet\s+mut\s+(\w+)\s*(?::\s*[^=;]+?)?=\s*([^;]+);", body):
            inits[m.group(1)] = m.group(2)
        # only the arms of `match attr.key.as_ref() { .. }`
        arms = ""
        for m in re.finditer(r"match\s+attr\.key\.as_ref\(\)\s*\{", body):
            arms += body[m.end() - 1:match_brace(body, m.end() - 1)]
        if not arms:
            raise NotFound("match attr.key.as_ref() in " + fn)
        attrs = re.findall(r'b"(\w+)"', arms)
        if not attrs:
            raise NotFound("no attribute arm in " + fn)
        for attr in dict.fromkeys(attrs):
            m = re.search(r'b"%s"\s*=>\s*\{?\s*([a-z_]+(?:\.[a-z_]+)?)\s*=(?!=)' % attr, body)
            var = m.group(1) if m else None
            if var is None:
                low = attr[0].lower() + attr[1:]
                cand = [v for v in inits if v == low or v == attr.lower()]
                var = cand[0] if cand else None
            if var is None:
                rows.append((elem, attr, "required"))
                continue
            base, _, field = var.partition(".")
            if base not in inits:
                raise NotFound("initial value of `%s` in %s" % (base, fn))
            init = re.sub(r"\s+", "", inits[base])
            if field:
                if init != "AffineTransform::default()" or field not in tdef:
                    raise NotFound("default of %s in %s" % (var, fn))
                rows.append((elem, attr, tdef[field]))
            else:
                rows.append((elem, attr, norm_init(inits[base])))
    # absent elements: the fields of Glyph::new_impl
    nb = fn_body(mod, "new_impl")
    gf = {}
    for m in re.finditer(r"\b(\w+)\s*:\s*([^,\n]+),", nb):
        gf[m.group(1)] = norm_init(m.group(2))
    for field, elem in (("width", "glyph.width"), ("height", "glyph.height"), ("note", "glyph.note"),
                        ("image", "glyph.image"), ("lib", "glyph.lib"), ("contours", "glyph.contours"),
                        ("components", "glyph.components"), ("anchors", "glyph.anchors"),
                        ("guidelines", "glyph.guidelines"), ("codepoints", "glyph.codepoints")):
        if field not in gf:
            raise NotFound("field %s of Glyph::new_impl" % field)
        rows.append(("glyph", field, gf[field]))
    return reader_rows_to_lean(sorted(set(rows)))


def reader_rows_to_lean(rows):
    return ("def glifReaderDefaults : List RRow :=\n  [" +
            ",\n   ".join("⟨%s, %s, %s⟩" % tuple(lean_s(x) for x in r) for r in rows) + "]\n")


FILES = (("fontinfo.plist", "FONTINFO_FILE"), ("lib.plist", "LIB_FILE"), ("groups.plist", "GROUPS_FILE"),
         ("kerning.plist", "KERNING_FILE"), ("features.fea", "FEATURES_FILE"), ("data", "DATA_DIR"),
         ("images", "IMAGES_DIR"))


def file_const(src, const, expect):
    m = re.search(r"\b(?:static|const)\s+" + const + r"\s*:\s*&(?:'static\s+)?str\s*=\s*\"([^\"\\]*)\"", src["font"])
    if not m:
        raise NotFound(const)
    return m.group(1)


DIRECT_WRITE = re.compile(r"(?:write::write_xml_to_file|close_already::fs::write|(?:std::)?fs::write|"
                          r"(?:std::)?fs::create_dir(?:_all)?)\(&?[A-Za-z_][A-Za-z0-9_]*")


def in_block(body, pos):
    return any(i < pos < j or (els and els[0] < pos < els[1]) for _, _, i, j, els in blocks(body))


def file_gate_at(body, pos, end):
    """gate of the file whose path is built at `pos` (`<p>.join(CONST)`, ending at `end`).  Inside an `if` the header of
    that `if` is the gate (gate_at).  OUTSIDE every `if` the file counts as written unconditionally ("-", which fails the
    tie) only when the text says so itself: the path goes straight into one of the known writing calls, or it is
    bound by `let` and that variable is used outside every block.  A path handed to some other function, or bound
    and used only inside a loop / condition further down, is an UNKNOWN shape (the gate lives elsewhere)."""
    g = gate_at(body, pos)
    if g not in ("-", "each"):
        return g
    start = max(body.rfind(c, 0, pos) for c in ";{}") + 1
    stmt = re.sub(r"\s+", "", body[start:pos])
    if DIRECT_WRITE.fullmatch(stmt):
        return g
    m = re.fullmatch(r"let(?:mut)?([A-Za-z_][A-Za-z0-9_]*)(?::[^=]+)?=&?[A-Za-z_][A-Za-z0-9_]*", stmt)
    if m and re.match(r"\s*;", body[end:]):
        var = m.group(1)
        uses = [u.start() for u in re.finditer(r"\b" + var + r"\b", body[end:])]
        if uses and all(not in_block(body, end + u) for u in uses):
            return g
        raise UnknownShape("`%s` is bound outside every `if` and used inside a nested block" % var)
    raise UnknownShape("path of an optional file built in `%s…` outside every `if`" % sanitize(stmt[:40]))


def sec_file_gates(src):
    body = fn_body(src["font"], "save_impl")
    rows = []
    for _, const in FILES:
        name = file_const(src, const, None)
        m = re.search(r"\.join\(\s*" + const + r"\s*\)", body)
        if not m:
            raise NotFound("path.join(%s) in save_impl" % const)
        try:
            rows.append((name, file_gate_at(body, m.start(), m.end())))
        except UnknownShape as ex:
            rows.append(row_fallback("fileGates", (name,), 2, str(ex)))
    lb = fn_body(src["layer"], "layerinfo_to_file_if_needed")
    m = re.search(r"\bif\s+([^{]+)\{\s*return\s+Ok\(\(\)\)\s*;\s*\}", lb)
    if not m:
        raise NotFound("early return of layerinfo_to_file_if_needed")
    cond = re.sub(r"\s+", "", m.group(1))
    keyrows = {}
    for key in ("color", "lib"):
        mm = re.search(r'\.insert\(\s*"%s"\.into\(\)' % key, lb)
        if not mm:
            raise NotFound('dict.insert("%s") in layerinfo_to_file_if_needed' % key)
        try:
            keyrows[key] = gate_at(lb, mm.start())
        except UnknownShape as ex:
            keyrows[key] = row_fallback("fileGates", ("layerinfo.plist:" + key,), 2, str(ex))[1]
    if cond in ("self.color.is_none()&&self.lib.is_empty()", "self.lib.is_empty()&&self.color.is_none()"):
        g = "color-none-and-lib-empty"
    elif (re.fullmatch(r"\w+\.is_empty\(\)", cond) and len(re.findall(r"\b" + cond.split(".")[0] + r"\.insert\(", lb)) == 2
          and lb.find(m.group(0)) > max(lb.find('"color".into()'), lb.find('"lib".into()'))):
        # the dictionary is built first and nothing is written when it is empty: the file is skipped exactly when
        # neither key was inserted, i.e. under the conjunction of the two key gates
        g = {("none", "empty"): "color-none-and-lib-empty"}.get((keyrows["color"], keyrows["lib"]))
        if g is None:
            g = "color-%s-and-lib-%s" % (keyrows["color"], keyrows["lib"])
    else:
        g = row_fallback("fileGates", ("layerinfo.plist",), 2, "condition `%s`" % sanitize(m.group(1)))[1]
    rows.append(("layerinfo.plist", g))
    for key in ("color", "lib"):
        rows.append(("layerinfo.plist:" + key, keyrows[key]))
    return ("def fileGates : List (String × String) :=\n  [" +
            ",\n   ".join("(%s, %s)" % (lean_s(a), lean_s(b)) for a, b in sorted(rows)) + "]\n")


def sec_absent_reads(src):
    body = fn_body(src["font"], "load_impl")
    rows = []
    var_of = {"fontinfo.plist": "font_info", "lib.plist": "lib", "groups.plist": "groups", "kerning.plist": "kerning",
              "features.fea": "features", "data": "data", "images": "images"}
    for _, const in FILES:
        name = file_const(src, const, None)
        var = var_of[name]
        m = re.search(r"\blet\s+(?:mut\s+)?" + var + r"\s*=\s*if\b", body)
        if not m:
            raise NotFound("`let %s = if ..` in load_impl" % var)
        i = body.find("{", m.end())
        j = match_brace(body, i)
        if "exists()" not in body[m.end():i]:
            raise NotFound("exists() test for " + name)
        mm = re.match(r"\s*else\s*\{", body[j:])
        if not mm:
            raise NotFound("else branch for " + name)
        k = j + mm.end() - 1
        els = re.sub(r"\s+", "", body[k + 1:match_brace(body, k) - 1])
        if els == "None":
            # the Option is opened at the end: `groups: groups.unwrap_or_default()`
            if re.search(r"\b" + var + r"\s*:\s*" + var + r"\.unwrap_or_default\(\)", body):
                els = "Default::default()"
            else:
                raise NotFound("%s.unwrap_or_default()" % var)
        rows.append((name, norm_init(els)))
    # layerinfo.plist absent, and its two keys absent
    lb = fn_body(src["layer"], "load_impl")
    m = re.search(r"if\s+layerinfo_path\.exists\(\)\s*\{", lb)
    if not m:
        raise NotFound("layerinfo_path.exists() in Layer::load_impl")
    j = match_brace(lb, m.end() - 1)
    mm = re.match(r"\s*else\s*\{\s*\(([^)]*(?:\(\))?[^)]*)\)\s*\}", lb[j:])
    if not mm:
        raise NotFound("else branch of the layerinfo test")
    parts = [norm_init(p) for p in re.split(r",\s*(?![^()]*\))", mm.group(1))]
    rows.append(("layerinfo.plist", "+".join(parts)))
    pb = fn_body(src["layer"], "parse_layer_info")
    m = re.search(r"struct\s+LayerInfoHelper\s*\{(.*?)\}", pb, flags=re.S)
    if not m:
        raise NotFound("LayerInfoHelper")
    helper = m.group(1)
    mc = re.search(r"((?:#\[[^\]]*\]\s*)*)color\s*:\s*([^,\n]+)", helper)
    ml = re.search(r"((?:#\[[^\]]*\]\s*)*)lib\s*:\s*([^,\n]+)", helper)
    if not mc or not ml:
        raise NotFound("fields of LayerInfoHelper")
    rows.append(("layerinfo.plist:color", "none" if mc.group(2).strip().startswith("Option<") else "required"))
    rows.append(("layerinfo.plist:lib", "empty" if "serde(default)" in re.sub(r"\s+", "", ml.group(1)) else "required"))
    # FontInfo::is_empty is "equal to the default value"
    ie = re.sub(r"\s+", "", fn_body(src["fontinfo"], "is_empty"))
    is_default = ie in ("{self==&Self::default()}", "{*self==Self::default()}", "{self==&FontInfo::default()}")
    out = ("def absentReads : List (String × String) :=\n  [" +
           ",\n   ".join("(%s, %s)" % (lean_s(a), lean_s(b)) for a, b in sorted(rows)) + "]\n")
    out += "/-- `FontInfo::is_empty` is `self == &Self::default()` -/\ndef fontinfoEmptyIsDefault : Bool := %s\n" % str(is_default).lower()
    return out


CONSTS = {"f64::EPSILON": ("epsilonDen", 4503599627370496), "i32::MAX": ("i32Max", 2147483647), "i32::MIN": ("i32Min", -2147483648)}
OPS = {"<": "lt", "<=": "le", ">": "gt", ">=": "ge"}


def sec_numbers(src):
    ker, fi, ser = src["kerning"], src["fontinfo"], src["ser"]
    out = []
    # kerning
    kb = ker
    m = re.search(r"let\s+(\w+)\s*=\s*v\.(\w+)\(\)\s*;", kb)
    if not m:
        raise NotFound("let rounded = v.round() in kerning.rs")
    rv, rfn = m.group(1), m.group(2)
    t = re.search(r"\(\s*v\s*-\s*" + rv + r"\s*\)\.abs\(\)\s*(<=|<)\s*([\w:]+)", kb)
    lo = re.search(rv + r"\s*(>=|>)\s*(i32::MIN)\s+as\s+f64", kb)
    hi = re.search(rv + r"\s*(<=|<)\s*(i32::MAX)\s+as\s+f64", kb)
    cast = re.search(r"&\(\s*\*?(\w+)(?:\.(\w+)\(\))?\s+as\s+i32\s*\)", kb)
    if not (t and lo and hi and cast):
        raise NotFound("kerning integer test / range / cast")
    out.append(("kerning", rfn, OPS[t.group(1)], t.group(2), OPS[lo.group(1)] + " " + lo.group(2), OPS[hi.group(1)] + " " + hi.group(2),
                "rounded" if cast.group(1) == rv else ("raw" if not cast.group(2) else cast.group(2))))
    # font info IntegerOrFloat (serde_impls)
    sb = fi[fi.find("mod serde_impls"):]
    if not sb:
        raise NotFound("mod serde_impls")
    t = re.search(r"self\.0\.(\w+)\(\)\.abs\(\)\s*(<=|<)\s*([\w:]+)", sb)
    lo = re.search(r"self\.0\s*(>=|>)\s*(i32::MIN)\s+as\s+f64", sb)
    hi = re.search(r"self\.0\s*(<=|<)\s*(i32::MAX)\s+as\s+f64", sb)
    cast = re.search(r"serialize_i32\(\s*self\.0(?:\.(\w+)\(\))?\s+as\s+i32\s*\)", sb)
    if not (t and lo and hi and cast):
        raise NotFound("font-info integer test / range / cast")
    out.append(("fontinfo", t.group(1), OPS[t.group(2)], t.group(3), OPS[lo.group(1)] + " " + lo.group(2), OPS[hi.group(1)] + " " + hi.group(2),
                cast.group(1) or "raw"))
    # unitsPerEm
    ib = fn_body(fi, "is_integer")
    t = re.search(r"self\.0\.(\w+)\(\)\.abs\(\)\s*(<=|<)\s*([\w:]+)", ib)
    im = re.search(r"impl\s+Serialize\s+for\s+NonNegativeIntegerOrFloat", fi)
    if not t or not im:
        raise NotFound("is_integer / Serialize for NonNegativeIntegerOrFloat")
    ub = fi[im.end():match_brace(fi, fi.find("{", im.end()))]
    hi = re.search(r"self\.is_integer\(\)\s*&&\s*self\.0\s*(<=|<)\s*(i32::MAX)\s+as\s+f64", ub)
    cast = re.search(r"serialize_i32\(\s*self\.0(?:\.(\w+)\(\))?\s+as\s+i32\s*\)", ub)
    if not (hi and cast):
        raise NotFound("unitsPerEm range / cast")
    out.append(("unitsPerEm", t.group(1), OPS[t.group(2)], t.group(3), "-", OPS[hi.group(1)] + " " + hi.group(2), cast.group(1) or "raw"))
    used = set()
    for r in out:
        for c in (r[3], r[4].split(" ")[-1], r[5].split(" ")[-1]):
            if c in CONSTS:
                used.add(c)
            elif c != "-":
                raise NotFound("constant " + c)
    text = ("def numberWriters : List NRow :=\n  [" +
            ",\n   ".join("⟨" + ", ".join(lean_s(x) for x in r) + "⟩" for r in out) + "]\n")
    for c in ("f64::EPSILON", "i32::MAX", "i32::MIN"):
        if c not in used:
            raise NotFound(c + " not used by the writers")
        n, v = CONSTS[c]
        text += "/-- `%s`%s -/\ndef %s : Int := %d\n" % (c, " = 1 / this" if n == "epsilonDen" else "", n, v)
    m = re.search(r"write!\(\s*&mut\s+\w+\s*,\s*\"\{:\.([0-9]+)\}\"", fn_body(ser, "to_rgba_string"))
    if not m:
        raise NotFound("{:.N} in to_rgba_string")
    text += "/-- decimals of a colour channel in `Color::to_rgba_string` -/\ndef colorDecimals : Nat := %s\n" % m.group(1)
    return text


SECTIONS = [("glifWriter", sec_glif_writer), ("glifWriterOrder", sec_glif_order), ("glifElementGates", sec_glif_elements),
            ("glifReaderDefaults", sec_glif_reader), ("fileGates", sec_file_gates), ("absentReads", sec_absent_reads),
            ("numberWriters", sec_numbers)]

HEADER = """/-!
GENERATED by tools/extract_roundtrip.py from norad's src/glyph/serialize.rs, src/glyph/parse.rs, src/glyph/mod.rs,
src/font.rs, src/layer.rs, src/fontinfo.rs and src/kerning.rs on every `./check` run.  Do not edit.  A pinned copy of
every section lives in tools/pinned/RoundTrip.lean and is used for a section whose anchor in the source is not found
(a refactor is not an alarm).  Core Lean only.
-/
namespace Generated.RoundTrip

/-- writer row: element, attribute, the value at which the attribute is omitted (`-` = always written), formatting -/
structure WRow where
  elem : String
  attr : String
  omitted : String
  fmt : String
  deriving DecidableEq, Repr

/-- number writer: which writer, function under the integer test, comparison, threshold, lower bound, upper bound,
    what is cast to i32 -/
structure NRow where
  writer : String
  fn : String
  cmp : String
  threshold : String
  lower : String
  upper : String
  cast : String
  deriving DecidableEq, Repr

/-- reader row: element, attribute, what the attribute is when it is absent -/
structure RRow where
  elem : String
  attr : String
  dflt : String
  deriving DecidableEq, Repr

"""


def split_sections(text):
    out = {}
    for m in re.finditer(r"-- BEGIN (\w+)\n(.*?)-- END \1\n", text, flags=re.S):
        out[m.group(1)] = m.group(2)
    return out


def generate(repo):
    pinned = split_sections(open(PINNED).read()) if os.path.exists(PINNED) else {}
    CTX["pinned"], CTX["rows"] = pinned, []
    src, err = {"repo": repo}, None
    try:
        for key, rel in (("ser", "src/glyph/serialize.rs"), ("par", "src/glyph/parse.rs"), ("mod", "src/glyph/mod.rs"),
                         ("font", "src/font.rs"), ("layer", "src/layer.rs"), ("fontinfo", "src/fontinfo.rs"),
                         ("kerning", "src/kerning.rs")):
            src[key] = strip_comments(open(os.path.join(repo, rel)).read())
    except OSError as ex:
        err = ex
    parts, fell_back = [], []
    for name, f in SECTIONS:
        try:
            if err is not None:
                raise NotFound(str(err))
            before = len(CTX["rows"])
            body = f(src)
            for r in dict.fromkeys(CTX["rows"][before:]):
                if r not in fell_back:
                    fell_back.append(r)
        except (NotFound, UnknownShape, IndexError, ValueError, KeyError, AttributeError) as ex:
            if name not in pinned:
                raise
            body = pinned[name]
            fell_back.append("%s (%s)" % (name, ex))
        parts.append("-- BEGIN %s\n%s-- END %s\n" % (name, body, name))
    return HEADER + "\n".join(parts) + "\nend Generated.RoundTrip\n", fell_back


def run():
    repo = os.environ.get("VERIF_REPO", "/repo").rstrip("/") or "/repo"
    text, fell_back = generate(repo)
    old = open(OUT).read() if os.path.exists(OUT) else None
    if old != text:
        os.makedirs(os.path.dirname(OUT), exist_ok=True)
        with open(OUT, "w") as f:
            f.write(text)
    ptext = open(PINNED).read() if os.path.exists(PINNED) else None
    return {"extraction": "pinned" if fell_back else "full", "pinned_sections": fell_back, "source": repo,
            "changed_since_last_run": old != text, "differs_from_pinned_copy": ptext is not None and ptext != text,
            "table": os.path.relpath(OUT, ROOT)}


if __name__ == "__main__":
    r = run()
    print(r)
    if len(sys.argv) > 1 and sys.argv[1] == "--pin":
        import shutil
        os.makedirs(os.path.dirname(PINNED), exist_ok=True)
        shutil.copy(OUT, PINNED)
        print("pinned")
