#!/usr/bin/env python3
"""C05: pull norad's ACTUAL vocabulary out of the Rust source and regenerate lean/Norad/Generated/Vocab.lean.

Sections (each falls back to the committed pinned copy `lean/Norad/Generated/Vocab.pinned` when its anchor in the
source is not found — a refactor is never an alarm; the result then says `extraction: pinned`):

  fontinfo   the FontInfo struct: field, plist key (serde rename / rename_all), Rust type; nested record structs; MetaInfo
  files      the file-name statics of font.rs / layer.rs / shared_types.rs
  writer     element and attribute-name string literals of glyph/serialize.rs, per element
  parser     element and attribute-name byte-string literals of glyph/parse.rs, per element
  designspace  serde names of the designspace document structs (attributes `@x`, child elements), list wrappers,
             RuleProcessing spellings (src/designspace.rs)
  misc       layerinfo keys (layer.rs), font-level guideline keys (guideline.rs), point types, smooth spelling

The theorems of Norad/Props/C05.lean (`decide`) are about these tables, i.e. about what the code says NOW.
"""
import os
import re
import sys

ROOT = os.path.dirname(os.path.dirname(os.path.abspath(__file__)))
OUT = os.path.join(ROOT, "lean", "Norad", "Generated", "Vocab.lean")
PINNED = os.path.join(ROOT, "lean", "Norad", "Generated", "Vocab.pinned")


class NotFound(Exception):
    pass


def lstr(s):
    return '"' + s.replace("\\", "\\\\").replace('"', '\\"') + '"'


def llist(xs):
    return "[" + ", ".join(xs) + "]"


def camel(field):
    parts = field.split("_")
    return parts[0] + "".join(p[:1].upper() + p[1:] for p in parts[1:])


def struct_fields(src, name):
    """[(field, key, type)] of `struct <name> { ... }` honouring serde rename / rename_all = "camelCase"."""
    m = re.search(r"((?:\s*#\[[^\]]*\]\s*)*)\s*(?:pub(?:\([a-z]+\))?\s+)?struct\s+" + re.escape(name) + r"\s*\{", src)
    if not m:
        raise NotFound("struct " + name)
    attrs = m.group(1)
    rename_all = re.search(r'rename_all\s*=\s*"(\w+)"', attrs)
    i = m.end()
    depth, j = 1, i
    while depth and j < len(src):
        depth += {"{": 1, "}": -1}.get(src[j], 0)
        j += 1
    body = src[i:j - 1]
    out = []
    pending = None
    for line in body.splitlines():
        t = line.strip()
        if t.startswith("///") or t.startswith("//") or not t:
            continue
        r = re.search(r'#\[serde\([^\]]*rename\s*=\s*"([^"]+)"', t)
        if r:
            pending = r.group(1)
            continue
        if t.startswith("#["):
            continue
        f = re.match(r"(?:pub(?:\([a-z]+\))?\s+)?(\w+)\s*:\s*(.+?),?\s*(?://.*)?$", t)
        if f:
            field, ty = f.group(1), f.group(2).rstrip(",").strip()
            if pending is not None:
                key = pending
            elif rename_all and rename_all.group(1) == "camelCase":
                key = camel(field)
            else:
                key = field
            out.append((field, key, ty))
            pending = None
    return out


class FnMap(dict):
    """first body per name; `.all` keeps every (name, body) in source order (several impls share `to_event`)"""

    def __init__(self):
        super().__init__()
        self.all = []


def fn_bodies(src):
    """{fn name: body text} (top level and impl methods; nested braces balanced)"""
    out = FnMap()
    for m in re.finditer(r"\bfn\s+(\w+)\s*(?:<[^>]*>)?\s*\(", src):
        i = src.find("{", m.end())
        if i < 0:
            continue
        depth, j = 1, i + 1
        while depth and j < len(src):
            depth += {"{": 1, "}": -1}.get(src[j], 0)
            j += 1
        out.setdefault(m.group(1), src[i:j])
        out.all.append((m.group(1), src[i:j]))
    return out


def triples(xs):
    return llist("(%s, %s, %s)" % (lstr(a), lstr(b), lstr(c)) for a, b, c in xs)


def pairs(xs):
    return llist("(%s, %s)" % (lstr(a), lstr(b)) for a, b in xs)


def strs(xs):
    return llist(lstr(x) for x in xs)


def per_elem(d):
    return llist("(%s, %s)" % (lstr(k), strs(v)) for k, v in d)


RECORD_STRUCTS = ["GaspRangeRecord", "NameRecord", "WoffMetadataCopyright", "WoffMetadataCredits", "WoffMetadataCredit",
                  "WoffMetadataDescription", "WoffMetadataTextRecord", "WoffMetadataExtensionRecord",
                  "WoffMetadataExtensionNameRecord", "WoffMetadataExtensionItemRecord",
                  "WoffMetadataExtensionValueRecord", "WoffMetadataLicense", "WoffMetadataLicensee",
                  "WoffMetadataTrademark", "WoffMetadataUniqueId", "WoffMetadataVendor"]


def sec_fontinfo(repo):
    src = open(os.path.join(repo, "src", "fontinfo.rs")).read()
    fields = struct_fields(src, "FontInfo")
    if len(fields) < 50:
        raise NotFound("FontInfo fields")
    recs = [(n, struct_fields(src, n)) for n in RECORD_STRUCTS]
    meta = struct_fields(open(os.path.join(repo, "src", "font.rs")).read(), "MetaInfo")
    if len(meta) < 2:
        raise NotFound("MetaInfo fields")
    return ("def fontinfoFields : List (String × String × String) :=\n  " + triples(fields) + "\n\n"
            "def recordFields : List (String × List (String × String × String)) :=\n  " +
            llist("(%s, %s)" % (lstr(n), triples(f)) for n, f in recs) + "\n\n"
            "def metainfoFields : List (String × String × String) :=\n  " + triples(meta) + "\n")


def sec_files(repo):
    consts = []
    for fn in ("font.rs", "layer.rs", "shared_types.rs"):
        src = open(os.path.join(repo, "src", fn)).read()
        for m in re.finditer(r'^\s*(?:pub(?:\([a-z]+\))?\s+)?(?:static|const)\s+([A-Z_]+)\s*:\s*&(?:\'static\s+)?str\s*=\s*"([^"]*)"\s*;', src, flags=re.M):
            consts.append((m.group(1), m.group(2)))
    names = [c for c, _ in consts]
    for need in ("METAINFO_FILE", "FONTINFO_FILE", "LIB_FILE", "GROUPS_FILE", "KERNING_FILE", "FEATURES_FILE", "DATA_DIR",
                 "IMAGES_DIR", "CONTENTS_FILE", "LAYER_INFO_FILE", "LAYER_CONTENTS_FILE", "DEFAULT_GLYPHS_DIRNAME"):
        if need not in names:
            raise NotFound("static " + need)
    return "def fileConsts : List (String × String) :=\n  " + pairs(consts) + "\n"


def sec_writer(repo):
    src = open(os.path.join(repo, "src", "glyph", "serialize.rs")).read()
    fns = fn_bodies(src)
    if "write_transform_attributes" not in fns:
        raise NotFound("fn write_transform_attributes")
    tbody = fns["write_transform_attributes"]
    tmap = re.findall(r'push_attribute\(\(\s*"(\w+)"\s*,\s*transform\.(\w+)', tbody)
    if len(tmap) != 6:
        raise NotFound("transform attributes of the writer")
    attrs = {}
    order = []
    for name, body in fns.all:
        if name == "write_transform_attributes":
            continue
        # split the body at every element start
        pieces = re.split(r'BytesStart::new\(\s*"(\w+)"\s*\)', body)
        for k in range(1, len(pieces), 2):
            el, seg = pieces[k], pieces[k + 1]
            if el not in attrs:
                attrs[el] = []
                order.append(el)
            for a in re.findall(r'push_attribute\(\(\s*"(\w+)"', seg):
                if a not in attrs[el]:
                    attrs[el].append(a)
            if "write_transform_attributes(" in seg:
                for a, _ in tmap:
                    if a not in attrs[el]:
                        attrs[el].append(a)
    for need in ("glyph", "advance", "unicode", "image", "guideline", "anchor", "contour", "point", "component", "outline", "lib", "note"):
        if need not in attrs:
            raise NotFound("writer element " + need)
    ends = re.findall(r'BytesEnd::new\(\s*"(\w+)"\s*\)', src)
    ptypes = re.findall(r'PointType::(\w+)\s*=>\s*"(\w+)"', fns.get("as_str", ""))
    if len(ptypes) != 5:
        raise NotFound("PointType::as_str")
    smooth = re.findall(r'push_attribute\(\(\s*"smooth"\s*,\s*"(\w+)"\s*\)\)', src)
    fmt = re.findall(r'push_attribute\(\(\s*"format"\s*,\s*"(\w+)"\s*\)\)', src)
    if not smooth or not fmt:
        raise NotFound("smooth / format literals of the writer")
    return ("def writerAttrs : List (String × List String) :=\n  " + per_elem([(e, attrs[e]) for e in order]) + "\n\n"
            "def writerElements : List String :=\n  " + strs(order) + "\n\n"
            "def writerEndElements : List String :=\n  " + strs(sorted(set(ends))) + "\n\n"
            "def writerTransform : List (String × String) :=\n  " + pairs(tmap) + "\n\n"
            "def writerPointTypes : List (String × String) :=\n  " + pairs(ptypes) + "\n\n"
            "def writerSmooth : List String :=\n  " + strs(smooth) + "\n\n"
            "def writerFormat : List String :=\n  " + strs(fmt) + "\n")


PARSE_FNS = [("start", "glyph"), ("parse_advance", "advance"), ("parse_unicode", "unicode"), ("parse_image", "image"),
             ("parse_guideline", "guideline"), ("parse_anchor", "anchor"), ("parse_contour", "contour"),
             ("parse_point", "point"), ("parse_component", "component")]


def sec_parser(repo):
    src = open(os.path.join(repo, "src", "glyph", "parse.rs")).read()
    fns = fn_bodies(src)
    attrs = []
    for fn, el in PARSE_FNS:
        if fn not in fns:
            raise NotFound("fn " + fn)
        body = fns[fn]
        found = []
        # match arms on attribute keys: b"x" =>   b"width" | b"height" =>   b"base" if .. =>
        for m in re.finditer(r'((?:b"\w+"\s*\|\s*)*b"\w+")\s*(?:if\s[^=]*?)?=>', body):
            # element-name comparisons (`name().as_ref() == b"glyph"`) are not arms
            for a in re.findall(r'b"(\w+)"', m.group(1)):
                pre = body[max(0, m.start() - 30):m.start()]
                if "==" in pre.splitlines()[-1] if pre.splitlines() else False:
                    continue
                if a not in found:
                    found.append(a)
        if not found:
            raise NotFound("attribute arms of " + fn)
        attrs.append((el, found))
    elems = []
    for fn in ("parse_body", "parse_outline"):
        if fn not in fns:
            raise NotFound("fn " + fn)
        for a in re.findall(r'b"(\w+)"', fns[fn]):
            if a not in elems:
                elems.append(a)
    for fn in ("parse_contour", "start", "parse_lib", "parse_note"):
        for a in re.findall(r'name\(\)\.as_ref\(\)\s*==\s*b"(\w+)"', fns.get(fn, "")):
            if a not in elems:
                elems.append(a)
    tmap = re.findall(r'b"(\w+)"\s*=>\s*transform\.(\w+)\s*=', fns["parse_component"])
    tmap_i = re.findall(r'b"(\w+)"\s*=>\s*transform\.(\w+)\s*=', fns["parse_image"])
    if len(tmap) != 6 or len(tmap_i) != 6:
        raise NotFound("transform arms of the parser")
    smooth = re.findall(r'b"smooth"\s*=>\s*smooth\s*=\s*value\s*==\s*"(\w+)"', fns["parse_point"])
    if not smooth:
        raise NotFound("smooth comparison of the parser")
    mod = open(os.path.join(repo, "src", "glyph", "mod.rs")).read()
    m = re.search(r"impl\s+std::str::FromStr\s+for\s+PointType\s*\{", mod)
    if not m:
        raise NotFound("FromStr for PointType")
    ptypes = re.findall(r'"(\w+)"\s*=>\s*Ok\(PointType::(\w+)\)', mod[m.end():m.end() + 900])
    if len(ptypes) != 5:
        raise NotFound("PointType::from_str arms")
    return ("def parserAttrs : List (String × List String) :=\n  " + per_elem(attrs) + "\n\n"
            "def parserElements : List String :=\n  " + strs(elems) + "\n\n"
            "def parserTransformComponent : List (String × String) :=\n  " + pairs(tmap) + "\n\n"
            "def parserTransformImage : List (String × String) :=\n  " + pairs(tmap_i) + "\n\n"
            "def parserPointTypes : List (String × String) :=\n  " + pairs([(v, s) for s, v in ptypes]) + "\n\n"
            "def parserSmooth : List String :=\n  " + strs(smooth) + "\n")


def sec_misc(repo):
    layer = open(os.path.join(repo, "src", "layer.rs")).read()
    fns = fn_bodies(layer)
    if "layerinfo_to_file_if_needed" not in fns or "parse_layer_info" not in fns:
        raise NotFound("layerinfo functions")
    wkeys = re.findall(r'dict\.insert\(\s*"(\w+)"\.into\(\)', fns["layerinfo_to_file_if_needed"])
    pkeys = [k for _, k, _ in struct_fields(fns["parse_layer_info"], "LayerInfoHelper")]
    if not wkeys or not pkeys:
        raise NotFound("layerinfo keys")
    guide = open(os.path.join(repo, "src", "guideline.rs")).read()
    gw = re.findall(r'serialize_field\(\s*"(\w+)"', guide)
    gp = [k for _, k, _ in struct_fields(guide, "RawGuideline")]
    if not gw or not gp:
        raise NotFound("guideline keys")
    return ("def layerinfoWriterKeys : List String :=\n  " + strs(wkeys) + "\n\n"
            "def layerinfoParserKeys : List String :=\n  " + strs(pkeys) + "\n\n"
            "def guidelineWriterKeys : List String :=\n  " + strs(gw) + "\n\n"
            "def guidelineParserKeys : List String :=\n  " + strs(gp) + "\n")


DS_STRUCTS = ["DesignSpaceDocument", "Axis", "AxisMapping", "Rules", "Rule", "Substitution", "ConditionSet", "Condition",
              "Source", "Instance", "Dimension"]


def struct_rename(src, name):
    m = re.search(r"((?:\s*#\[[^\]]*\]\s*)*)\s*(?:pub(?:\([a-z]+\))?\s+)?struct\s+" + re.escape(name) + r"\s*\{", src)
    if not m:
        raise NotFound("struct " + name)
    r = re.search(r'#\[serde\([^\]]*?\brename\s*=\s*"([^"]+)"', m.group(1))
    return r.group(1) if r else ""


def sec_designspace(repo):
    """designspace.rs: per struct the serde name of every field (`@x` = XML attribute x, otherwise a child element),
    the list wrappers of `serde_from_field!`, the spellings of `RuleProcessing`"""
    src = open(os.path.join(repo, "src", "designspace.rs")).read()
    rows = []
    for n in DS_STRUCTS:
        fields = struct_fields(src, n)
        if not fields:
            raise NotFound("fields of " + n)
        fr = []
        for field, key, _ in fields:
            is_attr = key.startswith("@")
            fr.append("(%s, %s, %s)" % (lstr(field), lstr(key[1:] if is_attr else key), "true" if is_attr else "false"))
        rows.append("(%s, %s, %s)" % (lstr(n), lstr(struct_rename(src, n)), llist(fr)))
    wrappers = re.findall(r"^\s*serde_from_field!\(\s*(\w+)\s*,\s*(\w+)\s*,", src, flags=re.M)
    if len(wrappers) < 4:
        raise NotFound("serde_from_field! wrappers")
    m = re.search(r"((?:\s*#\[[^\]]*\]\s*)*)\s*pub\s+enum\s+RuleProcessing\s*\{(.*?)\n\}", src, flags=re.S)
    if not m:
        raise NotFound("enum RuleProcessing")
    variants = [v for v in re.findall(r"^\s*([A-Z]\w*)\s*,", m.group(2), flags=re.M)]
    lower = re.search(r'rename_all\s*=\s*"lowercase"', m.group(1)) is not None
    spellings = [v.lower() if lower else v for v in variants]
    if not spellings:
        raise NotFound("RuleProcessing variants")
    return ("def dsFields : List (String × String × List (String × String × Bool)) :=\n  " + llist(rows) + "\n\n"
            "def dsWrappers : List (String × String) :=\n  " + pairs(wrappers) + "\n\n"
            "def dsProcessing : List String :=\n  " + strs(spellings) + "\n")


SECTIONS = [("designspace", sec_designspace), ("fontinfo", sec_fontinfo), ("files", sec_files), ("writer", sec_writer), ("parser", sec_parser), ("misc", sec_misc)]

HEADER = """/-!
GENERATED by tools/extract_vocab.py from norad's Rust source (src/fontinfo.rs, src/font.rs, src/layer.rs,
src/shared_types.rs, src/guideline.rs, src/glyph/serialize.rs, src/glyph/parse.rs, src/glyph/mod.rs) on every
`./check C05` run.  Do not edit.  A pinned copy of every section lives in Vocab.pinned and is used for a section
whose anchor in the source is not found (a refactor is not an alarm).
-/
namespace Generated.Vocab

"""


def split_sections(text):
    out = {}
    for m in re.finditer(r"-- BEGIN (\w+)\n(.*?)-- END \1\n", text, flags=re.S):
        out[m.group(1)] = m.group(2)
    return out


def generate(repo):
    pinned = split_sections(open(PINNED).read()) if os.path.exists(PINNED) else {}
    parts, fell_back = [], []
    for name, f in SECTIONS:
        try:
            body = f(repo)
        except (NotFound, OSError, KeyError, IndexError) as ex:
            if name not in pinned:
                raise
            body = pinned[name]
            fell_back.append("%s (%s)" % (name, ex))
        parts.append("-- BEGIN %s\n%s-- END %s\n" % (name, body, name))
    return HEADER + "\n".join(parts) + "\nend Generated.Vocab\n", fell_back


def run():
    repo = os.environ.get("VERIF_REPO", "/repo").rstrip("/") or "/repo"
    text, fell_back = generate(repo)
    old = open(OUT).read() if os.path.exists(OUT) else None
    if old != text:
        with open(OUT, "w") as f:
            f.write(text)
    return {"extraction": "pinned" if fell_back else "full", "pinned_sections": fell_back, "source": repo,
            "changed_since_last_run": old != text, "table": os.path.relpath(OUT, ROOT)}


if __name__ == "__main__":
    r = run()
    print(r)
    if len(sys.argv) > 1 and sys.argv[1] == "--pin":
        import shutil
        shutil.copy(OUT, PINNED)
        print("pinned")
