#!/usr/bin/env python3
"""C19: source-level tie for "parallel = sequential".  Regenerates lean/Norad/Generated/ParSites.lean from norad's
src/**/*.rs on every `./check C19` run (DESIGN 11.8).

What is read (comments stripped, the source tokenised: words, string literals, every other character by itself):

* every item or statement that carries `#[cfg(feature = "rayon")]` or `#[cfg(not(feature = "rayon"))]`, with its
  file, the innermost enclosing `fn` / `struct` / `impl`, its kind (`let`, `use`, `field`, `struct`, `impl`, ...),
  the name it binds or declares, and its token list;
* neighbouring items of opposite polarity in the same scope (and, outside functions, of the same kind) are a PAIR (a "site"): the token list of the rayon
  variant and of the sequential variant are emitted UN-normalised; the normalisation (`par_iter` -> `iter`,
  `into_par_iter` -> `into_iter`, `.par_bridge()` dropped, `let mut` -> `let`, `ParNameList`/`SeqNameList`,
  `RwLock`/`RefCell`, `.read().unwrap()` -> `.borrow()`, `.write().unwrap()` -> `.borrow_mut()`) is a Lean function
  (`ParSource.norm`) and the comparison a theorem, so that what is erased is part of the statement, not of this script;
* for a pair that binds a name inside a function (`let iter = contents.par_iter()` / `contents.iter()`): the expression
  that is iterated; the SHARED statement that consumes the binding (compiled for both builds); which pieces of shared
  state that statement mentions (a parameter of type `&NameList`, `path_set`, `self.glyphs`, `&mut`, `Mutex`, `RwLock`, `Atomic*`, `.lock(`,
  `static`, `unsafe`); how errors are gathered (`collect::<Result<..>>` = first error in order / some error under
  rayon; `try_for_each`); the collection the results are gathered into (type annotation, turbofish, or the declared
  type of the struct field of that name) and whether the function sorts it afterwards;
* items that exist under one polarity only (`use rayon::prelude::*`, `impl Default for ParNameList`), with tokens;
* every occurrence of a rayon API word (`rayon`, `par_iter`, `into_par_iter`, `par_iter_mut`, `par_bridge`,
  `par_extend`, `par_sort*`, `par_chunks*`, `par_drain`) with file and function.

Sections `layerLoad` (pairs in `fn load_impl` of layer.rs), `layerSave` (`fn save_with_options`), `nameTable` (pairs in
names.rs), `inventory` (pairs anywhere else, one-sided items, API words).  A section whose anchor is not found (function
or file gone, no pair inside) uses its pinned copy in tools/pinned/ParSites.lean and the
result says `extraction: pinned`; when an anchor section of layer.rs is pinned the inventory is pinned too (a refactor is
never an alarm).  The two iteration sites and the inventory are STRICT (whatever is found is emitted).  The representation
pairs of names.rs are SOFT: a pair whose shape is not one of the recognised ones (for `get`: the plain form, and the
double-checked form that looks the name up again under the write lock) falls back to the pinned section, unless it carries
content words (`static`, `OnceLock`, `HashMap`, `u64`, `Hasher`, ...: a table that outlives its `NameList` or is not keyed by
the name) — those are emitted and fail.  The translator is trusted in one direction only: a wrong extraction can make a `source_*` theorem of
Norad/Props/C19.lean fail or fall back, it cannot make a false one check.
"""
import os
import re
import sys

ROOT = os.path.dirname(os.path.dirname(os.path.abspath(__file__)))
OUT = os.path.join(ROOT, "lean", "Norad", "Generated", "ParSites.lean")
PINNED = os.path.join(ROOT, "tools", "pinned", "ParSites.lean")

API_WORDS = re.compile(r"^(rayon|par_iter|into_par_iter|par_iter_mut|par_bridge|par_extend|par_sort\w*|par_chunks\w*|par_drain)$")
CFG = re.compile(r'#\s*\[\s*cfg\s*\(\s*(not\s*\(\s*)?feature\s*=\s*"rayon"\s*\)?\s*\)\s*\]')
TOKEN = re.compile(r'"(?:\\.|[^"\\])*"|\w+|\S')


class NotFound(Exception):
    pass


def strip_comments(src):
    out, i, n = [], 0, len(src)
    while i < n:
        c = src[i]
        if c == '"':
            j = i + 1
            while j < n and src[j] != '"':
                j += 2 if src[j] == "\\" else 1
            out.append(src[i:j + 1]); i = j + 1
        elif src.startswith("//", i):
            j = src.find("\n", i)
            j = n if j < 0 else j
            out.append(" " * (j - i)); i = j
        elif src.startswith("/*", i):
            j = src.find("*/", i + 2)
            j = n if j < 0 else j + 2
            out.append(re.sub(r"[^\n]", " ", src[i:j])); i = j
        else:
            out.append(c); i += 1
    return "".join(out)


def toks(text):
    return TOKEN.findall(text)


def scopes(src):
    """(start, end, kind, name) of every fn / struct / impl block"""
    out = []
    for m in re.finditer(r"\b(fn|struct|impl)\b([^;{}]*)\{", src):
        i = m.end() - 1
        depth, j = 1, i + 1
        while depth and j < len(src):
            ch = src[j]
            if ch == '"':
                j += 1
                while j < len(src) and src[j] != '"':
                    j += 2 if src[j] == "\\" else 1
            depth += {"{": 1, "}": -1}.get(ch, 0)
            j += 1
        head = m.group(2).strip()
        if m.group(1) == "impl":
            name = " ".join(toks("impl " + head))
        else:
            mm = re.match(r"(\w+)", head)
            name = mm.group(1) if mm else ""
        out.append((m.start(), j, m.group(1), name, i))
    return out


def scope_of(sc, pos):
    best = None
    for s in sc:
        if s[4] < pos < s[1] and (best is None or s[1] - s[0] < best[1] - best[0]):
            best = s
    return best


def item_extent(src, start, limit):
    """end of the item or statement that starts at `start`: `;` (or `,` for a field) at depth 0, the `}` closing a
    block item, or the point where the enclosing block closes"""
    m = re.compile(r"\s*").match(src, start)
    start = m.end()
    # further attributes belong to the item
    first = re.compile(r"(?:#\s*\[[^\]]*\]\s*)*(?:pub(?:\([^)]*\))?\s+)?(\w+)").match(src, start)
    head = first.group(1) if first else ""
    after = src[first.end():first.end() + 2].lstrip() if first else ""
    if head in ("let", "use", "static", "const", "type"):
        kind = head
    elif head in ("impl", "fn", "struct", "enum", "mod", "trait"):
        kind = head
    elif after.startswith(":") and not after.startswith("::"):
        kind = "field"
    else:
        kind = "stmt"
    depth, j, seen_brace = 0, start, False
    while j < limit:
        ch = src[j]
        if ch == '"':
            j += 1
            while j < limit and src[j] != '"':
                j += 2 if src[j] == "\\" else 1
        elif ch in "([{":
            depth += 1
            seen_brace = seen_brace or ch == "{"
        elif ch in ")]}":
            if depth == 0:
                return start, j, kind          # the enclosing block closes: tail expression / last field
            depth -= 1
            if depth == 0 and ch == "}" and kind in ("impl", "fn", "enum", "mod", "trait", "struct") and seen_brace:
                return start, j + 1, kind
        elif ch == ";" and depth == 0:
            return start, j + 1, kind
        elif ch == "," and depth == 0 and kind == "field":
            return start, j + 1, kind
        j += 1
    return start, limit, kind


def item_name(kind, tk):
    if kind == "let":
        t = [x for x in tk[1:4] if x != "mut"]
        return t[0] if t else ""
    if kind == "use":
        t = [x for x in tk if re.match(r"^\w+$", x)]
        return t[-1] if t else "*"
    if kind in ("struct", "fn", "enum", "mod", "trait", "static", "const", "type"):
        t = [x for x in tk[1:] if re.match(r"^\w+$", x) and x not in ("pub", "crate", "mut")]
        return t[0] if t else ""
    if kind == "impl":
        return " ".join(tk[:tk.index("{")]) if "{" in tk else " ".join(tk[:6])
    if kind == "field":
        t = [x for x in tk if x != "pub"]
        return t[0] if t else ""
    return tk[0] if tk else ""


def cfg_items(fname, src):
    sc = scopes(src)
    items = []
    for m in CFG.finditer(src):
        s = scope_of(sc, m.start())
        limit = s[1] - 1 if s else len(src)
        start, end, kind = item_extent(src, m.end(), limit)
        tk = toks(src[start:end])
        # a cfg attribute directly followed by another cfg attribute of the same item is not expected; skip empties
        if not tk:
            continue
        items.append({"file": fname, "polarity": "seq" if m.group(1) else "par", "kind": kind,
                      "scope": s[3] if s else "", "scope_kind": s[2] if s else "", "scope_ext": (s[4], s[1]) if s else (0, len(src)),
                      "name": item_name(kind, tk), "tokens": tk, "start": start, "end": end})
    return items


def pair_up(items):
    pairs, single, i = [], [], 0
    while i < len(items):
        a = items[i]
        b = items[i + 1] if i + 1 < len(items) else None
        if b and a["polarity"] != b["polarity"] and a["scope"] == b["scope"] and (a["kind"] == b["kind"] or a["scope_kind"] == "fn"):
            par, seq = (a, b) if a["polarity"] == "par" else (b, a)
            pairs.append((par, seq))
            i += 2
        else:
            single.append(a)
            i += 1
    return pairs, single


WATCH = [("path_set", ["path_set"]), ("self.glyphs", ["self", ".", "glyphs"]),
         ("self.contents", ["self", ".", "contents"]), ("&mut", ["&", "mut"]), ("Mutex", ["Mutex"]),
         ("RwLock", ["RwLock"]), (".lock(", [".", "lock", "("]), ("static", ["static"]), ("unsafe", ["unsafe"])]


def contains_seq(tk, pat):
    n = len(pat)
    return any(tk[i:i + n] == pat for i in range(len(tk) - n + 1))


def touches(tk):
    out = [label for label, pat in WATCH if contains_seq(tk, pat)]
    if any(t.startswith("Atomic") for t in tk):
        out.append("Atomic")
    return sorted(out)


ORDERED_HEADS = ("BTreeMap", "BTreeSet", "Vec", "HashMap", "HashSet", "IndexMap", "LinkedList", "VecDeque")


def type_head(tk):
    for t in tk:
        if t in ORDERED_HEADS:
            return t
    return None


def site_details(src, par, seq):
    """for a `let` pair inside a function: iterated expression, consumer statement, touches, error form, collection"""
    d = {"iterated": "", "consumer": [], "touches": [], "errorForm": "", "gathered": "", "sortedAfter": False}
    if par["kind"] != "let" or par["scope_kind"] != "fn":
        return d
    tk = par["tokens"]
    if "=" in tk:
        rhs = tk[tk.index("=") + 1:]
        cut = next((i for i, t in enumerate(rhs) if API_WORDS.match(t) and t != "rayon"), None)
        if cut is not None and cut >= 1 and rhs[cut - 1] == ".":
            d["iterated"] = " ".join(rhs[:cut - 1])
    if not d["iterated"]:
        return d        # not an iterator binding: the pair is compared by its two bodies only
    name = par["name"]
    pos, limit = max(par["end"], seq["end"]), par["scope_ext"][1] - 1
    consumer, cname, cend = None, "", pos
    if any(w in tk for w in ("collect", "try_for_each", "for_each")):
        # the pair itself holds the whole pipeline (no shared consumer statement): analyse the rayon variant
        consumer, cname, cend, pos = tk, name, pos, limit
    while pos < limit:
        s, e, k = item_extent(src, pos, limit)
        if e <= s:
            break
        t = toks(src[s:e])
        if name in t:       # (a consumer that is itself under a cfg attribute keeps the attribute's tokens)
            consumer, cname, cend = t, (item_name("let", t) if k == "let" else ""), e
            break
        pos = e
    if consumer is None:
        d["errorForm"], d["gathered"] = "unknown", "unknown"
        return d
    d["consumer"] = consumer
    d["touches"] = touches(consumer)
    # the shared name table is recognised by TYPE: a parameter `x: &NameList` of the enclosing function
    head = src[:par["scope_ext"][0]]
    head = head[head.rfind("fn " + par["scope"]):] if ("fn " + par["scope"]) in head else ""
    for m in re.finditer(r"(\w+)\s*:\s*&\s*(?:'\w+\s+)?(?:mut\s+)?NameList\b", head):
        if m.group(1) in consumer:
            d["touches"] = sorted(set(d["touches"] + ["NameList"]))
    if "try_for_each" in consumer:
        d["errorForm"], d["gathered"] = "try_for_each", "none"
    elif "for_each" in consumer:
        d["errorForm"], d["gathered"] = "for_each", "none"
    else:
        d["errorForm"] = "collect_result" if contains_seq(consumer, ["collect", ":", ":", "<", "Result"]) else (
            "collect" if "collect" in consumer else "other")
        head = None
        if cname and len(consumer) > 2 and consumer[2] == ":" or (cname and consumer[1] == "mut" and consumer[3] == ":"):
            head = type_head(consumer[:consumer.index("=")])
        if head is None and "collect" in consumer:
            i = consumer.index("collect")
            j = i
            depth = 0
            while j < len(consumer):           # the turbofish, if any
                if consumer[j] == "<":
                    depth += 1
                elif consumer[j] == ">":
                    depth -= 1
                    if depth == 0:
                        break
                elif consumer[j] == "(" and depth == 0:
                    break
                j += 1
            head = type_head(consumer[i:j])
        if head is None and cname:
            m = re.search(r"\b" + re.escape(cname) + r"\s*:\s*([\w:]+)\s*<", src)
            if m:
                head = m.group(1).split("::")[-1]
        # an iteration site is STRICT: what cannot be resolved is reported as such (and fails the order theorem), never pinned
        d["gathered"] = head or "unknown"
        rest = toks(src[cend:par["scope_ext"][1]])
        d["sortedAfter"] = bool(cname) and any(
            rest[i] == cname and rest[i + 1] == "." and rest[i + 2].startswith("sort") for i in range(len(rest) - 2))
    return d


def robust_details(src, a, b):
    """a pair is reported whatever its shape: an unknown shape at an iteration site must FAIL the tie, not pin it (a rewritten
    parallel body is what the tie is for); only a missing anchor (file / function gone, no pair inside) falls back"""
    try:
        return site_details(src, a, b)
    except (NotFound, IndexError, ValueError):
        rhs = a["tokens"]
        it = ""
        if "=" in rhs:
            r = rhs[rhs.index("=") + 1:]
            cut = next((i for i, t in enumerate(r) if API_WORDS.match(t) and t != "rayon"), None)
            if cut is not None and cut >= 1:
                it = " ".join(r[:cut - 1])
        return {"iterated": it, "consumer": [], "touches": [], "errorForm": "unknown", "gathered": "unknown",
                "sortedAfter": False}


# ---------------------------------------------------------------- name table: recognised shapes (fallback decision only)
# Mirrors ParSource.norm / ParSource.shape of lean/Norad/Spec/ParSource.lean.  It decides ONLY whether the section is emitted or
# falls back to its pinned copy; the theorems are proved by Lean on what is emitted, so a drift between the two copies can
# cause a needless fallback or a failing theorem, never a false theorem.

REWRITES = [([".", "read", "(", ")", ".", "unwrap", "(", ")"], [".", "borrow", "(", ")"]),
            ([".", "write", "(", ")", ".", "unwrap", "(", ")"], [".", "borrow_mut", "(", ")"]),
            (["std", ":", ":", "sync", ":", ":", "RwLock"], ["std", ":", ":", "cell", ":", ":", "Cell"]),
            (["std", ":", ":", "cell", ":", ":", "RefCell"], ["std", ":", ":", "cell", ":", ":", "Cell"]),
            ([".", "par_bridge", "(", ")"], []),
            (["let", "mut"], ["let"])]
TOK1 = {"par_iter": "iter", "into_par_iter": "into_iter", "par_iter_mut": "iter_mut", "ParNameList": "NameListImpl",
        "SeqNameList": "NameListImpl", "RwLock": "Cell", "RefCell": "Cell"}
TABLE_WORDS = ["borrow", "borrow_mut", "get", "contains", "cloned", "clone", "match", "Some", "None", "insert", "replace",
               "get_or_insert_with", "get_or_insert", "entry", "or_insert", "or_insert_with", "remove", "take", "retain", "clear",
               "iter", "next", "find", "first", "last", "static", "OnceLock", "hash", "Hasher", "unwrap_or", "if", "else", "return"]
SHAPE_PLAIN = ["get", "borrow", "get", "cloned", "match", "Some", "None", "borrow_mut", "insert", "clone", "clone",
               "contains", "borrow", "contains"]
SHAPE_RECHECK = ["get", "borrow", "get", "cloned", "match", "Some", "None", "borrow_mut", "match", "get", "Some", "clone", "None",
                 "insert", "clone", "clone", "contains", "borrow", "contains"]
# words that are CONTENT, not shape: a table that outlives its NameList, or that is keyed by something else than the name
CONTENT_WORDS = {"static", "OnceLock", "LazyLock", "Lazy", "lazy_static", "thread_local", "HashMap", "BTreeMap", "u64", "u32",
                 "Hasher", "DefaultHasher", "BuildHasher", "hash", "unsafe"}
EXPECTED_DEFAULT_IMPL = ["impl", "Default", "for", "ParNameList", "{", "fn", "default", "(", ")", "-", ">", "Self", "{",
                         "ParNameList", "(", "RwLock", ":", ":", "new", "(", "HashSet", ":", ":", "new", "(", ")", ")", ")", "}", "}"]


def py_norm(tk):
    out, i = [], 0
    while i < len(tk):
        for pat, rep in REWRITES:
            if tk[i:i + len(pat)] == pat:
                out += rep
                i += len(pat)
                break
        else:
            out.append(TOK1.get(tk[i], tk[i]))
            i += 1
    return out


def py_shape(tk):
    return [t for t in py_norm(tk) if t in TABLE_WORDS]


def has_content_words(tk):
    return any(t in CONTENT_WORDS or t.startswith("Atomic") for t in tk)


def table_pair_recognised(par, seq):
    if par["kind"] == "impl":
        return py_shape(par["tokens"]) in (SHAPE_PLAIN, SHAPE_RECHECK) and py_shape(seq["tokens"]) == SHAPE_PLAIN
    return py_norm(par["tokens"]) == py_norm(seq["tokens"])


# ---------------------------------------------------------------- Lean output

def lstr(s):
    return '"' + s.replace("\\", "\\\\").replace('"', '\\"') + '"'


def llist(xs):
    return "[" + ", ".join(lstr(x) for x in xs) + "]"


def lean_site(par, seq, d):
    return ("  { file := %s, scope := %s, kind := %s, name := %s,\n    par := %s,\n    seq := %s,\n"
            "    iterated := %s,\n    consumer := %s,\n    touches := %s, errorForm := %s, gathered := %s, sortedAfter := %s }"
            % (lstr(par["file"]), lstr(par["scope"]), lstr(par["kind"]), lstr(par["name"]), llist(par["tokens"]),
               llist(seq["tokens"]), lstr(d["iterated"]), llist(d["consumer"]), llist(d["touches"]),
               lstr(d["errorForm"]), lstr(d["gathered"]), "true" if d["sortedAfter"] else "false"))


def lean_sites(name, doc, sites):
    body = ",\n".join(lean_site(*s) for s in sites)
    return "/-- %s -/\ndef %s : List Site :=\n  [\n%s\n  ]\n" % (doc, name, body) if sites else \
        "/-- %s -/\ndef %s : List Site := []\n" % (doc, name)


HEADER = """/-!
GENERATED by tools/extract_par_sites.py from norad's src/**/*.rs on every `./check C19` run.  Do not edit.
A pinned copy of every section lives in tools/pinned/ParSites.lean and is used for a section whose anchor in the source is
not found (a refactor is not an alarm).  Core Lean only.  Token lists are NOT normalised here: see `ParSource.norm`.
-/
namespace Generated.ParSites

/-- a pair of neighbouring items, one under `cfg(feature = "rayon")`, one under `cfg(not(feature = "rayon"))` -/
structure Site where
  file : String
  /-- innermost enclosing fn / struct / impl -/
  scope : String
  kind : String
  name : String
  /-- tokens of the rayon variant / of the sequential variant -/
  par : List String
  seq : List String
  /-- `let x = E.par_iter()`: E -/
  iterated : String
  /-- the shared statement (compiled for both builds) that consumes the binding -/
  consumer : List String
  /-- shared state that statement mentions -/
  touches : List String
  errorForm : String
  /-- head of the collection type the results are gathered into (`none`: nothing is gathered) -/
  gathered : String
  sortedAfter : Bool
deriving DecidableEq, Repr

"""


def split_sections(text):
    return {m.group(1): m.group(2) for m in re.finditer(r"-- BEGIN (\w+)\n(.*?)-- END \1\n", text, flags=re.S)}


def read_all(repo):
    files = {}
    base = os.path.join(repo, "src")
    for dp, _, fns in os.walk(base):
        for fn in sorted(fns):
            if fn.endswith(".rs"):
                p = os.path.join(dp, fn)
                files[os.path.relpath(p, base)] = strip_comments(open(p).read())
    if not files:
        raise NotFound("no source files under " + base)
    return files


def generate(repo):
    pinned = split_sections(open(PINNED).read()) if os.path.exists(PINNED) else {}
    parts, fell_back = {}, []
    try:
        files = read_all(repo)
        err = None
    except (OSError, NotFound) as ex:
        files, err = {}, ex
    pairs, singles, calls = [], [], []
    for fname in sorted(files):
        src = files[fname]
        try:
            items = cfg_items(fname, src)
        except Exception as ex:   # an unexpected shape is a refactor, not an alarm
            err = ex
            items = []
        p, s = pair_up(items)
        pairs += [(a, b, src) for a, b in p]
        singles += s
        sc = scopes(src)
        for m in re.finditer(r'"(?:\\.|[^"\\])*"|\w+', src):
            if API_WORDS.match(m.group(0)):
                s_ = [x for x in sc if x[2] == "fn" and x[4] < m.start() < x[1]]
                fn = min(s_, key=lambda x: x[1] - x[0])[3] if s_ else ""
                calls.append((fname, fn, m.group(0)))

    def section(name, f):
        try:
            if err is not None:
                raise NotFound(str(err))
            parts[name] = f()
        except (NotFound, IndexError, ValueError, KeyError) as ex:
            if name not in pinned:
                raise
            parts[name] = pinned[name]
            fell_back.append("%s (%s)" % (name, ex))

    def anchored(fname, scope, lean_name, doc):
        def f():
            if fname not in files:
                raise NotFound("file " + fname)
            if scope and not re.search(r"\bfn\s+" + scope + r"\b", files[fname]):
                raise NotFound("fn " + scope)
            mine = [(a, b, src) for a, b, src in pairs if a["file"] == fname and (not scope or a["scope"] == scope)]
            if not mine:
                raise NotFound("no rayon / not-rayon pair in %s %s" % (fname, scope))
            if fname == "names.rs":
                # representation pairs: an UNRECOGNISED SHAPE (a refactor, a harmless rewrite of one twin) falls back to the
                # pinned section; a pair that carries content words (static table, hashed keys ...) is emitted and fails
                odd = [a for a, b, _ in mine if not table_pair_recognised(a, b)]
                if odd and not any(has_content_words(a["tokens"] + b["tokens"]) for a, b, _ in mine):
                    raise NotFound("unrecognised shape of the %s pair `%s` in names.rs" % (odd[0]["kind"], odd[0]["name"]))
            return lean_sites(lean_name, doc, [(a, b, robust_details(src, a, b)) for a, b, src in mine])
        return f

    section("layerLoad", anchored("layer.rs", "load_impl", "layerLoad",
                                  "the pairs inside `Layer::load_impl` (layer.rs)"))
    section("layerSave", anchored("layer.rs", "save_with_options", "layerSave",
                                  "the pairs inside `Layer::save_with_options` (layer.rs)"))
    layer_anchor_pinned = list(fell_back)
    section("nameTable", anchored("names.rs", "", "nameTable", "the pairs of names.rs"))

    def inventory():
        if layer_anchor_pinned:
            raise NotFound("an anchor section of layer.rs is pinned")
        # one-sided items of names.rs follow the policy of the name table: unrecognised shape without content words -> the
        # known constructor is assumed (reported as a fallback); anything with content words is emitted as it is
        mine = [x for x in singles if x["file"] == "names.rs"]
        if [x["tokens"] for x in mine] != [EXPECTED_DEFAULT_IMPL] and not any(has_content_words(x["tokens"]) for x in mine):
            for x in mine:
                singles.remove(x)
            singles.append({"file": "names.rs", "scope": "", "polarity": "par", "tokens": EXPECTED_DEFAULT_IMPL})
            singles.sort(key=lambda x: x["file"])
            fell_back.append("inventory: one-sided items of names.rs (unrecognised shape)")
        known = lambda a: (a["file"] == "layer.rs" and a["scope"] in ("load_impl", "save_with_options")) or a["file"] == "names.rs"
        others = [(a, b, robust_details(src, a, b)) for a, b, src in pairs if not known(a)]
        out = lean_sites("otherSites", "pairs anywhere else in src/", others)
        out += ("\n/-- items that exist under one polarity only: (file, scope, polarity, tokens) -/\n"
                "def oneSided : List (String × String × String × List String) :=\n  [" +
                ",\n   ".join("(%s, %s, %s, %s)" % (lstr(s["file"]), lstr(s["scope"]), lstr(s["polarity"]), llist(s["tokens"]))
                              for s in singles) + "]\n")
        out += ("\n/-- every occurrence of a rayon API word: (file, function, word) -/\n"
                "def apiWords : List (String × String × String) :=\n  [" +
                ", ".join("(%s, %s, %s)" % (lstr(a), lstr(b), lstr(c)) for a, b, c in calls) + "]\n")
        return out

    section("inventory", inventory)
    order = ["layerLoad", "layerSave", "nameTable", "inventory"]
    text = HEADER + "\n".join("-- BEGIN %s\n%s-- END %s\n" % (n, parts[n], n) for n in order) + "\nend Generated.ParSites\n"
    return text, fell_back


def run():
    repo = os.environ.get("VERIF_REPO", "/repo").rstrip("/") or "/repo"
    text, fell_back = generate(repo)
    old = open(OUT).read() if os.path.exists(OUT) else None
    if old != text:
        os.makedirs(os.path.dirname(OUT), exist_ok=True)
        with open(OUT, "w") as f:
            f.write(text)
    ptext = open(PINNED).read() if os.path.exists(PINNED) else None
    return {"extraction": "pinned" if fell_back else "full", "pinned_sections": fell_back, "source": repo,
            "changed_since_last_run": old != text, "differs_from_pinned_copy": ptext is not None and ptext != text,
            "table": os.path.relpath(OUT, ROOT)}


if __name__ == "__main__":
    r = run()
    print(r)
    if len(sys.argv) > 1 and sys.argv[1] == "--pin":
        import shutil
        os.makedirs(os.path.dirname(PINNED), exist_ok=True)
        shutil.copy(OUT, PINNED)
        print("pinned")
