#!/usr/bin/env python3
"""usage: tools/seedmeta.py <batch log> -- copies /tmp/seed/Cxx/out/k into seeded/Cxx-k and writes meta.json from the
README (what the change is / needs) and from the batch log (which rules reported it)."""
import json, os, re, shutil, sys
ROOT = os.path.dirname(os.path.dirname(os.path.abspath(__file__)))
log = open(sys.argv[1]).read()
notes = {}
if len(sys.argv) > 2:
    notes = json.load(open(sys.argv[2]))
for blk in log.split("===== ")[1:]:
    head = blk.split("\n")[0]
    m = re.match(r"(C\d+) seed (r[23456]-)?(\d) \((\S+)\)", head)
    if not m:
        continue
    pid, r2, k, demo = m.group(1), m.group(2) or "", m.group(3), m.group(4)
    src = f"/tmp/seed{r2[1]}/{pid}/out/{k}" if r2 else f"/tmp/seed/{pid}/out/{k}"
    benign = (r2 in ("r3-", "r4-", "r5-", "r6-") and k == "3")
    if not os.path.isdir(src):
        continue
    dst = os.path.join(ROOT, "seeded", f"{pid}-{r2}{k}")
    os.makedirs(dst, exist_ok=True)
    for fn in ("patch.diff", "demo.rs", "README.md"):
        if os.path.exists(os.path.join(src, fn)):
            shutil.copy(os.path.join(src, fn), os.path.join(dst, fn))
    rules = []
    for rp in re.findall(r"replay=(\S+)", blk):
        if os.path.exists(rp):
            h = open(rp).readline()
            mm = re.search(r"rule '([^']+)'", h)
            if mm:
                rules.append(mm.group(1))
            elif "no longer shown" in h:
                rules.append("correspondence (no-failing-input-found)")
    readme = open(os.path.join(src, "README.md")).read()
    paras = [p.strip() for p in re.split(r"\n\s*\n", readme) if p.strip() and not p.strip().startswith("#")]
    change = re.sub(r"\s+", " ", paras[0])[:600] if paras else ""
    needs = ""
    for p in paras:
        if re.search(r"\bneeds\b|manifest|only (shows|manifests)", p, flags=re.I):
            needs = re.sub(r"\s+", " ", p)[:600]
            break
    demo_fails = "FAILED" in blk
    caught = bool(rules)
    key = f"{pid}-{r2}{k}"
    meta = {
        "property": pid,
        "change": change,
        "needs_to_manifest": needs,
        "origin": "fresh sub-agent given only the property text and a scratch worktree of /repo" +
                  (" (second round: asked for blind spots of an unseen checker - unusual input classes, file-system states, rare entry points, order effects)" if r2 == "r2-" else "") +
                  (" (third round: told the checker is hardened; asked for longer histories, format-version interplay, state after errors, item counts, cargo features, third-party data, trait impls; k=3 is a BENIGN change that must not be reported)" if r2 == "r3-" else "") +
                  (" (sixth round: asked for two cooperating sites, multi-step histories, faults / errors at a particular point and state after a failed operation, data-dependent fast paths, interactions of two features; k=3 is a BENIGN change that must not be reported)" if r2 == "r6-" else "") +
                  (" (fourth round: told the checker was hardened in three rounds; asked for the glue - option structs, trait impls that must agree, caching/laziness/interning, early exits, iterator adaptor slips, numeric casts, path handling, error mapping; k=3 is a BENIGN change that must not be reported)" if r2 == "r4-" else ""),
        "confirmed": f"tools/seedtest.sh seeded/{key} {demo} {pid}: demo passes without and fails with the change"
                     f" ({'confirmed' if demo_fails else 'NOT confirmed'}); cargo test --offline green with the change",
        "detected_by": (f"./check {pid} --tier quick (VERIF_REPO=<scratch worktree>): VIOLATION with concrete replay; " + ", ".join(sorted(set(rules))))
                       if caught else "ESCAPED the version of the check it was first run against",
        "demo_placement": f"tests/{demo}.rs; cargo test --offline --test {demo}",
    }
    if benign:
        meta["benign"] = True
        meta["confirmed"] = f"tools/seedtest.sh seeded/{key} {demo} {pid}: demo passes with and without the change; cargo test --offline green with the change"
        if not re.search(r"VIOLATION", blk):
            meta["detected_by"] = "benign change: the check stays quiet (exit 0), as it must"
        elif "no-failing-input-found" in blk:
            meta["detected_by"] = "benign change: the check reported VIOLATION ... no-failing-input-found (a proof obligation or the correspondence broke, no failing input exists)"
        else:
            meta["detected_by"] = "benign change: the check reported a concrete VIOLATION - FALSE ALARM"
    if key in notes:
        meta["detected_by"] = notes[key]
    json.dump(meta, open(os.path.join(dst, "meta.json"), "w"), indent=1)
    print(key, "caught" if caught else "ESCAPED", sorted(set(rules))[:4])
