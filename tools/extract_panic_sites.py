#!/usr/bin/env python3
"""Inventory of panic-capable sites of norad's non-test source (C03).

Reads every src/**/*.rs of the tree under check, removes comments, string / char literals, `#[cfg(test)]` items and
`#[test]` functions, and lists every place where the code itself can panic:

  unwrap   `.unwrap()`                      expect   `.expect(`
  panic    `panic!(`                        unreach  `unreachable!(` / `unimplemented!(` / `todo!(`
  assert   `assert!(` / `assert_eq!(` / `assert_ne!(`   (NOT `debug_assert*`: absent from release builds; the debug build
                                                          of the C03 harness samples those)
  newraw   a call of a crate-internal panicking constructor `…::new_raw(`
  slice    an index expression holding a range: `x[a..b]`, `x[..n]`, `x[n..]` (panics when out of range or off a char boundary)
  index    `x[i]` on a plain identifier / field path with a non-literal-range index (Vec / slice / map indexing)

One row per (file, enclosing fn, kind) with the NUMBER of such sites: line numbers and the surrounding text are not part of
the table, so moving or reformatting code changes nothing, while one more `unwrap` in a function does.

Writes lean/Norad/Generated/PanicSites.lean.  `Props/C03Sites.lean` classifies every row (documented panic, proved
unreachable in a model, infallible by construction, recorded finding) and proves that every extracted row is classified with
exactly the count the classification was written for.  A change that adds a panic-capable site therefore breaks
`source_panic_sites_all_classified` — a new proof obligation, which is what C03 demands of new `unwrap`s.

Unknown shape (no src directory, a file that cannot be tokenised): pinned section.
"""
import os, re, sys

REPO = os.environ.get("VERIF_REPO", "/repo")
ROOT = os.path.dirname(os.path.dirname(os.path.abspath(__file__)))
OUT = os.path.join(ROOT, "lean", "Norad", "Generated", "PanicSites.lean")
PINNED = os.path.join(ROOT, "tools", "pinned", "PanicSites.lean")


def strip(src):
    """comments and literals -> blanks (newlines kept), so that offsets and brace structure survive"""
    out = []
    i, n = 0, len(src)
    depth_block = 0
    while i < n:
        c = src[i]
        two = src[i:i + 2]
        if depth_block:
            if two == "/*":
                depth_block += 1; out.append("  "); i += 2
            elif two == "*/":
                depth_block -= 1; out.append("  "); i += 2
            else:
                out.append("\n" if c == "\n" else " "); i += 1
            continue
        if two == "//":
            j = src.find("\n", i)
            j = n if j < 0 else j
            out.append(" " * (j - i)); i = j; continue
        if two == "/*":
            depth_block = 1; out.append("  "); i += 2; continue
        # raw strings r"..", r#".."#, br".."
        m = re.match(r'b?r(#*)"', src[i:])
        if m and (i == 0 or not (src[i - 1].isalnum() or src[i - 1] == "_")):
            hashes = m.group(1)
            end = src.find('"' + hashes, i + len(m.group(0)))
            if end < 0:
                raise ValueError("unterminated raw string")
            end += 1 + len(hashes)
            out.append('"' + "".join("\n" if ch == "\n" else " " for ch in src[i + 1:end - 1]) + '"'); i = end; continue
        if c == '"' or (two == 'b"'):
            j = i + (2 if two == 'b"' else 1)
            while j < n and src[j] != '"':
                j += 2 if src[j] == "\\" else 1
            if j >= n:
                raise ValueError("unterminated string")
            seg = src[i:j + 1]
            out.append('"' + "".join("\n" if ch == "\n" else " " for ch in seg[1:-1]) + '"'); i = j + 1; continue
        if c == "'":
            # char literal or lifetime
            m = re.match(r"'(\\.[^']*|[^'\\])'", src[i:])
            if m:
                out.append("'" + " " * (len(m.group(0)) - 2) + "'"); i += len(m.group(0)); continue
        out.append(c); i += 1
    return "".join(out)


def match_brace(s, i):
    """s[i] == '{' -> index just after the matching '}'"""
    d = 0
    for j in range(i, len(s)):
        if s[j] == "{":
            d += 1
        elif s[j] == "}":
            d -= 1
            if d == 0:
                return j + 1
    raise ValueError("unbalanced braces")


def blank_tests(s):
    """blank `#[cfg(test)]` items (mod with body, fn, impl, use, `mod x;`) and `#[test]` fns"""
    s = list(s)
    text = "".join(s)
    for m in re.finditer(r"#\[\s*(cfg\s*\(\s*test\s*\)|test)\s*\]", text):
        j = m.end()
        # the item ends at the first ';' or at the matching '}' of the first '{', whichever starts first
        k = j
        while k < len(text) and text[k] not in "{;":
            k += 1
        if k >= len(text):
            continue
        end = k + 1 if text[k] == ";" else match_brace(text, k)
        for t in range(m.start(), end):
            if s[t] != "\n":
                s[t] = " "
    return "".join(s)


FN = re.compile(r"\bfn\s+([A-Za-z_][A-Za-z0-9_]*)")
KINDS = [
    ("unwrap", re.compile(r"\.\s*unwrap\s*\(\s*\)")),
    ("expect", re.compile(r"\.\s*expect\s*\(")),
    ("panic", re.compile(r"(?<![A-Za-z0-9_])panic!\s*[\(\[{]")),
    ("unreach", re.compile(r"(?<![A-Za-z0-9_])(unreachable|unimplemented|todo)!\s*[\(\[{]")),
    ("assert", re.compile(r"(?<![A-Za-z0-9_])(assert|assert_eq|assert_ne)!\s*[\(\[{]")),
    # crate-internal constructors that panic on an invalid argument (`Name::new_raw`, `Identifier::new_raw`): every CALL is a site
    ("newraw", re.compile(r"::\s*new_raw\s*\(")),
]
INDEX = re.compile(r"(?<![A-Za-z0-9_'$])((?:self\.)?[a-z_][A-Za-z0-9_]*(?:\.[a-z_][A-Za-z0-9_]*|\(\))*)\[([^\[\]]*)\]")
KEYWORDS = {"if", "in", "return", "match", "else", "mut", "ref", "for", "while", "let", "as", "vec", "matches", "cfg", "derive"}


def fn_spans(s):
    """(name, start, end) of every fn with a body, innermost last"""
    spans = []
    for m in FN.finditer(s):
        k = m.end()
        depth = 0
        while k < len(s):
            ch = s[k]
            if ch in "(<[":
                depth += 1
            elif ch in ")>]":
                # `->` is not a closing bracket
                if not (ch == ">" and s[k - 1] == "-"):
                    depth -= 1
            elif ch == "{" and depth <= 0:
                break
            elif ch == ";" and depth <= 0:
                k = -1
                break
            k += 1
        if k < 0 or k >= len(s):
            continue
        spans.append((m.group(1), m.start(), match_brace(s, k)))
    return spans


def enclosing(spans, pos):
    best = None
    for name, a, b in spans:
        if a <= pos < b and (best is None or a >= best[1]):
            best = (name, a, b)
    return best[0] if best else "-"


def sites_of(path, rel):
    s = blank_tests(strip(open(path, encoding="utf-8").read()))
    spans = fn_spans(s)
    rows = {}
    def add(kind, pos):
        key = (rel, enclosing(spans, pos), kind)
        rows[key] = rows.get(key, 0) + 1
    for kind, rx in KINDS:
        for m in rx.finditer(s):
            add(kind, m.start())
    for m in INDEX.finditer(s):
        inner = m.group(2).strip()
        # attribute syntax `#[...]` and array types/literals are not matched (an identifier must precede the bracket);
        # skip generic array repeat `[0; N]`
        head = m.group(1)
        if head in KEYWORDS or ";" in inner or inner == "":
            continue
        before = s[max(0, m.start() - 2):m.start()]
        if before.endswith("#") or before.endswith("#!"):
            continue
        add("slice" if ".." in inner else "index", m.start())
    return rows


def extract():
    src = os.path.join(REPO, "src")
    rows = {}
    files = []
    for d, _, fs in os.walk(src):
        for f in fs:
            if f.endswith(".rs"):
                files.append(os.path.join(d, f))
    if not files:
        raise ValueError("no sources")
    # a file that is ONLY reachable through `#[cfg(test)] mod x;` is a test file
    test_mods = set()
    for p in files:
        t = strip(open(p, encoding="utf-8").read())
        for m in re.finditer(r"#\[\s*cfg\s*\(\s*test\s*\)\s*\]\s*(?:pub\s+)?mod\s+([a-z_0-9]+)\s*;", t):
            base = os.path.dirname(p) if os.path.basename(p) in ("mod.rs", "lib.rs") else os.path.splitext(p)[0]
            test_mods.add(os.path.join(base, m.group(1) + ".rs"))
            test_mods.add(os.path.join(base, m.group(1), "mod.rs"))
    for p in sorted(files):
        if p in test_mods:
            continue
        rel = os.path.relpath(p, src)
        rows.update(sites_of(p, rel))
    return sorted((k[0], k[1], k[2], v) for k, v in rows.items())


CLASSIFIED = os.path.join(ROOT, "lean", "Norad", "Props", "C03Sites.lean")


def classified_keys():
    """the (file, fn, kind) keys the hand-written classification of Props/C03Sites.lean knows"""
    t = open(CLASSIFIED, encoding="utf-8").read()
    return set(re.findall(r'⟨"([^"]*)", "([^"]*)", "([^"]*)", \d+,', t))


def render(rows, how):
    """Policy of every extractor here: UNKNOWN SHAPE => no obligation, KNOWN SHAPE WITH DIFFERENT CONTENT => the theorem
    fails.  A (file, fn, kind) the classification has never seen (a new helper function, a site of a new kind) is an
    unknown shape: it is listed under `unreviewed` (evidence; the sampling streams are what covers it) and is not part of
    `sites`.  A classified key with MORE sites than classified is known shape, different content."""
    known = classified_keys()
    unrev = [r for r in rows if (r[0], r[1], r[2]) not in known]
    rows = [r for r in rows if (r[0], r[1], r[2]) in known]
    return _render(rows, unrev, how)


def _render(rows, unrev, how):
    L = ["-- GENERATED by tools/extract_panic_sites.py from the Rust source of the tree under check; do not edit.",
         f"-- extraction: {how}",
         "namespace Norad.Generated.PanicSites",
         "",
         "/-- (file, enclosing fn, kind, number of sites) -/",
         "def sites : List (String × String × String × Nat) := ["]
    L += [f'  ("{f}", "{fn}", "{k}", {n}),' for f, fn, k, n in rows]
    if rows:
        L[-1] = L[-1].rstrip(",")
    L += ["]", "", "/-- panic-capable sites under a (file, fn, kind) the classification does not know: NOT an obligation -/",
          "def unreviewed : List (String × String × String × Nat) := ["]
    L += [f'  ("{f}", "{fn}", "{k}", {n}),' for f, fn, k, n in unrev]
    if unrev:
        L[-1] = L[-1].rstrip(",")
    L += ["]", "", f'def extraction : String := "{how}"', "", "end Norad.Generated.PanicSites", ""]
    return "\n".join(L)


def generate():
    try:
        rows = extract()
        text = render(rows, "full")
        return text, [], len(rows)
    except Exception as e:  # unknown shape (a file that cannot be tokenised): pinned
        text = open(PINNED).read().replace("-- extraction: full", "-- extraction: pinned").replace(
            'def extraction : String := "full"', 'def extraction : String := "pinned"')
        return text, [f"sites ({e!r})"], None


def run():
    global REPO
    REPO = os.environ.get("VERIF_REPO", "/repo").rstrip("/") or "/repo"
    text, fell, n = generate()
    old = open(OUT).read() if os.path.exists(OUT) else None
    if old != text:
        os.makedirs(os.path.dirname(OUT), exist_ok=True)
        open(OUT, "w").write(text)
    ptext = open(PINNED).read() if os.path.exists(PINNED) else None
    unrev = re.findall(r'\("[^"]*", "[^"]*", "[^"]*", \d+\)', text.split("def unreviewed")[1].split("def extraction")[0]) if "def unreviewed" in text else []
    return {"extraction": "pinned" if fell else "full", "pinned_sections": fell, "source": REPO, "rows": n,
            "unreviewed_new_sites": unrev,
            "changed_since_last_run": old != text, "differs_from_pinned_copy": ptext is not None and ptext != text,
            "table": os.path.relpath(OUT, ROOT)}


if __name__ == "__main__":
    if "--print" in sys.argv:
        sys.stdout.write(generate()[0])
    else:
        print(run())
        if "--pin" in sys.argv:
            import shutil
            shutil.copy(OUT, PINNED)
            print("pinned")
